#!/usr/bin/env python3
"""Regenerate MANIFEST.json from tools/claims.json (per-property texts) + properties.jsonl."""
import json, os
V = os.path.dirname(os.path.dirname(os.path.abspath(__file__)))
props = [json.loads(l)['id'] for l in open(os.path.join(V, 'properties.jsonl'))]
claims = json.load(open(os.path.join(V, 'tools', 'claims.json')))
hooks = json.load(open(os.path.join(V, 'tools', 'hooks.json')))
checks, na = [], []
for p in props:
    c = claims.get(p)
    if c and not c.get('not_applicable'):
        checks.append({
            'property_id': p,
            'quick_cmd': './check %s --tier quick' % p,
            'thorough_cmd': './check %s --tier thorough' % p,
            'evidence_file': '/verif/evidence/%s.json' % p,
            'replay_cmd_template': './check %s --replay {path}' % p,
            'engine': 'coq-proof+correspondence',
            'level_claimed': {'category': 'proof', 'text': c['text'], 'design_ref': c.get('design_ref', 'DESIGN.md section 6 (%s)' % p)},
            'level_note': c['note'],
            'technique': c.get('technique', 'machine-checked proof in Coq 8.16.1 about an executable Gallina model, tied to /repo by regenerated data and a vm_compute correspondence check'),
        })
    else:
        na.append({'property_id': p, 'reason': (c or {}).get('reason', 'check not yet built in this session (work in progress; see DESIGN.md section 10)')})
m = {'version': 1, 'setup_cmd': './setup.sh', 'hooks': hooks,
     'engines': [{'name': 'coq-proof+correspondence', 'path': '/verif/check', 'serves_properties': [c['property_id'] for c in checks],
                  'kind_free_text': 'Coq 8.16.1 theorems over Gallina models (coq/theories), translators regenerating model data from /repo (translators/), correspondence by Eval vm_compute on generated cases, property-oracle runs on the implementation (harness/)'}],
     'checks': checks, 'notes': 'Machine-checked proof in Coq 8.16.1; see DESIGN.md.', 'not_applicable': na}
json.dump(m, open(os.path.join(V, 'MANIFEST.json'), 'w'), indent=1)
print(len(checks), 'checks,', len(na), 'not claimed')
