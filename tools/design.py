#!/usr/bin/env python3
"""Regenerates the data-driven parts of /verif/DESIGN.md (between the BEGIN/END GENERATED markers): the
per-property table of theorems, the defects list and the seeded-change table, from tools/claims.json, the
Properties/*.v files, known_findings.json and seeded/*/."""
import glob
import json
import os
import re

VERIF = os.path.dirname(os.path.dirname(os.path.abspath(__file__)))


def theorems(pid):
    path = os.path.join(VERIF, 'coq/theories/Properties/%s.v' % pid)
    txt = open(path).read()
    return re.findall(r'^Theorem\s+(\w+)', txt, flags=re.M)


def conf_label(conf):
    if conf.get('confirmed'):
        return 'yes'
    if not conf:
        return '?'
    if not conf.get('applies'):
        return 'no longer applies (the code it changes was repaired since)'
    if (conf.get('demo_patched') or '').startswith('PROPERTY HOLDS'):
        return 'no longer a violation (the repaired code compensates)'
    return 'the test suite catches it'


def seeds():
    rows = []
    for d in sorted(glob.glob(os.path.join(VERIF, 'seeded', '*'))):
        sid = os.path.basename(d)
        meta = {}
        try:
            meta = json.load(open(os.path.join(d, 'meta.json')))
        except Exception:
            pass
        conf = json.load(open(os.path.join(d, 'confirm.json'))) if os.path.exists(os.path.join(d, 'confirm.json')) else {}
        res = json.load(open(os.path.join(d, 'result_quick.json'))) if os.path.exists(os.path.join(d, 'result_quick.json')) else {}
        first = json.load(open(os.path.join(d, 'first_result.json'))) if os.path.exists(os.path.join(d, 'first_result.json')) else None
        rows.append((sid, meta.get('summary', '')[:230].replace('|', '/').replace('\n', ' '), ', '.join(os.path.basename(f) for f in meta.get('files', []))[:60],
                     conf_label(conf), 'caught' if res.get('detected') else ('n/a' if conf and not conf.get('confirmed') else 'MISSED') if res else 'not run',
                     (res.get('last_line') or '')[:10], first))
    return rows


def main():
    claims = json.load(open(os.path.join(VERIF, 'tools/claims.json')))
    kf = json.load(open(os.path.join(VERIF, 'known_findings.json')))
    out = []
    out.append('### Theorems per property (names as in `coq/theories/Properties/Cxx.v`)\n')
    for pid in sorted(claims):
        out.append('* **%s** — %s' % (pid, ', '.join('`%s`' % t for t in theorems(pid))))
    out.append('\n### Known findings (genuine defects recorded, not repaired)\n')
    for f in kf['findings']:
        out.append('* **%s** `%s` — %s *Replay:* `%s`' % (f['property'], f['signature'], f['what'], f['history'].replace('\n', '\\n')))
    out.append('\n### Genuine defects repaired (`fix:` commits in /repo)\n')
    for f in kf['fixed']:
        out.append('* ' + f)
    out.append('\n### Seeded changes (made by sub-agents that saw only the property text)\n')
    out.append('| seed | change | confirmed (applies, suite unchanged, demo flips) | quick check |')
    out.append('|---|---|---|---|')
    for sid, summ, files, conf, res, _, first in seeds():
        note = ''
        if first is not None and not first.get('detected'):
            note = ' (missed by the first version of the check; strengthened)'
        out.append('| %s | %s (%s) | %s | %s%s |' % (sid, summ, files, conf, res, note))
    rows = seeds()
    n = len(rows)
    conf = sum(1 for r in rows if r[3] == 'yes')
    valid_caught = sum(1 for r in rows if r[3] == 'yes' and r[4] == 'caught')
    missed_first = sum(1 for r in rows if r[6] is not None and not r[6].get('detected'))
    caught = sum(1 for r in rows if r[4] == 'caught')
    out.append('')
    out.append('Summary: %d seeded changes, %d confirmed against the current tree (the others are caught by the existing test suite on the current tree or no longer apply); '
               '%d were missed by the quick check as it stood when the seed was made; after strengthening %d of the %d confirmed ones are caught by the quick check of their property.' % (n, conf, missed_first, valid_caught, conf))
    text = '\n'.join(out) + '\n'
    p = os.path.join(VERIF, 'DESIGN.md')
    s = open(p).read()
    a, b = s.index('<!-- BEGIN GENERATED -->'), s.index('<!-- END GENERATED -->')
    s = s[:a] + '<!-- BEGIN GENERATED -->\n' + text + s[b:]
    open(p, 'w').write(s)
    print('DESIGN.md: generated section updated (%d lines)' % len(out))


if __name__ == '__main__':
    main()
