#!/usr/bin/env python3
"""Seeded breaking changes (produced by independent sub-agents that saw only the property text).
  seeds.py collect            copy /tmp/seed_<prop>/SEED_<s>/ into /verif/seeded/<prop>_<s>/ and remove the worktree
  seeds.py confirm <id>...    in a scratch worktree: patch applies, test suite result unchanged, demo HOLDS / VIOLATED
  seeds.py run <id>... [--tier quick]   apply to /repo, run ./check <prop>, undo; record in seeded/<id>/result.json
Nothing here is registered in MANIFEST.json; the seeds are never committed to /repo."""
import json
import os
import re
import shutil
import subprocess
import sys
import time

VERIF = os.path.dirname(os.path.dirname(os.path.abspath(__file__)))
SEEDED = os.path.join(VERIF, 'seeded')
REPO = '/repo'


def sh(cmd, **kw):
    return subprocess.run(cmd, shell=isinstance(cmd, str), capture_output=True, text=True, **kw)


def collect():
    os.makedirs(SEEDED, exist_ok=True)
    for d in sorted(os.listdir('/tmp')):
        m = re.fullmatch(r'seed([234]?)_(C\d\d)', d)
        if not m:
            continue
        round2, m = m.group(1), re.fullmatch(r'seed[234]?_(C\d\d)', d)
        only = [a for a in sys.argv[2:] if re.fullmatch(r'C\d\d', a)]
        if only and m.group(1) not in only:
            continue
        wt = os.path.join('/tmp', d)
        found = False
        for s in sorted(os.listdir(wt)):
            ms = re.fullmatch(r'SEED_(\w+)', s)
            if not ms or not os.path.exists(os.path.join(wt, s, 'patch.diff')):
                continue
            found = True
            suffix = {'2': {'a': 'c', 'b': 'd'}, '3': {'a': 'e', 'b': 'f'}, '4': {'a': 'g', 'b': 'h'}}[round2].get(ms.group(1), ms.group(1) + round2) if round2 else ms.group(1)     # second round: c, d; third: e, f; fourth: g, h
            dst = os.path.join(SEEDED, '%s_%s' % (m.group(1), suffix))
            if os.path.exists(dst):
                continue
            shutil.copytree(os.path.join(wt, s), dst, ignore=shutil.ignore_patterns('__pycache__', '.cache'))
            print('collected', dst)
        if found and '--remove-worktrees' in sys.argv:      # only when the agent that owns the worktree has finished
            sh(['git', '-C', REPO, 'worktree', 'remove', '--force', wt])
            shutil.rmtree('/tmp/%s_work' % d, ignore_errors=True)


def demo_cmd(sd, root):
    for name in ('demo.py', 'demo.sh'):
        p = os.path.join(sd, name)
        if os.path.exists(p):
            return (['/venv/bin/python', p, root] if name.endswith('.py') else ['bash', p, root])
    return None


def confirm(ids):
    for sid in ids:
        sd = os.path.join(SEEDED, sid)
        wt = '/tmp/seedchk_%s' % sid
        sh(['git', '-C', REPO, 'worktree', 'remove', '--force', wt])
        r = sh(['git', '-C', REPO, 'worktree', 'add', '--detach', wt, 'HEAD'])
        assert r.returncode == 0, r.stderr
        res = {'id': sid}
        try:
            work = '/var/tmp/seedwork_%s' % sid
            os.makedirs(work, exist_ok=True)
            env = dict(os.environ, PYTHONPATH=wt, PYTHONHASHSEED='0')
            cmd = demo_cmd(sd, wt)
            d0 = sh(cmd, cwd=work, env=env, timeout=1200) if cmd else None
            res['demo_clean'] = (d0.stdout.strip().split('\n')[-1][:300] if d0 else None)
            a = sh(['git', '-C', wt, 'apply', os.path.join(sd, 'patch.diff')])
            res['applies'] = a.returncode == 0
            if a.returncode == 0:
                t = sh('cd %s && /venv/bin/python -m pytest -q -p no:cacheprovider --timeout=900 --continue-on-collection-errors 2>&1 | tail -1' % wt)
                res['tests'] = t.stdout.strip()
                d1 = sh(cmd, cwd=work, env=env, timeout=1200) if cmd else None
                res['demo_patched'] = (d1.stdout.strip().split('\n')[-1][:300] if d1 else None)
            res['confirmed'] = bool(res.get('applies') and '334 passed' in res.get('tests', '') and '4 failed' in res.get('tests', '') and (res['demo_clean'] or '').startswith('PROPERTY HOLDS')
                                    and (res.get('demo_patched') or '').startswith('PROPERTY VIOLATED'))
            shutil.rmtree(work, ignore_errors=True)
        finally:
            sh(['git', '-C', REPO, 'worktree', 'remove', '--force', wt])
        json.dump(res, open(os.path.join(sd, 'confirm.json'), 'w'), indent=1)
        print(json.dumps(res))


def run(ids, tier):
    for sid in ids:
        sd = os.path.join(SEEDED, sid)
        prop = sid.split('_')[0]
        st = sh(['git', '-C', REPO, 'status', '--porcelain'])
        assert not st.stdout.strip(), '/repo is not clean: ' + st.stdout
        a = sh(['git', '-C', REPO, 'apply', os.path.join(sd, 'patch.diff')])
        if a.returncode != 0:
            print(sid, 'patch does not apply:', a.stderr[:200])
            continue
        t0 = time.time()
        try:
            r = sh('cd %s && timeout 3000 ./check %s --tier %s 2>&1 | grep -v "^KNOWN-FINDING" | (grep "^VIOLATION" ; echo ---) ; true' % (VERIF, prop, tier))
            r2 = sh('cd %s && tail -1 evidence/%s.json > /dev/null; echo done' % (VERIF, prop))
        finally:
            sh(['git', '-C', REPO, 'checkout', '--', '.'])
        lines = [l for l in r.stdout.strip().split('\n') if l != '---'] or ['(no violation line)']
        viol = [l[:400] for l in lines if l.startswith('VIOLATION')]
        res = {'id': sid, 'tier': tier, 'detected': bool(viol), 'violation_lines': viol[:5], 'last_line': lines[-1][:300], 'wall_s': round(time.time() - t0, 1)}
        key = 'result_%s.json' % tier
        json.dump(res, open(os.path.join(sd, key), 'w'), indent=1)
        print(json.dumps(res))
        # the evidence file of the property was rewritten by the run on the patched tree: restore it
        sh(['git', '-C', VERIF, 'checkout', '--', 'evidence/%s.json' % prop])


if __name__ == '__main__':
    cmd = sys.argv[1]
    args = [a for a in sys.argv[2:] if not a.startswith('--')]
    tier = 'thorough' if '--tier=thorough' in sys.argv else 'quick'
    if cmd == 'collect':
        collect()
    elif cmd == 'confirm':
        confirm(args or sorted(os.listdir(SEEDED)))
    elif cmd == 'run':
        run(args or sorted(os.listdir(SEEDED)), tier)
