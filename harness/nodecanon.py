"""Canonical structure of a program, computed (a) from CPython's ast and (b) from tranp's typed node tree
(Entrypoint obtained from Entrypoints.load for in-memory source), for C02. Both sides give nested tuples /
lists compared with ==. The node side only uses the public properties of the node classes - the ones the
transpiler's handlers consume - so a property that selects the wrong child shows up as a difference.
Also: the classification facts Python semantics dictates (function kinds, parameter kinds, declaration vs
reference), derived from the ast context on one side and from the node classes on the other."""
import ast

BINOP = {ast.Add: '+', ast.Sub: '-', ast.Mult: '*', ast.Div: '/', ast.Mod: '%', ast.BitOr: '|', ast.BitXor: '^', ast.BitAnd: '&',
         ast.LShift: '<<', ast.RShift: '>>', ast.FloorDiv: '//', ast.Pow: '**', ast.MatMult: '@'}
CMPOP = {ast.Lt: '<', ast.Gt: '>', ast.Eq: '==', ast.LtE: '<=', ast.GtE: '>=', ast.NotEq: '!=', ast.In: 'in', ast.NotIn: 'not in', ast.Is: 'is', ast.IsNot: 'is not'}


def num(text):
    t = text.replace('_', '')
    try:
        return float(int(t, 0))
    except ValueError:
        return float(t)


def lit_str(text):
    try:
        v = ast.literal_eval(text)
        return v if isinstance(v, str) else text
    except Exception:
        return text


# ---------------------------------------------------------------------------------------------------
# CPython side

def pe(n):
    if n is None:
        return None
    if isinstance(n, ast.Name):
        return ('name', n.id)
    if isinstance(n, ast.Constant):
        if n.value is Ellipsis:
            return ('ellipsis',)
        if isinstance(n.value, bool) or n.value is None:
            return ('const', n.value)
        if isinstance(n.value, (int, float)):
            return ('num', type(n.value).__name__, float(n.value))      # the kind of the literal is part of the tree: 1e3 is a float
        if isinstance(n.value, str):
            return ('str', n.value)
        return ('const', repr(n.value))
    if isinstance(n, ast.BinOp):
        return ('bin', BINOP[type(n.op)], pe(n.left), pe(n.right))
    if isinstance(n, ast.UnaryOp):
        if isinstance(n.op, ast.Not):
            return ('not', pe(n.operand))
        return ('unary', {ast.USub: '-', ast.UAdd: '+', ast.Invert: '~'}[type(n.op)], pe(n.operand))
    if isinstance(n, ast.BoolOp):
        return ('and' if isinstance(n.op, ast.And) else 'or', [pe(v) for v in n.values])
    if isinstance(n, ast.Compare):
        return ('cmp', pe(n.left), [(CMPOP[type(o)], pe(c)) for o, c in zip(n.ops, n.comparators)])
    if isinstance(n, ast.IfExp):
        return ('ifexp', pe(n.test), pe(n.body), pe(n.orelse))
    if isinstance(n, ast.Lambda):
        return ('lambda', [a.arg for a in n.args.args], pe(n.body))
    if isinstance(n, ast.Attribute):
        return ('attr', pe(n.value), n.attr)
    if isinstance(n, ast.Call):
        return ('call', pe(n.func), pargs(n))
    if isinstance(n, ast.Subscript):
        s = n.slice
        if isinstance(s, ast.Slice):
            return ('index', pe(n.value), ('slice', [pe(s.lower), pe(s.upper), pe(s.step)]))
        if isinstance(s, ast.Tuple):
            return ('index', pe(n.value), ('at', [pe(e) for e in s.elts]))
        return ('index', pe(n.value), ('at', [pe(s)]))
    if isinstance(n, ast.List):
        return ('list', [pe(e) for e in n.elts])
    if isinstance(n, ast.Tuple):
        return ('tuple', [pe(e) for e in n.elts])
    if isinstance(n, ast.Dict):
        return ('dict', [('**', pe(v)) if k is None else ('kv', pe(k), pe(v)) for k, v in zip(n.keys, n.values)])
    if isinstance(n, ast.ListComp):
        return ('listcomp', pe(n.elt), [pgen(g) for g in n.generators])
    if isinstance(n, ast.DictComp):
        return ('dictcomp', pe(n.key), pe(n.value), [pgen(g) for g in n.generators])
    if isinstance(n, ast.Starred):
        return ('star', pe(n.value))
    return ('?' + type(n).__name__,)


def pargs(n):
    """arguments of a call in source order (ast keeps starred arguments with the positional ones)"""
    args = []
    for a in n.args:
        args.append(((a.lineno, a.col_offset), ('*', pe(a.value)) if isinstance(a, ast.Starred) else ('pos', pe(a))))
    for k in n.keywords:
        args.append(((k.lineno, k.col_offset), ('**', pe(k.value)) if k.arg is None else ('kw', k.arg, pe(k.value))))
    return [a for _, a in sorted(args, key=lambda x: x[0])]


def pgen(g):
    return (pnames(g.target), pe(g.iter), [pe(c) for c in g.ifs])


def pnames(t):
    if isinstance(t, ast.Tuple):
        return [e.id if isinstance(e, ast.Name) else pe(e) for e in t.elts]
    if isinstance(t, ast.Name):
        return [t.id]
    return pe(t)


def pt(n):
    """annotation -> type canon"""
    if n is None:
        return None
    if isinstance(n, ast.Constant) and isinstance(n.value, str):
        return pt(ast.parse(n.value, mode='eval').body)
    if isinstance(n, ast.Constant) and n.value is None:
        return ('tnone',)
    if isinstance(n, ast.Constant) and n.value is Ellipsis:
        return ('tellipsis',)
    if isinstance(n, ast.Name):
        return ('tname', n.id)
    if isinstance(n, ast.Attribute):
        return ('tattr', pt(n.value), n.attr)
    if isinstance(n, ast.BinOp) and isinstance(n.op, ast.BitOr):
        l, r = pt(n.left), pt(n.right)
        return ('tunion', (l[1] if l[0] == 'tunion' else [l]) + [r])
    if isinstance(n, ast.Subscript):
        s = n.slice
        return ('tgeneric', pt(n.value), [pt(e) for e in s.elts] if isinstance(s, ast.Tuple) else [pt(s)])
    if isinstance(n, ast.List):
        return ('tlist', [pt(e) for e in n.elts])
    return ('?t' + type(n).__name__,)


def pparams(a):
    nd = len(a.args) - len(a.defaults)
    out = [('', p.arg, pt(p.annotation), None if i < nd else pe(a.defaults[i - nd])) for i, p in enumerate(a.args)]
    if a.vararg:
        out.append(('*', a.vararg.arg, pt(a.vararg.annotation), None))
    if a.kwarg:
        out.append(('**', a.kwarg.arg, pt(a.kwarg.annotation), None))
    return out


def pdeco(d):
    if isinstance(d, ast.Call):
        return (dotted(d.func), pargs(d))
    return (dotted(d), [])


def dotted(n):
    if isinstance(n, ast.Name):
        return n.id
    if isinstance(n, ast.Attribute):
        return dotted(n.value) + '.' + n.attr
    return '?'


def ps(n):
    if isinstance(n, ast.Expr):
        if isinstance(n.value, ast.Yield):
            return ('yield', pe(n.value.value))
        return ('expr', pe(n.value))
    if isinstance(n, ast.Pass):
        return ('pass',)
    if isinstance(n, ast.Assign):
        return ('assign', [[pe(e) for e in t.elts] if isinstance(t, ast.Tuple) else [pe(t)] for t in n.targets], pe(n.value))
    if isinstance(n, ast.AnnAssign):
        return ('annassign', pe(n.target), pt(n.annotation), pe(n.value))
    if isinstance(n, ast.AugAssign):
        return ('augassign', BINOP[type(n.op)], pe(n.target), pe(n.value))
    if isinstance(n, ast.Return):
        return ('return', pe(n.value))
    if isinstance(n, ast.Raise):
        return ('raise', pe(n.exc), pe(n.cause))
    if isinstance(n, ast.Break):
        return ('break',)
    if isinstance(n, ast.Continue):
        return ('continue',)
    if isinstance(n, ast.If):
        branches = [(pe(n.test), pb(n.body))]
        rest = n.orelse
        while len(rest) == 1 and isinstance(rest[0], ast.If) and rest[0].col_offset == n.col_offset:
            branches.append((pe(rest[0].test), pb(rest[0].body)))
            rest = rest[0].orelse
        return ('if', branches, pb(rest) if rest else None)
    if isinstance(n, ast.For):
        return ('for', pnames(n.target), pe(n.iter), pb(n.body))
    if isinstance(n, ast.While):
        return ('while', pe(n.test), pb(n.body))
    if isinstance(n, ast.FunctionDef):
        return ('def', n.name, pparams(n.args), pt(n.returns), [pdeco(d) for d in n.decorator_list], pb(n.body))
    if isinstance(n, ast.ClassDef):
        # tranp's Class.inherits leaves out Generic[...] on purpose (it carries no inheritance): dropped on both sides
        bases = [pt(b) for b in n.bases]
        return ('class', n.name, [b for b in bases if not is_generic(b)], [pdeco(d) for d in n.decorator_list], pb(n.body))
    if isinstance(n, ast.Try):
        return ('try', pb(n.body), [(pt(h.type), h.name, pb(h.body)) for h in n.handlers])
    if isinstance(n, ast.With):
        return ('with', [(pe(i.context_expr), None if i.optional_vars is None else i.optional_vars.id) for i in n.items], pb(n.body))
    if isinstance(n, ast.ImportFrom):
        return ('from', n.module, [a.asname or a.name for a in n.names])
    if isinstance(n, ast.Assert):
        return ('assert', pe(n.test), pe(n.msg))
    if isinstance(n, ast.Delete):
        return ('del', [pe(t) for t in n.targets])
    return ('?' + type(n).__name__,)


def is_generic(t):
    return t == ('tname', 'Generic') or (t[0] == 'tgeneric' and t[1] == ('tname', 'Generic'))


def pb(body):
    out = [ps(s) for s in body]
    # a leading string expression statement of a def / class body is its docstring: tranp keeps it as `comment`
    return out


def canon_python(src):
    return pb(ast.parse(src).body)


# ---------------------------------------------------------------------------------------------------
# tranp node side

def cname(n):
    return type(n).__name__


def is_empty(n):
    return cname(n) in ('Empty',) or (cname(n) == 'Proxy' and n.tokens == '') or n.tokens == '' and cname(n) not in ('NullType',) and not n.prop_keys() and cname(n) in ('Proxy', 'Empty')


def opt(n, f):
    return None if is_empty(n) else f(n)


def chain_ops(n):
    els = n.elements
    return els[0], [(els[i].tokens.replace('.', ' '), els[i + 1]) for i in range(1, len(els), 2)]


def ne(n):
    c = cname(n)
    if c in ('Var', 'ThisRef', 'ClassRef', 'DeclLocalVar', 'DeclParam', 'DeclThisParam', 'DeclClassParam', 'DeclClassVar', 'DeclThisVarForward', 'ArgumentLabel', 'TypesName', 'AltTypesName', 'ImportAsName'):
        return dotted_to_expr(n.tokens)
    if c == 'DeclThisVar':
        return dotted_to_expr(n.tokens)
    if c in ('Integer', 'Float'):
        return ('num', 'int' if c == 'Integer' else 'float', num(n.tokens))
    if c in ('String', 'DocString'):
        return ('str', lit_str(n.tokens))
    if c == 'Truthy':
        return ('const', True)
    if c == 'Falsy':
        return ('const', False)
    if c == 'Null':
        return ('const', None)
    if c == 'Elipsis':
        return ('ellipsis',)
    if c in ('Sum', 'Term', 'ShiftBitwise', 'AndBitwise', 'XorBitwise', 'OrBitwise'):
        first, rest = chain_ops(n)
        acc = ne(first)
        for op, r in rest:
            acc = ('bin', op, acc, ne(r))
        return acc
    if c in ('OrCompare', 'AndCompare'):
        first, rest = chain_ops(n)
        ops = set(op for op, _ in rest)
        assert ops == {'or' if c == 'OrCompare' else 'and'}, ops
        return ('or' if c == 'OrCompare' else 'and', [ne(first)] + [ne(r) for _, r in rest])
    if c == 'Comparison':
        first, rest = chain_ops(n)
        return ('cmp', ne(first), [(op, ne(r)) for op, r in rest])
    if c == 'NotCompare':
        assert n.operator.tokens == 'not'
        return ('not', ne(n.value))
    if c == 'Factor':
        return ('unary', n.operator.tokens, ne(n.value))
    if c == 'TernaryOperator':
        return ('ifexp', ne(n.condition), ne(n.primary), ne(n.secondary))
    if c == 'Group':
        return ne(n.expression)
    if c == 'Lambda':
        return ('lambda', [s.tokens for s in n.symbols], ne(n.expression))
    if c == 'Relay':
        return ('attr', ne(n.receiver), n.prop.tokens)
    if c in ('FuncCall', 'Super'):
        args = []
        for a in n.arguments:
            u = a.unpacking
            if u:
                args.append((u, ne(a.value)))
            elif is_empty(a.label):
                args.append(('pos', ne(a.value)))
            else:
                args.append(('kw', a.label.tokens, ne(a.value)))
        return ('call', ne(n.calls), args)
    if c == 'Indexer':
        if n.sliced:
            keys = [opt(k, ne) for k in n.keys]
            while len(keys) < 3:
                keys.append(None)
            return ('index', ne(n.receiver), ('slice', keys))
        keys = [ne(k) for k in n.keys]
        if len(keys) == 1 and keys[0][0] == 'tuple' and keys[0][1]:
            keys = keys[0][1]        # x[(a, b)] and x[a, b] are the same subscript for CPython
        return ('index', ne(n.receiver), ('at', keys))
    if c == 'List':
        return ('list', [ne(v) for v in n.values])
    if c == 'Tuple':
        return ('tuple', [ne(v) for v in n.values])
    if c == 'Dict':
        return ('dict', [('kv', ne(i.first), ne(i.second)) if cname(i) == 'Pair' else ('**', ne(i)) for i in n.items])
    if c == 'ListComp':
        return ('listcomp', ne(n.projection), ngens(n))
    if c == 'DictComp':
        return ('dictcomp', ne(n.projection.first), ne(n.projection.second), ngens(n))
    if c == 'Spread':
        return ('star', ne(n.expression))
    return ('?' + c,)


def ngens(n):
    fors = n.fors
    out = []
    for i, f in enumerate(fors):
        conds = [ne(n.condition)] if i == len(fors) - 1 and not is_empty(n.condition) else []
        out.append(([s.tokens for s in f.symbols], ne(f.for_in.iterates), conds))
    return out


def dotted_to_expr(tokens):
    parts = tokens.split('.')
    acc = ('name', parts[0])
    for p in parts[1:]:
        acc = ('attr', acc, p)
    return acc


def nt(n):
    c = cname(n)
    if is_empty(n) and c != 'NullType':
        return None
    if c == 'NullType':
        return ('tnone',)
    if c in ('VarOfType', 'LiteralType'):
        return ('tname', n.tokens) if n.tokens != '...' else ('tellipsis',)
    if c == 'RelayOfType':
        return ('tattr', nt(n.receiver), n.prop.tokens)
    if c == 'UnionType':
        return ('tunion', [nt(t) for t in n.or_types])
    if c in ('CustomType', 'ListType', 'DictType', 'CallableType', 'LiteralDictType'):
        return ('tgeneric', nt(n.type_name), [nt(t) for t in n.sub_types]) if c != 'CallableType' else ('tgeneric', nt(n.type_name), [('tlist', [nt(p) for p in n.parameters]), nt(n.return_type)])
    if c == 'Elipsis':
        return ('tellipsis',)
    if c == 'TypeParameters':
        return ('tlist', [nt(t) for t in n.type_params])
    return ('?t' + c,)


def nparams(ps_):
    return [(p.packing, p.symbol.tokens, nt(p.var_type), opt(p.default_value, ne)) for p in ps_]


def ndeco(d):
    args = ne_args(d.arguments)
    return (d.path.tokens, args)


def ne_args(arguments):
    args = []
    for a in arguments:
        u = a.unpacking
        if u:
            args.append((u, ne(a.value)))
        elif is_empty(a.label):
            args.append(('pos', ne(a.value)))
        else:
            args.append(('kw', a.label.tokens, ne(a.value)))
    return args


def ns(n):
    c = cname(n)
    if c == 'MoveAssign':
        return ('assign', [[ne(r) for r in n.receivers]], ne(n.value))
    if c == 'AnnoAssign':
        return ('annassign', ne(n.receiver), nt(n.var_type), opt(n.value, ne))
    if c == 'AugAssign':
        op = n.operator.tokens
        assert op.endswith('='), op
        return ('augassign', op[:-1], ne(n.receiver), ne(n.value))
    if c == 'Return':
        return ('return', opt(n.return_value, ne))
    if c == 'Yield':
        return ('yield', ne(n.yield_value))
    if c == 'Throw':
        return ('raise', ne(n.throws), opt(n.via, ne))
    if c == 'Pass':
        return ('pass',)
    if c == 'Break':
        return ('break',)
    if c == 'Continue':
        return ('continue',)
    if c == 'If':
        branches = [(ne(n.condition), nb(n.statements))] + [(ne(e.condition), nb(e.statements)) for e in n.else_ifs]
        return ('if', branches, None if is_empty(n.else_clause) else nb(n.else_clause.statements))
    if c == 'For':
        return ('for', [s.tokens for s in n.symbols], ne(n.for_in.iterates), nb(n.statements))
    if c == 'While':
        return ('while', ne(n.condition), nb(n.statements))
    if c in ('Function', 'Method', 'ClassMethod', 'Constructor', 'Closure'):
        body = nb(n.statements)
        if not is_empty(n.comment):
            body = [('expr', ne(n.comment))] + body
        return ('def', n.symbol.tokens, nparams(n.parameters), nt(n.return_type), [ndeco(d) for d in n.decorators], body)
    if c in ('Class', 'Enum'):
        body = nb(n.statements)
        if not is_empty(n.comment):
            body = [('expr', ne(n.comment))] + body
        return ('class', n.symbol.tokens, [b for b in [nt(b) for b in n.inherits] if not is_generic(b)], [ndeco(d) for d in n.decorators], body)
    if c == 'Try':
        return ('try', nb(n.statements), [(nt(h.var_type), h.symbol.tokens, nb(h.statements)) for h in n.catches])
    if c == 'With':
        return ('with', [(ne(e.enter), None if is_empty(e.symbol) else e.symbol.tokens) for e in n.entries], nb(n.statements))
    if c == 'Import':
        return ('from', n.import_path.tokens, [s.tokens for s in n.symbols])
    if c == 'Assert':
        return ('assert', ne(n.condition), opt(n.assert_body, ne))
    if c == 'Delete':
        return ('del', [ne(t) for t in n.targets])
    e = ne(n)
    if e[0].startswith('?'):
        return ('?' + c,)
    return ('expr', e)


def nb(stmts):
    return [ns(s) for s in stmts if cname(s) != 'Comment']


def canon_nodes(entrypoint):
    return nb(entrypoint.statements)


# ---------------------------------------------------------------------------------------------------
# classification facts

def py_kinds(src):
    """[(qualified name, function kind, [parameter kinds])] in source order, as Python semantics dictates:
    directly in a class body: 'ClassMethod' if decorated with classmethod, 'Constructor' if named __init__,
    'Method' if the first parameter is self (the receiver by the convention tranp supports), else 'Function';
    nested in a function: 'Closure'; at module level: 'Function'."""
    out = []

    def walk(body, scope, qual):
        for s in body:
            if isinstance(s, ast.FunctionDef):
                decos = [dotted(d.func if isinstance(d, ast.Call) else d) for d in s.decorator_list]
                first = s.args.args[0].arg if s.args.args else None
                if scope == 'class':
                    kind = 'ClassMethod' if 'classmethod' in decos else 'Constructor' if s.name == '__init__' else 'Method' if first == 'self' else 'Function'
                elif scope == 'func':
                    kind = 'Closure'
                else:
                    kind = 'Function'
                pk = []
                for i, p in enumerate(s.args.args + ([s.args.vararg] if s.args.vararg else []) + ([s.args.kwarg] if s.args.kwarg else [])):
                    pk.append('DeclThisParam' if p.arg == 'self' else 'DeclClassParam' if p.arg == 'cls' else 'DeclParam')
                out.append((qual + s.name, kind, pk))
                walk(s.body, 'func', qual + s.name + '.')
            elif isinstance(s, ast.ClassDef):
                out.append((qual + s.name, 'Enum' if 'Enum' in [dotted(b) for b in s.bases] else 'Class', []))
                walk(s.body, 'class', qual + s.name + '.')
            else:
                for f in ('body', 'orelse', 'handlers', 'finalbody'):
                    sub = getattr(s, f, None)
                    if isinstance(sub, list) and sub and isinstance(sub[0], (ast.stmt, ast.ExceptHandler)):
                        for h in sub:
                            if isinstance(h, ast.ExceptHandler):
                                walk(h.body, scope, qual)
                        walk([x for x in sub if isinstance(x, ast.stmt)], scope, qual)
    walk(ast.parse(src).body, 'module', '')
    return sorted(out)


def node_kinds(entrypoint):
    out = []

    def walk(stmts, qual):
        for s in stmts:
            c = cname(s)
            if c in ('Function', 'Method', 'ClassMethod', 'Constructor', 'Closure'):
                out.append((qual + s.symbol.tokens, c, [cname(p.symbol) for p in s.parameters]))
                walk(s.statements, qual + s.symbol.tokens + '.')
            elif c in ('Class', 'Enum'):
                out.append((qual + s.symbol.tokens, c, []))
                walk(s.statements, qual + s.symbol.tokens + '.')
            elif c == 'If':
                walk(s.statements, qual)
                for e in s.else_ifs:
                    walk(e.statements, qual)
                if not is_empty(s.else_clause):
                    walk(s.else_clause.statements, qual)
            elif c in ('For', 'While', 'With'):
                walk(s.statements, qual)
            elif c == 'Try':
                for h in s.catches:
                    walk(h.statements, qual)
                walk(s.statements, qual)
    walk(entrypoint.statements, '')
    return sorted(out)


# ---------------------------------------------------------------------------------------------------
# declaration vs reference: every occurrence of a plain name (line, column, name, 'decl' | 'ref')

def py_names(src):
    out = []

    def expr(n):
        for x in ast.walk(n):
            if isinstance(x, ast.Name):
                out.append((x.lineno, x.col_offset + 1, x.id, 'decl' if isinstance(x.ctx, ast.Store) else 'ref'))
            elif isinstance(x, ast.Lambda):
                for a in x.args.args:
                    out.append((a.lineno, a.col_offset + 1, a.arg, 'decl'))

    def stmts(body):
        for s in body:
            if isinstance(s, ast.FunctionDef):
                a = s.args
                for p in a.args + ([a.vararg] if a.vararg else []) + ([a.kwarg] if a.kwarg else []):
                    out.append((p.lineno, p.col_offset + 1, p.arg, 'decl'))
                for d in a.defaults:
                    expr(d)
                for d in s.decorator_list:
                    if isinstance(d, ast.Call):
                        for x in list(d.args) + [k.value for k in d.keywords]:
                            expr(x)
                stmts(s.body)
            elif isinstance(s, ast.ClassDef):
                for d in s.decorator_list:
                    if isinstance(d, ast.Call):
                        for x in list(d.args) + [k.value for k in d.keywords]:
                            expr(x)
                stmts(s.body)
            elif isinstance(s, ast.AnnAssign):
                expr(s.target)
                if s.value is not None:
                    expr(s.value)
            elif isinstance(s, ast.Try):
                stmts(s.body)
                for h in s.handlers:
                    stmts(h.body)
            elif isinstance(s, (ast.ImportFrom, ast.Import)):
                pass
            elif isinstance(s, ast.AugAssign):
                # an augmented assignment reads and rebinds an existing name: a reference, not a declaration
                if isinstance(s.target, ast.Name):
                    out.append((s.target.lineno, s.target.col_offset + 1, s.target.id, 'ref'))
                else:
                    expr(s.target)
                expr(s.value)
            else:
                for f, v in ast.iter_fields(s):
                    if isinstance(v, list) and v and isinstance(v[0], ast.stmt):
                        stmts(v)
                    elif isinstance(v, list):
                        for x in v:
                            if isinstance(x, ast.AST):
                                if isinstance(x, ast.withitem):
                                    expr(x.context_expr)
                                    if x.optional_vars is not None:
                                        expr(x.optional_vars)
                                else:
                                    expr(x)
                    elif isinstance(v, ast.AST):
                        expr(v)
    stmts(ast.parse(src).body)
    return sorted(out)


def node_names(entrypoint):
    out = []
    skip_types = ('VarOfType', 'LiteralType', 'NullType', 'CustomType', 'ListType', 'DictType', 'CallableType', 'UnionType', 'RelayOfType', 'LiteralDictType', 'TypeParameters')

    def walk(n):
        c = cname(n)
        if c in skip_types or c in ('TypesName', 'AltTypesName', 'ImportAsName', 'ImportName', 'DecoratorPath', 'ImportPath', 'ArgumentLabel', 'Proxy', 'Empty', 'Terminal'):
            return
        if c in ('Var', 'ThisRef', 'ClassRef'):
            b = n.source_map['begin']
            want = 'ThisRef' if n.tokens == 'self' else 'ClassRef' if n.tokens == 'cls' else 'Var'
            out.append((b[0], b[1], n.tokens, 'ref' if c == want else 'ref?' + c))
            return
        if c == 'DeclThisVar':
            b = n.source_map['begin']
            out.append((b[0], b[1], 'self', 'ref'))
            return
        if c.startswith('Decl'):
            b = n.source_map['begin']
            out.append((b[0], b[1], n.tokens, 'decl'))
            return
        for k in n.prop_keys():
            if c == 'Catch' and k in ('symbol', 'var_type'):
                continue
            v = getattr(n, k)
            for x in (v if isinstance(v, list) else [v]):
                walk(x)
    walk(entrypoint)
    return sorted(out)


def first_diff(a, b, path=''):
    if type(a) != type(b):
        return path or 'root'
    if isinstance(a, (list, tuple)):
        head = a[0] if isinstance(a, tuple) and a and isinstance(a[0], str) else ''
        if head and (not b or a[0] != b[0]):
            return (path + '/' if path else '') + str(a[0]) + '!=' + (str(b[0]) if b else '')
        if len(a) != len(b):
            return ((path + '/' if path else '') + head or 'root') + ':len'
        for x, y in zip(a, b):
            d = first_diff(x, y, ((path + '/' if path else '') + head) if head else path)
            if d:
                return d
        return ''
    return '' if a == b else (path or 'leaf') + ':leaf'
