"""Generator of sources in the lexical subset shared by tranp's tokenizer and CPython (C13), with layout
variants, plus a malformed character stream."""
import random

NAMES = ['a', 'b', 'x1', 'foo', 'bar_baz', '_t', 'if', 'else', 'def', 'return', 'for', 'in', 'not', 'and', 'A', 'Cls', 'r', 'f', 'rf1', 'self']
NUMS = ['0', '1', '12', '305', '1.5', '0.25', '10.0', '7']
# operators on which CPython and the token definition agree (single + combined)
OPS = ['+', '-', '*', '/', '%', '&', '|', '^', '~', '<', '>', '=', '.', ',', ':', ';', '@',
       '-=', '+=', '*=', '/=', '%=', '&=', '|=', '^=', '==', '!=', '<=', '>=', '<<', '>>', '->', '**', ':=', '...']
OPEN = {'(': ')', '[': ']', '{': '}'}


def string_lit(rnd):
    q = rnd.choice(["'", '"', '"""'])
    prefix = rnd.choice(['', '', '', 'r', 'f'])
    pool = ['a', 'b', ' ', '#', ',', '(', ')', '=', '-', '1', ':']
    if q != '"""':
        other = '"' if q == "'" else "'"
        pool.append(other)
    else:
        pool += ["'", '"a', '\n']
    body = ''.join(rnd.choice(pool) for _ in range(rnd.randint(0, 6)))
    if rnd.random() < .3 and prefix != 'r':
        esc = rnd.choice(['\\n', '\\t', '\\' + q[0], '\\\\x'])
        k = rnd.randint(0, len(body))
        body = body[:k] + esc + body[k:]
    if rnd.random() < .35 and prefix == 'r' and q != '"""':
        # a raw string still ends at its own unescaped quote: a backslash before the quote keeps it inside
        k = rnd.randint(0, len(body))
        body = body[:k] + rnd.choice(['\\' + q, '\\n', 'a\\' + q + 'b']) + body[k:]
    if rnd.random() < .12 and prefix != 'r' and q != '"""':
        body += '\\\\'          # the literal ends with an escaped backslash
    if prefix == 'f':
        body = body.replace('{', '').replace('}', '')
    if q == '"""':
        body = body.replace('"""', '"').rstrip('"').rstrip('\\')
    return prefix + q + body + q


def gen_line_tokens(rnd, depth=0):
    """a flat list of token strings; brackets are balanced; ('NLIN',) marks a line break inside brackets"""
    out = []
    n = rnd.randint(1, 7)
    for _ in range(n):
        k = rnd.random()
        if k < .3:
            out.append(rnd.choice(NAMES))
        elif k < .42:
            out.append(rnd.choice(NUMS))
        elif k < .55:
            out.append(string_lit(rnd))
        elif k < .85:
            out.append(rnd.choice(OPS))
        elif depth < 2:
            o = rnd.choice(list(OPEN))
            out.append(o)
            inner = gen_line_tokens(rnd, depth + 1)
            if rnd.random() < .35:
                inner.insert(rnd.randint(0, len(inner)), ('NLIN',))
            out.extend(inner)
            out.append(OPEN[o])
        else:
            out.append(rnd.choice(NAMES))
    # what follows a '-' is the one layout detail the tokenizer is sensitive to (unary-minus marking):
    # keep a token after it on the same physical line so that the renderer controls the blank after it
    fixed = []
    for i, tk in enumerate(out):
        fixed.append(tk)
        if tk == '-' and (i + 1 == len(out) or out[i + 1] == ('NLIN',)):
            fixed.append('x')
    return fixed


def gen_program(rnd):
    """list of (indent level, tokens); a deeper level only follows a line that ends with ':'"""
    lines = []
    level = 0
    for i in range(rnd.randint(1, 8)):
        toks = gen_line_tokens(rnd)
        opener = rnd.random() < .4 and i < 7
        if opener:
            toks.append(':')
        elif toks and toks[-1] == ':':
            toks.append('x')
        lines.append((level, toks))
        if opener:
            level += 1
        elif level > 0 and rnd.random() < .4:
            level -= rnd.randint(1, level)
    if lines and lines[-1][1][-1] == ':':
        lines.append((level, ['pass']))
    return lines


def wordlike(t):
    return isinstance(t, str) and (t[0].isalnum() or t[0] == '_' or t[0] in '\'"')


def render(rnd, prog, unit='    ', comments=True, loose=True, minus_pattern=None, irregular=False):
    """layout: indentation unit, optional spaces around operators, comments, blank lines, trailing blanks.
    minus_pattern fixes (per occurrence) whether a blank follows a '-' so that two renderings agree on it."""
    out = []
    minus_seen = [0]

    def gap(prev, cur):
        if prev is None:
            return ''
        if prev == '-':
            i = minus_seen[0]
            minus_seen[0] += 1
            if minus_pattern is None:
                return ' ' if rnd.random() < .5 else ''
            if i >= len(minus_pattern):
                minus_pattern.append(rnd.random() < .5)
            return ' ' if minus_pattern[i] else ''
        if wordlike(prev) and wordlike(cur):
            return ' '                       # NAME NAME, NUMBER NAME, NAME STRING (a prefix!) ... must stay apart
        brackets = '([{)]}'
        if not wordlike(prev) and not wordlike(cur) and prev not in brackets and cur not in brackets:
            return ' '                       # two operators side by side could merge into another operator
        if (prev[0].isdigit() and cur[0] == '.') or (prev[-1] == '.' and cur[0].isdigit()):
            return ' '                       # 1 . x  /  . 5 would become a float
        if loose and rnd.random() < .5:
            return rnd.choice([' ', ' ', '  '])
        return ''
    widths = {0: ''}

    def indent_of(level):
        # irregular: every block picks its own width (legal Python: only consistency within a block matters)
        if not irregular:
            return unit * level
        for lv in [k for k in widths if k > level]:
            del widths[lv]
        for lv in range(1, level + 1):
            if lv not in widths:
                widths[lv] = widths[lv - 1] + ' ' * rnd.choice([1, 2, 3, 4, 6, 8])
        return widths[level]
    for level, toks in prog:
        if comments and rnd.random() < .15:
            out.append(unit * rnd.choice([level, level, 0]) + '# note, (x' + rnd.choice(['', ' '])) if rnd.random() < .7 else out.append(rnd.choice(['', '  ']))
            # comment lines in a row (a header of several lines, a block of notes between two statements), blank lines among them
            while rnd.random() < .4:
                out.append(rnd.choice([unit * level + '# more', '# col 0', '', unit * (level + 1) + '#']))
        s = indent_of(level)
        prev = None
        for t in toks:
            if t == ('NLIN',):
                s += rnd.choice(['', ' ']) + ('# c' if comments and rnd.random() < .2 else '') + '\n' + rnd.choice(['', '  ', '\t', unit * (level + 2)])
                continue
            s += gap(prev, t) + t
            prev = t
        if comments and rnd.random() < .2:
            s += rnd.choice(['  ', ' ']) + '# tail: ' + rnd.choice(['x', '"q', "it's"])
        elif loose and rnd.random() < .2:
            s += rnd.choice([' ', '   ', '\t'])
        out.append(s)
    text = '\n'.join(out)
    if rnd.random() < .7:
        text += '\n'
    if loose and rnd.random() < .15:
        text += '\n\n'
    return text


def malformed(rnd):
    pool = list('ab1 .,:;()[]{}\'"#-+*/=<>\\\n\t!?$`r') + ['"""', "'''", '->', '0x1F', '1e5', '\\\n', '..', '<<=', '//']
    s = ''.join(rnd.choice(pool) for _ in range(rnd.randint(1, 18)))
    return s
