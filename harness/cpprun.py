"""C01: compile and run emitted C++ next to CPython.
A batch of programs becomes one translation unit per program (namespaced), one driver that calls every entry
function on its argument vectors and prints one line per call: `<program>\t<entry#>\t<arg#>\t<value>`.
Values are printed in a canonical form shared with the Python side (py_show)."""
import os
import re
import struct
import subprocess

PRELUDE = r'''
#include <string>
#include <vector>
#include <map>
#include <tuple>
#include <functional>
#include <stdexcept>
#include <iostream>
#include <sstream>
#include <algorithm>
#include <cstdio>
#include <cmath>
#include <memory>
#include <optional>
#if !__has_include(<format>)
// libstdc++ 12 has no <format>; the message text of an exception is not observed by the driver
namespace std { template<class... A> std::string format(const std::string& f, A&&...) { return f; } }
#else
#include <format>
#endif
namespace show {
inline std::string s(int v) { return std::to_string(v); }
inline std::string s(long v) { return std::to_string(v); }
inline std::string s(long long v) { return std::to_string(v); }
inline std::string s(unsigned long v) { return std::to_string(v); }
inline std::string s(bool v) { return v ? "True" : "False"; }
inline std::string s(float v) { char b[64]; std::snprintf(b, sizeof b, "f:%.9g", (double)v); return b; }
inline std::string s(double v) { char b[64]; std::snprintf(b, sizeof b, "f:%.9g", (double)(float)v); return b; }
inline std::string s(const std::string& v) { std::string o = "'"; for (char c : v) { if (c == '\\' || c == '\'') o += '\\'; o += c; } return o + "'"; }
inline std::string s(const char* v) { return s(std::string(v)); }
template<class T> std::string s(const std::vector<T>& v);
template<class K, class V> std::string s(const std::map<K, V>& v);
template<class... T> std::string s(const std::tuple<T...>& v);
template<class T> std::string s(const std::vector<T>& v) { std::string o = "["; bool f = true; for (const auto& x : v) { if (!f) o += ", "; f = false; o += s(x); } return o + "]"; }
template<class K, class V> std::string s(const std::map<K, V>& v) { std::vector<std::string> items; for (const auto& kv : v) items.push_back(s(kv.first) + ": " + s(kv.second)); std::sort(items.begin(), items.end()); std::string o = "{"; bool f = true; for (auto& x : items) { if (!f) o += ", "; f = false; o += x; } return o + "}"; }
template<class... T> std::string s(const std::tuple<T...>& v) { std::string o = "("; bool f = true; std::apply([&](const auto&... x) { ((o += (f ? "" : ", ") + s(x), f = false), ...); }, v); return o + ")"; }
}
'''


def py_show(v):
    if isinstance(v, bool):
        return 'True' if v else 'False'
    if isinstance(v, int):
        return str(v)
    if isinstance(v, float):
        f32 = struct.unpack('f', struct.pack('f', v))[0]
        return 'f:%.9g' % f32
    if isinstance(v, str):
        return "'" + v.replace('\\', '\\\\').replace("'", "\\'") + "'"
    if isinstance(v, list):
        return '[' + ', '.join(py_show(x) for x in v) + ']'
    if isinstance(v, tuple):
        return '(' + ', '.join(py_show(x) for x in v) + ')'
    if isinstance(v, dict):
        return '{' + ', '.join(sorted(py_show(k) + ': ' + py_show(x) for k, x in v.items())) + '}'
    if v is None:
        return 'None'
    if hasattr(v, '__dict__'):
        return type(v).__name__ + '{' + ', '.join('%s=%s' % (k, py_show(x)) for k, x in sorted(vars(v).items())) + '}'
    return repr(v)


def cpp_lit(v):
    if isinstance(v, bool):
        return 'true' if v else 'false'
    if isinstance(v, int):
        return str(v)
    if isinstance(v, float):
        return repr(v) + 'f'
    if isinstance(v, str):
        return 'std::string("' + v.replace('\\', '\\\\').replace('"', '\\"') + '")'
    if isinstance(v, list):
        return '{' + ', '.join(cpp_lit(x) for x in v) + '}'
    raise TypeError(v)


def strip_header(cpp):
    return '\n'.join(l for l in cpp.split('\n') if not l.startswith('#pragma once') and not l.startswith('#include') and not l.startswith('// #include') and not l.startswith('// @tranp.meta'))


def cpp_entry(prefix):
    """Python call prefix (f / C(1, 'a').m) -> C++ expression prefix"""
    m = re.fullmatch(r'(\w+)\((.*)\)\.(\w+)', prefix)
    if m:
        import ast
        args = ast.literal_eval('(' + m.group(2) + ',)') if m.group(2).strip() else ()
        return '%s(%s).%s' % (m.group(1), ', '.join(cpp_lit(a) for a in args), m.group(3))
    return prefix


def build_unit(idx, cpp, entries):
    """one namespaced translation unit + its part of the driver"""
    ns = 'prog%d' % idx
    body = 'namespace %s {\n%s\n}\n' % (ns, strip_header(cpp))
    calls = []
    for ei, (prefix, argvs, _rt) in enumerate(entries):
        for ai, args in enumerate(argvs):
            call = '%s::%s(%s)' % (ns, cpp_entry(prefix), ', '.join(cpp_lit(a) for a in args))
            calls.append('\ttry { std::cout << "%d\\t%d\\t%d\\t" << show::s(%s) << "\\n"; } catch (const std::exception& e) { std::cout << "%d\\t%d\\t%d\\traise\\n"; }' % (idx, ei, ai, call, idx, ei, ai))
    return body, calls


class OutOfSubset(Exception):
    pass


def py_results(src, entries, bound=2 ** 31 - 1):
    """results under CPython; None when some integer held by a local variable leaves the 32-bit range (the
    program is then outside the subset in which Python and C++ integers agree)"""
    import sys
    env = {'__name__': 'c01_prog'}
    exec(compile(src, 'c01_prog.py', 'exec'), env)
    out = {}

    def tracer(frame, event, arg):
        if frame.f_code.co_filename != 'c01_prog.py':
            return None
        if event in ('line', 'return'):
            for v in frame.f_locals.values():
                if type(v) is int and not -bound <= v <= bound:
                    raise OutOfSubset()
            if event == 'return' and type(arg) is int and not -bound <= arg <= bound:
                raise OutOfSubset()
        return tracer
    for ei, (prefix, argvs, _rt) in enumerate(entries):
        for ai, args in enumerate(argvs):
            sys.settrace(tracer)
            try:
                out[(ei, ai)] = py_show(eval('%s(*%r)' % (prefix, tuple(args)), env))
            except OutOfSubset:
                sys.settrace(None)
                return None
            except RecursionError:
                out[(ei, ai)] = 'raise'
            except Exception:
                out[(ei, ai)] = 'raise'
            finally:
                sys.settrace(None)
    return out


def compile_and_run(workdir, units, timeout=600):
    """units: [(idx, cpp text, entries)]. Returns ({(idx, ei, ai): text}, {idx: compiler message}) - programs that
    do not compile are reported and left out of the driver."""
    os.makedirs(workdir, exist_ok=True)
    bad, good = {}, []
    # syntax-check every unit on its own first (parallel), so that one bad program does not hide the others
    results = {}
    for lo in range(0, len(units), 16):      # sixteen compilers at a time
        _compile_batch(workdir, units[lo:lo + 16], results, bad, timeout)
    return results, bad


def _compile_batch(workdir, units, results, bad, timeout):
    procs = []
    for idx, cpp, entries in units:
        body, calls = build_unit(idx, cpp, entries)
        path = os.path.join(workdir, 'u%d.cpp' % idx)
        with open(path, 'w') as f:
            f.write(PRELUDE + body + 'int main() {\n' + '\n'.join(calls) + '\n\treturn 0;\n}\n')
        procs.append((idx, path, subprocess.Popen(['g++', '-std=c++20', '-O0', '-w', '-o', path[:-4], path], stdout=subprocess.PIPE, stderr=subprocess.STDOUT, text=True)))
    for idx, path, p in procs:
        out, _ = p.communicate(timeout=timeout)
        if p.returncode != 0:
            bad[idx] = '\n'.join(l for l in out.split('\n') if 'error' in l)[:1500] or out[:1500]
            continue
        try:
            r = subprocess.run([path[:-4]], capture_output=True, text=True, timeout=60)
            if r.returncode != 0:
                bad[idx] = 'run-time failure: exit %d %s' % (r.returncode, r.stderr[:300])
            for line in r.stdout.split('\n'):
                parts = line.split('\t', 3)
                if len(parts) == 4:
                    results[(int(parts[0]), int(parts[1]), int(parts[2]))] = parts[3]
        except subprocess.TimeoutExpired:
            bad[idx] = 'run-time failure: timeout'

