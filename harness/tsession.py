"""In-process tranp sessions over in-memory module sets (harness side; nothing under /repo is changed).
cwd must be a scratch directory: tranp writes its caches to <cwd>/.cache/tranp."""
import os
import lib

lib.shim()
REPO = lib.REPO


def _defs(sources: dict[str, str], cache_enabled: bool = True, extra: dict | None = None, templates: dict[str, str] | None = None):
    from rogw.tranp.app.dir import tranp_dir
    from rogw.tranp.lang.module import to_fullyname
    from rogw.tranp.module.types import ModulePath, ModulePaths
    from rogw.tranp.syntax.ast.parser import SourceProvider, ParserSetting
    from rogw.tranp.implements.cpp.transpiler.py2cpp import Py2Cpp
    from rogw.tranp.implements.cpp.providers.i18n import translation_mapping_cpp
    from rogw.tranp.implements.cpp.providers.view import renderer_helper_provider_cpp
    from rogw.tranp.i18n.i18n import I18n, TranslationMapping
    from rogw.tranp.lang.middleware import Middleware
    from rogw.tranp.transpiler.types import TranspilerOptions, ITranspiler
    from rogw.tranp.view.render import Renderer, RendererEmitter, RendererHelperProvider, RendererSetting
    from rogw.tranp.providers.syntax.ast import source_provider
    from rogw.tranp.file.loader import ISourceLoader
    from rogw.tranp.app.dummy import make_dummy_module_meta_factory
    from rogw.tranp.data.meta.types import ModuleMetaFactory
    from rogw.tranp.cache.cache import CacheSetting
    from rogw.tranp.app.env import DataEnvPath

    def make_renderer_setting(i18n: I18n, emitter: RendererEmitter) -> RendererSetting:
        dirs = [os.path.join(tranp_dir(), 'data/cpp/template')]
        if templates:
            # user templates (relative path -> text): a template directory in front of the stock one, as `template_dirs` of a configuration
            udir = os.path.join(os.getcwd(), 'user_templates_%x' % (hash(tuple(sorted(templates.items()))) & 0xffffffff))
            for rel, text in templates.items():
                os.makedirs(os.path.dirname(os.path.join(udir, rel)), exist_ok=True)
                with open(os.path.join(udir, rel), 'w') as f:
                    f.write(text)
            dirs.insert(0, udir)
        return RendererSetting(dirs, i18n.t, emitter,
                               {'immutable_param_types': ['std::string', 'std::vector', 'std::map', 'std::function']})

    def sp(sources_: ISourceLoader):
        org = source_provider(sources_)

        def h(module_path: str) -> str:
            return sources[module_path] if module_path in sources else org(module_path)
        return h

    d = {
        to_fullyname(DataEnvPath): lambda: DataEnvPath([os.getcwd(), tranp_dir()]),
        to_fullyname(ModulePaths): lambda: [ModulePath(k, language='py') for k in sources],
        to_fullyname(SourceProvider): sp,
        to_fullyname(ParserSetting): lambda: ParserSetting(grammar=os.path.join(tranp_dir(), 'data/grammar.lark')),
        to_fullyname(CacheSetting): lambda: CacheSetting(basedir=os.path.join(os.getcwd(), '.cache/tranp'), enabled=cache_enabled),
        to_fullyname(ITranspiler): Py2Cpp,
        to_fullyname(ModuleMetaFactory): make_dummy_module_meta_factory,
        to_fullyname(Renderer): Renderer,
        to_fullyname(RendererEmitter): Middleware,
        to_fullyname(RendererHelperProvider): renderer_helper_provider_cpp,
        to_fullyname(RendererSetting): make_renderer_setting,
        to_fullyname(TranslationMapping): translation_mapping_cpp,
        to_fullyname(TranspilerOptions): lambda: TranspilerOptions(verbose=False, env={}),
    }
    if extra:
        d.update(extra)
    return d


class Session:
    """One application instance (one DI container) over a mutable dict of in-memory sources."""

    def __init__(self, sources: dict[str, str], cache_enabled: bool = True, extra: dict | None = None, templates: dict[str, str] | None = None):
        from rogw.tranp.app.app import App
        assert os.path.realpath(os.getcwd()) != os.path.realpath(REPO), 'never run tranp with cwd=/repo'
        self.sources = sources
        self.app = App(_defs(sources, cache_enabled, extra, templates))

    def resolve(self, sym):
        return self.app.resolve(sym)

    @property
    def modules(self):
        from rogw.tranp.module.modules import Modules
        return self.app.resolve(Modules)

    def load(self, mod: str):
        return self.modules.load(mod)

    def unload(self, mod: str):
        return self.modules.unload(mod)

    def transpile(self, mod: str) -> str:
        from rogw.tranp.transpiler.types import ITranspiler
        m = self.modules.load(mod)
        return self.app.resolve(ITranspiler).transpile(m.entrypoint)

    def entrypoint(self, mod: str):
        """node tree without semantic preprocessing"""
        from rogw.tranp.syntax.ast.entrypoints import Entrypoints
        return self.app.resolve(Entrypoints).load(mod)


def transpile_one(src: str, name: str = '__main__') -> str:
    return Session({name: src}).transpile(name)
