"""Universe of symbols and factories for the C19 checks (imported by name: lazy registrations use
'di_universe.F3'). Factories depend only on lower-numbered symbols (no resolution cycles)."""
SEQ = [0]


class Base:
    def __init__(self, fname, args):
        self.seq = SEQ[0]
        SEQ[0] += 1
        self.fname = fname
        self.args = args


from typing import Generic, TypeVar

T = TypeVar('T')


class S0(Base, Generic[T]): pass      # a generic class: the container takes S0[int] for S0 (subscripted aliases are normalised to their origin)
class S1(Base): pass
class S2(Base): pass
class S3(Base): pass
class S4(Base): pass
class S5(Base): pass


SYMS = [S0, S1, S2, S3, S4, S5]
ALIAS = {0: S0[int]}      # how a symbol may also be written when it is handed to the container


def F0() -> S0: return S0(0, ())
def F1() -> S0: return S0(1, ())
def F2(a: S0) -> S1: return S1(2, (a,))
def F3(a: S0, b: S1) -> S2: return S2(3, (a, b))
class KA:
    # factories with one __name__ and different __qualname__ (static methods of two classes): the container keeps per-factory
    # bookkeeping, which must not be shared between them
    @staticmethod
    def make(b: S1, n: int) -> S2: return S2(4, (b, n))

    @staticmethod
    def build(c: S2, t: str) -> S4: return S4(7, (c, t))


class KB:
    @staticmethod
    def make(n: int, a: S0) -> S3: return S3(6, (n, a))

    @staticmethod
    def build(d: S3) -> S4: return S4(9, (d,))


F4 = KA.make
def F5(a: S0, b: S1, n: int) -> S3: return S3(5, (a, b, n))
F6 = KB.make
F7 = KA.build
def F8() -> S1: return S1(8, ())
F9 = KB.build
def F10(a: S0, b: S1, c: S2) -> S5: return S5(10, (a, b, c))
def F11(a: S0, x: S4, n: int) -> S5: return S5(11, (a, x, n))


FACS = [F0, F1, F2, F3, F4, F5, F6, F7, F8, F9, F10, F11]
# (fname, fret, params) with params: ('sym', i) | 'int' | 'str'
SIGS = [
    (0, 0, []), (1, 0, []), (2, 1, [('sym', 0)]), (3, 2, [('sym', 0), ('sym', 1)]), (4, 2, [('sym', 1), 'int']),
    (5, 3, [('sym', 0), ('sym', 1), 'int']), (6, 3, ['int', ('sym', 0)]), (7, 4, [('sym', 2), 'str']), (8, 1, []),
    (9, 4, [('sym', 3)]), (10, 5, [('sym', 0), ('sym', 1), ('sym', 2)]), (11, 5, [('sym', 0), ('sym', 4), 'int']),
]


def check_sigs():
    """SIGS must describe FACS (read from the real annotations)"""
    for f, (k, ret, params) in zip(FACS, SIGS):
        ann = dict(f.__annotations__)
        r = ann.pop('return')
        got = [('sym', SYMS.index(t)) if t in SYMS else t.__name__ for t in ann.values()]
        assert SYMS.index(r) == ret and got == params, (f, got, params)


check_sigs()
