"""Well-formed but ill-typed programs: every kind of symbol / expression (SYMS) placed in every kind of
position (CTX) after a common header. Used by C07 (quick: a seeded sample plus the pinned pairs; thorough: all)."""
HEAD = "from typing import TypeAlias, TypeVar, Generic\n\nT = TypeVar('T')\nA: TypeAlias = int\nx: int = 1\n\ndef f(a: int) -> int:\n\treturn a\n\nclass K:\n\tn: int = 0\n\tdef m(self) -> int:\n\t\treturn 1\n\nclass B(Generic[T]):\n\tdef g(self, v: T) -> T:\n\t\treturn v\n\n"
SYMS = ['__actual__', '__actual__()', "__actual__('x')", 'Embed.alias', "Embed.alias('a')", 'Embed.prop', "Embed.prop('p')", 'Embed.static', 'Embed.mutable', 'Embed.ignore', 'Embed.meta', 'staticmethod', 'classmethod', 'property', 'abstractmethod',
 'foo.Bar', 'K.Missing.y', 'typing.List', 'mx_mod.K', 'mx_mod',
 'super()', 'K.m()', 'B[int]()', 'x.y', '...', 'True', '-x', 'not x', 'x if x else K', '{1: 2}', '[1]', '(1,)', 'range(3)', 'str', 'list', 'dict', 'list[int]', 'dict[str, int]', 'tuple[int, str]', 'Callable', 'Callable[[int], int]', 'int | None', 'int | str', "'K'", 'type[K]', 'Enum', 'self', 'K.Missing', 'B[Missing]', 'B[T]', 'f.a', 'x[0]', 'A()', 'T()', 'len.y',
 'len', 'print', 'int', 'T', 'A', 'f', 'K', 'x', 'B', 'B[int]', 'K.m', 'K.n', 'Missing', 'f(1)', 'K()', '1', "'s'", 'None', 'TypeVar', '[T]', '(K, K)', 'lambda: 1']
CTX = {
 'deco-class': '@%s\nclass Z: ...\n', 'deco-method': 'class Z:\n\t@%s\n\tdef g(self) -> int: ...\n', 'deco-call': '@%s()\ndef g() -> None: ...\n', 'self-import': 'from mx_mod import %s\n', 'import-from': 'from %s import y\n', 'except-anno': 'def g() -> None:\n\ttry:\n\t\tpass\n\texcept RuntimeError as e:\n\t\tw: %s = e\n',
 'cls-anno': 'class Z:\n\tv: %s\n', 'cls-var': 'class Z:\n\tv: int = %s\n', 'method-param': 'class Z:\n\tdef g(self, a: %s) -> None: ...\n', 'self-attr': 'class Z:\n\tdef __init__(self) -> None:\n\t\tself.v: %s = 1\n',
 'self-assign': 'class Z:\n\tdef __init__(self) -> None:\n\t\tself.v = %s\n', 'lambda-body': 'v = lambda: %s\n', 'call-arg': 'v = f(%s)\n', 'kw-arg': 'v = f(a=%s)\n', 'index-key': 'def g(d: dict[str, int]) -> int:\n\treturn d[%s]\n',
 'slice': 'def g(d: list[int]) -> list[int]:\n\treturn d[%s:]\n', 'ternary-cond': 'v = 1 if %s else 2\n', 'while': 'def g() -> None:\n\twhile %s:\n\t\tpass\n', 'assert': 'def g() -> None:\n\tassert %s\n', 'star-arg': 'v = f(*%s)\n',
 'dict-comp': 'v = {k: 1 for k in %s}\n', 'alias': 'Z: TypeAlias = %s\n', 'typevar-bound': "U = TypeVar('U', bound=%s)\n", 'generic-base': 'class Z(Generic[%s]): ...\n', 'B-arg': 'v: B[%s] = B()\n', 'method-body': 'class Z:\n\tdef g(self) -> int:\n\t\treturn %s\n',
 'method-attr': 'class Z:\n\tdef g(self) -> int:\n\t\treturn %s.y\n',
 'anno': 'v: %s.y = 1\n', 'anno-plain': 'v: %s = 1\n', 'param': 'def g(a: %s.y) -> None: ...\n', 'param-plain': 'def g(a: %s) -> None: ...\n', 'ret': 'def g() -> %s.y: ...\n', 'ret-plain': 'def g() -> %s:\n\treturn 1\n',
 'expr': 'v = %s.y\n', 'call': 'v = %s.y(1)\n', 'call-plain': 'v = %s(1, 2, 3)\n', 'base': 'class Z(%s): ...\n', 'base-attr': 'class Z(%s.y): ...\n', 'sub-anno': 'v: %s[int] = 1\n', 'sub-expr': 'v = %s[0]\n',
 'deco': '@%s\ndef g() -> None: ...\n', 'iter': 'for i in %s:\n\tpass\n', 'unpack': 'a, b = %s\n', 'generic-arg': 'v: list[%s] = []\n', 'dict-arg': 'v: dict[%s, %s.y] = {}\n', 'binop': 'v = %s + 1\n', 'cmp': 'v = %s < %s\n',
 'in-fn-ret': 'def g() -> int:\n\treturn %s\n', 'aug': 'def g() -> None:\n\tw = 1\n\tw += %s\n', 'attr-assign': '%s.z = 1\n', 'with': 'def g() -> None:\n\twith %s as w:\n\t\tpass\n', 'raise': 'def g() -> None:\n\traise %s\n',
 'except': 'def g() -> None:\n\ttry:\n\t\tpass\n\texcept %s as e:\n\t\tpass\n', 'comp': 'v = [i for i in %s]\n', 'default': 'def g(a: int = %s) -> None: ...\n', 'enum-base': 'from enum import Enum\nclass Z(%s, Enum): ...\n', 'cast': 'v = int(%s)\n', 'fstr': "v = '{a}'.format(a=%s)\n",
}

# pairs that exhibited an escaping exception once (repaired defects and seeded changes): on every run
PINNED = [('deco', '__actual__()'), ('deco-class', '__actual__'), ('anno', 'foo.Bar'), ('param', 'foo.Bar'), ('self-import', 'K'), ('sub-anno', 'None'), ('param', 'None[int]'), ('anno', 'len'), ('param', 'print'), ('anno', 'T'), ('anno', 'A'), ('base', '[T]'), ('anno-plain', '[T]')]


def program(ctx_name: str, sym: str) -> str:
    c = CTX[ctx_name]
    return HEAD + (c % ((sym,) * c.count('%s')))
