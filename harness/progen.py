"""Generator of well-typed programs in tranp's supported subset (typed Python that both CPython executes
and tranp transpiles). One PRNG drives every choice. Programs keep integer values small (no overflow),
use % only on non-negative operands, never divide ints, never rely on dict order or aliasing.

A Program carries: source text, entry functions with argument vectors, and the construct histogram."""
from __future__ import annotations
import random
from dataclasses import dataclass, field

INT, BOOL, FLOAT, STR = 'int', 'bool', 'float', 'str'
EXT_KINDS = ['closure', 'lambda_arg', 'lambda_iife', 'dict', 'dict_loop', 'dict_comp', 'tuple', 'enumerate', 'list_ops', 'casts', 'try', 'nested', 'list_comp', 'default_arg', 'str_ops', 'dict_views', 'list_fill', 'float_mix', 'name_reuse']
SCALARS = [INT, BOOL, FLOAT, STR]
NAME_POOL = ['a', 'b', 'c', 'n', 'm', 'k', 'x', 'y', 'z', 'v', 'w', 'p', 'q', 'i2', 'val', 'cnt', 'acc', 'tmp', 'lhs', 'rhs']


@dataclass
class Program:
    src: str
    entries: list = field(default_factory=list)   # (call expression prefix, [argument tuples])
    constructs: dict = field(default_factory=dict)
    names: list = field(default_factory=list)     # user identifiers (for renaming, C08)


class Gen:
    def __init__(self, rnd: random.Random, opts: dict | None = None):
        self.rnd = rnd
        self.opts = dict(classes=True, loops=True, lists=True, strs=True, floats=True, ternary=True, bitwise=True,
                         chains=False, enums=True, dicts=True, depth=3, ext=True, lit_concat=False)
        if opts:
            self.opts.update(opts)
        self.constructs: dict[str, int] = {}
        self.uid = 0
        self.funcs: list[tuple[str, list[tuple[str, str]], str]] = []   # name, params, return type
        self.classes: list[dict] = []
        self.enums: list[tuple[str, list[str]]] = []
        self.names: list[str] = []
        self.readonly: set[str] = set()
        self.usable_classes: list[dict] = []
        self.header: list[str] = []
        self.force_ext: list[str] = list(self.opts.get('force_ext') or [])   # extended constructs to emit first, one per statement slot

    def use(self, k: str) -> None:
        self.constructs[k] = self.constructs.get(k, 0) + 1

    def fresh(self, base: str) -> str:
        self.uid += 1
        n = '%s%d' % (base, self.uid)
        self.names.append(n)
        return n

    # ---- expressions -------------------------------------------------------------------------
    def lit(self, t: str) -> str:
        r = self.rnd
        if t == INT:
            return str(r.choice([0, 1, 2, 3, 4, 5, 7, 8, 10, 16, 100]))
        if t == BOOL:
            return r.choice(['True', 'False'])
        if t == FLOAT:
            return r.choice(['0.5', '1.0', '2.5', '0.25', '3.0', '10.0'])
        if t == STR:
            return repr(r.choice(['', 'a', 'bc', 'x y', 'hello', 'k=v', 'A,B']))
        raise KeyError(t)

    def atom(self, t: str, env: dict[str, str]) -> str:
        cands = [v for v, vt in env.items() if vt == t]
        if cands and self.rnd.random() < .7:
            return self.rnd.choice(cands)
        if t == INT and self.opts['lists'] and self.rnd.random() < .15:
            ls = [v for v, vt in env.items() if vt == 'list[int]']
            if ls:
                self.use('len')
                return 'len(%s)' % self.rnd.choice(ls)
        return self.lit(t)

    def expr(self, t: str, env: dict[str, str], d: int | None = None) -> str:
        """expression of static type t; operands are parenthesised only where Python needs it for the
        intended tree, so that precedence handling is exercised"""
        r = self.rnd
        d = self.opts['depth'] if d is None else d
        if d <= 0 or r.random() < .25:
            return self.atom(t, env)
        if t == INT:
            k = r.random()
            if k < .45:
                op = r.choice(['+', '-', '+', '-', '*'])
                self.use('arith')
                l, rr = self.expr(INT, env, d - 1), self.operand(INT, env, d - 1, 'mul' if op == '*' else 'add_r')
                if op == '*':
                    l = self.operand(INT, env, 0, 'mul')  # keep products small: atom * something shallow
                    rr = self.operand(INT, env, 0, 'mul')
                return '%s %s %s' % (l, op, rr)
            if k < .65 and self.opts['bitwise']:
                op = r.choice(['&', '|', '^'])
                self.use('bitwise')
                return '%s %s %s' % (self.expr(INT, env, d - 1), op, self.expr(INT, env, d - 1))
            if k < .72 and self.opts['bitwise']:
                self.use('shift')
                return '(%s %s %s)' % (self.operand(INT, env, 0, 'mul'), r.choice(['<<', '>>']), r.choice(['1', '2', '3']))
            if k < .8:
                self.use('mod')
                return '(%s & 255) %% %s' % (self.operand(INT, env, d - 1, 'mul'), r.choice(['3', '7', '10']))      # (the mask covers the whole operand: | and ^ bind weaker than &)
            if k < .88:
                self.use('unary')
                return '-%s' % self.operand(INT, env, d - 1, 'unary')
            if k < .96 and self.opts['ternary']:
                self.use('ternary')
                return '(%s if %s else %s)' % (self.expr(INT, env, d - 1), self.expr(BOOL, env, d - 1), self.expr(INT, env, d - 1))
            return '(%s)' % self.expr(INT, env, d - 1)
        if t == BOOL:
            k = r.random()
            if k < .4:
                self.use('compare')
                op = r.choice(['<', '>', '<=', '>=', '==', '!='])
                l, rr = self.expr(INT, env, d - 1), self.expr(INT, env, d - 1)
                # len(x) is size_t in the emitted C++: a comparison with a negative value differs (recorded finding
                # len-unsigned-compare, replayed by C01 as a directed shape); generated comparisons convert explicitly
                if 'len(' in l:
                    l = 'int(%s)' % l
                if 'len(' in rr:
                    rr = 'int(%s)' % rr
                return '%s %s %s' % (l, op, rr)
            if k < .65:
                self.use('boolop')
                op = r.choice(['and', 'or'])
                return '%s %s %s' % (self.boperand(env, d - 1, op), op, self.boperand(env, d - 1, op))
            if k < .8:
                self.use('not')
                return 'not %s' % self.boperand(env, d - 1, 'not')
            if k < .9 and self.opts['strs']:
                self.use('strcmp')
                return '%s %s %s' % (self.atom(STR, env), r.choice(['==', '!=']), self.atom(STR, env))
            return '(%s)' % self.expr(BOOL, env, d - 1)
        if t == FLOAT:
            k = r.random()
            if k < .6:
                self.use('farith')
                return '%s %s %s' % (self.expr(FLOAT, env, d - 1), r.choice(['+', '-', '*']), self.operand(FLOAT, env, 0, 'mul'))
            if k < .8:
                self.use('float_cast')
                return 'float(%s)' % self.expr(INT, env, d - 1)
            return '(%s)' % self.expr(FLOAT, env, d - 1)
        if t == STR:
            k = r.random()
            if k < .5:
                self.use('strcat')
                left, right = self.expr(STR, env, d - 1), self.atom(STR, env)
                if not self.opts['lit_concat'] and left[:1] in '\'"' and right[:1] in '\'"':
                    svars = [v for v, vt in env.items() if vt == STR]
                    left = self.rnd.choice(svars) if svars else 'str(%s)' % self.atom(INT, env)
                return '%s + %s' % (left, right)
            if k < .7:
                self.use('str_cast')
                return 'str(%s)' % self.expr(INT, env, d - 1)
            return self.atom(STR, env)
        if t == 'list[int]':
            self.use('list_literal')
            return '[%s]' % ', '.join(self.expr(INT, env, d - 1) for _ in range(r.randint(0, 3)))
        raise KeyError(t)

    def operand(self, t: str, env, d, pos: str) -> str:
        e = self.expr(t, env, d)
        if self._is_atomic(e):
            return e
        return '(%s)' % e

    def boperand(self, env, d, pos: str) -> str:
        e = self.expr(BOOL, env, d)
        if self._is_atomic(e) or (pos in ('and', 'or') and self.rnd.random() < .5 and (' and ' not in e and ' or ' not in e and ' if ' not in e)):
            return e   # comparisons and `not` bind tighter than and/or: no parentheses needed
        return '(%s)' % e

    @staticmethod
    def _is_atomic(e: str) -> bool:
        if e.startswith('(') and e.endswith(')'):
            depth = 0
            for i, c in enumerate(e):
                depth += c == '('
                depth -= c == ')'
                if depth == 0 and i < len(e) - 1:
                    return False
            return True
        return all(c.isalnum() or c in '_.\'"' for c in e) or (e.startswith(("'", '"')) and e.count(e[0]) == 2) \
            or (e.endswith(')') and e.split('(')[0].isidentifier() and e.count('(') == 1)

    # ---- statements --------------------------------------------------------------------------
    def block(self, env: dict[str, str], ret: str, d: int, ind: str, in_loop: bool = False) -> list[str]:
        r = self.rnd
        out: list[str] = []
        env = dict(env)
        for _ in range(r.randint(1, 4)):
            k = r.random()
            if self.opts['ext'] and r.random() < .2:
                out.extend(self.ext_stmt(env, ind, d))
                continue
            if k < .3:
                t = r.choice([INT, INT, BOOL, FLOAT, STR] if self.opts['floats'] and self.opts['strs'] else [INT, INT, BOOL])
                v = self.fresh('v')
                self.use('decl')
                if r.random() < .5:
                    out.append('%s%s: %s = %s' % (ind, v, t, self.expr(t, env)))
                else:
                    out.append('%s%s = %s' % (ind, v, self.expr(t, env)))
                env[v] = t
            elif k < .45:
                cands = [v for v, vt in env.items() if vt == INT and v not in self.readonly and '.' not in v]
                if cands:
                    v = r.choice(cands)
                    if r.random() < .5:
                        self.use('aug_assign')
                        out.append('%s%s %s %s' % (ind, v, r.choice(['+=', '-=']), self.expr(INT, env, 1)))
                    else:
                        self.use('assign')
                        out.append('%s%s = %s' % (ind, v, self.expr(INT, env)))
            elif k < .62 and d > 0:
                self.use('if')
                out.append('%sif %s:' % (ind, self.expr(BOOL, env)))
                out.extend(self.block(env, ret, d - 1, ind + '\t', in_loop))
                for _ in range(r.randint(0, 2) if r.random() < .4 else 0):
                    self.use('elif')
                    out.append('%selif %s:' % (ind, self.expr(BOOL, env)))
                    out.extend(self.block(env, ret, d - 1, ind + '\t', in_loop))
                if r.random() < .5:
                    self.use('else')
                    out.append('%selse:' % ind)
                    out.extend(self.block(env, ret, d - 1, ind + '\t', in_loop))
            elif k < .72 and d > 0 and self.opts['loops']:
                self.use('for_range')
                i = self.fresh('i')
                bound_atom = self.atom(INT, env)
                out.append('%sfor %s in range(%s):' % (ind, i, r.choice(['3', '4', '(%s & 3)' % bound_atom, '%s & 3' % bound_atom])))
                self.readonly.add(i)  # loop variable readable, not assignable
                if bound_atom in env:
                    # range(n) is evaluated once by Python, `i < n` on every iteration by the emitted C++ (finding range-bound-reevaluated,
                    # replayed by C01 as a directed shape): generated bodies do not assign to a variable the bound reads
                    self.readonly.add(bound_atom)
                body = self.block({**env, i: INT}, ret, d - 1, ind + '\t', True)
                out.extend(body)
            elif k < .78 and d > 0 and self.opts['loops']:
                self.use('while')
                c = self.fresh('w')
                out.append('%s%s = 0' % (ind, c))
                out.append('%swhile %s < %s:' % (ind, c, r.choice(['2', '3'])))
                out.append('%s\t%s += 1' % (ind, c))
                self.readonly.add(c)
                out.extend(self.block({**env, c: INT}, ret, d - 1, ind + '\t', True))
            elif k < .86 and self.opts['lists']:
                self.use('list_decl')
                v = self.fresh('xs')
                out.append('%s%s = [%s]' % (ind, v, ', '.join(self.expr(INT, env, 1) for _ in range(r.randint(1, 3)))))
                env[v] = 'list[int]'
                if r.random() < .5:
                    self.use('list_append')
                    out.append('%s%s.append(%s)' % (ind, v, self.expr(INT, env, 1)))
                if r.random() < .5:
                    self.use('index')
                    w = self.fresh('e')
                    out.append('%s%s = %s[0]' % (ind, w, v))
                    env[w] = INT
                if r.random() < .4 and d > 0 and self.opts['loops']:
                    self.use('for_list')
                    it = self.fresh('it')
                    out.append('%sfor %s in %s:' % (ind, it, v))
                    out.extend(self.block({**env, it: INT}, ret, d - 1, ind + '\t', True))
            elif k < .9 and in_loop:
                self.use('break_continue')
                out.append('%sif %s:' % (ind, self.expr(BOOL, env, 1)))
                out.append('%s\t%s' % (ind, r.choice(['break', 'continue'])))
            elif k < .93 and self.usable_classes:
                c = r.choice(self.usable_classes)
                self.use('class_use')
                o = self.fresh('o')
                if c.get('factory') and r.random() < .5:
                    out.append('%s%s = %s(%s)' % (ind, o, c['factory'], self.expr(INT, env, 1)))
                else:
                    out.append('%s%s = %s(%s)' % (ind, o, c['name'], ', '.join(self.expr(t, env, 1) for _, t in c['cparams'])))
                if c['methods']:
                    mname, params, rt = r.choice(c['methods'])
                    v = self.fresh('r')
                    out.append('%s%s = %s.%s(%s)' % (ind, v, o, mname, ', '.join(self.expr(pt, env, 1) for _, pt in params)))
                    env[v] = rt
                f0 = r.choice(sorted(c['fields']))
                v2 = self.fresh('g')
                out.append('%s%s = %s.%s' % (ind, v2, o, f0))
                env[v2] = c['fields'][f0]
            elif k < .95 and self.funcs:
                f, params, rt = r.choice(self.funcs)
                self.use('call')
                v = self.fresh('r')
                out.append('%s%s = %s(%s)' % (ind, v, f, ', '.join(self.expr(pt, env, 1) for _, pt in params)))
                env[v] = rt
            else:
                self.use('return_early')
                out.append('%sif %s:' % (ind, self.expr(BOOL, env, 1)))
                out.append('%s\treturn %s' % (ind, self.expr(ret, env, 1)))
        if not out:
            self.use('pass')
            out.append('%spass' % ind)
        return out

    # ---- extended statements (opts['ext']): each one ends by binding a fresh int variable ----------
    def int_atoms(self, env, n):
        cands = [v for v, vt in env.items() if vt == INT]
        return [self.rnd.choice(cands) if cands else self.lit(INT) for _ in range(n)]

    def ext_stmt(self, env: dict[str, str], ind: str, d: int, kind: str | None = None) -> list[str]:
        r = self.rnd
        if kind is None and self.opts.get('wide', True) and r.random() < .08:
            # a call of a function whose signature has eleven entries on one level; the result is typed from its return type
            if not getattr(self, 'need_wide', False):
                self.need_wide = self.fresh('wide')
            self.use('ext_wide')
            b, v = self.fresh('b'), self.fresh('x')
            out = ['%s%s = %s(%s, 2.5)' % (ind, b, self.need_wide, ', '.join(self.int_atoms(env, 9))), '%s%s = 1 if %s else 0' % (ind, v, b)]
            env[v] = INT
            self.last_ext_var = v
            return out
        kind = kind or r.choice(['closure', 'closure', 'lambda_arg', 'lambda_iife', 'dict', 'dict_loop', 'dict_comp', 'tuple', 'enumerate', 'list_ops', 'casts', 'try', 'nested', 'list_comp', 'default_arg', 'str_ops', 'dict_views', 'list_fill', 'float_mix', 'name_reuse'])
        self.use('ext_' + kind)
        out: list[str] = []
        v = self.fresh('x')
        e1, e2 = self.expr(INT, env, 1), self.expr(INT, env, 1)
        if kind == 'closure':
            f = self.fresh('inner')
            q = self.fresh('q')
            caps = self.int_atoms(env, r.randint(2, 3))
            out.append('%sdef %s(%s: int) -> int:' % (ind, f, q))
            out.append('%s\treturn %s %s %s' % (ind, q, r.choice(['+', '-']), ' + '.join(caps)))
            out.append('%s%s = %s(%s)' % (ind, v, f, e1))
        elif kind == 'lambda_arg':
            self.need_ap1 = True
            q = self.fresh('q')
            caps = self.int_atoms(env, 2)
            out.append('%s%s = ap1(lambda %s: %s * %s + %s, %s)' % (ind, v, q, q, caps[0], caps[1], e1))
        elif kind == 'lambda_iife':
            q = self.fresh('q')
            caps = self.int_atoms(env, 2)
            out.append('%s%s = (lambda %s: %s + %s - %s)(%s)' % (ind, v, q, q, caps[0], caps[1], e1))
        elif kind in ('dict', 'dict_loop', 'dict_comp'):
            dn = self.fresh('d')
            out.append("%s%s = {'x': %s, 'y': %s}" % (ind, dn, e1, e2))
            if r.random() < .6:
                out.append("%s%s['z'] = %s" % (ind, dn, self.expr(INT, env, 1)))
            if kind == 'dict':
                form = r.choice(["%s['x'] + len(%s)", "%s.get('y', 0) + len(%s)", "(1 if 'z' in %s else 0) + %s['y']"])
                out.append('%s%s = %s' % (ind, v, form % (dn, dn)))
            elif kind == 'dict_loop':
                out.append('%s%s = 0' % (ind, v))
                k2, v2 = self.fresh('k'), self.fresh('w')
                m = r.random()
                if m < .4:
                    out.append('%sfor %s, %s in %s.items():' % (ind, k2, v2, dn))
                    out.append('%s\t%s += %s + len(%s)' % (ind, v, v2, k2))
                elif m < .7:
                    out.append('%sfor %s in %s.values():' % (ind, v2, dn))
                    out.append('%s\t%s += %s' % (ind, v, v2))
                else:
                    out.append('%sfor %s in %s.keys():' % (ind, k2, dn))
                    out.append('%s\t%s += len(%s)' % (ind, v, k2))
            else:
                d2, k2, v2 = self.fresh('d'), self.fresh('k'), self.fresh('w')
                out.append('%s%s = {%s: %s + 1 for %s, %s in %s.items()}' % (ind, d2, k2, v2, k2, v2, dn))
                out.append("%s%s = %s['x'] + %s['y']" % (ind, v, d2, d2))
        elif kind == 'dict_views':
            dn, vs, ks, w, k2 = self.fresh('d'), self.fresh('vs'), self.fresh('ks'), self.fresh('w'), self.fresh('k')
            out.append('%s%s = {1: %s, 2: %s}' % (ind, dn, e1, e2))
            out.append('%s%s = [%s for %s in %s.values()]' % (ind, vs, w, w, dn))
            out.append('%s%s = [%s * 10 for %s in %s.keys()]' % (ind, ks, k2, k2, dn))
            out.append('%s%s = %s[0] - %s[1] + %s[1]' % (ind, v, vs, vs, ks))
        elif kind == 'tuple':
            t, u, w = self.fresh('t'), self.fresh('u'), self.fresh('s')
            out.append('%s%s = (%s, %s)' % (ind, t, e1, self.atom(STR, env)))
            out.append('%s%s, %s = %s' % (ind, u, w, t))
            out.append('%s%s = %s + len(%s) + %s[0]' % (ind, v, u, w, t))
        elif kind == 'enumerate':
            xs, i, x = self.fresh('xs'), self.fresh('i'), self.fresh('e')
            out.append('%s%s = [%s, %s, %s]' % (ind, xs, e1, e2, self.lit(INT)))
            out.append('%s%s = 0' % (ind, v))
            out.append('%sfor %s, %s in enumerate(%s):' % (ind, i, x, xs))
            out.append('%s\t%s += %s * %s' % (ind, v, i, x))
        elif kind == 'list_ops':
            xs, zs = self.fresh('xs'), self.fresh('zs')
            out.append('%s%s = [%s, %s, %s]' % (ind, xs, e1, e2, self.lit(INT)))
            m = r.random()
            if m < .3:
                out.append('%s%s = %s[1:]' % (ind, zs, xs))
                out.append('%s%s = len(%s) + %s[0]' % (ind, v, zs, zs))
            elif m < .55:
                out.append('%s%s = %s.pop() + len(%s)' % (ind, v, xs, xs))
            elif m < .8:
                out.append('%s%s.insert(0, %s)' % (ind, xs, self.lit(INT)))
                out.append('%s%s = %s[0] + %s[3]' % (ind, v, xs, xs))
            else:
                out.append('%s%s = 1 if %s in %s else 0' % (ind, v, self.int_atoms(env, 1)[0], xs))
        elif kind == 'casts':
            out.append("%s%s = int(%s) + int('%d') + int(float(%s))" % (ind, v, r.choice(['2.5', '0.5', '7.0']), r.choice([0, 12, 305]), self.int_atoms(env, 1)[0]))
        elif kind == 'try':
            ex = self.fresh('ex')
            out.append('%s%s = 0' % (ind, v))
            out.append('%stry:' % ind)
            out.append('%s\tif %s:' % (ind, self.expr(BOOL, env, 1)))
            out.append("%s\t\traise RuntimeError('%s')" % (ind, r.choice(['bad', 'too big'])))
            out.append('%s\t%s += 1' % (ind, v))
            out.append('%sexcept RuntimeError as %s:' % (ind, ex))
            out.append('%s\t%s += 100' % (ind, v))
        elif kind == 'nested':
            m = self.fresh('m')
            out.append("%s%s = {'k': [%s, %s]}" % (ind, m, e1, e2))
            out.append("%s%s = %s['k'][1] + len(%s['k'])" % (ind, v, m, m))
        elif kind == 'list_comp':
            xs, ys, x = self.fresh('xs'), self.fresh('ys'), self.fresh('e')
            out.append('%s%s = [%s, %s, %s]' % (ind, xs, e1, e2, self.lit(INT)))
            out.append('%s%s = [%s * 2 for %s in %s if %s > 1]' % (ind, ys, x, x, xs, x))
            out.append('%s%s = len(%s)' % (ind, v, ys))
        elif kind == 'name_reuse':
            # one name three times: a temporary of an earlier block, a variable of the function, re-assigned in a nested block
            t, i = self.fresh('t'), self.fresh('i')
            out.append('%sif %s:' % (ind, self.expr(BOOL, env, 1)))
            out.append('%s\t%s = %s' % (ind, t, e1))
            out.append('%s%s = %s' % (ind, t, e2))
            out.append('%sfor %s in range(2):' % (ind, i))
            out.append('%s\t%s = %s + %s * 100' % (ind, t, self.int_atoms(env, 1)[0], i))
            out.append('%s%s = %s' % (ind, v, t))
        elif kind == 'list_fill':
            # [v] * n: annotated and inferred declarations, int and bool elements
            xs, a = self.fresh('xs'), self.int_atoms(env, 1)[0]
            cnt = r.choice(['(%s & 3) + 2' % a, '3', '%s & 1 | 2' % a])
            zs = self.fresh('zs')
            out.append('%s%s: list[int] = [%s] * (%s)' % (ind, xs, e1, cnt))
            out.append('%s%s = [%s] * (%s)' % (ind, zs, e2, cnt))
            out.append('%s%s = len(%s) * 1000 + %s[0] + %s[1] + len(%s) * 100 + %s[1]' % (ind, v, xs, xs, xs, zs, zs))
        elif kind == 'float_mix':
            # one chain of a single precedence level that mixes int and float operands; the result type is inferred
            y, a, b = self.fresh('y'), self.int_atoms(env, 1)[0], self.int_atoms(env, 1)[0]
            ia, ib, fl = '(%s & 63)' % a, '(%s & 31)' % b, r.choice(['1.5', '0.5', '2.5'])
            op = r.choice(['*', '+', '-'])
            y2 = self.fresh('y')
            order = r.choice([(fl, ia, ib), (ia, ib, fl), (ia, fl, fl)])
            out.append('%s%s = %s' % (ind, y, (' %s ' % op).join((ia, fl, ib))))
            out.append('%s%s = %s' % (ind, y2, (' %s ' % r.choice(['*', '+', '-'])).join(order)))
            out.append('%s%s = int(%s * 2.0) + int(%s + 100.5) + int(%s * 2.0)' % (ind, v, y, y, y2))
        elif kind == 'default_arg':
            self.need_dflt = True
            out.append('%s%s = dflt(%s) + dflt(%s, %s)' % (ind, v, e1, e2, self.lit(INT)))
        else:
            sv = self.atom(STR, env)
            if sv[:1] in '\'"':
                t = self.fresh('s')
                out.append('%s%s: str = %s' % (ind, t, sv))
                sv = t
            out.append("%s%s = len(%s) + len(str(%s) + %s) + (1 if len(%s) > %s else 0)" % (ind, v, sv, e1, sv, sv, self.lit(INT)))
        env[v] = INT
        self.last_ext_var = v
        return out

    def function(self, ind: str = '', name: str | None = None, self_fields: dict[str, str] | None = None) -> list[str]:
        r = self.rnd
        name = name or self.fresh('f')
        nparams = r.randint(1, 3)
        params = []
        for _ in range(nparams):
            params.append((self.fresh('p'), r.choice([INT, INT, INT, BOOL] + ([FLOAT] if self.opts['floats'] else []) + ([STR] if self.opts['strs'] else []))))
        rt = r.choice([INT, INT, BOOL] + ([FLOAT] if self.opts['floats'] else []) + ([STR] if self.opts['strs'] else []))
        env = {p: t for p, t in params}
        if self_fields:
            env.update({'self.' + k: t for k, t in self_fields.items()})
        sig = ', '.join((['self'] if self_fields is not None else []) + ['%s: %s' % (p, t) for p, t in params])
        # forced extended constructs: first statements of the body, their results are part of the returned value
        observed: list[str] = []
        head: list[str] = []
        if self.force_ext and self.opts['ext'] and self_fields is None:      # (module-level functions are entry points: their value is observed)
            rt = INT
            henv = dict(env)
            for _ in range(min(2, len(self.force_ext))):
                head.extend(self.ext_stmt(henv, ind + '\t', 2, kind=self.force_ext.pop(0)))
                observed.append(self.last_ext_var)
        out = ['%sdef %s(%s) -> %s:' % (ind, name, sig, rt)]
        out.extend(head)
        if not observed:      # (a function that carries forced constructs has no other statements: an early return would hide their values)
            out.extend(self.block(env, rt, 2, ind + '\t'))
        # recompute env visible at the end: only parameters are certainly bound
        ret = self.expr(rt, {p: t for p, t in env.items()})
        if observed:
            ret = '(%s) + %s' % (ret, ' + '.join(observed))
        out.append('%s\treturn %s' % (ind, ret))
        if self_fields is None:
            self.funcs.append((name, params, rt))
        return out, name, params, rt

    def klass(self) -> list[str]:
        r = self.rnd
        cname = self.fresh('C')
        self.use('class')
        fields = {self.fresh('fld'): r.choice([INT, INT, BOOL, STR]) for _ in range(r.randint(1, 3))}
        out = ['class %s:' % cname]
        for f, t in fields.items():
            out.append('\t%s: %s' % (f, t))
        out.append('')
        cparams = [(self.fresh('p'), t) for t in fields.values()]
        out.append('\tdef __init__(self, %s) -> None:' % ', '.join('%s: %s' % (p, t) for p, t in cparams))
        for (f, _), (p, _) in zip(fields.items(), cparams):
            out.append('\t\tself.%s = %s' % (f, p))
        methods = []
        for _ in range(r.randint(1, 2)):
            out.append('')
            # some methods carry the name of a list / dict / str method (call sites are specialised by receiver type, not by name)
            taken = [m[0] for m in methods]
            libname = [n for n in ['pop', 'insert', 'copy', 'sort', 'extend', 'get', 'keys', 'values', 'append', 'find', 'count', 'index'] if n not in taken]
            body, mname, params, rt = self.function('\t', r.choice(libname) if (r.random() < .3 or (self.opts.get('force_libname') and not methods)) else self.fresh('m'), fields)
            out.extend(body)
            methods.append((mname, params, rt))
            self.use('method')
        self.classes.append(dict(name=cname, fields=fields, cparams=cparams, methods=methods))
        callers: list[str] = []
        for mname, params, rt in methods:
            if not mname[-1].isdigit():
                # a call site of the method inside the program (the entry points call methods from the test driver only)
                fn = self.fresh('use')
                callers += ['', 'def %s(%s) -> %s:' % (fn, ', '.join(['o: %s' % cname] + ['%s: %s' % (q, t) for q, t in params]), rt),
                            '\treturn o.%s(%s)' % (mname, ', '.join(q for q, _ in params))]
                self.use('libname_method_call')
        self.usable_classes.append(self.classes[-1])
        if self.opts['ext'] and r.random() < .6:
            # a factory function returning an instance (its name is an ordinary user identifier)
            mk = self.fresh('mk')
            q = self.fresh('p')
            out.append('')
            out.append('def %s(%s: int) -> %s:' % (mk, q, cname))
            out.append('\treturn %s(%s)' % (cname, ', '.join(q if t == INT else self.lit(t) for t in fields.values())))
            self.classes[-1]['factory'] = mk
        if self.opts['ext'] and self.opts.get('subclass', True) and (self.opts.get('force_subclass') or r.random() < .4):
            out.append('')
            out.extend(self.subclass(self.classes[-1]))
        out.extend(callers)
        return out

    def subclass(self, base: dict) -> list[str]:
        """class D(C): one more int field, __init__ through super().__init__, a method that reads a base field and calls a base method"""
        r = self.rnd
        dname, ext = self.fresh('D'), self.fresh('ext')
        self.use('subclass')
        q1, q2, a = self.fresh('p'), self.fresh('p'), self.fresh('p')
        out = ['class %s(%s):' % (dname, base['name']), '\t%s: int' % ext, '']
        out.append('\tdef __init__(self, %s: int, %s: int) -> None:' % (q1, q2))
        out.append('\t\tsuper().__init__(%s)' % ', '.join(('%s + 1' % q1) if t == INT else self.lit(t) for t in base['fields'].values()))
        out.append('\t\tself.%s = %s' % (ext, q2))
        out.append('')
        mname = self.fresh('m')
        ints = [f for f, t in base['fields'].items() if t == INT]
        strs = [f for f, t in base['fields'].items() if t == STR]
        terms = ['self.%s * 2' % ext, a] + ['self.%s' % f for f in ints[:1]] + ['len(self.%s)' % f for f in strs[:1]]
        bm = next(((m, ps) for m, ps, rt in base['methods'] if rt == INT and all(t in (INT, BOOL) for _, t in ps)), None)
        if bm:
            terms.append('self.%s(%s)' % (bm[0], ', '.join(a if t == INT else 'True' for _, t in bm[1])))
        out.append('\tdef %s(self, %s: int) -> int:' % (mname, a))
        out.append('\t\treturn %s' % ' + '.join(terms))
        base['subclass'] = dict(name=dname, method=mname)
        if self.opts.get('force_subclass') or r.random() < .6:
            # a third level: members of the grandparent reached through the grandchild
            ename, top, q3, a3, m3 = self.fresh('E'), self.fresh('top'), self.fresh('p'), self.fresh('p'), self.fresh('m')
            out += ['', 'class %s(%s):' % (ename, dname), '\t%s: int' % top, '', '\tdef __init__(self, %s: int) -> None:' % q3,
                    '\t\tsuper().__init__(%s + 2, %s)' % (q3, q3), '\t\tself.%s = %s' % (top, q3), '']
            terms3 = ['self.%s' % top, 'self.%s' % ext, 'self.%s(%s)' % (mname, a3)] + ['self.%s' % f for f in ints[:1]]
            if bm:
                terms3.append('self.%s(%s)' % (bm[0], ', '.join(a3 if t == INT else 'True' for _, t in bm[1])))
            out += ['\tdef %s(self, %s: int) -> int:' % (m3, a3), '\t\treturn %s' % ' + '.join(terms3)]
            base['subclass']['deep'] = dict(name=ename, method=m3)
        return out

    def enum(self) -> list[str]:
        ename = self.fresh('E')
        self.use('enum')
        members = [self.fresh('M') for _ in range(self.rnd.randint(2, 4))]
        out = ['class %s(Enum):' % ename]
        for i, m in enumerate(members):
            out.append('\t%s = %d' % (m, i * self.rnd.choice([1, 2])))
        self.enums.append((ename, members))
        return out

    def args_for(self, params) -> list[tuple]:
        r = self.rnd
        vecs = []
        for _ in range(3):
            vec = []
            for _, t in params:
                if t == INT:
                    vec.append(r.choice([0, 1, 2, 3, 5, 9, 12, 100, 255]))
                elif t == BOOL:
                    vec.append(r.choice([True, False]))
                elif t == FLOAT:
                    vec.append(r.choice([0.0, 0.5, 1.0, 2.5, 4.0]))
                else:
                    vec.append(r.choice(['', 'a', 'bc', 'hello', 'x y']))
            vecs.append(tuple(vec))
        return vecs

    def module(self, nfuncs: int = 3) -> Program:
        r = self.rnd
        lines: list[str] = list(self.header)
        entries = []
        if self.opts['classes'] and r.random() < .35:
            lines.extend(self.klass())
            lines.append('')
        if self.opts['enums'] and r.random() < .3:
            lines.insert(0, 'from enum import Enum')
            lines.append('')
            lines.extend(self.enum())
            lines.append('')
        for _ in range(nfuncs):
            body, name, params, rt = self.function()
            lines.extend(body)
            lines.append('')
            entries.append((name, self.args_for(params), rt))
        if self.opts['classes'] and (self.opts.get('force_subclass') or r.random() < .6):
            lines.extend(self.klass())
            lines.append('')
            c = self.classes[-1]
            for mname, params, rt in c['methods']:
                entries.append(('%s(%s).%s' % (c['name'], ', '.join(self.lit(t) for _, t in c['cparams']), mname), self.args_for(params), rt))
            if c.get('subclass'):
                d = c['subclass']
                entries.append(('%s(%s, %s).%s' % (d['name'], self.lit(INT), self.lit(INT), d['method']), self.args_for([('a', INT)]), INT))
                for mname, params, rt in c['methods'][:1]:
                    entries.append(('%s(%s, %s).%s' % (d['name'], self.lit(INT), self.lit(INT), mname), self.args_for(params), rt))
                if d.get('deep'):
                    entries.append(('%s(%s).%s' % (d['deep']['name'], self.lit(INT), d['deep']['method']), self.args_for([('a', INT)]), INT))
                    for mname, params, rt in c['methods'][:1]:
                        entries.append(('%s(%s).%s' % (d['deep']['name'], self.lit(INT), mname), self.args_for(params), rt))
        head: list[str] = []
        if getattr(self, 'need_wide', False):
            head += ['def %s(%s, p9: float) -> bool:' % (self.need_wide, ', '.join('p%d: int' % k for k in range(9))), '\treturn p0 > p8', '']
        if getattr(self, 'need_ap1', False):
            head += ['from collections.abc import Callable', '', 'def ap1(fn: Callable[[int], int], v: int) -> int:', '\treturn fn(v)', '']
        if getattr(self, 'need_dflt', False):
            head += ['def dflt(a: int, b: int = 3) -> int:', '\treturn a * 2 - b', '']
        if head:
            at = max([i for i, l in enumerate(lines) if l.startswith(('from ', 'import '))] + [-1]) + 1
            lines[at:at] = ([''] if at else []) + head
        return Program('\n'.join(lines) + '\n', entries, dict(self.constructs), list(self.names))


def gen_program(rnd: random.Random, nfuncs: int = 3, opts: dict | None = None) -> Program:
    return Gen(rnd, opts).module(nfuncs)


def gen_modules(rnd: random.Random, n: int = 2, pkg: str = 'genpkg', opts: dict | None = None) -> dict[str, Program]:
    """n modules; module i imports functions and classes of earlier modules (a chain/diamond of imports)"""
    out: dict[str, Program] = {}
    exported: list[tuple[str, list, list]] = []
    uid = 0
    for i in range(n):
        g = Gen(rnd, opts)
        g.uid = uid
        deps = [e for e in exported if rnd.random() < .6] if exported else []
        for mod, funcs, classes in deps:
            names = [f[0] for f in funcs] + [c['name'] for c in classes] + [c['factory'] for c in classes if c.get('factory')]
            if names:
                g.header.append('from %s import %s' % (mod, ', '.join(names)))
                g.funcs.extend(funcs)
                g.usable_classes.extend(classes)
        if g.header:
            g.header.append('')
        nf0 = len(g.funcs)
        p = g.module(rnd.randint(1, 3))
        uid = g.uid
        # module names in string-prefix relation (m1 / m10 / m1x): bookkeeping keyed by path prefixes shows up
        name = '%s.%s' % (pkg, ['m1', 'm2', 'm10', 'm1x', 'm20', 'm100'][i] if i < 6 else 'm%d' % i)
        out[name] = p
        exported.append((name, g.funcs[nf0:], list(g.classes)))
    return out
