"""Fresh-process reference: transpile the given in-memory modules in the given order, print JSON.
stdin: {"sources": {module: text}, "order": [module, ...]}"""
import json
import os
import sys
import tempfile

sys.path.insert(0, os.path.dirname(os.path.abspath(__file__)))
import lib  # noqa: E402

os.chdir(os.environ.get('TRANP_SCRATCH') or tempfile.mkdtemp(prefix='tranp-verif.', dir='/var/tmp'))
import tsession  # noqa: E402

req = json.load(sys.stdin)
s = tsession.Session(req['sources'])
out = {}
for m in req['order']:
    try:
        out[m] = ['ok', s.transpile(m)]
    except Exception as e:
        out[m] = [type(e).__name__, str(e)[:300]]
json.dump(out, sys.stdout)
