"""Sentences of data/syntax/py_gram.lark (the Python subset of tranp's own parsing engine): statements and
expressions of bounded depth, rendered the way the own tokenizer needs them (a blank after a binary minus)."""
import random

NAMES = ['a', 'b', 'c', 'x', 'y', 'foo', 'bar', 'n1', 'val', 'self']
KEYWORDS_OK = NAMES


class OG:
    def __init__(self, rnd):
        self.rnd = rnd

    def name(self):
        return self.rnd.choice(NAMES)

    def atom(self, d):
        r = self.rnd
        k = r.random()
        if d <= 0 or k < .45:
            return r.choice([self.name(), self.name(), str(r.choice([0, 1, 2, 10, 305])), r.choice(['1.5', '0.25', '10.0']),
                             r.choice(["'s'", '"t u"', "''", "'a\\'b'"]), 'True', 'False', 'None'])
        if k < .55:
            return '[' + ', '.join(self.expr(d - 1) for _ in range(r.randint(0, 3))) + ']'
        if k < .62:
            return '(' + ', '.join(self.expr(d - 1) for _ in range(r.randint(2, 3))) + ')'
        if k < .7:
            return '{' + ', '.join('%s: %s' % (r.choice(["'k'", '"key"']), self.expr(d - 1)) for _ in range(r.randint(0, 2))) + '}'
        return '(' + self.expr(d - 1) + ')'

    def primary(self, d):
        r = self.rnd
        e = self.atom(d)
        for _ in range(r.choice([0, 0, 0, 1, 1, 2])):
            k = r.random()
            if not (e[0].isalpha() or e[0] in '([{_' or e[-1] in ')]}') or e in ('True', 'False', 'None'):
                break
            if k < .4:
                e = e + '.' + self.name()
            elif k < .75:
                args = []
                for _ in range(r.randint(0, 3)):
                    m = r.random()
                    if m < .6:
                        args.append(self.expr(d - 1))
                    elif m < .8:
                        args.append(self.name() + '=' + self.expr(d - 1))
                    else:
                        args.append(r.choice(['*', '**']) + self.primary(0))
                # CPython wants positional before keyword arguments
                args.sort(key=lambda a: 0 if not ('=' in a.split('(')[0] and a.split('=')[0].isidentifier()) and not a.startswith('**') else 1)
                e = e + '(' + ', '.join(args) + ')'
            else:
                e = e + '[' + ':'.join(self.expr(d - 1) for _ in range(r.choice([1, 1, 2, 3]))) + ']'
        return e

    def unary(self, d):
        if self.rnd.random() < .15:
            return '-' + self.primary(d)
        return self.primary(d)

    def chain(self, sub, ops, d, p=.3):
        e = sub(d)
        while self.rnd.random() < p and d > 0:
            e = e + ' ' + self.rnd.choice(ops) + ' ' + sub(d - 1)
            p *= .6
        return e

    def calc_mul(self, d):
        return self.chain(self.unary, ['*', '/', '%'], d)

    def calc_sum(self, d):
        return self.chain(self.calc_mul, ['+', '-'], d)

    def comp(self, d):
        return self.chain(self.calc_sum, ['<', '>', '==', '<=', '>=', '!=', 'in', 'not in', 'is', 'is not'], d, .3)

    def comp_not(self, d):
        return ('not ' if self.rnd.random() < .15 else '') + self.comp(d)

    def comp_and(self, d):
        return self.chain(self.comp_not, ['and'], d, .25)

    def comp_or(self, d):
        return self.chain(self.comp_and, ['or'], d, .25)

    def expr_move(self, d):
        if self.rnd.random() < .06 and d > 0:
            return '(' + self.name() + ' := ' + self.comp_or(d - 1) + ')'
        return self.comp_or(d)

    def ternary(self, d):
        if self.rnd.random() < .12 and d > 0:
            return '%s if %s else %s' % (self.expr_move(d - 1), self.expr_move(d - 1), self.expr_move(d - 1))
        return self.expr_move(d)

    def expr(self, d):
        if self.rnd.random() < .07 and d > 0:
            params = ', '.join(self.name() for _ in range(self.rnd.randint(0, 2)))
            return '(lambda%s: %s)' % (' ' + params if params else '', self.ternary(d - 1))
        return self.ternary(d)

    def target(self, d):
        k = self.rnd.random()
        if k < .6:
            return self.name()
        if k < .8:
            return self.name() + '.' + self.name()
        return self.name() + '[' + self.expr(0) + ']'

    def block(self, d, ind):
        return ''.join(self.stmt(d, ind) for _ in range(self.rnd.randint(1, 2)))

    def stmt(self, d, ind):
        r = self.rnd
        k = r.random()
        if d <= 0 or k < .55:
            m = r.random()
            if m < .5:
                return '%s%s = %s\n' % (ind, self.target(2), self.expr(self.rnd.choice([0, 1, 1, 2])))
            if m < .65:
                return '%s%s\n' % (ind, self.expr(self.rnd.choice([0, 1, 1, 2])))
            if m < .75:
                return '%sreturn%s\n' % (ind, ' ' + self.expr(self.rnd.choice([0, 1, 1, 2])) if r.random() < .7 else '')
            if m < .82:
                return '%sraise %s\n' % (ind, self.primary(1))
            return '%s%s\n' % (ind, r.choice(['break', 'continue', '...']))
        if k < .75:
            s = '%sif %s:\n%s' % (ind, self.expr(self.rnd.choice([0, 1, 1, 2])), self.block(d - 1, ind + '\t'))
            for _ in range(r.choice([0, 0, 1, 2])):
                s += '%selif %s:\n%s' % (ind, self.expr(self.rnd.choice([0, 1, 1, 2])), self.block(d - 1, ind + '\t'))
            if r.random() < .5:
                s += '%selse:\n%s' % (ind, self.block(d - 1, ind + '\t'))
            return s
        if k < .83:
            return '%sfor %s in %s:\n%s' % (ind, ', '.join(self.name() for _ in range(r.randint(1, 2))), self.primary(1), self.block(d - 1, ind + '\t'))
        if k < .9:
            return '%swhile %s:\n%s' % (ind, self.expr(self.rnd.choice([0, 1, 1, 2])), self.block(d - 1, ind + '\t'))
        params, defaulted = [], False
        for _ in range(r.randint(0, 3)):
            defaulted = defaulted or r.random() < .3
            params.append('%s: %s%s' % (self.name(), r.choice(['int', 'str', 'None', 'T']), ' = ' + self.expr(1) if defaulted else ''))
        return '%sdef %s(%s) ->%s:\n%s' % (ind, self.name(), ', '.join(params), r.choice([' int', ' None', ' str']), self.block(d - 1, ind + '\t'))

    def module(self, d=2):
        return ''.join(self.stmt(d, '') for _ in range(self.rnd.randint(1, 3)))


def mutate(rnd, src):
    k = rnd.randrange(len(src))
    m = rnd.random()
    if m < .4:
        return src[:k] + src[k + 1:]
    if m < .8:
        return src[:k] + rnd.choice(list('()[]{}:,.=+-*/<>!\'"#@ \n\t') + ['if ', 'else', 'lambda ', '**', '//']) + src[k:]
    a, b = sorted([k, rnd.randrange(len(src))])
    return src[:a] + src[b:]
