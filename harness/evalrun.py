"""Run LiteralEvaluator.exec on expressions placed as enum member values (C17)."""
import lib
lib.shim()


def eval_exprs(exprs: list[str], per_module: int = 100):
    """returns for each expression ('ok', value) | (error class name, message)"""
    import tsession
    import rogw.tranp.syntax.node.definition as defs
    from rogw.tranp.transpiler.types import Evaluator
    from rogw.tranp.errors import Errors
    out = []
    for k in range(0, len(exprs), per_module):
        part = exprs[k:k + per_module]
        src = 'from enum import Enum\n\nclass E(Enum):\n' + ''.join('\tM%d = %s\n' % (i, e) for i, e in enumerate(part))
        try:
            s = tsession.Session({'__main__': src})
            m = s.load('__main__')
            ev = s.resolve(Evaluator)
            enum = [n for n in m.entrypoint.statements if isinstance(n, defs.Enum)][0]
        except Exception as e:  # one expression the grammar rejects would hide the rest: bisect
            if len(part) == 1:
                out.append(('LOAD:' + type(e).__name__, str(e)[:200]))
                continue
            half = len(part) // 2
            out.extend(eval_exprs(part[:half], per_module))
            out.extend(eval_exprs(part[half:], per_module))
            continue
        for i in range(len(part)):
            try:
                node = enum.var_value('M%d' % i)
                out.append(('ok', ev.exec(node)))
            except Errors.Error as e:
                out.append((type(e).__name__, str(e)[:200]))
            except Exception as e:
                out.append(('LEAK:' + type(e).__name__, str(e)[:200]))
    return out
