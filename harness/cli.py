"""Scratch projects driven through tranp's command line application (bin/transpile.py), in-process with a
fresh application (DI container) per run, or as a fresh interpreter process. cwd = the project directory;
caches go to <project>/.cache/tranp."""
import os
import subprocess
import sys
import lib

lib.shim()


def cache_disabled():
    from rogw.tranp.cache.cache import CacheSetting
    return CacheSetting(basedir='.cache/tranp', enabled=False)


CONFIG = '''grammar: %(repo)s/data/grammar.lark
template_dirs:
%(tdirs)s  - %(repo)s/data/cpp/template
trans_mapping: %(repo)s/data/i18n.yml
input_globs:
%(globs)s
output_dirs:
%(outs)s
output_language: cpp:h
exclude_patterns: []
%(di)senv:
  transpiler:
    include_dirs: []
  view:
    immutable_param_types:
      - std::string
      - std::vector
      - std::map
      - std::function
'''


class Project:
    def __init__(self, root, pkg='proj', output_dirs=None, cache_enabled=True, globs=None, templates=None):
        self.templates = templates or {}     # user templates (relative path -> text): a template directory in front of the stock one
        self.root = root
        self.pkg = pkg
        self.output_dirs = output_dirs or ['./out']
        self.cache_enabled = cache_enabled
        os.makedirs(os.path.join(root, pkg), exist_ok=True)
        open(os.path.join(root, pkg, '__init__.py'), 'w').close()
        self.globs = globs or ['%s/*.py' % pkg]
        for rel, text in self.templates.items():
            os.makedirs(os.path.dirname(os.path.join(root, 'templates', rel)), exist_ok=True)
            with open(os.path.join(root, 'templates', rel), 'w') as f:
                f.write(text)
        self.write_config()

    def write_config(self):
        di = '' if self.cache_enabled else 'di:\n  rogw.tranp.cache.cache.CacheSetting: cli.cache_disabled\n'
        with open(os.path.join(self.root, 'config.yml'), 'w') as f:
            f.write(CONFIG % dict(repo=lib.REPO, tdirs='  - templates\n' if self.templates else '', globs='\n'.join('  - %s' % g for g in self.globs), outs='\n'.join('  - "%s"' % o for o in self.output_dirs), di=di))

    def path(self, name):
        return os.path.join(self.root, self.pkg, name + '.py')

    def edit(self, name, src, step=None):
        """write a module; with `step` the file's mtime is set explicitly: the previous one of this file + step seconds
        (first write: a fixed instant with a fractional part), so that edits within one integer second are exercised"""
        with open(self.path(name), 'w') as f:
            f.write(src)
        if step is not None:
            mt = getattr(self, 'mtimes', None)
            if mt is None:
                mt = self.mtimes = {}
            mt[name] = mt[name] + step if name in mt else 1700000000.25
            os.utime(self.path(name), (mt[name], mt[name]))

    def run(self, force=False, fresh_process=False, env=None, targets=None):
        """returns ('ok', '') or (exception class name, text)"""
        args = ['-c', 'config.yml'] + (['-f'] if force else [])
        for t in targets or []:
            args += ['-i', t]
        if fresh_process:
            e = lib.impl_env(**(env or {}))
            code = ('import sys, typing, typing_extensions\n'
                    'typing.TypeIs = typing_extensions.TypeIs\n'
                    'from rogw.tranp.app.app import App\nfrom rogw.tranp.bin.transpile import TranspileApp, Args\n'
                    'App(TranspileApp.definitions(Args(%r))).run(TranspileApp.run)\n' % (args,))
            p = subprocess.run([lib.PY, '-c', code], cwd=self.root, env=e, capture_output=True, text=True)
            if p.returncode != 0:
                last = (p.stderr.strip().splitlines() or ['?'])[-1]
                return (last.split(':')[0].split('.')[-1], p.stderr[-800:])
            return ('ok', '')
        from rogw.tranp.app.app import App
        from rogw.tranp.bin.transpile import TranspileApp, Args
        old = os.getcwd()
        os.chdir(self.root)
        try:
            App(TranspileApp.definitions(Args(list(args)))).run(TranspileApp.run)
            return ('ok', '')
        except Exception as e:
            return (type(e).__name__, str(e)[:800])
        finally:
            os.chdir(old)

    def outputs(self):
        """{relative path: (content, mtime_ns)} of every generated file under the output roots"""
        res = {}
        roots = set()
        for o in self.output_dirs:
            roots.add(os.path.normpath(os.path.join(self.root, o.split(':')[-1])))
        for r in roots:
            for dp, dn, fn in os.walk(r):
                if '.cache' in dp:
                    continue
                for f in fn:
                    if f.endswith('.h'):
                        p = os.path.join(dp, f)
                        st = os.stat(p)
                        res[os.path.relpath(p, self.root)] = (open(p).read(), st.st_mtime_ns)
        return res

    def cache_files(self):
        res = {}
        base = os.path.join(self.root, '.cache')
        for dp, dn, fn in os.walk(base):
            for f in fn:
                p = os.path.join(dp, f)
                res[os.path.relpath(p, base)] = os.stat(p).st_mtime_ns
        return res
