"""Canonical structure of Python programs, computed from CPython's ast (the oracle side of C02 / C11) and
from the tuple trees of tranp's own parser (C11). Both give nested tuples that can be compared with ==."""
import ast


def lit_str(text):
    try:
        v = ast.literal_eval(text)
        return v if isinstance(v, str) else text
    except Exception:
        return text


# ---------------------------------------------------------------------------------------------------
# CPython ast -> canon

BINOP = {ast.Add: '+', ast.Sub: '-', ast.Mult: '*', ast.Div: '/', ast.Mod: '%', ast.BitOr: '|', ast.BitXor: '^', ast.BitAnd: '&',
         ast.LShift: '<<', ast.RShift: '>>', ast.FloorDiv: '//', ast.Pow: '**', ast.MatMult: '@'}
CMPOP = {ast.Lt: '<', ast.Gt: '>', ast.Eq: '==', ast.LtE: '<=', ast.GtE: '>=', ast.NotEq: '!=', ast.In: 'in', ast.NotIn: 'not in', ast.Is: 'is', ast.IsNot: 'is not'}


def ce(n):
    """expression"""
    if isinstance(n, ast.Name):
        return ('name', n.id)
    if isinstance(n, ast.Constant):
        if n.value is Ellipsis:
            return ('ellipsis',)
        if isinstance(n.value, bool) or n.value is None:
            return ('const', n.value)
        if isinstance(n.value, (int, float)):
            return ('num', float(n.value))
        if isinstance(n.value, str):
            return ('str', n.value)
        return ('const', repr(n.value))
    if isinstance(n, ast.BinOp):
        return ('bin', BINOP[type(n.op)], ce(n.left), ce(n.right))
    if isinstance(n, ast.UnaryOp):
        if isinstance(n.op, ast.Not):
            return ('not', ce(n.operand))
        return ('unary', {ast.USub: '-', ast.UAdd: '+', ast.Invert: '~'}[type(n.op)], ce(n.operand))
    if isinstance(n, ast.BoolOp):
        return ('and' if isinstance(n.op, ast.And) else 'or', [ce(v) for v in n.values])
    if isinstance(n, ast.Compare):
        return ('cmp', ce(n.left), [(CMPOP[type(o)], ce(c)) for o, c in zip(n.ops, n.comparators)])
    if isinstance(n, ast.IfExp):
        return ('ifexp', ce(n.test), ce(n.body), ce(n.orelse))
    if isinstance(n, ast.NamedExpr):
        return ('walrus', n.target.id, ce(n.value))
    if isinstance(n, ast.Lambda):
        return ('lambda', [a.arg for a in n.args.args], ce(n.body))
    if isinstance(n, ast.Attribute):
        return ('attr', ce(n.value), n.attr)
    if isinstance(n, ast.Call):
        args = []
        for a in n.args:
            if isinstance(a, ast.Starred):
                args.append(('*', ce(a.value)))
            else:
                args.append(('pos', ce(a)))
        for k in n.keywords:
            args.append(('**', ce(k.value)) if k.arg is None else ('kw', k.arg, ce(k.value)))
        return ('call', ce(n.func), args)
    if isinstance(n, ast.Subscript):
        s = n.slice
        if isinstance(s, ast.Slice):
            parts = [None if p is None else ce(p) for p in (s.lower, s.upper, s.step)]
            while parts and parts[-1] is None and len(parts) > 2:
                parts.pop()
            return ('index', ce(n.value), ('slice', parts))
        return ('index', ce(n.value), ('at', ce(s)))
    if isinstance(n, ast.List):
        return ('list', [ce(e) for e in n.elts])
    if isinstance(n, ast.Tuple):
        return ('tuple', [ce(e) for e in n.elts])
    if isinstance(n, ast.Dict):
        return ('dict', [(ce(k), ce(v)) for k, v in zip(n.keys, n.values)])
    if isinstance(n, ast.ListComp):
        return ('listcomp', ce(n.elt), [cgen(g) for g in n.generators])
    if isinstance(n, ast.DictComp):
        return ('dictcomp', ce(n.key), ce(n.value), [cgen(g) for g in n.generators])
    if isinstance(n, ast.Starred):
        return ('star', ce(n.value))
    if isinstance(n, ast.JoinedStr):
        return ('fstr',)
    return ('?' + type(n).__name__,)


def cgen(g):
    return (ctarget(g.target), ce(g.iter), [ce(c) for c in g.ifs])


def ctarget(t):
    if isinstance(t, ast.Tuple):
        return ('names', [e.id if isinstance(e, ast.Name) else ce(e) for e in t.elts])
    if isinstance(t, ast.Name):
        return ('names', [t.id])
    return ce(t)


def cs(n):
    """statement"""
    if isinstance(n, ast.Expr):
        if isinstance(n.value, ast.Constant) and n.value.value is Ellipsis:
            return ('pass',)
        return ('expr', ce(n.value))
    if isinstance(n, ast.Pass):
        return ('pass',)
    if isinstance(n, ast.Assign):
        return ('assign', [ce(t) for t in n.targets], ce(n.value))
    if isinstance(n, ast.AnnAssign):
        return ('annassign', ce(n.target), ce(n.annotation), None if n.value is None else ce(n.value))
    if isinstance(n, ast.AugAssign):
        return ('augassign', BINOP[type(n.op)], ce(n.target), ce(n.value))
    if isinstance(n, ast.Return):
        return ('return', None if n.value is None else ce(n.value))
    if isinstance(n, ast.Raise):
        return ('raise', None if n.exc is None else ce(n.exc))
    if isinstance(n, ast.Break):
        return ('break',)
    if isinstance(n, ast.Continue):
        return ('continue',)
    if isinstance(n, ast.If):
        branches = [(ce(n.test), cb(n.body))]
        rest = n.orelse
        while len(rest) == 1 and isinstance(rest[0], ast.If):
            # an `elif` is an If as the only statement of orelse that starts at the elif keyword column
            if rest[0].col_offset != n.col_offset:
                break
            branches.append((ce(rest[0].test), cb(rest[0].body)))
            rest = rest[0].orelse
        return ('if', branches, cb(rest) if rest else None)
    if isinstance(n, ast.For):
        return ('for', ctarget(n.target), ce(n.iter), cb(n.body))
    if isinstance(n, ast.While):
        return ('while', ce(n.test), cb(n.body))
    if isinstance(n, ast.FunctionDef):
        a = n.args
        nd = len(a.args) - len(a.defaults)
        params = [(p.arg, None if p.annotation is None else ce(p.annotation), None if i < nd else ce(a.defaults[i - nd])) for i, p in enumerate(a.args)]
        return ('def', n.name, params, None if n.returns is None else ce(n.returns), [ce(d) for d in n.decorator_list], cb(n.body))
    if isinstance(n, ast.ClassDef):
        return ('class', n.name, [ce(b) for b in n.bases], [ce(d) for d in n.decorator_list], cb(n.body))
    if isinstance(n, ast.Try):
        return ('try', cb(n.body), [(None if h.type is None else ce(h.type), h.name, cb(h.body)) for h in n.handlers])
    if isinstance(n, ast.Import):
        return ('import', [a.name for a in n.names])
    if isinstance(n, ast.ImportFrom):
        return ('from', n.module, [a.name for a in n.names])
    if isinstance(n, ast.Assert):
        return ('assert', ce(n.test))
    if isinstance(n, ast.Delete):
        return ('del', [ce(t) for t in n.targets])
    return ('?' + type(n).__name__,)


def cb(body):
    return [cs(s) for s in body]


def canon_python(src):
    return cb(ast.parse(src).body)


# ---------------------------------------------------------------------------------------------------
# tuple trees of tranp's own parser (py_gram.lark) -> the same canon

def is_tok(t, name=None):
    return isinstance(t[1], str) and (name is None or t[0] == name)


def oe(t):
    n, b = t
    if isinstance(b, str):
        if n == 'name':
            return ('name', b)          # only reached for bare names in expression position (never: they are wrapped in var)
        if n in ('digit', 'decimal'):
            return ('num', float(b))
        if n == 'string':
            return ('str', lit_str(b))
        if n == 'boolean':
            return ('const', b == 'True')
        if n == 'none':
            return ('const', None)
        return ('?tok:' + n, b)
    if n == 'var':
        return ('name', b[0][1])
    if n in ('calc_sum', 'calc_mul'):
        acc = oe(b[0])
        for i in range(1, len(b), 2):
            acc = ('bin', b[i][1], acc, oe(b[i + 1]))
        return acc
    if n == 'unary':
        return ('unary', '-', oe(b[1]))
    if n == 'comp':
        ops = []
        for i in range(1, len(b), 2):
            words = [x[1] for x in b[i][1]] if not isinstance(b[i][1], str) else [b[i][1]]
            ops.append((' '.join(words), oe(b[i + 1])))
        return ('cmp', oe(b[0]), ops)
    if n == 'comp_not':
        return ('not', oe(b[1]))
    if n in ('comp_and', 'comp_or'):
        return ('and' if n == 'comp_and' else 'or', [oe(b[i]) for i in range(0, len(b), 2)])
    if n == 'ternary':
        return ('ifexp', oe(b[1]), oe(b[0]), oe(b[2]))
    if n == 'expr_move':
        return ('walrus', oe(b[0])[1], oe(b[1]))
    if n == 'lambda':
        names = [x[1] for x in b[:-1] if x[0] == 'name']
        return ('lambda', names, oe(b[-1]))
    if n == 'relay':
        return ('attr', oe(b[0]), b[1][1])
    if n == 'invoke':
        args = []
        rest = [x for x in b[1:] if x[0] != '__empty__']
        i = 0
        while i < len(rest):
            x = rest[i]
            if is_tok(x, 'name'):
                args.append(('kw', x[1], oe(rest[i + 1])))
                i += 2
            elif is_tok(x, 'packing'):
                args.append((x[1], oe(rest[i + 1])))
                i += 2
            else:
                args.append(('pos', oe(x)))
                i += 1
        # CPython lists positional and starred arguments before keywords
        return ('call', oe(b[0]), [a for a in args if a[0] in ('pos', '*')] + [a for a in args if a[0] in ('kw', '**')])
    if n == 'indexer':
        parts = [oe(x) for x in b[1:]]
        return ('index', oe(b[0]), ('at', parts[0]) if len(parts) == 1 else ('slice', parts))
    if n == 'list':
        return ('list', [oe(x) for x in b if x[0] != '__empty__'])
    if n == 'tuple':
        return ('tuple', [oe(x) for x in b])
    if n == 'dict':
        return ('dict', [(oe(kv[1][0]), oe(kv[1][1])) for kv in b if kv[0] != '__empty__'])
    return ('?tree:' + n,)


def otarget(parts):
    if len(parts) == 1:
        return ('name', parts[0][1])
    if len(parts) == 2 and is_tok(parts[1], 'name'):
        return ('attr', oe(parts[0]), parts[1][1])
    idx = [oe(x) for x in parts[1:]]
    return ('index', oe(parts[0]), ('at', idx[0]) if len(idx) == 1 else ('slice', idx))


def os_(t):
    n, b = t
    if n == 'move':
        return ('assign', [otarget(b[:-1])], oe(b[-1]))
    if n == 'return':
        return ('return', None if b[0][0] == '__empty__' else oe(b[0]))
    if n == 'raise':
        return ('raise', oe(b[0]))
    if n == 'break':
        return ('break',)
    if n == 'continue':
        return ('continue',)
    if n == 'pass':
        return ('pass',)
    if n == 'if':
        branches, els = [], None
        for c in b:
            if c[0] in ('then', 'elif'):
                branches.append((oe(c[1][0]), ob(c[1][1])))
            elif c[0] == 'else':
                els = ob(c[1][0])
        return ('if', branches, els)
    if n == 'for':
        names = [x[1] for x in b[:-2]]
        return ('for', ('names', names), oe(b[-2]), ob(b[-1]))
    if n == 'while':
        return ('while', oe(b[0]), ob(b[1]))
    if n == 'function':
        params = []
        if b[1][0] != '__empty__':
            for p in b[1][1]:
                pn, pt, pd = p[1]
                params.append((pn[1], otype(pt), None if pd[0] == '__empty__' else oe(pd)))
        return ('def', b[0][1], params, None if b[2][0] == '__empty__' else otype(b[2]), [], ob(b[3]))
    return ('expr', oe(t))


def otype(t):
    if t[0] == 'type_none':
        return ('const', None)
    if t[0] == 'type_var':
        return ('name', t[1][0][1])
    return oe(t)


def ob(block):
    return [os_(s) for s in block[1]]


def canon_own(tree):
    assert tree[0] == 'entry'
    return [os_(s) for s in tree[1]]
