"""Shared machinery of the /verif checks: build of the Coq development, correspondence runs
(cases_k.v evaluated by coqc with vm_compute), evidence / replay / known-findings handling.

Every check is `./check Cxx [--tier quick|thorough] [--replay file]` -> harness/props/Cxx.py:run(ctx).
"""
from __future__ import annotations

import fcntl
import glob
import hashlib
import json
import os
import random
import re
import shutil
import subprocess
import sys
import tempfile
import time
from typing import Any, Callable, Iterable, Sequence

VERIF = os.path.dirname(os.path.dirname(os.path.abspath(__file__)))
REPO = os.environ.get('TRANP_REPO', '/repo')
COQ = os.path.join(VERIF, 'coq')
GEN = os.path.join(COQ, 'gen')
PY = '/venv/bin/python'
COQFLAGS = ['-Q', os.path.join(COQ, 'theories'), 'Tranp', '-Q', GEN, 'TranpGen']
FORBIDDEN = re.compile(r'\b(Admitted|admit|Axiom|Axioms|Parameter|Parameters|Conjecture|Conjectures|Hypothesis|Hypotheses|Variable|Variables)\b|Unset\s+Guard|bypass_check|type-in-type|impredicative-set|Admit\s+Obligations|Unset\s+Universe\s+Checking|Unset\s+Positivity')


# ---------------------------------------------------------------------------------------------
# implementation side: compatibility shim (CPython 3.12 vs tranp's 3.13 target), scratch cwd

_SHIMMED = False


def shim() -> None:
    """Make /repo importable under the pinned CPython 3.12.1 without touching /repo."""
    global _SHIMMED
    if _SHIMMED:
        return
    import typing
    import typing_extensions
    if not hasattr(typing, 'TypeIs'):
        typing.TypeIs = typing_extensions.TypeIs  # type: ignore[attr-defined]
    if REPO not in sys.path:
        sys.path.insert(0, REPO)
    _SHIMMED = True


def shim_rules() -> None:
    shim()
    import rogw.tranp.implements.syntax.tranp.rule as R
    p = R.Rules.__dict__['keywords']
    try:
        p.__name__
    except AttributeError:
        class NP(property):
            __name__ = 'keywords'
        R.Rules.keywords = NP(p.fget)  # type: ignore[assignment]


def scratch_dir(prefix: str = 'tranp-verif.') -> str:
    base = '/var/tmp'
    return tempfile.mkdtemp(prefix=prefix, dir=base)


# ---------------------------------------------------------------------------------------------
# Coq literals

def coq_str(x: str) -> str:
    """A `str` (= list ascii) literal: (s "...") for ASCII text (raw newlines/tabs are legal in Coq
    string literals); explicit code list otherwise."""
    if all((32 <= ord(c) < 127) or c in '\n\t' for c in x):
        return '(s "' + x.replace('"', '""') + '")'
    return '[' + '; '.join('ascii_of_nat %d' % (ord(c) & 255) for c in x) + ']'


def coq_nat(n: int) -> str:
    assert n >= 0
    if n < 1000:
        return '%d%%nat' % n
    return '(N.to_nat %d%%N)' % n


def coq_Z(n: int) -> str:
    return '(%d)%%Z' % n


def coq_bool(b: bool) -> str:
    return 'true' if b else 'false'


def coq_list(xs: Iterable[str]) -> str:
    return '[' + '; '.join(xs) + ']'


def coq_opt(x: str | None) -> str:
    return 'None' if x is None else '(Some %s)' % x


def coq_pair(*xs: str) -> str:
    return '(' + ', '.join(xs) + ')'


# ---------------------------------------------------------------------------------------------
# build

class BuildResult:
    def __init__(self, ok: bool, log: str, failed: list[str]):
        self.ok = ok
        self.log = log
        self.failed = failed


class Lock:
    def __enter__(self):
        os.makedirs(COQ, exist_ok=True)
        self.f = open(os.path.join(COQ, '.lock'), 'w')
        fcntl.flock(self.f, fcntl.LOCK_EX)
        return self

    def __exit__(self, *a):
        fcntl.flock(self.f, fcntl.LOCK_UN)
        self.f.close()


def write_if_changed(path: str, text: str) -> bool:
    try:
        if open(path).read() == text:
            return False
    except FileNotFoundError:
        pass
    os.makedirs(os.path.dirname(path), exist_ok=True)
    with open(path + '.tmp', 'w') as f:
        f.write(text)
    os.replace(path + '.tmp', path)
    return True


def run_translators(only: Sequence[str] | None = None) -> list[str]:
    """Regenerate coq/gen/*.v from /repo's working tree. Fail-closed: a translator that raises
    removes its output file so that the dependent obligations do not check. Returns error strings."""
    errors = []
    tdir = os.path.join(VERIF, 'translators')
    sys.path.insert(0, tdir)
    for path in sorted(glob.glob(os.path.join(tdir, 'g*.py'))):
        name = os.path.basename(path)[:-3]
        if only is not None and name not in only:
            continue
        p = subprocess.run([PY, path], capture_output=True, text=True, cwd=scratch_cwd(), env=impl_env())
        if p.returncode != 0:
            errors.append('%s: %s' % (name, (p.stderr or p.stdout).strip().splitlines()[-1:] or ['failed']))
    return errors


_SCRATCH_CWD = None


def scratch_cwd() -> str:
    global _SCRATCH_CWD
    if _SCRATCH_CWD is None or not os.path.isdir(_SCRATCH_CWD):
        _SCRATCH_CWD = scratch_dir()
        import atexit
        atexit.register(lambda: shutil.rmtree(_SCRATCH_CWD, ignore_errors=True))
    return _SCRATCH_CWD


def impl_env(**kw: str) -> dict[str, str]:
    env = dict(os.environ)
    env['PYTHONPATH'] = REPO + os.pathsep + os.path.join(VERIF, 'harness')
    env.setdefault('PYTHONHASHSEED', '0')
    env['PYTHONDONTWRITEBYTECODE'] = '1'
    env['ROG_WORKS_TRANP_VERIF'] = '1'
    env.update(kw)
    return env


def coq_project() -> None:
    files = sorted(glob.glob(os.path.join(COQ, 'theories', '*', '*.v'))) + sorted(glob.glob(os.path.join(GEN, '*.v')))
    rel = [os.path.relpath(f, COQ) for f in files]
    text = '-Q theories Tranp\n-Q gen TranpGen\n' + '\n'.join(rel) + '\n'
    changed = write_if_changed(os.path.join(COQ, '_CoqProject'), text)
    if changed or not os.path.exists(os.path.join(COQ, 'Makefile')):
        subprocess.run(['coq_makefile', '-f', '_CoqProject', '-o', 'Makefile'], cwd=COQ, check=True, capture_output=True)


def make(targets: Sequence[str], timeout: int = 3000, jobs: int = 16) -> BuildResult:
    """make the given .vo targets (paths relative to coq/). keep-going so every failing file is named."""
    coq_project()
    cmd = ['timeout', str(timeout), 'make', '-k', '-j', str(jobs)] + list(targets)
    p = subprocess.run(cmd, cwd=COQ, capture_output=True, text=True)
    log = p.stdout + p.stderr
    failed = sorted(set(re.findall(r'\[(?:Makefile[^\]]*: )?([\w/\.]+\.vo)\] Error', log)))
    return BuildResult(p.returncode == 0, log, failed)


def grep_gate() -> list[str]:
    bad = []
    for f in glob.glob(os.path.join(COQ, 'theories', '*', '*.v')) + glob.glob(os.path.join(GEN, '*.v')):
        txt = open(f).read()
        txt = re.sub(r'\(\*.*?\*\)', '', txt, flags=re.S)
        txt = re.sub(r'"(?:[^"]|"")*"', '""', txt)   # string literals cannot declare anything
        # Section-local Variable/Hypothesis are allowed only inside a Section ... End block.
        depth = 0
        for ln, line in enumerate(txt.splitlines(), 1):
            st = line.strip()
            if re.match(r'Section\b', st):
                depth += 1
            elif re.match(r'End\b', st) and depth > 0:
                depth -= 1
            m = FORBIDDEN.search(line)
            if m:
                word = m.group(0)
                if word.startswith(('Variable', 'Hypothes')) and depth > 0:
                    continue
                bad.append('%s:%d: %s' % (os.path.relpath(f, VERIF), ln, word))
    return bad


def theorems_of(vfile: str) -> list[str]:
    txt = open(vfile).read()
    return re.findall(r'^\s*(?:Theorem|Example)\s+(\w+)', txt, flags=re.M)


def print_assumptions(vfile_rel: str) -> dict[str, str]:
    """Re-run coqc on a Properties file (cheap: it only contains `exact lemma`) and cut the
    Print Assumptions output per theorem."""
    p = subprocess.run(['timeout', '600', 'coqc'] + COQFLAGS + [vfile_rel], cwd=COQ, capture_output=True, text=True)
    out = p.stdout
    res: dict[str, str] = {}
    names = re.findall(r'^\s*Print Assumptions\s+(\w+)\.', open(os.path.join(COQ, vfile_rel)).read(), flags=re.M)
    chunks = re.split(r'(?=^(?:Closed under the global context|Axioms:|Fetching opaque proofs))', out, flags=re.M)
    chunks = [c.strip() for c in chunks if c.strip()]
    for n, c in zip(names, chunks):
        res[n] = ' '.join(c.split())
    if p.returncode != 0:
        res['__error__'] = (p.stderr or '')[-2000:]
    return res


# ---------------------------------------------------------------------------------------------
# correspondence: evaluate the model inside Coq on the cases the implementation just ran

CASES_HEADER = '''From Coq Require Import String Ascii List Arith ZArith NArith Bool.
Import ListNotations.
%(imports)s
Open Scope string_scope.
Local Notation s := list_ascii_of_string.
%(prelude)s
Definition cases : list (%(ty)s) := [
%(cases)s
].
Fixpoint mism_ (i : nat) (cs : list (%(ty)s)) : list nat :=
  match cs with [] => [] | c :: r => if (%(test)s) c then mism_ (S i) r else i :: mism_ (S i) r end.
Eval vm_compute in mism_ 0 cases.
'''


def _parse_nat_list(out: str) -> list[int] | None:
    m = re.search(r'=\s*(\[[^\]]*\]|nil)\s*:\s*list nat', out, flags=re.S)
    if not m:
        return None
    body = m.group(1)
    if body == 'nil':
        return []
    return [int(x) for x in re.findall(r'\d+', body)]


def coq_mismatches(name: str, imports: str, ty: str, test: str, cases: Sequence[str], prelude: str = '',
                   shard: int = 400, timeout: int = 900) -> tuple[list[int], str]:
    """Write cases_k.v files (<= shard cases each), run coqc on them in parallel, return the global
    indices on which `test case = false` plus an error text ('' if every shard evaluated)."""
    cdir = os.path.join(COQ, 'cases')
    os.makedirs(cdir, exist_ok=True)
    files = []
    for k in range(0, max(len(cases), 1), shard):
        part = cases[k:k + shard]
        fn = os.path.join(cdir, 'Cases_%s_%d_%d.v' % (name, os.getpid(), k))
        with open(fn, 'w') as f:
            f.write(CASES_HEADER % dict(imports=imports, prelude=prelude, ty=ty, test=test, cases=';\n'.join(part)))
        files.append((k, fn))
    procs = []
    bad: list[int] = []
    err = ''
    maxpar = 16
    pending = list(files)
    running: list[tuple[int, str, subprocess.Popen]] = []
    while pending or running:
        while pending and len(running) < maxpar:
            k, fn = pending.pop(0)
            pr = subprocess.Popen(['timeout', str(timeout), 'coqc'] + COQFLAGS + [fn], cwd=cdir, stdout=subprocess.PIPE, stderr=subprocess.PIPE, text=True)
            running.append((k, fn, pr))
        k, fn, pr = running.pop(0)
        out, er = pr.communicate()
        idx = _parse_nat_list(out)
        if pr.returncode != 0 or idx is None:
            err += 'shard %d of %s: coqc rc=%s %s\n' % (k, name, pr.returncode, (er or out)[-1500:])
        else:
            bad.extend(k + i for i in idx)
        for ext in ('.v', '.vo', '.vok', '.vos', '.glob'):
            if ext == '.v' and os.environ.get('VERIF_KEEP_CASES'):
                continue
            try:
                os.remove(fn[:-2] + ext)
            except FileNotFoundError:
                pass
        try:
            os.remove(os.path.join(cdir, '.' + os.path.basename(fn)[:-2] + '.aux'))
        except FileNotFoundError:
            pass
    return sorted(bad), err


def coq_eval(imports: str, exprs: Sequence[str], prelude: str = '', timeout: int = 600) -> tuple[list[str], str]:
    """Evaluate closed expressions; returns raw printed results (one per expr)."""
    cdir = os.path.join(COQ, 'cases')
    os.makedirs(cdir, exist_ok=True)
    fn = os.path.join(cdir, 'Eval_%d_%d.v' % (os.getpid(), random.randrange(10 ** 9)))
    with open(fn, 'w') as f:
        f.write('From Coq Require Import String Ascii List Arith ZArith NArith Bool.\nImport ListNotations.\n%s\nOpen Scope string_scope.\nLocal Notation s := list_ascii_of_string.\n%s\n' % (imports, prelude))
        for e in exprs:
            f.write('Eval vm_compute in (%s).\n' % e)
    p = subprocess.run(['timeout', str(timeout), 'coqc'] + COQFLAGS + [fn], cwd=cdir, capture_output=True, text=True)
    for ext in ('.v', '.vo', '.vok', '.vos', '.glob'):
        try:
            os.remove(fn[:-2] + ext)
        except FileNotFoundError:
            pass
    try:
        os.remove(os.path.join(cdir, '.' + os.path.basename(fn)[:-2] + '.aux'))
    except FileNotFoundError:
        pass
    outs = [x.strip() for x in re.split(r'^\s*=\s', p.stdout, flags=re.M)[1:]]
    return outs, ('' if p.returncode == 0 else (p.stderr or p.stdout)[-2000:])


# ---------------------------------------------------------------------------------------------
# context of one check run

class Ctx:
    def __init__(self, pid: str, tier: str, seed: int):
        self.pid = pid
        self.tier = tier
        self.seed = seed
        self.rnd = random.Random((seed << 8) ^ int(pid[1:]))
        self.t0 = time.time()
        self.thorough = tier == 'thorough'
        self.evaluations = 0
        self.nontrivial: set[str] = set()
        self.samples: list[Any] = []
        self.distribution: dict[str, int] = {}
        self.obligations = 0
        self.discharged = 0
        self.broken: list[dict] = []         # broken proof obligations / correspondences
        self.found: list[dict] = []          # property violations found on the implementation
        self.trusted: list[str] = []
        self.assumptions: list[str] = []
        self.corr_cases = 0
        self.corr_functions: list[str] = []
        self.extra: dict[str, Any] = {}
        self.rule = ''
        self.known = load_known(pid)
        self.known_hit: dict[str, dict] = {}
        self.theorems: list[str] = []

    # -- bookkeeping -------------------------------------------------------------------------
    def n(self, quick: int, thorough: int) -> int:
        return thorough if self.thorough else quick

    def count(self, key: str, k: int = 1) -> None:
        self.distribution[key] = self.distribution.get(key, 0) + k

    def case(self, canon: Any, nontrivial: bool = True) -> None:
        self.evaluations += 1
        if nontrivial:
            self.nontrivial.add(hashlib.md5(repr(canon).encode()).hexdigest())

    def sample(self, x: Any, cap: int = 6) -> None:
        if len(self.samples) < cap:
            self.samples.append(x)

    # -- proof obligations ---------------------------------------------------------------------
    def prove(self, only_translators: Sequence[str] | None = None) -> None:
        """translators -> make Properties/Cxx.vo (+ models used by the correspondence)."""
        with Lock():
            terr = run_translators(only_translators)
            for e in terr:
                self.broken.append(dict(kind='unchecked-obligation', theorem='translator ' + e, detail=e))
            prop_rel = 'theories/Properties/%s.v' % self.pid
            model_targets = [os.path.relpath(f, COQ) + 'o' for f in glob.glob(os.path.join(COQ, 'theories', 'Model', '*.v'))
                             + glob.glob(os.path.join(COQ, 'theories', 'Base', '*.v')) + glob.glob(os.path.join(GEN, '*.v'))]
            r0 = make(model_targets)
            self.model_build_ok = r0.ok
            if not r0.ok:
                self.model_build_log = r0.log[-3000:]
            r = make([prop_rel + 'o'])
            self.theorems = theorems_of(os.path.join(COQ, prop_rel))
            self.theorems = [t for t in self.theorems if not t.startswith('ex_')] + [t for t in self.theorems if t.startswith('ex_')]
            self.obligations = len(self.theorems)
            gate = grep_gate()
            if gate:
                self.broken.append(dict(kind='unchecked-obligation', theorem='grep gate', detail='; '.join(gate[:10])))
            if r.ok and not gate:
                self.discharged = self.obligations
                pa = print_assumptions(prop_rel)
                for k, v in pa.items():
                    self.trusted.append('Print Assumptions %s: %s' % (k, v))
                    if k != '__error__' and not v.startswith('Closed under the global context'):
                        self.assumptions.append('%s depends on: %s' % (k, v))
            elif not r.ok:
                failing = r.failed or ['?']
                m = re.findall(r'File "([^"]+)", line (\d+), characters [^\n]*\n(Error:[^\n]*(?:\n[^\n]+){0,6})', r.log)
                detail = '; '.join('%s:%s %s' % (os.path.relpath(a, COQ) if os.path.isabs(a) else a, b, ' '.join(c.split())[:400]) for a, b, c in m[:3])
                self.broken.append(dict(kind='unchecked-obligation', theorem='%s (build of %s failed)' % (', '.join(self.theorems) or prop_rel, ', '.join(failing)), detail=detail or r.log[-1500:]))
        self.extra['prove_wall_s'] = round(time.time() - self.t0, 1)
        self.checker_cmd = 'cd /verif/coq && make theories/Properties/%s.vo  (coqc 8.16.1, full .vo build; then coqc re-run of the Properties file for Print Assumptions)' % self.pid

    # -- correspondence ------------------------------------------------------------------------
    def correspond(self, name: str, imports: str, ty: str, test: str, cases: Sequence[str], raw: Sequence[Any], prelude: str = '', shard: int = 400) -> list[int]:
        t1 = time.time()
        bad, err = coq_mismatches(self.pid + '_' + name, imports, ty, test, cases, prelude, shard=shard)
        self.corr_cases += len(cases)
        self.corr_functions.append('%s: %d cases, %d mismatches, coqc %.1fs' % (name, len(cases), len(bad), time.time() - t1))
        if err:
            self.broken.append(dict(kind='correspondence', theorem='correspondence %s (model did not evaluate)' % name, detail=err[-1500:]))
        if bad:
            self.broken.append(dict(kind='correspondence', theorem='correspondence %s: model and implementation differ' % name,
                                    detail='%d of %d cases differ' % (len(bad), len(cases)), inputs=[raw[i] for i in bad[:5]]))
        return bad

    # -- violations ---------------------------------------------------------------------------
    def violation(self, signature: str, what: str, replay: dict) -> None:
        """A property violation exhibited on the implementation (input/history in `replay`)."""
        for k in self.known:
            if k.get('signature') == signature:
                if signature not in self.known_hit:
                    self.known_hit[signature] = dict(k, witness=replay)
                return
        self.found.append(dict(signature=signature, what=what, replay=replay))

    def write_replay(self, body: dict) -> str:
        d = os.path.join(VERIF, 'replays', self.pid)
        os.makedirs(d, exist_ok=True)
        fn = os.path.join(d, '%s-%d.json' % (time.strftime('%Y%m%dT%H%M%SZ', time.gmtime()), len(os.listdir(d))))
        body = dict(body, property=self.pid, seed=self.seed, tier=self.tier,
                    how_to_replay='cd /verif && ./check %s --replay %s' % (self.pid, fn))
        with open(fn, 'w') as f:
            json.dump(body, f, indent=1, default=str)
        return fn

    def finish(self) -> int:
        rc = 0
        lines = []
        for sig, k in self.known_hit.items():
            lines.append('KNOWN-FINDING: property=%s %s' % (self.pid, k['what']))
        seen = set()
        for v in self.found:
            if v['signature'] in seen:
                continue
            seen.add(v['signature'])
            fn = self.write_replay(dict(kind='counterexample', signature=v['signature'], what=v['what'], **v['replay']))
            lines.append('VIOLATION property=%s replay=%s' % (self.pid, fn))
            rc = 1
        if self.broken and not self.found:
            fn = self.write_replay(dict(kind=self.broken[0]['kind'], theorem=self.broken[0]['theorem'], broken=self.broken,
                                        note='a proof obligation or the model/implementation correspondence no longer checks; the focused search on the implementation found no input on which the property itself fails'))
            lines.append('VIOLATION property=%s replay=%s no-failing-input-found' % (self.pid, fn))
            rc = 1
        self.write_evidence(len(seen) + (1 if (self.broken and not self.found) else 0))
        for l in lines:
            print(l)
        if rc == 0:
            print('OK property=%s tier=%s theorems=%d/%d correspondence_cases=%d oracle_evaluations=%d wall=%.1fs' % (
                self.pid, self.tier, self.discharged, self.obligations, self.corr_cases, self.evaluations, time.time() - self.t0))
        else:
            for b in self.broken:
                print('BROKEN: %s :: %s' % (b['theorem'], b.get('detail', '')[:600]))
        return rc

    def write_evidence(self, violations: int) -> None:
        cov = dict(
            obligations=self.obligations, discharged=self.discharged,
            checker_cmd=getattr(self, 'checker_cmd', 'coqc'),
            trusted_base=self.trusted + TRUSTED_COMMON,
            theorems=self.theorems,
            evaluations=self.evaluations, distinct_nontrivial=len(self.nontrivial), rule=self.rule,
            samples=self.samples or ['(no samples recorded)'],
            traces_validated_against_impl=self.corr_cases,
            correspondence=self.corr_functions,
            input_distribution=self.distribution,
            known_findings_reproduced=sorted(self.known_hit),
            broken=[b['theorem'] for b in self.broken],
        )
        cov.update(self.extra)
        ev = dict(property_id=self.pid, tier=self.tier, seed=self.seed, level='proof', coverage=cov,
                  assumptions=self.assumptions + ASSUMED_COMMON, wall_s=round(time.time() - self.t0, 2), violations=violations)
        os.makedirs(os.path.join(VERIF, 'evidence'), exist_ok=True)
        with open(os.path.join(VERIF, 'evidence', self.pid + '.json'), 'w') as f:
            json.dump(ev, f, indent=1, default=str)


TRUSTED_COMMON = [
    'Coq 8.16.1 kernel and its bytecode VM (vm_compute); no native_compute',
    'the development declares no axiom (grep gate over coq/theories and coq/gen on every run)',
    'translators /verif/translators/g*.py (source of /repo -> coq/gen/*.v, regenerated on every run)',
    'correspondence harness /verif/harness (Python) and CPython 3.12.1 used as oracle/runner',
    'no OCaml extraction is used',
]
ASSUMED_COMMON = [
    'hand-written Gallina models are tied to /repo only behaviourally (correspondence on generated cases), see DESIGN.md section 8',
]


def load_known(pid: str) -> list[dict]:
    try:
        data = json.load(open(os.path.join(VERIF, 'known_findings.json')))
    except FileNotFoundError:
        return []
    return [k for k in data.get('findings', []) if k.get('property') == pid]


def main(argv: Sequence[str]) -> int:
    import argparse
    import importlib
    import warnings
    warnings.simplefilter('ignore', SyntaxWarning)      # CPython warns about mutated texts the oracles feed to ast.parse
    ap = argparse.ArgumentParser()
    ap.add_argument('pid')
    ap.add_argument('--tier', default=os.environ.get('VERIF_TIER', 'quick'))
    ap.add_argument('--replay')
    a = ap.parse_args(argv)
    if a.replay:
        a.replay = os.path.abspath(a.replay)       # (the check changes into a scratch directory below)
    seed = int(os.environ.get('VERIF_SEED', '20260925'))
    sys.path.insert(0, os.path.join(VERIF, 'harness'))
    mod = importlib.import_module('props.' + a.pid)
    ctx = Ctx(a.pid, a.tier, seed)
    os.chdir(scratch_cwd())
    if a.replay:
        return mod.replay(ctx, json.load(open(a.replay)))
    try:
        mod.run(ctx)
    except Exception as e:  # the check itself failed: never report success
        import traceback
        traceback.print_exc()
        ctx.broken.append(dict(kind='unchecked-obligation', theorem='check harness error', detail=repr(e)))
    return ctx.finish()
