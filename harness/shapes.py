"""Hand-written modules covering shapes the typed-program generator does not produce (generic classes and
parameterised bases, static / class methods and properties, forward references inside type arguments,
decorators, enums with cross references, with / try, nested functions). They are added to the pools of the
checks that walk node trees or symbol tables (C09, C10, C14, C15, C16)."""

GENERIC = '''from typing import Generic, TypeVar

T = TypeVar('T')

class Box(Generic[T]):
	value: T

	def __init__(self, value: T) -> None:
		self.value = value

	def get(self) -> T:
		return self.value

class IntBox(Box[int]):
	def twice(self) -> int:
		return self.get() * 2

class Item:
	n: int

	def __init__(self, n: int) -> None:
		self.n = n

	@staticmethod
	def boxed() -> 'Box[Item]':
		return Box(Item(1))

	@classmethod
	def make(cls, n: int) -> 'Item':
		return cls(n)

	@property
	def half(self) -> int:
		return self.n >> 1

class Late:
	@staticmethod
	def boxed() -> 'Box[Late]':
		return Box(Late())

def wrap(item: Item) -> Box[Item]:
	return Box(item)

def use(n: int) -> int:
	b = IntBox(n)
	return b.twice() + Item.boxed().get().n + wrap(Item.make(n)).get().half
'''

PAIRS = '''from typing import Generic, TypeVar

K = TypeVar('K')
V = TypeVar('V')

class Pair(Generic[K, V]):
	first: K
	second: V

	def __init__(self, first: K, second: V) -> None:
		self.first = first
		self.second = second

class Named(Pair[str, int]):
	def total(self) -> int:
		return len(self.first) + self.second

def wide(p0: int, p1: int, p2: int, p3: int, p4: int, p5: int, p6: int, p7: int, p8: int, p9: str) -> float:
	return 1.5

def pairs(n: int) -> dict[str, list[Pair[str, int]]]:
	out: dict[str, list[Pair[str, int]]] = {}
	out['a'] = [Pair('x', n), Named('yy', n)]
	q = wide(0, 1, 2, 3, 4, 5, 6, 7, 8, 'a')
	return out
'''

FLOW = '''from enum import Enum

class Color(Enum):
	RED = 0
	GREEN = 1

class Mode(Enum):
	RED = 10
	OFF = RED + 1

class Res:
	def __enter__(self) -> 'Res':
		return self

	def __exit__(self, *args: int) -> None:
		pass

def flow(n: int, c: Color) -> int:
	total = 0
	with Res() as r:
		try:
			if c == Color.RED:
				raise RuntimeError('red')
			total += Mode.OFF.value
		except RuntimeError as e:
			total += 1
	def inner(k: int) -> int:
		def deeper(j: int) -> int:
			return j + k + n
		return deeper(k)
	ys = [inner(x) for x in range(n) if x > 0]
	ds = {str(k): v for k, v in enumerate(ys)}
	return total + len(ys) + len(ds)
'''

DOCONLY = """'''a module that holds nothing but its docstring'''
"""

DOCFIRST = """'''module docstring'''
'second string statement'

def documented(n: int) -> int:
	'''function docstring'''
	'another string statement'
	return n

class Documented:
	'''class docstring'''
	n: int = 0
"""

VARS = '''registry: dict[str, list[int]] = {}
boxed: list[dict[str, int]] = []
plain: str = 'p'
'''

USES = '''from shape_vars import registry, boxed, plain

def use_vars(n: int) -> int:
	registry['a'] = [n]
	boxed.append({'k': n})
	return len(registry) + len(boxed) + len(plain)
'''

# the text ends inside an indented block, the last line holds only indentation (no final line break)
OPENBLOCK = 'def open_block() -> None:\n\tpass\n\t'

LITERALS = '''from typing import Literal, TypeAlias

Mode: TypeAlias = Literal['r', 'w']

def lit_a(m: Literal['a']) -> Literal[1]:
\treturn 1

def lit_b(k: Literal[1], m: Mode) -> int:
\tv: Literal['x'] = 'x'
\treturn k

class Cfg:
\tkind: Literal['fast']
\tlevel: Literal[3]

\tdef __init__(self) -> None:
\t\tself.kind = 'fast'
\t\tself.level = 3

def nums() -> int:
\thx = 0x1F
\tbig = 1000
\tfl = 1e3
\treturn hx + big
'''

# entries that every candidate node class rejects (binary / octal / imaginary literals): the tree is well formed, the
# resolution of such a path fails - and has to fail the same way whatever was asked before (C10 only: the module does not load)
NUMS = '''def masks() -> int:
\tmask = 0b1010
\thx = 16
\tperm = 0o17
\tfl = 1.5
\tz = 1j
\tdec = 7
\treturn mask
'''
TREES_ONLY = {'shape_nums': NUMS}

# comments with blanks / tabs in front of the line break (the COMMENT terminal runs up to the line break)
COMMENTS = ("# head comment   \n\ndef cm(a: int) -> int:\n\t# inner comment \t \n\tb = a + 1\n\treturn b\n\n# between  \n\nclass CmK:\n\t# in class\t\n\tn: int = 0\n")

# quoted forward references: a generic class with type arguments above its declaration and that of its type variable; an alias,
# used above its declaration, that wraps a class declared in between
FORWARD = '''from typing import Generic, TypeAlias, TypeVar

def early(a: 'G[int]') -> None: ...

U = TypeVar('U')

class G(Generic[U]):
\tv: U

def find(name: str) -> 'Registry':
\treturn {}

class Entry:
\tn: int = 0

Registry: TypeAlias = dict[str, Entry]

def rows() -> 'list[Registry]':
\treturn []
'''

# text that is not in Unicode normal form C (a combining accent, a combining voiced mark, the angstrom and ohm signs): stored and
# restored as it is
UNICODE = ("# caf\u0065\u0301 \u304b\u3099\n\nlabel: str = 'caf\u0065\u0301'\nsign: str = '\u212b \u2126'\n\ndef uni() -> str:\n\t'''\u304b\u3099'''\n\treturn label + sign\n")

ALL = {'shape_unicode': UNICODE, 'shape_forward': FORWARD, 'shape_comments': COMMENTS, 'shape_literals': LITERALS, 'shape_vars': VARS, 'shape_uses': USES, 'shape_openblock': OPENBLOCK, 'shape_generic': GENERIC, 'shape_pairs': PAIRS, 'shape_flow': FLOW, 'shape_doconly': DOCONLY, 'shape_docfirst': DOCFIRST}
