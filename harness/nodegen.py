"""Source texts over the constructs of data/grammar.lark (syntax only - programs need not type-check): the
operator ladder (or / and / not / comparison chains / | ^ & / shifts / + - / * / % / unary + - ~), ternaries,
lambdas, attribute / call / index / slice chains, positional / keyword / * / ** arguments, list / tuple / dict
literals, comprehensions, and statements: (annotated, augmented, destructuring, chained) assignment, return,
raise [from], assert, del, yield, pass / break / continue, if / elif / else, for, while, try / except, with,
def (typed parameters, defaults, * and ** parameters, decorators, return annotation), class (bases, decorators,
class variables, methods, class methods, constructors, static-like functions), nested functions, functions
defined under compound statements."""
import random

NAMES = ['a', 'b', 'c', 'x', 'y', 'foo', 'bar', 'n1', 'val', 'xs', 'd']
TYPES = ['int', 'str', 'float', 'bool', 'list[int]', 'dict[str, int]', 'tuple[int, str]', 'A', "'A'", 'A | None', 'int | str | None', 'list[dict[str, list[int]]]', 'mod.T', 'mod.sub.T[int]', 'Callable[[int, str], bool]', 'None']
BIN_LEVELS = [['or'], ['and'], None, ['<', '>', '==', '>=', '<=', '!=', 'in', 'not in', 'is', 'is not'], ['|'], ['^'], ['&'], ['<<', '>>'], ['+', '-'], ['*', '/', '%'], None]
# index 2: `not` prefix, index 10: unary prefix


class NG:
    def __init__(self, rnd, opts=None):
        self.rnd = rnd
        self.opts = opts or {}

    def name(self):
        return self.rnd.choice(NAMES)

    # ---- expressions: built as trees first so that parentheses are placed deliberately ----
    def expr(self, d):
        r = self.rnd
        k = r.random()
        if d > 0 and k < .07:
            return '%s if %s else %s' % (self.level(0, d - 1), self.level(0, d - 1), self.expr(d - 1))
        if d > 0 and k < .11:
            params = ', '.join(r.sample(NAMES, r.randint(0, 2)))
            return 'lambda%s: %s' % (' ' + params if params else '', self.expr(d - 1))
        return self.level(0, d)

    def level(self, lv, d):
        """an expression of ladder level >= lv (textually); chains of the level's operators with some probability"""
        r = self.rnd
        if lv >= len(BIN_LEVELS):
            return self.primary(d)
        ops = BIN_LEVELS[lv]
        if ops is None:
            pre = ['not'] if lv == 2 else ['-', '+', '~']
            if d > 0 and r.random() < .07:
                op = r.choice(pre)
                return op + (' ' if op == 'not' or r.random() < .3 else '') + self.level(lv, d - 1)
            return self.level(lv + 1, d)
        e = self.level(lv + 1, d)
        p = .09 if d > 0 else .02
        while r.random() < p:
            e = e + ' ' + r.choice(ops) + ' ' + self.level(lv + 1, d - 1)
            p *= .6
        return e

    def atom(self, d):
        r = self.rnd
        k = r.random()
        if d <= 0 or k < .42:
            return r.choice([self.name(), self.name(), self.name(), str(r.choice([0, 1, 2, 10, 305])), r.choice(['1.5', '0.25', '10.0', '1e3', '1e-9', '6E23', '2.5e2', '0x1F', '0.5']),
                             r.choice(["'s'", '"t u"', "''", "'a\\'b'"]), 'True', 'False', 'None'])
        if k < .5:
            return '[' + ', '.join(('*' + self.primary(0) if r.random() < .1 else self.expr(d - 1)) for _ in range(r.randint(0, 3))) + ']'
        if k < .56:
            n = r.randint(1, 3)
            return '(' + ', '.join(self.expr(d - 1) for _ in range(n)) + (',' if n == 1 else '') + ')'
        if k < .63:
            return '{' + ', '.join(('**' + self.primary(0) if r.random() < .12 else '%s: %s' % (self.expr(0), self.expr(d - 1))) for _ in range(r.randint(0, 3))) + '}'
        if k < .68:
            return '[%s %s]' % (self.expr(d - 1), self.comp_tail(d - 1))
        if k < .71:
            return '{%s: %s %s}' % (self.expr(0), self.expr(d - 1), self.comp_tail(d - 1))
        # a parenthesised expression: this is where grouping against the ladder comes from
        return '(' + self.expr(d - 1) + ')'

    def comp_tail(self, d):
        r = self.rnd
        s = ' '.join('for %s in %s' % (', '.join(r.sample(NAMES, r.randint(1, 2))), self.level(1, d)) for _ in range(r.choice([1, 1, 1, 2])))
        if r.random() < .4:
            s += ' if ' + self.level(0, d)
        return s

    def primary(self, d):
        r = self.rnd
        e = self.atom(d)
        for _ in range(r.choice([0, 0, 0, 0, 1, 1, 2, 3]) if d > 0 else r.choice([0, 0, 0, 1])):
            k = r.random()
            if not (e[0].isalpha() or e[0] in '([{_' or e[-1] in ')]}') or e in ('True', 'False', 'None') or e[0].isdigit():
                break
            if k < .38:
                e = e + '.' + self.name()
            elif k < .72:
                e = e + '(' + self.arguments(d) + ')'
            else:
                m = r.random()
                if m < .5:
                    e = e + '[' + self.expr(d - 1) + ']'
                elif m < .65:
                    e = e + '[' + ', '.join(self.expr(0) for _ in range(2)) + ']'
                else:
                    lo, hi, st = [self.expr(0) if r.random() < .6 else '' for _ in range(3)]
                    # grammar.lark has no `x[a:b:]` (a second colon needs a step)
                    e = e + '[' + lo + ':' + hi + ((':' + st) if st and r.random() < .6 else '') + ']'
        return e

    def arguments(self, d):
        r = self.rnd
        pos = [self.expr(d - 1) for _ in range(r.randint(0, 3))]
        kws = [self.name() + '=' + self.expr(d - 1) for _ in range(r.choice([0, 0, 1, 2]))]
        star = ['*' + self.primary(0)] if r.random() < .12 else []
        kwstar = ['**' + self.primary(0)] if r.random() < .1 else []
        # grammar.lark: argvalue ("," argvalue)* ["," starargs] ["," kwargs]; CPython: positional before keyword
        return ', '.join(pos + kws + star + kwstar)

    def target(self):
        k = self.rnd.random()
        if k < .6:
            return self.name()
        if k < .8:
            return self.name() + '.' + self.name()
        return self.name() + '[' + self.expr(0) + ']'

    def typ(self):
        return self.rnd.choice(TYPES)

    # ---- statements ----
    def block(self, d, ind, ctx):
        return ''.join(self.stmt(d, ind, ctx) for _ in range(self.rnd.randint(1, 3)))

    def simple(self, ind, ctx):
        r = self.rnd
        m = r.random()
        ed = r.choice([0, 1, 1, 2, 3])
        if m < .3:
            return '%s%s = %s\n' % (ind, self.target(), self.expr(ed))
        if m < .36:
            return '%s%s, %s = %s\n' % (ind, self.target(), self.target(), self.expr(ed))
        if m < .39 and self.opts.get('chained_assign', True):
            return '%s%s = %s = %s\n' % (ind, self.name(), self.name(), self.expr(1))
        if m < .47:
            return '%s%s: %s%s\n' % (ind, self.name() if ctx != 'ctor' or r.random() < .5 else 'self.' + self.name(), self.typ(), ' = ' + self.expr(ed) if r.random() < .8 else '')
        if m < .54:
            return '%s%s %s %s\n' % (ind, self.target(), r.choice(['+=', '-=', '*=', '/=', '%=', '&=', '|=', '^=', '<<=', '>>=']), self.expr(ed))
        if m < .66:
            return '%s%s\n' % (ind, self.expr(ed))
        if m < .76:
            k = r.random()
            return '%sreturn%s\n' % (ind, '' if k < .2 else ' ' + self.expr(ed) if k < .85 else ' %s, %s' % (self.expr(1), self.expr(1)))
        if m < .81:
            return '%sraise %s%s\n' % (ind, self.name() + '(' + self.arguments(1) + ')', ' from ' + self.name() if r.random() < .3 else '')
        if m < .85:
            return '%sassert %s%s\n' % (ind, self.expr(1), ", 'msg'" if r.random() < .5 else '')
        if m < .88:
            return '%sdel %s\n' % (ind, ', '.join(self.target() for _ in range(r.randint(1, 2))))
        if m < .9:
            return '%syield %s\n' % (ind, self.expr(1))
        return '%s%s\n' % (ind, r.choice(['break', 'continue', 'pass', '...']))

    def stmt(self, d, ind, ctx='module'):
        r = self.rnd
        k = r.random()
        sub = ind + '\t'
        if d <= 0 or k < .5:
            return self.simple(ind, ctx)
        inner = 'func' if ctx in ('func', 'ctor') else ctx
        if k < .64:
            s = '%sif %s:\n%s' % (ind, self.expr(r.choice([0, 1, 2])), self.block(d - 1, sub, inner))
            for _ in range(r.choice([0, 0, 1, 2])):
                s += '%selif %s:\n%s' % (ind, self.expr(r.choice([0, 1])), self.block(d - 1, sub, inner))
            if r.random() < .5:
                s += '%selse:\n%s' % (ind, self.block(d - 1, sub, inner))
            return s
        if k < .7:
            return '%sfor %s in %s:\n%s' % (ind, ', '.join(r.sample(NAMES, r.randint(1, 2))), self.expr(1), self.block(d - 1, sub, inner))
        if k < .75:
            return '%swhile %s:\n%s' % (ind, self.expr(r.choice([0, 1, 2])), self.block(d - 1, sub, inner))
        if k < .8:
            s = '%stry:\n%s' % (ind, self.block(d - 1, sub, inner))
            for _ in range(r.randint(1, 2)):
                s += '%sexcept %s as %s:\n%s' % (ind, r.choice(['E', 'ValueError', 'mod.Err']), self.name(), self.block(d - 1, sub, inner))
            return s
        if k < .83:
            # (a parenthesised tuple as the only with-item is read by CPython >= 3.9 as a list of items: not generated)
            def item():
                e = self.primary(1)
                return self.name() if e.startswith('(') else e
            items = ', '.join(item() + (' as ' + self.name() if r.random() < .6 else '') for _ in range(r.randint(1, 2)))
            return '%swith %s:\n%s' % (ind, items, self.block(d - 1, sub, inner))
        if k < .94 or ctx == 'class':
            return self.funcdef(d, ind, ctx)
        return self.classdef(d, ind)

    def funcdef(self, d, ind, ctx):
        r = self.rnd
        sub = ind + '\t'
        decos, params = [], []
        name = self.name()
        body_ctx = 'func'
        in_class = ctx == 'class'
        if in_class:
            k = r.random()
            if k < .2:
                decos.append('classmethod')
                params.append('cls')
            elif k < .35:
                name = '__init__'
                params.append('self')
                body_ctx = 'ctor'
            elif k < .85:
                params.append('self')
                if r.random() < .15:
                    decos.append('property')
            # else: a function without receiver in a class body
        if r.random() < .12:
            decos.append(r.choice(['deco', 'mod.deco', 'deco(1, k=2)', 'abstractmethod']))
        if in_class and self.opts.get('classmethod_not_first') and 'classmethod' in decos:
            decos.reverse()
        defaulted = False
        later = r.sample(NAMES, r.randint(0, 3))
        if r.random() < .12 and later:
            later[r.randrange(len(later))] = r.choice([x for x in ['self', 'cls'] if x not in params])       # an ordinary parameter that happens to be called self / cls, not in first position
            if not params:
                later.insert(0, self.name())
        for nm in later:
            defaulted = defaulted or r.random() < .3
            params.append('%s%s%s' % (nm, ': ' + self.typ() if r.random() < .9 else '', ' = ' + self.expr(1) if defaulted else ''))
        if r.random() < .1:
            params.append('*args: int')
        if r.random() < .1:
            params.append('**kwargs: str')
        doc = "%s'''doc'''\n" % sub if r.random() < .15 else ''
        return '%s%sdef %s(%s) -> %s:\n%s%s' % (''.join('%s@%s\n' % (ind, x) for x in decos), ind, name, ', '.join(params), self.typ(), doc, self.block(d - 1, sub, body_ctx))

    def classdef(self, d, ind):
        r = self.rnd
        sub = ind + '\t'
        bases = r.sample(['Base', 'mod.Base', 'Generic[T]', 'Enum', 'BaseGeneric', 'NonGeneric[T]', 'models.SqlGeneric', 'GenericBase', 'Generic2[T]', 'MyEnum', 'enum.IntEnum', 'Protocol[T]'], r.choice([0, 1, 1, 2, 3]))
        decos = ''.join('%s@%s\n' % (ind, x) for x in r.sample(['deco', 'dataclass(frozen=True)'], r.choice([0, 0, 1])))
        body = ''
        for _ in range(r.randint(1, 4)):
            k = r.random()
            if k < .3:
                body += '%s%s: %s = %s\n' % (sub, self.name(), self.typ(), self.expr(1))
            elif k < .35:
                body += '%s%s = %s\n' % (sub, self.name(), self.expr(1))
            else:
                body += self.stmt(max(d - 1, 1), sub, 'class') if r.random() < .9 else self.funcdef(d, sub, 'class')
        return '%s%sclass %s%s:\n%s' % (decos, ind, r.choice(['K', 'Cls', 'A2']), '(' + ', '.join(bases) + ')' if bases else '', body)

    def module(self, d=3):
        s = ''
        if self.rnd.random() < .3:
            s += 'from mod.sub import T, U as V\n'
        return s + ''.join(self.stmt(d, '') for _ in range(self.rnd.randint(1, 4)))
