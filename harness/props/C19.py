"""C19 - the dependency container follows its simple reference model.
Theorems: Properties/C19.v (refinement for all operation sequences + corollaries).
Correspondence: the Gallina container model and the Gallina reference model, both run by vm_compute on the
operation sequences the real LazyDI just executed. Oracle: a Python reference model (one dict per
container) against the real container, with shrinking of a failing sequence."""
from lib import *

IMPORTS = 'From Tranp Require Import Model.DI.'


def setup():
    shim()
    import di_universe as U
    from rogw.tranp.lang.di import LazyDI
    return U, LazyDI


def allowed(s):
    """factories that may be bound to symbol s without creating a resolution cycle: all symbol parameters below s"""
    import di_universe as U
    return [k for k, _, params in U.SIGS if all(p[1] < s for p in params if isinstance(p, tuple))]


def gen_ops(rnd, n):
    first = [(s, rnd.choice(allowed(s)), rnd.random() < .6) for s in rnd.sample(range(6), rnd.randint(0, 4))]
    ops = [('new', first)]
    have = [set(s for s, _, _ in first)]     # shadow of the symbols each container knows (to bias towards successful operations)
    for _ in range(n):
        k = rnd.random()
        c = rnd.randrange(len(have))
        s = rnd.choice(sorted(have[c])) if have[c] and rnd.random() < .7 else rnd.choice([0, 0, 1, 1, 2, 3, 4, 5])
        f = rnd.choice(allowed(s))
        if k < .03:
            # a further container instantiated from the very definitions mapping (the same dict object) of an earlier one
            news = [o for o in ops if o[0] == 'new']
            d = rnd.choice(news)[1]
            ops.append(('newshared', [o for o in ops if o[0] == 'new'].index(rnd.choice([o for o in news if o[1] is d]))))
            have.append(set(x for x, _, _ in d))
        elif k < .05:
            d = [(x, rnd.choice(allowed(x)), rnd.random() < .6) for x in rnd.sample(range(6), rnd.randint(0, 3))]
            ops.append(('new', d))
            have.append(set(x for x, _, _ in d))
        elif k < .2:
            if s in have[c] and rnd.random() < .7:
                s = rnd.choice([x for x in range(6) if x not in have[c]] or [s])
                f = rnd.choice(allowed(s))
            ops.append(('bind', c, s, f))
            have[c].add(s)
        elif k < .27:
            ops.append(('unbind', c, s))
            have[c].discard(s)
        elif k < .37:
            ops.append(('rebind', c, s, f))
            have[c].add(s)
        elif k < .62:
            ops.append(('resolve', c, s))
        elif k < .7:
            ops.append(('can', c, s))
        elif k < .88:
            import di_universe as U
            fi = rnd.randrange(12)
            params = U.SIGS[fi][2]
            i = 0
            while i < len(params) and isinstance(params[i], tuple) and params[i][1] in have[c]:
                i += 1
            if rnd.random() < .6:   # arguments matching the remaining annotations
                args = [('obj', p[1]) if isinstance(p, tuple) else p for p in params[i:]]
                if args and rnd.random() < .15:
                    args[rnd.randrange(len(args))] = rnd.choice(['int', 'str', ('obj', rnd.randrange(6))])
            else:
                args = [rnd.choice(['int', 'str', ('obj', rnd.randrange(6)), ('prev', rnd.randrange(50))]) for _ in range(rnd.choice([0, 0, 1, 1, 2, 3]))]
            ops.append(('invoke', c, fi, args))
        elif k < .93:
            ops.append(('clone', c))
            have.append(set(have[c]))
        else:
            c2 = rnd.randrange(len(have))
            ops.append(('combine', c, c2))
            have.append(have[c] | have[c2])
    return ops


def run_impl(ops):
    """execute on the real LazyDI; returns (observations, concrete ops with argument values resolved)"""
    U, LazyDI = setup()
    from rogw.tranp.lang.module import to_fullyname
    U.SEQ[0] = 0
    pool, obs, cops = [], [], []
    def_objs = []
    made = []        # objects seen so far (for 'prev' arguments)
    extra = [0]

    def enc(v):
        if isinstance(v, U.Base):
            return ('obj', v.seq, U.SYMS.index(type(v)))
        if isinstance(v, bool) or isinstance(v, int):
            return 'int'
        return 'str'
    def sym(s, k):
        """the class, or - every other time for a generic one - its subscripted alias"""
        return U.ALIAS[s] if s in U.ALIAS and k % 2 else U.SYMS[s]
    for k_, op in enumerate(ops):
        try:
            if op[0] == 'new':
                defs = {}
                for s, f, byname in op[1]:
                    defs[to_fullyname(U.SYMS[s])] = ('di_universe.F%d' % f) if byname else U.FACS[f]
                def_objs.append((defs, op))
                pool.append(LazyDI.instantiate(defs))
                cops.append(op)
                obs.append(('unit',))
            elif op[0] == 'newshared':
                if not def_objs:
                    def_objs.append(({}, ('new', [])))      # (a shrunk sequence may have lost the container it referred to)
                defs, org = def_objs[op[1] % len(def_objs)]
                cops.append(org)                 # for the models: a new container over the definitions as they were written
                pool.append(LazyDI.instantiate(defs))
                obs.append(('unit',))
            elif op[0] == 'bind':
                cops.append(op)
                pool[op[1]].bind(sym(op[2], k_), U.FACS[op[3]])
                obs.append(('unit',))
            elif op[0] == 'unbind':
                cops.append(op)
                pool[op[1]].unbind(sym(op[2], k_))
                obs.append(('unit',))
            elif op[0] == 'rebind':
                cops.append(op)
                pool[op[1]].rebind(sym(op[2], k_), U.FACS[op[3]])
                obs.append(('unit',))
            elif op[0] == 'resolve':
                cops.append(op)
                v = pool[op[1]].resolve(sym(op[2], k_))
                made.append(v)
                obs.append(('val', enc(v)))
            elif op[0] == 'can':
                cops.append(op)
                obs.append(('bool', bool(pool[op[1]].can_resolve(sym(op[2], k_)))))
            elif op[0] == 'invoke':
                args = []
                for a in op[3]:
                    if a == 'int':
                        args.append(7)
                    elif a == 'str':
                        args.append('x')
                    elif a[0] == 'obj':
                        o = U.SYMS[a[1]].__new__(U.SYMS[a[1]])
                        o.seq, o.fname, o.args = 1000 + extra[0], -1, ()
                        extra[0] += 1
                        args.append(o)
                    else:
                        args.append(made[a[1] % len(made)] if made else 7)
                cops.append(('invoke', op[1], op[2], [enc(a) for a in args]))
                v = pool[op[1]].invoke(U.FACS[op[2]], *args)
                made.append(v)
                obs.append(('inv', enc(v), [enc(a) for a in v.args]))
            elif op[0] == 'clone':
                cops.append(op)
                pool.append(pool[op[1]]._clone())
                obs.append(('unit',))
            elif op[0] == 'combine':
                cops.append(op)
                pool.append(pool[op[1]].combine(pool[op[2]]))
                obs.append(('unit',))
        except ValueError:
            obs.append(('err',))
        except Exception as e:
            obs.append(('other', type(e).__name__))
    return obs, cops


class Ref:
    """the reference model in Python: one dict symbol -> [factory, bound, instance] per container"""

    def __init__(self, U):
        self.U = U
        self.pool = []
        self.n = 0

    def resolve(self, m, s):
        e = m.get(s)
        if e is None:
            raise ValueError
        e[1] = True
        if e[2] is None:
            v, _ = self.invoke(m, e[0], [])
            e = m[s]
            e[2] = v
        return e[2]

    def invoke(self, m, f, args):
        _, ret, params = self.U.SIGS[f]
        cur = []
        i = 0
        while i < len(params) and isinstance(params[i], tuple) and params[i][1] in m:
            cur.append(self.resolve(m, params[i][1]))
            i += 1
        rest = params[i:]
        if len(rest) != len(args) or not all(self.isinst(a, p) for a, p in zip(args, rest)):
            raise ValueError
        v = ('obj', self.n, ret)
        self.n += 1
        return v, cur + list(args)

    @staticmethod
    def isinst(a, p):
        if isinstance(p, tuple):
            return isinstance(a, tuple) and a[2] == p[1]
        return a == p

    def run(self, cops):
        obs = []
        for op in cops:
            try:
                if op[0] == 'new':
                    self.pool.append({s: [f, False, None] for s, f, _ in op[1]})
                    obs.append(('unit',))
                elif op[0] == 'bind':
                    m = self.pool[op[1]]
                    if op[2] in m and m[op[2]][1]:
                        raise ValueError
                    m[op[2]] = [op[3], True, None]
                    obs.append(('unit',))
                elif op[0] == 'unbind':
                    self.pool[op[1]].pop(op[2], None)
                    obs.append(('unit',))
                elif op[0] == 'rebind':
                    self.pool[op[1]][op[2]] = [op[3], True, None]
                    obs.append(('unit',))
                elif op[0] == 'resolve':
                    obs.append(('val', self.resolve(self.pool[op[1]], op[2])))
                elif op[0] == 'can':
                    obs.append(('bool', op[2] in self.pool[op[1]]))
                elif op[0] == 'invoke':
                    v, a = self.invoke(self.pool[op[1]], op[2], op[3])
                    obs.append(('inv', v, a))
                elif op[0] == 'clone':
                    self.pool.append({k: list(e) for k, e in self.pool[op[1]].items()})
                    obs.append(('unit',))
                elif op[0] == 'combine':
                    a, b = self.pool[op[1]], self.pool[op[2]]
                    self.pool.append({**{k: list(e) for k, e in a.items()}, **{k: list(e) for k, e in b.items()}})
                    obs.append(('unit',))
            except ValueError:
                obs.append(('err',))
            except IndexError:
                obs.append(('other', 'IndexError'))      # a container index that does not exist (shrunk sequences): the same on both sides
        return obs


def coq_fac(U, f):
    k, ret, params = U.SIGS[f]
    return '{| fname := %d; fret := %d; fparams := [%s] |}' % (k, ret, '; '.join('PSym %d' % p[1] if isinstance(p, tuple) else ('PInt' if p == 'int' else 'PStr') for p in params))


def coq_val(v):
    if isinstance(v, tuple):
        return '(VObj %s %d)' % (coq_nat(v[1]), v[2])
    return 'VInt' if v == 'int' else 'VStr'


def coq_op(U, op):
    if op[0] == 'new':
        return '(ONew [%s])' % '; '.join('(%d, %s)' % (s, coq_fac(U, f)) for s, f, _ in op[1])
    if op[0] == 'bind':
        return '(OBind %d %d %s)' % (op[1], op[2], coq_fac(U, op[3]))
    if op[0] == 'unbind':
        return '(OUnbind %d %d)' % (op[1], op[2])
    if op[0] == 'rebind':
        return '(ORebind %d %d %s)' % (op[1], op[2], coq_fac(U, op[3]))
    if op[0] == 'resolve':
        return '(OResolve %d %d)' % (op[1], op[2])
    if op[0] == 'can':
        return '(OCan %d %d)' % (op[1], op[2])
    if op[0] == 'invoke':
        return '(OInvoke %d %s [%s])' % (op[1], coq_fac(U, op[2]), '; '.join(coq_val(a) for a in op[3]))
    if op[0] == 'clone':
        return '(OClone %d)' % op[1]
    return '(OCombine %d %d)' % (op[1], op[2])


def coq_obs(o):
    if o[0] == 'unit':
        return 'BUnit'
    if o[0] == 'err':
        return 'BErr'
    if o[0] == 'bool':
        return '(BBool %s)' % coq_bool(o[1])
    if o[0] == 'val':
        return '(BVal %s)' % coq_val(o[1])
    if o[0] == 'inv':
        return '(BInv %s [%s])' % (coq_val(o[1]), '; '.join(coq_val(a) for a in o[2]))
    return 'BBad'   # any other exception class: never produced by the model on valid indices


def shrink(ops, fails):
    cur = list(ops)
    changed = True
    while changed:
        changed = False
        for i in range(len(cur) - 1, -1, -1):
            if cur[i][0] in ('new', 'clone', 'combine'):
                continue
            cand = cur[:i] + cur[i + 1:]
            if fails(cand):
                cur = cand
                changed = True
    return cur


def differs(ops):
    U, _ = setup()
    try:
        obs, cops = run_impl(ops)
    except Exception:
        return None
    ref = Ref(U).run(cops)
    for i, (a, b) in enumerate(zip(obs, ref)):
        if a != b:
            return i, cops, obs, ref
    return None


def run(ctx: Ctx) -> None:
    U, LazyDI = setup()
    ctx.rule = ('random operation sequences (length 5-40) over 6 symbols, 12 factories (direct and by-name lazy registrations, dependencies forming a DAG, '
                'int/str/object arguments incl. earlier results), pools of up to ~6 containers; non-trivial = sequence with a resolve or invoke that creates an object after a rebind/unbind/combine; distinct = distinct sequence')
    ctx.prove([])
    rnd = ctx.rnd
    N = ctx.n(1500, 60000) * (5 if ctx.broken else 1)
    cases, raw = [], []
    ncoq = ctx.n(1500, 12000)
    for i in range(N):
        ops = gen_ops(rnd, rnd.randint(5, 40))
        obs, cops = run_impl(ops)
        kinds = [o[0] for o in obs]
        for k in kinds:
            ctx.count('obs:' + k)
        ctx.case(repr(cops), any(c[0] in ('rebind', 'unbind', 'combine') for c in cops) and ('val' in kinds or 'inv' in kinds))
        if i < 2:
            ctx.sample(dict(ops=[repr(c) for c in cops[:12]], observations=[repr(o) for o in obs[:12]]))
        ref = Ref(U).run(cops)
        if obs != ref:
            idx = next(j for j, (a, b) in enumerate(zip(obs, ref)) if a != b)
            small = shrink(ops, lambda c: differs(c) is not None)
            d = differs(small)
            j, scops, sobs, sref = d
            sig = '%s:%s->%s' % (scops[j][0], sref[j][0], sobs[j][0])
            ctx.violation(sig, 'container and reference model disagree at a %s operation (model %s, container %s)' % (scops[j][0], sref[j][0], sobs[j][0]),
                          dict(ops=[list(map(str, c)) for c in scops], raw_ops=small, at=j, oracle_result=[repr(x) for x in sref], impl_result=[repr(x) for x in sobs]))
        if i < ncoq:
            cases.append(coq_pair(coq_list(coq_op(U, c) for c in cops), coq_list(coq_obs(o) for o in obs)))
            raw.append(dict(ops=[repr(c) for c in cops], impl=[repr(o) for o in obs]))
    ctx.correspond('run_concrete_and_spec', IMPORTS, 'list op * list obs',
                   'fun c => obss_eqb (run cont conc ([], 0) (fst c)) (snd c) && obss_eqb (run smap spec ([], 0) (fst c)) (snd c)',
                   cases, raw, shard=100)


def replay(ctx: Ctx, data: dict) -> int:
    ops = data.get('raw_ops')
    ops = [tuple(tuple(x) if isinstance(x, list) and x and x[0] in ('obj', 'prev') else x for x in op) for op in ops]
    ops = [tuple([tuple(y) if isinstance(y, list) and len(y) == 2 and y[0] in ('obj', 'prev') else y for y in x] if isinstance(x, list) and op[0] == 'invoke' else x for x in op) for op in ops]
    ops = [(op[0], [tuple(t) for t in op[1]]) if op[0] == 'new' else op for op in ops]
    d = differs(ops)
    print('ops:', ops)
    if d is None:
        print('not reproduced: container and reference model agree on this sequence')
        return 0
    j, cops, obs, ref = d
    print('REPRODUCED at op %d %r: model %r, container %r' % (j, cops[j], ref[j], obs[j]))
    return 1
