"""C05 - on-disk caches never change the result.
Theorems: Properties/C05.v (warm = cold under locality of the symbol table; refuted for a 3-chain; nothing
written with caching disabled). Correspondence: which cache entries a run creates / replaces (model key and
eviction logic vs the file names in <project>/.cache). Oracle: after every run of a history the forced
output with the left-over caches equals the forced output with an empty cache directory; with caching
disabled nothing under the cache directory is read or written; a truncated cache file never changes output."""
from lib import *
import shutil
import builtins
from props.C06 import module_src, gen_graph, TYPES, MODS, mod, idx_of

IMPORTS = 'From Tranp Require Import Model.Cache.'


# modules whose symbols refer to classes of the same module before they are declared, inside type arguments
FORWARD = {
    'm1': ("from typing import Generic, TypeVar\n\nT = TypeVar('T')\n\n\nclass Box(Generic[T]):\n\tv: T\n\n\tdef __init__(self, v: T) -> None:\n\t\tself.v = v\n\n\n"
           "class Shelf:\n\tdef first(self) -> 'Box[Item]':\n\t\treturn Box(Item(1))\n\n\tdef all(self) -> 'list[Item]':\n\t\treturn [Item(2)]\n\n\n"
           "class Item:\n\tn: int\n\n\tdef __init__(self, n: int) -> None:\n\t\tself.n = n\n"),
    # (repaired defect) a generic class referred to with type arguments above its own declaration and that of its type variable
    'm3': "from typing import Generic, TypeVar\n\n\ndef early(a: 'G[int]') -> None: ...\n\n\nU = TypeVar('U')\n\n\nclass G(Generic[U]):\n\tv: U\n",
    'm2': "from proj.m1 import Shelf\n\n\ndef use() -> int:\n\treturn Shelf().first().v.n\n",
}


def snapshot_outputs(p):
    return {f: c for f, (c, _) in p.outputs().items()}


def cold_outputs(cli, p, n, cache_enabled=True):
    """the same sources in a fresh directory without any cache, forced run"""
    cold_dir = p.root + '_cold'
    shutil.rmtree(cold_dir, ignore_errors=True)
    q = cli.Project(cold_dir, output_dirs=['./out'], cache_enabled=cache_enabled)
    for i in range(n):
        shutil.copy(p.path(mod(i)), q.path(mod(i)))
    r = q.run(force=True)
    out = snapshot_outputs(q)
    shutil.rmtree(cold_dir, ignore_errors=True)
    return r, out


def distance(imps, frm, to):
    """length of the shortest import path frm -> to (0 if equal, None if unreachable)"""
    seen, frontier, d = {frm}, [frm], 0
    while frontier:
        if to in frontier:
            return d
        nxt = []
        for x in frontier:
            for y in imps[x]:
                if y not in seen:
                    seen.add(y)
                    nxt.append(y)
        frontier, d = nxt, d + 1
    return None


def cache_kinds(p):
    """{(module, kind): file name} for the project's own modules"""
    out = {}
    for f in p.cache_files():
        base = os.path.basename(f)
        if '/proj/' in '/' + f and base.split('-')[0] in MODS:
            mod = base.split('-')[0]
            kind = 'symbols' if '-symbols-' in base else 'ast'
            out[(mod, kind)] = base
    return out


def run(ctx: Ctx) -> None:
    import cli
    shim()
    ctx.rule = ('module graphs (chains, diamonds, random DAGs of 2-4 modules whose inferred local types depend on imported return types), histories of edit / run / clear-cache with caching enabled or disabled; '
                'non-trivial = an edit of a module that is imported (directly or transitively) by another, followed by a run; distinct = distinct (graph, history)')
    ctx.prove([])
    rnd = ctx.rnd
    root = scratch_cwd()
    nh = ctx.n(6, 150) * (3 if ctx.broken else 1)
    ccases, craw = [], []
    for hidx in range(nh):
        n, shape, imps = gen_graph(rnd)
        if hidx == 0:
            n, shape, imps = 3, 'chain', {0: [], 1: [0], 2: [1]}
        if hidx == 1:
            n, shape, imps = 2, 'chain', {0: [], 1: [0]}
        if hidx == 2:
            # two unrelated modules whose names are in prefix relation (m1 / m10), a third one importing the longer name first
            n, shape, imps = 3, 'prefix-pair', {0: [], 1: [], 2: [1, 0]}
        if hidx == 3:
            # caching is switched off and on again over one cache directory
            n, shape, imps = 2, 'chain', {0: [], 1: [0]}
        enabled = rnd.random() < .8 or hidx <= 3
        enabled0 = enabled
        proj_dir = os.path.join(root, 'c05_%d' % hidx)
        p = cli.Project(proj_dir, output_dirs=['./out'], cache_enabled=enabled)
        variant = {i: 0 for i in range(n)}
        for i in range(n):
            p.edit(mod(i), module_src(i, imps[i], 0, 0), step=0)
        hist, ops_model, obs_impl = [], [], []
        edited = set()
        nontrivial = False
        # fixed histories first: the 3-chain edit, and two runs in a row (the second one restores every table from the cache)
        if hidx == 3:
            n, shape, imps = 2, 'chain', {0: [], 1: [0]}
        steps = [('run',), ('toggle',), ('run',), ('edit', 0), ('run',), ('toggle',), ('run',)] if hidx == 3 else [('run',), ('edit', 0), ('run',)] if hidx == 0 else [('run',), ('run',), ('edit', 1), ('run',)] if hidx == 1 else [('run',), ('edit', 1), ('run',), ('edit', 0), ('run',)] if hidx == 2 else None
        for step in range(len(steps) if steps else rnd.randint(2, 5)):
            if steps:
                op = steps[step]
            else:
                k = rnd.random()
                op = ('edit', rnd.randrange(n)) if k < .4 else (('clear',) if k < .5 else (('toggle',) if k < .6 else ('run',)))
            if op[0] == 'edit':
                m = op[1]
                variant[m] = (variant[m] + rnd.randint(1, len(TYPES) - 1)) % len(TYPES)
                step = rnd.choice([0.5, 0.25, 1.5])          # half of the edits stay within the same integer second
                p.edit(mod(m), module_src(m, imps[m], variant[m], 0), step=step)
                hist.append(('edit', m, variant[m], step))
                ops_model.append('(Edit nat %d %d)' % (m, variant[m]))
                edited.add(m)
            elif op[0] == 'toggle':
                enabled = not enabled
                p.cache_enabled = enabled
                p.write_config()
                hist.append(('toggle', enabled))
            elif op[0] == 'clear':
                shutil.rmtree(os.path.join(proj_dir, '.cache'), ignore_errors=True)
                hist.append(('clear',))
                ops_model.append('(Clear nat)')
            else:
                before = cache_kinds(p)
                # reads / writes under the cache directory during the run
                touched = []
                real_open = builtins.open

                def spy_open(file, *a, **k):
                    try:
                        if '.cache' in os.path.abspath(file):
                            touched.append(('open', os.path.basename(str(file)), (a[0] if a else k.get('mode', 'r'))))
                    except Exception:
                        pass
                    return real_open(file, *a, **k)
                builtins.open = spy_open
                try:
                    r = p.run(force=True)
                finally:
                    builtins.open = real_open
                warm = snapshot_outputs(p)
                after = cache_kinds(p)
                hist.append(('run',))
                ops_model.append('(Run nat %s)' % coq_bool(enabled))
                if r[0] != 'ok':
                    ctx.violation('run-fails:' + r[0], 'a run failed on a generated project', dict(history=hist, graph=imps, impl_result=r[1]))
                    break
                if any(distance(imps, d, e) for d in range(n) for e in edited if d != e):
                    nontrivial = True
                # ---- oracle: warm == cold ----
                rc, cold = cold_outputs(cli, p, n)
                if warm != cold:
                    bad = sorted(f for f in cold if warm.get(f) != cold[f])
                    ms = [idx_of(f) for f in bad if '__init__' not in f]
                    dist = [distance(imps, m, e) for m in ms for e in edited if distance(imps, m, e)]
                    sig = 'symbol-cache-stale-transitive' if dist and min(dist) >= 2 else 'warm-differs-from-cold'
                    ctx.violation(sig, 'the output obtained with the left-over caches differs from the output with an empty cache directory (%s)' % sig,
                                  dict(history=hist, graph=imps, cache_enabled=enabled0, oracle_result={f: cold[f][-160:] for f in bad}, impl_result={f: warm.get(f, '')[-160:] for f in bad}))
                if not enabled and (touched or after != before):
                    ctx.violation('disabled-cache-io', 'with caching disabled a cache file was read or written', dict(history=hist, graph=imps, cache_enabled=enabled0, impl_result=dict(touched=touched[:10], new_files=sorted(set(after.values()) - set(before.values())))))
                # observation for the correspondence: which (module, kind) entries were created or replaced by this run
                changed = sorted((MODS.index(m), kind) for (m, kind), fn in after.items() if before.get((m, kind)) != fn)
                obs_impl.append(changed)
                edited = set()
        ctx.case((shape, tuple(sorted(imps.items(), key=str)), tuple(hist), enabled), nontrivial)
        ctx.count('graph:' + shape + (':cache-on' if enabled else ':cache-off'))
        if hidx < 2:
            ctx.sample(dict(graph=imps, history=hist, cache_enabled=enabled, cache_entries_changed_per_run=obs_impl))
        imp_term = 'fun m => match m with %s | _ => [] end' % ' '.join('| %d => %s' % (i, coq_list(map(str, imps[i]))) for i in range(n))
        ccases.append(coq_pair(str(n), '(%s)' % imp_term, coq_list(ops_model),
                               coq_list(coq_list('(%d, %s)' % (m, coq_bool(kind == 'symbols')) for m, kind in ch) for ch in obs_impl)))
        craw.append(dict(graph=imps, history=hist, enabled=enabled))
        shutil.rmtree(proj_dir, ignore_errors=True)
    prelude = ('Definition st0 : state nat := {| sources := fun _ => 0; mtime := fun _ => 0; clock := 0; symcache := []; astcache := [] |}.\n'
               'Definition sym_keys (st : state nat) : list (nat * list nat) := map fst (symcache nat st).\n'
               'Definition ast_keys (st : state nat) : list (nat * nat) := map fst (astcache nat st).\n'
               'Definition keq (a b : nat * list nat) : bool := key_eqb a b.\n'
               'Definition changed (n : nat) (a b : state nat) : list (nat * bool) := flat_map (fun m => '
               'app (if existsb (fun k => Nat.eqb (fst k) m && negb (existsb (fun k2 => Nat.eqb (fst k) (fst k2) && Nat.eqb (snd k) (snd k2)) (ast_keys a))) (ast_keys b) then [(m, false)] else []) '
               '(if existsb (fun k => Nat.eqb (fst k) m && negb (existsb (keq k) (sym_keys a))) (sym_keys b) then [(m, true)] else [])) (seq 0 n).\n'
               'Fixpoint obs (n : nat) (imp : nat -> list nat) (st : state nat) (h : list (op nat)) : list (list (nat * bool)) := match h with [] => [] | o :: r => '
               'let st2 := snd (step nat (fun x => x) n imp (fun m s => m) (fun x => x) st o) in match o with Run _ _ => changed n st st2 :: obs n imp st2 r | _ => obs n imp st2 r end end.\n'
               'Definition pe (a b : nat * bool) : bool := Nat.eqb (fst a) (fst b) && Bool.eqb (snd a) (snd b).\n'
               'Fixpoint le (a b : list (nat * bool)) : bool := match a, b with [], [] => true | x :: a2, y :: b2 => pe x y && le a2 b2 | _, _ => false end.\n'
               'Fixpoint lle (a b : list (list (nat * bool))) : bool := match a, b with [], [] => true | x :: a2, y :: b2 => le x y && lle a2 b2 | _, _ => false end.\n')
    ctx.correspond('cache_entries_changed', IMPORTS, 'nat * (nat -> list nat) * list (op nat) * list (list (nat * bool))',
                   'fun c => match c with (n, imp, h, w) => lle (obs n imp st0 h) w end', ccases, craw, prelude, shard=40)

    # ---- forward references in type arguments: the stored symbol table has to be restorable in file order ----
    proj_dir = os.path.join(root, 'c05_fwd')
    p = cli.Project(proj_dir, output_dirs=['./out'])
    for name, src in FORWARD.items():
        p.edit(name, src, step=0)
    hist = []
    for step in ('run', 'run', 'edit-importer', 'run'):
        if step == 'edit-importer':
            p.edit('m2', FORWARD['m2'] + '# edit\n', step=1.5)
            hist.append(('edit', 'm2'))
            continue
        r = p.run(force=True)
        hist.append(('run',))
        warm = snapshot_outputs(p)
        cold_dir = proj_dir + '_cold'
        shutil.rmtree(cold_dir, ignore_errors=True)
        q = cli.Project(cold_dir, output_dirs=['./out'])
        for name in FORWARD:
            shutil.copy(p.path(name), q.path(name))
        rc = q.run(force=True)
        cold = snapshot_outputs(q)
        shutil.rmtree(cold_dir, ignore_errors=True)
        ctx.evaluations += 1
        ctx.count('forward-references')
        if (r[0], warm if r[0] == 'ok' else None) != (rc[0], cold if rc[0] == 'ok' else None):
            ctx.violation('warm-differs-from-cold:forward-reference', 'with the left-over caches the run ends %s, with an empty cache directory %s (modules with forward references inside type arguments)' % (r[0], rc[0]),
                          dict(history=hist, sources=FORWARD, oracle_result=rc[:1], impl_result=list(r)))
            break
    shutil.rmtree(proj_dir, ignore_errors=True)

    # ---- truncated cache files ----
    proj_dir = os.path.join(root, 'c05_trunc')
    p = cli.Project(proj_dir, output_dirs=['./out'])
    imps = {0: [], 1: [0]}
    for i in range(2):
        p.edit(mod(i), module_src(i, imps[i], 1, 0))
    p.run(force=True)
    good = snapshot_outputs(p)
    files = [f for f in p.cache_files() if '/proj/' in '/' + f]
    tried = 0
    for f in files:
        path = os.path.join(proj_dir, '.cache', f)
        data = open(path, 'rb').read()
        offs = range(len(data)) if ctx.thorough and len(data) < 1500 else sorted(set(rnd.randrange(len(data)) for _ in range(ctx.n(3, 40))))
        for off in offs:
            with open(path, 'wb') as fh:
                fh.write(data[:off])
            r = p.run(force=True)
            tried += 1
            ctx.evaluations += 1
            if r[0] == 'ok' and snapshot_outputs(p) != good:
                ctx.violation('truncated-cache-changes-output', 'a truncated cache file made the run succeed with other content', dict(file=f, offset=off, impl_result='output differs'))
            with open(path, 'wb') as fh:
                fh.write(data)
    ctx.extra['truncations_tried'] = tried
    shutil.rmtree(proj_dir, ignore_errors=True)


def replay(ctx: Ctx, data: dict) -> int:
    import cli
    imps = {int(k): v for k, v in data['graph'].items()}
    n = len(imps)
    proj_dir = os.path.join(scratch_cwd(), 'c05_replay')
    p = cli.Project(proj_dir, output_dirs=['./out'], cache_enabled=data.get('cache_enabled', True))
    for i in range(n):
        p.edit(mod(i), module_src(i, imps[i], 0, 0))
    warm = cold = None
    for i in range(n):
        p.edit(mod(i), module_src(i, imps[i], 0, 0), step=0)
    for op in data['history']:
        if op[0] == 'edit':
            p.edit(mod(op[1]), module_src(op[1], imps[op[1]], op[2], 0), step=op[3] if len(op) > 3 else None)
        elif op[0] == 'clear':
            shutil.rmtree(os.path.join(proj_dir, '.cache'), ignore_errors=True)
        elif op[0] == 'toggle':
            p.cache_enabled = op[1]
            p.write_config()
        else:
            touched = []
            real_open = builtins.open

            def spy_open(file, *a, **k):
                if '.cache' in os.path.abspath(str(file)):
                    touched.append(os.path.basename(str(file)))
                return real_open(file, *a, **k)
            builtins.open = spy_open
            try:
                p.run(force=True)
            finally:
                builtins.open = real_open
            if not p.cache_enabled and touched:
                print('REPRODUCED: with caching disabled the run opened', touched[:5])
                return 1
            warm = snapshot_outputs(p)
            _, cold = cold_outputs(cli, p, n)
    bad = [f for f in (cold or {}) if warm.get(f) != cold[f]]
    print('history:', data['history'], 'graph:', imps)
    print('REPRODUCED: warm output differs from cold in %s' % bad if bad else 'not reproduced')
    return 1 if bad else 0
