"""C11 - the self-hosted parser builds the trees CPython builds.
Theorems: Properties/C11.v (engine bound for every rule set; the shipped Python rules are the compiled
py_gram.lark). Correspondence: Gallina tokenizer + engine over the regenerated py_rules vs
SyntaxParser(py_rules()).parse(...).simplify() on sentences of py_gram.lark and on mutations.
Oracle: canon(parse(s)) == canon(ast.parse(s)); mutated text: accepted with the CPython tree, or
Errors.Syntax whose summary names a token of the input and an existing line."""
from lib import *
import ast
import re

IMPORTS = 'From Tranp Require Import Model.Peg Model.Lexer Properties.C12 Properties.C11.'


def real_parser():
    shim_rules()
    import importlib.util
    from rogw.tranp.app.dir import tranp_dir
    from rogw.tranp.implements.syntax.tranp.syntax import SyntaxParser
    spec = importlib.util.spec_from_file_location('py_rules', os.path.join(tranp_dir(), 'data/syntax/py_rules.py'))
    m = importlib.util.module_from_spec(spec)
    spec.loader.exec_module(m)
    return SyntaxParser(m.py_rules())


def coq_ttree(t):
    name, body = t
    if isinstance(body, str):
        return '(TTok %s %s)' % (coq_str(name), coq_str(body))
    return '(TTree %s [%s])' % (coq_str(name), '; '.join(coq_ttree(c) for c in body))


def run(ctx: Ctx) -> None:
    shim_rules()
    import owngen
    import pycanon
    from rogw.tranp.errors import Errors
    ctx.rule = ('sentences derived from py_gram.lark (statements: assignment to name / attribute / index, expression, return, raise, break, continue, ..., if/elif/else, for, while, def with typed parameters and defaults; '
                'expressions: lambda, ternary, walrus, or/and/not, comparison chains incl. in / not in / is / is not, + - * / %, unary minus, attribute / call (keyword, * and ** arguments) / index and slice chains, '
                'list / tuple / dict literals, parentheses) and one-edit mutations of them; non-trivial = at least two operators or a compound statement; distinct = distinct text')
    ctx.prove(['g_rules', 'g_tokendef'])
    rnd = ctx.rnd
    parser = real_parser()
    N = ctx.n(140, 12000) * (4 if ctx.broken else 1)
    ncoq = ctx.n(70, 1500)
    cases, raw = [], []
    t_budget = time.time() + ctx.n(100, 1500)
    for i in range(N):
        if time.time() > t_budget:
            ctx.extra['stopped_early_after'] = i
            break
        src = owngen.OG(rnd).module(rnd.choice([0, 1, 1, 2]))
        mutated = i % 5 == 4
        if mutated:
            src = owngen.mutate(rnd, src)
        if i < len(REJECTED):
            src, mutated = REJECTED[i], True      # texts whose defect sits at the very start, in the middle, at the end: on every run
        if not src.strip():
            continue
        try:
            want = ('ok', pycanon.canon_python(src))
        except (SyntaxError, ValueError):
            want = ('syntax', None)
        t1 = time.time()
        try:
            tree = parser.parse(src, 'entry').simplify()
            got = ('ok', tree)
        except Errors.Syntax as e:
            got = ('syntax', str(e))
        except RecursionError:
            got = ('recursion', None)
        except Exception as e:
            got = ('leak:' + type(e).__name__, repr(e)[:200])
        dt = time.time() - t1
        ctx.case(src, src.count('\n') > 1 or len(re.findall(r'[-+*/%<>=]|\band\b|\bor\b|\bnot\b', src)) >= 2)
        ctx.count(('mutated:' if mutated else 'sentence:') + got[0].split(':')[0] + '/python-' + want[0])
        if i < 3:
            ctx.sample(dict(source=src, outcome=got[0]))
        # ---- oracle ----
        if got[0] == 'ok':
            try:
                mine = pycanon.canon_own(tree)
            except Exception as e:
                mine = ('?canon-failed', repr(e))
            if want[0] != 'ok':
                # accepted by tranp but not by CPython: outside the common subset only if the text was mutated into
                # something py_gram.lark accepts and Python does not (e.g. a parameter without default after one with)
                ctx.count('accepted-but-not-python')
            elif mine != want[1]:
                where = first_diff(mine, want[1])
                ctx.violation('tree-differs:' + where, 'the tree of the own parser differs from CPython\'s ast (%s)' % where,
                              dict(input=dict(source=src), oracle_result=repr(want[1])[:1500], impl_result=repr(mine)[:1500]))
        elif got[0] == 'syntax':
            if not mutated and want[0] == 'ok':
                ctx.violation('sentence-rejected', 'a sentence of py_gram.lark is rejected by the own parser', dict(input=dict(source=src), impl_result=got[1][:400]))
            m = re.search(r"pass: (\d+)/(\d+), token: (.*)\n\((\d+)\) >>> (.*)\n", got[1] + '\n')
            if not m:
                ctx.violation('summary-malformed', 'the Errors.Syntax summary does not name a token and a line', dict(input=dict(source=src), impl_result=got[1][:400]))
            else:
                line_no, qline = int(m.group(4)), m.group(5)
                try:
                    tok = ast.literal_eval(m.group(3))
                except Exception:
                    tok = None
                if isinstance(tok, str) and not tok.startswith('\\') and tok.strip() and tok not in src:
                    ctx.violation('summary-token', 'the Errors.Syntax summary names a token that does not occur in the input', dict(input=dict(source=src), impl_result=got[1][:400]))
                lines = src.split('\n')
                if not (1 <= line_no <= len(lines)) or lines[line_no - 1] != qline:
                    ctx.violation('summary-line', 'the Errors.Syntax summary quotes a line that is not the source line it names', dict(input=dict(source=src), impl_result=got[1][:400]))
        else:
            ctx.violation('leak:' + got[0], 'text outside the grammar is not rejected with Errors.Syntax (%s)' % got[0], dict(input=dict(source=src), impl_result=got[1]))
        # ---- correspondence ----
        if len(cases) < ncoq and dt < 1.0 and all(ord(c) < 128 and (ord(c) >= 32 or c in '\n\t') for c in src) and got[0] in ('ok', 'syntax'):
            cases.append(coq_pair(coq_str(src), coq_opt(coq_ttree(got[1]) if got[0] == 'ok' else None)))
            raw.append(dict(source=src, outcome=got[0]))
    ctx.correspond('py_parse', IMPORTS, 'str * option ttree',
                   'fun c => match py_parse (fst c), snd c with POk t, Some w => ttree_eqb t w | PSyntax, None => true | _, _ => false end',
                   cases, raw, shard=5)


REJECTED = ['= 1\n', '.b = 1\nc\n', ') + 1\n', ': a\n', 'in a\n', 'else:\n\ta\n', 'elif a:\n\tb\nc\n', 'a +\n', 'a = = b\n', 'if a:\n\tb\nelse\n\tc\n', 'a = (1\n', 'def f(:\n\tpass\n']


def first_diff(a, b, path=''):
    if type(a) != type(b):
        return path or 'root'
    if isinstance(a, (list, tuple)):
        if isinstance(a, tuple) and a and isinstance(a[0], str) and (not b or a[0] != b[0]):
            return (path + '/' if path else '') + str(a[0]) + '!=' + (str(b[0]) if b else '')
        if len(a) != len(b):
            return (path or 'root') + ':len'
        for i, (x, y) in enumerate(zip(a, b)):
            head = a[0] if isinstance(a, tuple) and a and isinstance(a[0], str) else ''
            d = first_diff(x, y, (path + '/' if path and head else path) + head if i == 1 and head else path)
            if d:
                return d
        return ''
    return '' if a == b else (path or 'leaf')


def replay(ctx: Ctx, data: dict) -> int:
    shim_rules()
    import pycanon
    from rogw.tranp.errors import Errors
    parser = real_parser()
    src = data['input']['source']
    print('source:', repr(src))
    try:
        mine = pycanon.canon_own(parser.parse(src, 'entry').simplify())
    except Errors.Syntax as e:
        mine = 'Errors.Syntax: ' + str(e)[:200]
    except Exception as e:
        mine = 'LEAK ' + repr(e)
    try:
        want = pycanon.canon_python(src)
    except SyntaxError as e:
        want = 'SyntaxError'
    print('cpython:', want, '\nown    :', mine)
    bad = mine != want and not (isinstance(mine, str) and mine.startswith('Errors.Syntax') and want == 'SyntaxError')
    print('REPRODUCED' if bad else 'not reproduced')
    return 1 if bad else 0
