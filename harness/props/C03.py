"""C03 - inferred static types equal the types values have at run time.
Theorems: Properties/C03.v (soundness of the expression core on the guarded input space, refutation witnesses
for every guard clause, totality of operator typing without bool operands and its refutation with them).
Correspondence: (a) model `infer` (over the operator table regenerated from classes.py) vs
Reflections.type_of on generated expressions, (b) model `dyn` vs type(eval(expr)) under CPython.
Oracle: generated typed programs are executed under CPython with a tracer; the described type of every local
variable / parameter value at function exit must be the type tranp infers for its declaration."""
from lib import *
import sys
import re

IMPORTS = 'From Tranp Require Import Base.Str Model.MiniTy.\nFrom TranpGen Require Import GenOpTable.'
VARS = [('v0', 'int', 3), ('v1', 'float', 1.5), ('v2', 'bool', True), ('v3', 'str', 'st'), ('v4', 'list[int]', [1, 2]), ('v5', 'dict[str, float]', {'k': 1.5}),
        ('v6', 'tuple[int, str]', (1, 'a')), ('v7', 'list[float]', [0.5])]
VAR_TY = ['TB BInt', 'TB BFloat', 'TB BBool', 'TB BStr', 'TList (TB BInt)', 'TDict (TB BStr) (TB BFloat)', 'TTuple [TB BInt; TB BStr]', 'TList (TB BFloat)']
BASE = {'int': 'BInt', 'float': 'BFloat', 'bool': 'BBool', 'str': 'BStr', 'None': 'BNone'}
AOPS = [('+', 'OAdd'), ('-', 'OSub'), ('*', 'OMul'), ('/', 'ODiv'), ('%', 'OMod'), ('&', 'OAnd'), ('|', 'OOr'), ('^', 'OXor'), ('<<', 'OShl'), ('>>', 'OShr')]
LITS = {'BInt': ['1', '2', '7'], 'BFloat': ['1.5', '0.25'], 'BBool': ['True', 'False'], 'BStr': ["'a'", "'xy'"], 'BNone': ['None']}


class EG:
    """expressions of Model.MiniTy.expr as (python text, coq term)"""

    def __init__(self, rnd, typed):
        self.rnd = rnd
        self.typed = typed      # mostly well-typed choices

    def lit(self, b=None):
        b = b or self.rnd.choice(['BInt', 'BInt', 'BFloat', 'BBool', 'BStr'])
        return self.rnd.choice(LITS[b]), '(ELit %s)' % b

    def var(self, idxs=None):
        i = self.rnd.choice(idxs or range(len(VARS)))
        return VARS[i][0], '(EVar %d)' % i

    def num(self, d):
        """an expression that is (mostly) numeric"""
        r = self.rnd
        if d <= 0 or r.random() < .3:
            return self.var([0, 0, 1, 2]) if r.random() < .6 else self.lit(r.choice(['BInt', 'BFloat', 'BBool']))
        k = r.random()
        if k < .15:
            # a chain of different operators of one precedence level, folded from the left: a * b / c
            level = r.choice([[AOPS[2], AOPS[3], AOPS[4]], [AOPS[0], AOPS[1]], [AOPS[8], AOPS[9]]])
            a = self.num(d - 1)
            text, term = a
            for _ in range(r.randint(2, 3)):
                op, c = r.choice(level)
                b = self.num(0)
                text, term = '%s %s %s' % (text, op, b[0]), '(EBin %s %s %s)' % (c, term, b[1])
            return '(%s)' % text, term
        if k < .5:
            op, c = r.choice(AOPS[:5] if r.random() < .7 else AOPS)
            a, b = self.num(d - 1), self.num(d - 1)
            return '(%s %s %s)' % (a[0], op, b[0]), '(EBin %s %s %s)' % (c, a[1], b[1])
        if k < .6:
            o, c = r.choice([('-', 'UNeg'), ('+', 'UPos'), ('~', 'UInv')])
            a = self.num(d - 1)
            return '(%s%s)' % (o, a[0]), '(EUn %s %s)' % (c, a[1])
        if k < .7:
            c, a, b = self.boolean(d - 1), self.num(d - 1), self.num(d - 1)
            return '(%s if %s else %s)' % (a[0], c[0], b[0]), '(EIf %s %s %s)' % (c[1], a[1], b[1])
        if k < .78:
            a = self.lst(d - 1)
            i = self.lit('BInt')
            return '%s[0]' % a[0], '(EIndex %s (ELit BInt))' % a[1]
        if k < .84:
            return "v5['k']", '(EIndex (EVar 5) (ELit BStr))'
        if k < .9:
            return 'v6[0]', '(ETupleAt (EVar 6) 0)'
        b = r.choice(['int', 'float'])
        a = self.num(d - 1)
        return '%s(%s)' % (b, a[0]), '(ECast %s %s)' % (BASE[b], a[1])

    def boolean(self, d):
        r = self.rnd
        if d <= 0 or r.random() < .3:
            return self.var([2]) if r.random() < .6 else self.lit('BBool')
        k = r.random()
        if k < .35:
            a, b = self.num(d - 1), self.num(d - 1)
            return '(%s %s %s)' % (a[0], r.choice(['<', '==', '>=']), b[0]), '(ECmp %s %s)' % (a[1], b[1])
        if k < .5:
            a = self.boolean(d - 1)
            return '(not %s)' % a[0], '(ENot %s)' % a[1]
        if k < .8:
            f = self.boolean if self.typed and r.random() < .8 else self.any
            a, b = f(d - 1), f(d - 1)
            w, c = r.choice([('and', 'EAnd'), ('or', 'EOr')])
            return '(%s %s %s)' % (a[0], w, b[0]), '(%s %s %s)' % (c, a[1], b[1])
        a, b = self.boolean(d - 1), self.boolean(d - 1)
        op, c = r.choice(AOPS[5:8])
        return '(%s %s %s)' % (a[0], op, b[0]), '(EBin %s %s %s)' % (c, a[1], b[1])

    def string(self, d):
        r = self.rnd
        if d <= 0 or r.random() < .4:
            return self.var([3]) if r.random() < .5 else self.lit('BStr')
        k = r.random()
        if k < .4:
            a, b = self.string(d - 1), self.string(d - 1)
            return '(%s + %s)' % (a[0], b[0]), '(EBin OAdd %s %s)' % (a[1], b[1])
        if k < .6:
            a, b = self.string(d - 1), self.num(0)
            if r.random() < .5:
                a, b = b, a
            return '(%s * %s)' % (a[0], b[0]), '(EBin OMul %s %s)' % (a[1], b[1])
        if k < .75:
            a = self.string(d - 1)
            return '%s[0]' % a[0], '(EIndex %s (ELit BInt))' % a[1]
        if k < .85:
            return 'v6[1]', '(ETupleAt (EVar 6) 1)'
        a = self.num(d - 1)
        return 'str(%s)' % a[0], '(ECast BStr %s)' % a[1]

    def comp(self, d):
        """[proj for w8 in iter if cond] - the bound variable is variable 8 of the model"""
        r = self.rnd
        W = ('w8', '(EVar 8)')
        kind = r.choice(['int', 'int', 'float', 'key', 'chr'])
        if kind == 'int':
            it = self.var([4]) if r.random() < .6 else ('[v0, 2, 7]', '(EList [(EVar 0); (ELit BInt); (ELit BInt)])')
            projs = [('(w8 * 2)', '(EBin OMul (EVar 8) (ELit BInt))'), ('(w8 + v1)', '(EBin OAdd (EVar 8) (EVar 1))'), W, ('(w8 < v0)', '(ECmp (EVar 8) (EVar 0))'), ('[w8]', '(EList [(EVar 8)])'),
                     ('(w8 / 2)', '(EBin ODiv (EVar 8) (ELit BInt))'), ('(w8, v3,)', '(ETuple [(EVar 8); (EVar 3)])')]
            conds = [None, ('(w8 > 1)', '(ECmp (EVar 8) (ELit BInt))'), ('v2', '(EVar 2)')]
        elif kind == 'float':
            it = self.var([7])
            projs = [('(w8 * v0)', '(EBin OMul (EVar 8) (EVar 0))'), W, ('int(w8)', '(ECast BInt (EVar 8))')]
            conds = [None, ('(w8 < 1.5)', '(ECmp (EVar 8) (ELit BFloat))')]
        elif kind == 'key':
            it = self.var([5])
            projs = [('(w8 + v3)', '(EBin OAdd (EVar 8) (EVar 3))'), W, ("v5[w8]", '(EIndex (EVar 5) (EVar 8))')]
            conds = [None, ("(w8 == 'k')", '(ECmp (EVar 8) (ELit BStr))')]
        else:
            it = self.var([3])
            projs = [W, ('(w8 * 2)', '(EBin OMul (EVar 8) (ELit BInt))')]
            conds = [None]
        pr, co = r.choice(projs), r.choice(conds)
        return ('[%s for w8 in %s%s]' % (pr[0], it[0], ' if ' + co[0] if co else ''),
                '(EComp 8 %s %s %s)' % (pr[1], it[1], '(Some %s)' % co[1] if co else 'None'))

    def lst(self, d):
        r = self.rnd
        k = r.random()
        if d > 0 and r.random() < .18:
            return self.comp(d)
        if d <= 0 or k < .35:
            return self.var([4, 7])
        if k < .8:
            f = r.choice([self.num, self.string]) if not self.typed or r.random() < .3 else None
            items = []
            for _ in range(r.randint(0, 3)):
                items.append((f or (lambda dd: self.var([0]) if r.random() < .5 else self.lit('BInt')))(d - 1))
            return '[%s]' % ', '.join(x[0] for x in items), '(EList [%s])' % '; '.join(x[1] for x in items)
        a, b = self.lst(d - 1), self.num(0)
        return '(%s * %s)' % (a[0], b[0]), '(EBin OMul %s %s)' % (a[1], b[1])

    def other(self, d):
        r = self.rnd
        k = r.random()
        if k < .4:
            items = [self.any(d - 1) for _ in range(r.randint(1, 3))]
            return '(%s,)' % ', '.join(x[0] for x in items), '(ETuple [%s])' % '; '.join(x[1] for x in items)
        if k < .8:
            items = [(self.string(0), self.any(d - 1) if not self.typed or r.random() < .3 else self.num(0)) for _ in range(r.randint(0, 3))]
            return '{%s}' % ', '.join('%s: %s' % (kk[0], vv[0]) for kk, vv in items), '(EDict [%s])' % '; '.join('(%s, %s)' % (kk[1], vv[1]) for kk, vv in items)
        a = self.other(d - 1) if d > 0 else self.var([6])
        if a[1].startswith('(ETuple ['):
            return '%s[0]' % a[0], '(ETupleAt %s 0)' % a[1]
        return self.var([5, 6])

    def any(self, d):
        return self.rnd.choice([self.num, self.num, self.boolean, self.string, self.lst, self.other])(max(d, 0))


def parse_type(text):
    """tranp's short notation -> Coq ty literal (None if it mentions something outside the model)"""
    text = text.strip()
    m = re.fullmatch(r'(\w+)(?:<(.*)>)?', text)
    if not m:
        return None
    name, args = m.group(1), m.group(2)
    parts = []
    if args is not None:
        depth, cur = 0, ''
        for ch in args:
            if ch == ',' and depth == 0:
                parts.append(cur)
                cur = ''
                continue
            depth += ch == '<'
            depth -= ch == '>'
            cur += ch
        parts.append(cur)
        parts = [parse_type(p) for p in parts]
        if any(p is None for p in parts):
            return None
    if name in BASE and not parts:
        return '(TB %s)' % BASE[name]
    if name == 'Unknown':
        return 'TUnknown'
    if name == 'list' and len(parts) == 1:
        return '(TList %s)' % parts[0]
    if name == 'dict' and len(parts) == 2:
        return '(TDict %s %s)' % tuple(parts)
    if name == 'tuple':
        return '(TTuple [%s])' % '; '.join(parts)
    if name == 'Union':
        return '(TUnion [%s])' % '; '.join(parts)
    return None


def describe_rty(v):
    if isinstance(v, bool):
        return '(RB BBool)'
    if isinstance(v, int):
        return '(RB BInt)'
    if isinstance(v, float):
        return '(RB BFloat)'
    if isinstance(v, str):
        return '(RB BStr)'
    if v is None:
        return '(RB BNone)'
    if isinstance(v, list):
        return '(RList [%s])' % '; '.join(sorted(set(describe_rty(x) for x in v)))
    if isinstance(v, dict):
        return '(RDict [%s] [%s])' % ('; '.join(sorted(set(describe_rty(x) for x in v))), '; '.join(sorted(set(describe_rty(x) for x in v.values()))))
    if isinstance(v, tuple):
        return '(RTuple [%s])' % '; '.join(describe_rty(x) for x in v)
    return None


# ---- oracle helpers: run-time types of whole programs ----

def describe(v, depth=0):
    """run-time type of a value in tranp's short notation (element types from the actual elements)"""
    if isinstance(v, bool):
        return 'bool'
    if isinstance(v, int) and type(v).__name__ == 'int':
        return 'int'
    if isinstance(v, float):
        return 'float'
    if isinstance(v, str):
        return 'str'
    if v is None:
        return 'None'
    if isinstance(v, list):
        return ('list', sorted(set(map(repr, (describe(x) for x in v)))), [describe(x) for x in v])
    if isinstance(v, dict):
        return ('dict', [describe(x) for x in v], [describe(x) for x in v.values()])
    if isinstance(v, tuple):
        return ('tuple', [describe(x) for x in v])
    return ('obj', [c.__name__ for c in type(v).__mro__])


def sig_of(inferred, runtime, via, kind='mismatch'):
    """violation signature: the cause where it is known (and / or are typed bool whatever the operands are)"""
    if via in ('OrCompare', 'AndCompare') and inferred == 'bool':
        runtime = 'operand-type'
    return '%s:%s-for-%s@%s' % (kind, inferred, runtime, via)


def split_args(args):
    parts, depth, cur = [], 0, ''
    for ch in args:
        if ch == ',' and depth == 0:
            parts.append(cur.strip())
            cur = ''
            continue
        depth += ch == '<'
        depth -= ch == '>'
        cur += ch
    if cur.strip():
        parts.append(cur.strip())
    return parts


TYPE_VARS = {'T', 'K', 'V', 'T2', 'T_Value', 'T_Key', 'Self'}


def fits(d, text):
    """does a value described by d have the type written `text` (tranp's short notation)?"""
    text = text.strip()
    m = re.fullmatch(r'([\w.]+)(?:<(.*)>)?', text)
    if not m:
        return None
    name, args = m.group(1), split_args(m.group(2)) if m.group(2) is not None else []
    if name == 'Union':
        rs = [fits(d, a) for a in args]
        return True if any(r is True for r in rs) else (None if any(r is None for r in rs) else False)
    if name == 'Unknown':
        return False
    if name in TYPE_VARS:
        return None          # a type variable inside a generic definition: any type fits
    if isinstance(d, str):
        return d == name and not args
    if d[0] == 'list':
        if name != 'list' or len(args) != 1:
            return False
        rs = [fits(x, args[0]) for x in d[2]]
        return False if any(r is False for r in rs) else (None if any(r is None for r in rs) else True)
    if d[0] == 'dict':
        if name != 'dict' or len(args) != 2:
            return False
        rs = [fits(x, args[0]) for x in d[1]] + [fits(x, args[1]) for x in d[2]]
        return False if any(r is False for r in rs) else (None if any(r is None for r in rs) else True)
    if d[0] == 'tuple':
        if name != 'tuple' or len(args) != len(d[1]):
            return False
        rs = [fits(x, a) for x, a in zip(d[1], args)]
        return False if any(r is False for r in rs) else (None if any(r is None for r in rs) else True)
    if d[0] == 'obj':
        if name == 'Callable':
            return True if ('function' in d[1] or 'method' in d[1] or 'builtin_function_or_method' in d[1]) else False
        return name.split('.')[-1] in d[1] and name not in ('int', 'float', 'bool', 'str', 'list', 'dict', 'tuple')
    return None


def short(d):
    if isinstance(d, str):
        return d
    if d[0] == 'list':
        return 'list<%s>' % '|'.join(sorted(set(short(x) for x in d[2])))
    if d[0] == 'dict':
        return 'dict<%s, %s>' % ('|'.join(sorted(set(short(x) for x in d[1]))), '|'.join(sorted(set(short(x) for x in d[2]))))
    if d[0] == 'tuple':
        return 'tuple<%s>' % ', '.join(short(x) for x in d[1])
    return d[1][0]


def run_traced(src, entries, limit=4000):
    """{code qualname: {local name: [described values]}} over all entry calls"""
    seen = {}
    env = {'__name__': 'c03_prog'}
    code = compile(src, 'c03_prog.py', 'exec')
    steps = [0]

    def tracer(frame, event, arg):
        if frame.f_code.co_filename != 'c03_prog.py':
            return None
        steps[0] += 1
        if steps[0] > limit * 50:
            raise TimeoutError()
        if event == 'return':
            q = frame.f_code.co_qualname
            if '<' in q.split('.')[-1]:
                return tracer
            loc = seen.setdefault(q, {})
            for k, v in frame.f_locals.items():
                loc.setdefault(k, [])
                if len(loc[k]) < 6:
                    loc[k].append(describe(v))
        return tracer
    exec(code, env)
    for prefix, argvs, *_rest in entries:
        for args in argvs:
            sys.settrace(tracer)
            try:
                eval('%s(*%r)' % (prefix, tuple(args)), env)
            except TimeoutError:
                pass
            except Exception:
                pass
            finally:
                sys.settrace(None)
    return seen


def iter_functions(stmts, qual=''):
    for s_ in stmts:
        c = type(s_).__name__
        if c in ('Function', 'Method', 'ClassMethod', 'Constructor', 'Closure'):
            q = qual + s_.symbol.tokens
            yield q, s_
            yield from iter_functions(s_.statements, q + '.<locals>.')
        elif c in ('Class', 'Enum'):
            yield from iter_functions(s_.statements, qual + s_.symbol.tokens + '.')
        elif c in ('If',):
            yield from iter_functions(s_.statements, qual)
            for e in s_.else_ifs:
                yield from iter_functions(e.statements, qual)
            if type(s_.else_clause).__name__ == 'Else':
                yield from iter_functions(s_.else_clause.statements, qual)
        elif c in ('For', 'While', 'With', 'Try'):
            yield from iter_functions(s_.statements, qual)


def run(ctx: Ctx) -> None:
    shim()
    import tsession
    import progen
    from rogw.tranp.semantics.reflections import Reflections
    ctx.rule = ('(a, b) expressions of the model grammar over eight typed variables: type-directed mostly well-typed ones and an unrestricted stream; (c) generated typed programs '
                '(functions, closures, classes with fields / methods / inheritance, enums, lists, dicts, tuples, comprehensions, loops) run on their argument vectors; '
                'non-trivial = expression with at least two operators / program with a class or a container-typed local; distinct = distinct text')
    ctx.prove(['g_optable'])
    rnd = ctx.rnd
    scale = 3 if ctx.broken else 1

    # ---- (a) infer vs Reflections.type_of, (b) dyn vs CPython ----
    n_expr = ctx.n(240, 6000) * scale
    exprs = []
    for i in range(n_expr):
        g = EG(rnd, typed=i % 4 != 3)
        exprs.append(g.any(rnd.choice([1, 2, 2, 3])))
    # chains mixing the operators of one level (each step is typed by its own operator)
    V0, V1, V2 = '(EVar 0)', '(EVar 1)', '(EVar 2)'
    exprs += [('(v0 * v0 / 2)', '(EBin ODiv (EBin OMul %s %s) (ELit BInt))' % (V0, V0)), ('(v0 % 7 / 2)', '(EBin ODiv (EBin OMod %s (ELit BInt)) (ELit BInt))' % V0),
              ('(2 * 7 / 2)', '(EBin ODiv (EBin OMul (ELit BInt) (ELit BInt)) (ELit BInt))'), ('(v2 * v2 / v0)', '(EBin ODiv (EBin OMul %s %s) %s)' % (V2, V2, V0)),
              ('(v0 / 2 * v0)', '(EBin OMul (EBin ODiv %s (ELit BInt)) %s)' % (V0, V0)), ('(v0 - v0 + 1.5)', '(EBin OAdd (EBin OSub %s %s) (ELit BFloat))' % (V0, V0)),
              ('(v0 + v1 - v0)', '(EBin OSub (EBin OAdd %s %s) %s)' % (V0, V1, V0)), ('(v0 * 2 % 7 / 2 + 1)', '(EBin OAdd (EBin ODiv (EBin OMod (EBin OMul %s (ELit BInt)) (ELit BInt)) (ELit BInt)) (ELit BInt))' % V0),
              ('(v0 << 1 >> v0)', '(EBin OShr (EBin OShl %s (ELit BInt)) %s)' % (V0, V0))]
    icases, iraw, dcases, draw = [], [], [], []
    env = {n: v for n, _, v in VARS}
    header = 'def f(%s) -> None:\n' % ', '.join('%s: %s' % (n, t) for n, t, _ in VARS)
    B = 12
    for lo in range(0, len(exprs), B):
        chunk = exprs[lo:lo + B]
        src = header + ''.join('\tx%d = %s\n' % (k, e[0]) for k, e in enumerate(chunk))
        try:
            sess = tsession.Session({'c03e': src})
            mod = sess.load('c03e')
            refl = sess.app.resolve(Reflections)
            fn = [x for x in mod.entrypoint.statements if type(x).__name__ == 'Function'][0]
            stmts = fn.statements
        except Exception as e:
            stmts = None
            load_err = repr(e)[:200]
        for k, (text, term) in enumerate(chunk):
            ctx.case(text, len(re.findall(r'[-+*/%&|^<>~]|\bnot\b|\band\b|\bor\b|\bif\b', text)) >= 2)
            got = 'ERR'
            if stmts is not None:
                try:
                    got = str(refl.type_of(stmts[k].value))
                except Exception as e:
                    got = 'ERR ' + type(e).__name__
            else:
                got = 'ERR load'
            if stmts is None:
                continue
            ty = None if got.startswith('ERR') else parse_type(got)
            if not got.startswith('ERR') and ty is None:
                ctx.count('infer:outside-model')
                continue
            icases.append(coq_pair(term, coq_opt(ty)))
            iraw.append(dict(expr=text, tranp=got))
            ctx.count('infer:' + ('type' if ty else got.replace('ERR ', 'error:')))
            try:
                val = eval(text, dict(env))
                d = describe_rty(val)
            except Exception:
                d = None
            if d is not None:
                dcases.append(coq_pair(term, d))
                draw.append(dict(expr=text, cpython=d))
                if ty is not None and fits(describe(val), got) is False:
                    via, text, got, val = locate_cause(text, header, env)
                    ctx.violation(sig_of(re.sub(r'<.*', '', got), re.sub(r'<.*', '', short(describe(val))), via),
                                  'the inferred type %s of the expression %s (a %s) is not the type %s its value has under CPython' % (got, text, via, short(describe(val))),
                                  dict(input=dict(source=header + '\tx0 = %s\n' % text, symbol='f.x0', entries=[['f', [[v for _, _, v in VARS]]]]), oracle_result=short(describe(val)), impl_result=got))
    G = 'fun n => nth_error [%s] n' % '; '.join(VAR_TY)
    R = 'fun n => nth n [%s] (RB BNone)' % '; '.join(describe_rty(v) for _, _, v in VARS)
    ctx.correspond('infer_expression', IMPORTS, 'expr * option ty',
                   'fun c => match infer op_table operator_dunder arithmetical_ops (%s) (fst c), snd c with Some a, Some b => ty_eqb a b | None, None => true | _, _ => false end' % G,
                   icases, iraw, shard=150)
    prelude = ('Fixpoint covers (m a : rty) {struct a} : bool := match a, m with\n'
               '  | RB x, RB y => base_eqb x y\n'
               '  | RList xs, RList ms => forallb (fun x => existsb (fun y => covers y x) ms) xs\n'
               '  | RDict ks vs, RDict mk mv => forallb (fun x => existsb (fun y => covers y x) mk) ks && forallb (fun x => existsb (fun y => covers y x) mv) vs\n'
               '  | RTuple xs, RTuple ms => (fix go (xs ms : list rty) {struct xs} : bool := match xs, ms with [], [] => true | x :: xr, y :: mr => covers y x && go xr mr | _, _ => false end) xs ms\n'
               '  | _, _ => false end.\n')
    ctx.correspond('dyn_expression', IMPORTS, 'expr * rty', 'fun c => existsb (fun m => covers m (snd c)) (dyn (%s) (fst c))' % R, dcases, draw, prelude, shard=150)

    # ---- (c) oracle: inferred declaration types vs run-time types of whole programs ----
    N = ctx.n(40, 600) * scale
    programs = [progen.Program(src, [(name, [args], 'int')]) for name, src, args in WITNESSES] + [progen.Program(GENERICS, [('g_main', [(3,)], 'int')]), progen.Program(GENERICS2, [('g2_main', [(3,)], 'int')])]
    for i in range(N + len(programs)):
        p = programs[i] if i < len(programs) else progen.gen_program(rnd, rnd.randint(1, 3))
        try:
            seen = run_traced(p.src, p.entries)
        except Exception as e:
            ctx.count('python-failed:' + type(e).__name__)
            continue
        ctx.case(p.src, 'class ' in p.src or 'list[' in p.src or 'dict[' in p.src)
        try:
            sess = tsession.Session({'c03p': p.src})
            mod = sess.load('c03p')
            refl = sess.app.resolve(Reflections)
        except Exception as e:
            ctx.violation('program-rejected', 'a generated program was rejected', dict(input=dict(source=p.src), impl_result=repr(e)[:300]))
            continue
        if i < 2:
            ctx.sample(dict(source=p.src[:300]))
        for q, fn in iter_functions(mod.entrypoint.statements):
            if q not in seen:
                continue
            for decl in fn.decl_vars:
                sym = decl.symbol if hasattr(decl, 'symbol') else decl
                name = sym.tokens
                if name not in seen[q] or name in ('self', 'cls'):
                    continue
                via = type(getattr(sym.parent, 'value', sym.parent)).__name__ if type(sym.parent).__name__ in ('MoveAssign', 'AnnoAssign') else type(sym.parent).__name__
                try:
                    inferred = str(refl.type_of(sym))
                except Exception as e:
                    ctx.violation('inference-raises:%s@%s' % (type(e).__name__, via), 'type inference raises for a declared symbol of a well-typed program (%s, value is a %s)' % (type(e).__name__, via),
                                  dict(input=dict(source=p.src, symbol=q + '.' + name, entries=[[e2[0], [list(a) for a in e2[1]]] for e2 in p.entries]), impl_result=repr(e)[:300]))
                    continue
                ctx.evaluations += 1
                for d in seen[q][name]:
                    ok = fits(d, inferred)
                    ctx.count('symbol:' + ('agree' if ok else 'undecided' if ok is None else 'differ'))
                    if ok is False:
                        kind = 'unknown' if 'Unknown' in inferred else 'mismatch'
                        ctx.violation(sig_of(re.sub(r'<.*', '', inferred), re.sub(r'<.*', '', short(d)), via, kind),
                                      'the inferred type %s of %s (declared from a %s) is not the type %s its value has at run time' % (inferred, q + '.' + name, via, short(d)),
                                      dict(input=dict(source=p.src, symbol=q + '.' + name, entries=[[e[0], [list(a) for a in e[1]]] for e in p.entries]), oracle_result=short(d), impl_result=inferred))
                        break


def infer_one(text, header):
    """(type string | 'ERR ...', node class of the value) for `x0 = text` inside the eight-variable function"""
    import tsession
    from rogw.tranp.semantics.reflections import Reflections
    sess = tsession.Session({'c03e': header + '\tx0 = %s\n' % text})
    mod = sess.load('c03e')
    refl = sess.app.resolve(Reflections)
    fn = [x for x in mod.entrypoint.statements if type(x).__name__ == 'Function'][0]
    node = fn.statements[0].value
    while type(node).__name__ == 'Group':
        node = node.expression
    try:
        return str(refl.type_of(fn.statements[0].value)), type(node).__name__
    except Exception as e:
        return 'ERR ' + type(e).__name__, type(node).__name__


def locate_cause(text, header, env):
    """the smallest sub-expression whose inferred type already disagrees with its run-time type: (node class, text, inferred, value)"""
    import ast
    subs = sorted({ast.unparse(n) for n in ast.walk(ast.parse(text, mode='eval')) if isinstance(n, ast.expr)}, key=len)
    for sub in subs:
        try:
            val = eval(sub, dict(env))
            got, via = infer_one(sub, header)
        except Exception:
            continue
        if not got.startswith('ERR') and fits(describe(val), got) is False:
            return via, sub, got, val
    got, via = infer_one(text, header)
    return via, text, got, eval(text, dict(env))


# generic signatures with a type variable two levels deep, instantiated twice; library generics over two element types
GENERICS = '''from typing import Generic, TypeVar

K = TypeVar('K')
T = TypeVar('T')

class GBox(Generic[T]):
	val: T

	def __init__(self, val: T) -> None:
		self.val = val

	def get(self) -> T:
		return self.val

	def pair(self) -> tuple[T, int]:
		return (self.val, 1)

	@classmethod
	def make(cls, val: T) -> 'GBox[T]':
		return cls(val)

def opt_box(o: GBox[float] | None, n: int) -> int:
	if o is not None:
		g1 = o.get()
		t1 = o.pair()[0]
		v1 = o.val
	mk = GBox.make('a')
	mv = mk.val
	ib = GBox(n)
	ig = ib.get()
	return n

def both(k: K, v: T) -> dict[K, list[T]]:
	return {k: [v]}

def first(xs: list[T]) -> T:
	return xs[0]

def g_main(n: int) -> int:
	p_both = both('a', 1.5)
	q_both = both(n, 'x')
	q_elem = q_both[n][0]
	p_elem = p_both['a'][0]
	fs = [1.5, 2.5]
	ss = ['a', 'b']
	total = 0
	for i, f in enumerate(fs):
		f_seen = f
		total += i
	for j, s in enumerate(ss):
		s_seen = s
		total += j
	d1 = {'a': 1}
	d2 = {1: 'a'}
	for k1, v1 in d1.items():
		total += v1
	for k2, v2 in d2.items():
		total += k2
	e1 = first(fs)
	e2 = first(ss)
	total += opt_box(GBox(1.5), n)
	return total
'''

# inherited members of a generic base read through a subclass that binds the type variable (several times, in several orders),
# and optional values of aliased container / class types that are subscripted, iterated and dereferenced
GENERICS2 = '''from typing import Generic, TypeAlias, TypeVar

T2 = TypeVar('T2')

class HBox(Generic[T2]):
	v: T2

	def __init__(self, v: T2) -> None:
		self.v = v

	def get(self) -> T2:
		return self.v

	def size(self) -> int:
		return 1

class IntBox(HBox[int]):
	def twice(self) -> int:
		return self.v * 2

class StrBox(HBox[str]):
	pass

class Item:
	name: str

	def __init__(self, name: str) -> None:
		self.name = name

Scores: TypeAlias = dict[str, float]
Row: TypeAlias = list[int]
Goods: TypeAlias = Item

def boxes(n: int) -> int:
	ib = IntBox(n)
	a1 = ib.v
	a2 = ib.get()
	a3 = ib.v
	a4 = ib.size()
	a5 = ib.twice()
	sb = StrBox('s')
	b1 = sb.get()
	b2 = sb.v
	b3 = sb.v
	return n

def aliases(s: Scores | None, row: Row | None, g: Goods | None, n: int) -> int:
	h = s['a'] if s else 0.5
	r0 = row[0] if row else n
	nm = g.name if g else 'none'
	total = 0
	if row is not None:
		for x in row:
			x_seen = x
			total += x
	sc: Scores = {'a': 1.5}
	h2 = sc['a']
	return total

def g2_main(n: int) -> int:
	t = boxes(n)
	t += aliases({'a': 2.5}, [n, 2], Item('it'), n)
	t += aliases(None, None, None, n)
	return t
'''

# the refutation witnesses of Properties/C03.v as programs (replayed against the real inference on every run)
WITNESSES = [
    ('w_or', 'def w_or(a: int, c: bool) -> int:\n\tv = a or a\n\treturn 0\n', (3, True)),
    ('w_and', 'def w_and(a: int, c: bool) -> int:\n\tv = a and a\n\treturn 0\n', (3, True)),
    ('w_bitand', 'def w_bitand(a: int, c: bool) -> int:\n\tv = c & a\n\treturn 0\n', (3, True)),
    ('w_bitor', 'def w_bitor(a: int, c: bool) -> int:\n\tv = c | a\n\treturn 0\n', (3, True)),
    ('w_dict', "def w_dict(a: int, c: bool) -> int:\n\tv = {'a': 1, 'b': 2.0}\n\treturn 0\n", (3, True)),
    ('w_xor', 'def w_xor(a: int, c: bool) -> int:\n\tv = c ^ c\n\treturn 0\n', (3, True)),
    ('w_shl', 'def w_shl(a: int, c: bool) -> int:\n\tv = c << c\n\treturn 0\n', (3, True)),
    ('w_list', 'def w_list(a: int, c: bool) -> int:\n\tv = [1, 2.0]\n\treturn 0\n', (3, True)),
    ('w_neg', 'def w_neg(a: int, c: bool) -> int:\n\tv = -c\n\tw = ~c\n\treturn 0\n', (3, True)),
    ('w_listcls', "def w_listcls(a: int, c: bool) -> int:\n\tv = [[1], ['a']]\n\treturn 0\n", (3, True)),
    ('w_striter', "def w_striter(a: int, c: bool) -> int:\n\tv = [ch for ch in 'ab']\n\treturn 0\n", (3, True)),
]


def replay(ctx: Ctx, data: dict) -> int:
    shim()
    import tsession
    from rogw.tranp.semantics.reflections import Reflections
    src, symbol = data['input']['source'], data['input']['symbol']
    seen = run_traced(src, [(e[0], [tuple(a) for a in e[1]]) for e in data['input'].get('entries', [])])
    sess = tsession.Session({'c03p': src})
    mod = sess.load('c03p')
    refl = sess.app.resolve(Reflections)
    bad = False
    for q, fn in iter_functions(mod.entrypoint.statements):
        for decl in fn.decl_vars:
            sym = decl.symbol if hasattr(decl, 'symbol') else decl
            if q + '.' + sym.tokens == symbol:
                try:
                    inferred = str(refl.type_of(sym))
                except Exception as e:
                    print(symbol, 'inference raises', repr(e)[:200])
                    bad = True
                    continue
                for d in seen.get(q, {}).get(sym.tokens, []):
                    print(symbol, 'inferred', inferred, 'run time', short(d))
                    bad = bad or fits(d, inferred) is False
    print(src)
    print('REPRODUCED' if bad else 'not reproduced')
    return 1 if bad else 0
