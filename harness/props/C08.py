"""C08 - consistent renaming of user identifiers commutes with transpilation.
Theorems: Properties/C08.v (name joining / splitting, equivariance of the scope walk).
Correspondence: model DSN / ModuleDSN functions vs the real ones on generated and malformed strings.
Oracle: transpile(r(P)) == r(transpile(P)) for generated programs and injective renamings drawn from
adversarial name pools (shared prefixes / suffixes, double underscores, single letters, names equal to grammar
tags or classification words, length changes)."""
from lib import *
import re
import keyword

IMPORTS = 'From Tranp Require Import Model.Dsn.'
ADVERSARIAL = ['foo', 'foo_', 'foobar', 'foo__bar', 'bar', 'a', 'b', 'x', 'block', 'name', 'var', 'function_def', 'class_def_raw', 'i', 'l', 'O', 'self_', 'n', 'nn', 'n_n', 'x__', 'Cls', 'ClsCls', 'T1', 'value', 'values',
               'item', 'items', 'k', 'v', 'kv', 'args', 'result', 'res', 'r', 'tmp', 'tmp2', 'tmp_2', 'A', 'AA', 'aA', 'file_input', 'module_path', 'entry', 'e', 'E', 'long_identifier_with_many_parts_0', 'z9', 'Z']
# (names with a leading underscore are left out of the pools: tranp derives the C++ accessor from them - protected / private)
RESERVED = set(keyword.kwlist) | {'int', 'str', 'float', 'bool', 'list', 'dict', 'tuple', 'len', 'range', 'print', 'self', 'cls', 'Enum', 'None', 'True', 'False', 'enumerate', 'super', 'object', 'type', 'id', 'min', 'max', 'abs',
                                  'auto', 'const', 'void', 'char', 'double', 'long', 'short', 'signed', 'unsigned', 'struct', 'union', 'this', 'new', 'delete', 'template', 'typename', 'namespace', 'public', 'private', 'protected', 'virtual', 'static'}


# hand-written programs renamed systematically (one identifier at a time): class variables and fields with leading underscores
# (the accessor is derived from them: the underscores are kept), a closure that holds a comprehension, single-letter names
DIRECTED_PROGRAMS = [
    ("""from typing import ClassVar

class Counter:
\t_step: ClassVar[int] = 1
\t__seen: ClassVar[int] = 0
\tlimit: ClassVar[int] = 9
\t_own: int

\tdef __init__(self, n: int) -> None:
\t\tself._own = n

\tdef bump(self, d: int) -> int:
\t\treturn self._own + Counter._step + Counter.__seen + d

def run(n: int, d: int) -> int:
\txs = [n, d]
\ti = n + 1
\tdef inner(b: int) -> int:
\t\tys = [idx + b for idx in xs]
\t\treturn len(ys) + d + i + n
\treturn inner(1) + Counter(n).bump(d)
""", ['Counter', '_step', '__seen', 'limit', '_own', 'bump', 'run', 'xs', 'inner', 'ys', 'idx', 'n', 'd', 'i', 'b']),
    ("""class Item:
\tn: int
\ttotal: int

\tdef __init__(self, n: int) -> None:
\t\tself.n = n
\t\tself.total = n * 2

\tdef bump(self, d: int) -> int:
\t\treturn self.n + self.total + d

class Shape:
\tsides: int

\tdef __init__(self, sides: int) -> None:
\t\tself.sides = sides

\tdef area(self) -> int:
\t\treturn self.sides

class Square(Shape):
\tdef corners(self) -> int:
\t\treturn self.sides + 4

def build(n: int) -> Item:
\treturn Item(n)

def use(n: int) -> int:
\tv = build(n)
\tw: Item = build(n + 1)
\tq = Square(4)
\treturn v.bump(1) + w.total + q.area() + q.corners()
""", ['Item', 'n', 'total', 'bump', 'Shape', 'sides', 'area', 'Square', 'corners', 'build', 'use', 'v', 'w', 'q', 'd']),
]


def directed_renamings(src, names):
    used = set(re.findall(r'\b[A-Za-z_]\w*\b', src))
    letters = sorted({c for n in names for c in n.strip('_') if c.isalpha()})
    for n in names:
        lead = n[:len(n) - len(n.lstrip('_'))]
        base = n[len(lead):]
        others = [m for m in names if m != n and not m.startswith('_')]
        related = [m + '_build' for m in others[:2]] + [m + 'ize' for m in others[2:3]] + [m[:2] for m in others if len(m) > 3][:2]      # another identifier as a proper prefix, or a prefix of another
        for new in [base + '2', 'x' + base, base[:1] + '9', base + '_', base + '__', base + 'Enum', base + 'Generic'] + related + letters[::3][:4]:
            new = lead + new
            if lead == '__' and new.endswith('__'):
                continue      # (a name with two leading and two trailing underscores is public by Python's rules: another kind of name)
            if new not in used and new not in RESERVED and new != n:
                yield {n: new}


def rename(text, mapping):
    return re.sub(r'\b[A-Za-z_]\w*\b', lambda m: mapping.get(m.group(0), m.group(0)), text)


def run(ctx: Ctx) -> None:
    shim()
    import tsession
    import progen
    from rogw.tranp.dsn.dsn import DSN
    from rogw.tranp.dsn.module import ModuleDSN
    ctx.rule = ('generated programs (functions, locals, parameters, classes with fields and methods, enums) and injective renamings of every user identifier into names from adversarial pools; '
                'non-trivial = renaming that maps two identifiers to names where one is a prefix of the other, or to a grammar tag word; distinct = distinct (program, renaming)')
    ctx.prove([])
    rnd = ctx.rnd
    # ---- correspondence: DSN functions ----
    cases, raw = [], []
    for i in range(ctx.n(600, 10000)):
        parts = [rnd.choice(['a', 'foo', 'b_c', '', 'x1', 'a.b', '#', 'm#n', '.']) for _ in range(rnd.randint(0, 4))]
        origin = rnd.choice(['', 'a', 'a.b', 'a.b.c', '.a', 'a.', 'a..b', 'foo.bar_baz.x', 'm#a.b', '...', 'a.b.c.d']) if rnd.random() < .5 else '.'.join(parts)
        n = rnd.randint(0, 4)
        dsn = rnd.choice(['mod', 'pkg.mod', 'pkg.mod#a', 'pkg.mod#a.b', '', 'a#b#c'])
        try:
            want = (DSN.join(*parts), DSN.elements(origin), DSN.elem_counts(origin), DSN.left(origin, n), DSN.right(origin, n) if n > 0 else None, DSN.shift(origin, n), DSN.shift(origin, -n) if n > 0 else None,
                    ModuleDSN.full_joined(dsn, *parts), ModuleDSN.parsed(dsn), ModuleDSN.expanded(dsn))
        except Exception as e:
            continue
        cases.append(coq_pair(coq_list(map(coq_str, parts)), coq_str(origin), coq_nat(n), coq_str(dsn),
                              coq_pair(coq_str(want[0]), coq_list(map(coq_str, want[1])), coq_nat(want[2]), coq_str(want[3]), coq_opt(None if want[4] is None else coq_str(want[4])), coq_str(want[5]),
                                       coq_opt(None if want[6] is None else coq_str(want[6])), coq_str(want[7]), coq_pair(coq_str(want[8][0]), coq_str(want[8][1])), coq_pair(coq_str(want[9][0]), coq_list(map(coq_str, want[9][1]))))))
        raw.append(dict(parts=parts, origin=origin, n=n, dsn=dsn))
    prelude = ('Definition leq (a b : list str) : bool := if list_eq_dec (list_eq_dec Ascii.ascii_dec) a b then true else false.\n'
               'Definition oeq (a : str) (b : option str) : bool := match b with Some x => str_eqb a x | None => true end.\n')
    ctx.correspond('dsn_functions', IMPORTS, 'list str * str * nat * str * (str * list str * nat * str * option str * str * option str * str * (str * str) * (str * list str))',
                   'fun c => match c with (parts, origin, n, dsn, (j, es, cnt, lf, rt, sp, sn, fj, (p1, p2), (e1, e2))) => '
                   'str_eqb (dsn_join parts) j && leq (dsn_elements origin) es && Nat.eqb (dsn_elem_counts origin) cnt && str_eqb (dsn_left origin n) lf && oeq (dsn_right origin n) rt '
                   '&& str_eqb (dsn_shift_pos origin n) sp && oeq (dsn_shift_neg origin n) sn && str_eqb (full_joined dsn parts) fj '
                   '&& str_eqb (fst (parsed dsn)) p1 && str_eqb (snd (parsed dsn)) p2 && str_eqb (fst (expanded dsn)) e1 && leq (snd (expanded dsn)) e2 end',
                   cases, raw, prelude, shard=300)

    # ---- oracle: renaming commutes with transpilation ----
    N = ctx.n(24, 400) * (3 if ctx.broken else 1)
    jobs = []
    for i in range(N):
        p = progen.gen_program(rnd, rnd.randint(1, 3))
        names = sorted(set(p.names) & set(re.findall(r'\b[A-Za-z_]\w*\b', p.src)))
        in_src = set(re.findall(r'\b[A-Za-z_]\w*\b', p.src))     # every identifier of the program (methods named like list / dict methods are not in p.names)
        pool = [x for x in ADVERSARIAL if x not in RESERVED and x not in in_src]
        if len(pool) < len(names):
            pool = pool + ['q%d_x' % k for k in range(len(names))]
        targets = rnd.sample(pool, len(names))
        jobs.append((p, names, dict(zip(names, targets))))
        # targeted renamings of one identifier: its new name has another identifier of the program as a proper prefix / suffix,
        # or begins with self / cls
        used = set(re.findall(r'\b[A-Za-z_]\w*\b', p.src))
        for kind in ('prefix', 'suffix', 'receiver-like'):
            if len(names) < 2:
                break
            a, b = rnd.sample(names, 2)
            new = {'prefix': a + rnd.choice(['_build', 'x', '2', '_']), 'suffix': rnd.choice(['sub', 'x_', 'my']) + a, 'receiver-like': rnd.choice(['self_', 'selfish', 'clsid', 'cls_'])}[kind]
            if kind == 'receiver-like':
                new = new + b
            if new in used or new in RESERVED:
                continue
            jobs.append((p, names, {b: new}))
        # an identifier renamed to a name that carries a word tranp gives a meaning to (Enum, Generic, list method names, ...) as prefix / suffix
        classes_ = [n for n in names if re.search(r'^class %s\b' % re.escape(n), p.src, flags=re.M)]
        based = [n for n in classes_ if re.search(r'^class \w+\(%s\)' % re.escape(n), p.src, flags=re.M)]
        for b, word in [(rnd.choice(based or classes_ or names), rnd.choice(['Enum', 'Generic', 'Exception', 'Protocol'])), (rnd.choice(names), rnd.choice(['len', 'range', 'print', 'list', 'dict', 'int', 'str', 'super', 'Callable', 'TypeVar', 'append', 'pop', 'keys']))]:
            new = rnd.choice(['My' + word, 'Base' + word, word + 'Like', word + '2', word.lower() + '_x'])
            if new not in used and new not in RESERVED:
                jobs.append((p, names, {b: new}))
        # a function that returns an instance of a class, named with the class name as a prefix (and the converse)
        for cls_name, fn_name in [(m.group(2), m.group(1)) for m in re.finditer(r'^def (\w+)\([^)]*\) -> (\w+):', p.src, flags=re.M) if re.search(r'^class %s\b' % m.group(2), p.src, flags=re.M)][:2]:
            for mp in ({fn_name: cls_name + '_build'}, {cls_name: fn_name[:-1]} if len(fn_name) > 2 else {}):
                if mp and not (set(mp.values()) & (used | RESERVED)) and set(mp) <= set(names):
                    jobs.append((p, names, mp))
    import types
    for src, names in DIRECTED_PROGRAMS:
        dp = types.SimpleNamespace(src=src, names=names)
        for mapping in directed_renamings(src, names):
            jobs.append((dp, names, mapping))
    outs = {}
    for i, (p, names, mapping) in enumerate(jobs):
        targets = list(mapping.values()) + [n for n in names if n not in mapping]
        src2 = rename(p.src, mapping)
        tricky = any(a != b and (a.startswith(b) or b.startswith(a)) for a in targets for b in targets) or any(t in ('block', 'name', 'var', 'function_def', 'class_def_raw', 'file_input', 'entry') for t in targets)
        ctx.case((p.src, tuple(sorted(mapping.items()))), tricky)
        if id(p) not in outs:
            try:
                outs[id(p)] = tsession.transpile_one(p.src)
            except Exception as e:
                outs[id(p)] = None
                ctx.violation('program-rejected', 'a generated program was rejected', dict(input=dict(source=p.src), impl_result=repr(e)[:300]))
        out1 = outs[id(p)]
        if out1 is None:
            continue
        try:
            out2 = tsession.transpile_one(src2)
        except Exception as e:
            out2 = 'ERROR ' + type(e).__name__ + ': ' + str(e)[:200]
        want = rename(out1, mapping)
        if i < 2:
            ctx.sample(dict(renaming=dict(list(mapping.items())[:6]), source=p.src[:200]))
        if out2 != want:
            la, lb = want.split('\n'), out2.split('\n')
            j = next((k for k, (x, y) in enumerate(zip(la, lb)) if x != y), min(len(la), len(lb)))
            involved = [t for t in targets if j < len(lb) and (t in lb[j] or (j < len(la) and t in la[j]))]
            rel = 'prefix' if any(a != b and (a.startswith(b) or b.startswith(a)) for a in involved for b in targets) else ('tag-word' if any(t in ('block', 'name', 'var', 'function_def', 'class_def_raw', 'file_input', 'entry') for t in involved) else 'other')
            ctx.violation('rename-changes-output:' + rel, 'renaming user identifiers changes the output beyond the renaming (%s)' % rel,
                          dict(input=dict(source=p.src, renaming=mapping), oracle_result=la[j] if j < len(la) else None, impl_result=lb[j] if j < len(lb) else None))


def replay(ctx: Ctx, data: dict) -> int:
    shim()
    import tsession
    src, mapping = data['input']['source'], data['input']['renaming']
    out1 = tsession.transpile_one(src)
    try:
        out2 = tsession.transpile_one(rename(src, mapping))
    except Exception as e:
        out2 = 'ERROR ' + repr(e)
    bad = out2 != rename(out1, mapping)
    print('renaming:', mapping)
    print('REPRODUCED' if bad else 'not reproduced')
    return 1 if bad else 0
