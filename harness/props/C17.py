"""C17 - folding constant expressions gives the value Python gives.
Theorems: Properties/C17.v. Correspondence: model fold (and the model's Python semantics py_eval) vs
LiteralEvaluator.exec / CPython eval on generated literal expressions placed as enum member values.
Oracle: exec(e) == eval(e) with equal type, or an application error."""
from lib import *
import re
import ast

IMPORTS = 'From Tranp Require Import Model.Fold.\nFrom Coq Require Import PrimFloat.'
LEVELS = [['|'], ['^'], ['&'], ['<<', '>>'], ['+', '-'], ['*', '/', '%']]
OPN = {'+': 'Add', '-': 'Sub', '/': 'Div', '*': 'Mul', '%': 'Mod', '|': 'BOr', '^': 'BXor', '&': 'BAnd', '<<': 'Shl', '>>': 'Shr'}


class G:
    """expression trees: ('int', text, value) ('float', text) ('str', text) ('chain', level, first, [(op, e)])
    ('factor', sign, e) ('group', e) ('cast', name, [args]) ('ref', index)"""

    def __init__(self, rnd, rich, wild=False):
        self.rnd = rnd
        self.wild = wild     # ill-typed operands (the malformed stream)
        self.rich = rich     # constructs outside the Gallina model (hex, big ints, float text casts, member references ...)

    def lit(self, kind=None):
        r = self.rnd
        kind = kind or r.choice(['int', 'int', 'int', 'float', 'str'])
        if kind == 'int':
            if self.rich and r.random() < .15:
                v = r.choice([0x10, 0xff, 0xABC, 0x7fffffff])
                return ('int', hex(v), v)
            if self.rich and r.random() < .1:
                # digit separators, decimal and hexadecimal
                text = r.choice(['1_000', '1_0', '12_345', '0x1_0', '0xf_f', '1_6'])
                return ('int', text, int(text, 0))
            if self.rich and r.random() < .08:
                v = r.choice([2 ** 53 + 1, 2 ** 64, 10 ** 20 + 7, 9007199254740993])
                return ('int', str(v), v)
            v = r.choice([0, 1, 2, 3, 5, 7, 8, 10, 12, 16, 100, 255, 1000])
            return ('int', str(v), v)
        if kind == 'float':
            return ('float', r.choice(['0.5', '1.0', '2.5', '0.25', '3.0', '10.0', '0.1', '1.5', '100.75', '0.0']))
        q = r.choice(["'", '"'])
        pool = 'ab cd,=:12'
        if self.rich and r.random() < .2:
            pool += "'\"" if r.random() < .5 else '\\n'
        body = ''.join(r.choice(pool) for _ in range(r.randint(0, 4)))
        if self.rich and r.random() < .05:
            return ('str', "'''" + body.replace("'", '').replace('\\', '') + "'''")
        body = body.replace('\\', '\\\\') if '\\' in body and r.random() < .5 else body
        if q in body:
            body = body.replace(q, '\\' + q) if r.random() < .5 else body.replace(q, '')
        if body.endswith('\\') and not body.endswith('\\\\'):
            body += 'n'
        return ('str', q + body + q)

    # ---- type-directed generation (mostly well-typed; `wild` makes an operand of a random type) ----
    def pick_type(self, t):
        if self.wild and self.rnd.random() < .25:
            return self.rnd.choice(['int', 'float', 'str'])
        return t

    def prim(self, t, d):
        r = self.rnd
        t = self.pick_type(t)
        k = r.random()
        if d <= 0 or k < .5:
            return self.lit(t)
        if k < .65:
            return ('group', self.expr(t, d - 1, 0))
        if k < .75 and t != 'str':
            return ('factor', r.choice(['-', '-', '+']), self.prim(t, d - 1))
        # casts
        if t == 'int':
            src = r.choice(['int', 'float', 'digits'])
            # (also integers that no double represents exactly: a cast must not go through float)
            arg = ('str', r.choice(["'12'", '"7"', "'-3'", "' 4 '", "'1_0'", "'x'", "'9007199254740993'", "'-12345678901234567891'", "'72057594037927937'"])) if src == 'digits' else self.expr(src, d - 1, 0)
            args = [arg]
            if self.rich and r.random() < .1:
                args.append(('int', '16', 16))
            return ('cast', 'int', args)
        if t == 'float':
            src = r.choice(['int', 'float', 'text'])
            arg = ('str', r.choice(["'1.5'", '"2"', "'1e3'", "'nan'"])) if src == 'text' else self.expr(src, d - 1, 0)
            return ('cast', 'float', [arg])
        return ('cast', 'str', [self.expr(r.choice(['int', 'int', 'str', 'float']), d - 1, 0)])

    def expr(self, t, d, minlv=0):
        r = self.rnd
        if d <= 0 or r.random() < .3:
            return self.prim(t, d)
        if t == 'int':
            lv = r.choice([0, 1, 2, 3, 4, 4, 5, 5])
            ops = [o for o in LEVELS[lv] if o != '/']
            types = ['int']
        elif t == 'float':
            lv = r.choice([4, 5])
            ops = LEVELS[lv]
            types = ['int', 'float', 'float']
        else:
            lv = 4
            ops = ['+']
            types = ['str']
        n = r.choice([1, 1, 1, 2, 3])
        first = self.expr(r.choice(types), d - 1, lv + 1)
        rest = []
        for _ in range(n):
            o = r.choice(ops)
            if lv == 3:
                x = (lambda v: ('int', str(v), v))(r.choice([0, 1, 2, 3, 4, 8, 31, 70])) if r.random() < .93 else ('factor', '-', ('int', '1', 1))
            else:
                x = self.expr(r.choice(types), d - 1, lv + 1)
                if o in ('%', '/') and r.random() < .9 and x[0] in ('int', 'float') and float(x[1] if x[0] == 'float' else x[2]) == 0:
                    x = ('int', '3', 3)
            rest.append((o, x))
        if t == 'float' and not any(o == '/' for o, _ in rest) and all(self._is_int(x) for x in [first] + [x for _, x in rest]):
            rest[-1] = (rest[-1][0], self.lit('float'))
        e = ('chain', lv, first, rest)
        return e if lv >= minlv else ('group', e)

    @staticmethod
    def _is_int(e):
        return e[0] == 'int' or (e[0] in ('group',) and G._is_int(e[1])) or (e[0] == 'cast' and e[1] == 'int')

    def top(self, d):
        return self.expr(self.rnd.choice(['int', 'int', 'float', 'str']), d, 0)


def text(e):
    k = e[0]
    if k in ('int', 'float', 'str'):
        return e[1]
    if k == 'chain':
        return text(e[2]) + ''.join(' %s %s' % (o, text(x)) for o, x in e[3])
    if k == 'factor':
        return e[1] + text(e[2])
    if k == 'group':
        return '(' + text(e[1]) + ')'
    if k == 'cast':
        return '%s(%s)' % (e[1], ', '.join(text(a) for a in e[2]))
    raise KeyError(k)


def coq_float(f):
    import math
    if math.isnan(f) or math.isinf(f):
        return None
    h = float(abs(f)).hex()
    return ('(PrimFloat.opp %s%%float)' % h) if math.copysign(1.0, f) < 0 else '%s%%float' % h


def coq_expr(e):
    """None when the expression is outside the modelled syntax (then only the oracle covers it)"""
    k = e[0]
    if k == 'int':
        if not e[1].isdigit():
            return None
        return '(ELit (VInt %s))' % coq_Z(e[2])
    if k == 'float':
        return '(ELit (VFloat %s))' % coq_float(float(e[1]))
    if k == 'str':
        if not all(32 <= ord(c) < 127 for c in e[1]):
            return None
        return '(ELit (VStr %s))' % coq_str(e[1])
    if k == 'chain':
        f = coq_expr(e[2])
        rest = [(o, coq_expr(x)) for o, x in e[3]]
        if f is None or any(x is None for _, x in rest):
            return None
        return '(EChain %s [%s])' % (f, '; '.join('(%s, %s)' % (OPN[o], x) for o, x in rest))
    if k == 'factor':
        x = coq_expr(e[2])
        return None if x is None else '(EFactor %s %s)' % (coq_bool(e[1] == '-'), x)
    if k == 'group':
        x = coq_expr(e[1])
        return None if x is None else '(EGroup %s)' % x
    if k == 'cast':
        args = [coq_expr(a) for a in e[2]]
        if any(a is None for a in args):
            return None
        return '(ECast %s [%s])' % ({'int': 'CInt', 'float': 'CFloat', 'str': 'CStr'}[e[1]], '; '.join(args))
    return None


def coq_outcome(r):
    """implementation result -> model outcome term; None if not expressible"""
    if r[0] == 'ok':
        v = r[1]
        if isinstance(v, bool):
            return None
        if isinstance(v, int):
            return '(Val (VInt %s))' % coq_Z(v)
        if isinstance(v, float):
            f = coq_float(v)
            return None if f is None else '(Val (VFloat %s))' % f
        if isinstance(v, str) and all(32 <= ord(c) < 127 for c in v):
            return '(Val (VStr %s))' % coq_str(v)
        return None
    if r[0].startswith(('LEAK', 'LOAD')):
        return None
    return 'Refuse'


def coq_presult(py):
    if py[0] == 'raise':
        return 'PRaise'
    v = py[1]
    if isinstance(v, bool):
        return None
    if isinstance(v, int):
        return '(PVal (PInt %s))' % coq_Z(v)
    if isinstance(v, float):
        f = coq_float(v)
        return None if f is None else '(PVal (PFloat %s))' % f
    if isinstance(v, str) and all(32 <= ord(c) < 127 for c in v):
        return '(PVal (PStr %s))' % coq_str(v)
    return None


class _Timeout(Exception):
    pass


def py_eval(src):
    """('ok', value) | ('raise', class name) | ('timeout', None); a signal handler only runs between byte codes, so the
    alarm of a long C-level operation can surface after eval() has returned - caught here as well"""
    try:
        return _py_eval(src)
    except _Timeout:
        return ('timeout', None)


def _py_eval(src):
    import signal
    import warnings
    warnings.simplefilter('ignore')

    def on_alarm(*a):
        raise _Timeout()
    old = signal.signal(signal.SIGALRM, on_alarm)
    signal.setitimer(signal.ITIMER_REAL, 2.0)
    try:
        return ('ok', eval(src, {'__builtins__': {'int': int, 'float': float, 'str': str}}))
    except _Timeout:
        return ('timeout', None)
    except Exception as e:
        return ('raise', type(e).__name__)
    finally:
        signal.setitimer(signal.ITIMER_REAL, 0)
        signal.signal(signal.SIGALRM, old)


def same_value(a, b):
    import math
    if type(a) is not type(b):
        return False
    if isinstance(a, float):
        return (math.isnan(a) and math.isnan(b)) or (a == b and math.copysign(1, a) == math.copysign(1, b))
    return a == b


def ops_of(e, acc):
    if e[0] == 'chain':
        ops_of(e[2], acc)
        for o, x in e[3]:
            acc.append(o)
            ops_of(x, acc)
    elif e[0] == 'factor':
        acc.append('u' + e[1])
        ops_of(e[2], acc)
    elif e[0] == 'group':
        ops_of(e[1], acc)
    elif e[0] == 'cast':
        acc.append(e[1] + '()' + ('/%d' % len(e[2]) if len(e[2]) != 1 else ''))
        for a in e[2]:
            ops_of(a, acc)
    else:
        acc.append('lit:' + e[0])
    return acc


def run(ctx: Ctx) -> None:
    import evalrun
    ctx.rule = ('expression trees over decimal / hex / large ints, decimal floats, single- and double-quoted strings (some with escapes, the other quote, triple quotes), '
                'chains at each of the six binary precedence levels, unary sign, groups, int/float/str casts (some with a surplus argument); '
                'non-trivial = at least one operator or cast; distinct = distinct expression text')
    ctx.prove(['g_evalops'])
    rnd = ctx.rnd
    N = ctx.n(1200, 60000) * (4 if ctx.broken else 1)
    exprs = []
    for i in range(N):
        g = G(rnd, rich=(i % 3 == 0 and i % 7 != 0), wild=(i % 7 == 0))
        exprs.append(g.top(rnd.randint(1, 4)))
        ctx.count('stream:' + ('ill-typed' if g.wild else 'well-typed') + ('+rich' if g.rich else ''))
    # the recorded finding, replayed on every run: a short octal escape at the end of a literal joined with a digit
    exprs.append(('chain', 4, ('str', '"\\2"'), [('+', ('str', '"0"'))]))
    texts = [text(e) for e in exprs]
    results = evalrun.eval_exprs(texts)
    cases, raw = [], []
    for e, t, r in zip(exprs, texts, results):
        ops = ops_of(e, [])
        for o in set(ops):
            ctx.count('op:' + o)
        ctx.count('impl:' + (r[0] if r[0] in ('ok',) else ('error:' + r[0].split(':')[0])))
        ctx.case(t, any(not o.startswith('lit') for o in ops))
        py = py_eval(t)
        if py[0] == 'timeout':
            ctx.count('python:timeout')       # (a very large intermediate value: not compared)
            continue
        if len(ctx.samples) < 6 and len(ops) > 2:
            ctx.sample(dict(expression=t, tranp=repr(r[1]) if r[0] == 'ok' else r[0], python=repr(py[1])))
        # ---- property oracle -----------------------------------------------------------------
        if r[0] == 'ok':
            got = r[1]
            if isinstance(got, str):
                try:
                    got = ast.literal_eval(got)
                    if not isinstance(got, str):
                        raise ValueError
                except Exception:
                    got = ('<not a string literal>', r[1])
            if py[0] != 'ok' or not same_value(got, py[1]):
                kinds = sorted(set(o for o in ops if not o.startswith('lit')))
                involved = sorted(set(o for o in ops if o.startswith('lit')))
                sig = 'wrong-value:%s:%s' % ('/'.join(shrink_sig(t, r, py)), type(r[1]).__name__)
                if SHORT_OCTAL.search(t):
                    sig = 'wrong-value:short-octal-escape-joined'      # "\\2" + "0": the literal texts are joined, the escape swallows the digit
                ctx.violation(sig, 'folded value differs from the value CPython evaluates (%s)' % sig,
                              dict(input=dict(expression=t), oracle_result=repr(py), impl_result=repr(r)))
        elif r[0].startswith('LEAK'):
            ctx.violation('leak:' + r[0], 'a non-application exception escaped LiteralEvaluator.exec', dict(input=dict(expression=t), impl_result=repr(r)))
        elif r[0].startswith('LOAD'):
            ctx.count('rejected-by-grammar')
        # ---- correspondence -----------------------------------------------------------------
        ce = coq_expr(e)
        co = coq_outcome(r)
        cp = coq_presult(py)
        if ce is not None and co is not None and cp is not None:
            cases.append(coq_pair(ce, co, cp))
            raw.append(dict(expression=t, impl=repr(r), python=repr(py)))
    prelude = ('Definition feq (a b : float) : bool := match PrimFloat.compare a b with FEq => true | FNotComparable => negb (PrimFloat.eqb a a) && negb (PrimFloat.eqb b b) | _ => false end.\n'
               'Definition veq (a b : value) : bool := match a, b with VInt x, VInt y => Z.eqb x y | VFloat x, VFloat y => feq x y | VStr x, VStr y => str_eqb x y | _, _ => false end.\n'
               'Definition pveq (a b : pvalue) : bool := match a, b with PInt x, PInt y => Z.eqb x y | PFloat x, PFloat y => feq x y | PStr x, PStr y => str_eqb x y | _, _ => false end.\n'
               'Definition oeq (a b : outcome) : bool := match a, b with Val x, Val y => veq x y | Refuse, Refuse => true | Unmodelled, _ => true | _, _ => false end.\n'
               'Definition peq (a b : presult) : bool := match a, b with PVal x, PVal y => pveq x y | PRaise, PRaise => true | PUnspec, _ => true | _, _ => false end.\n')
    ctx.correspond('fold_and_py_eval', IMPORTS, 'expr * outcome * presult',
                   'fun c => match c with (e, o, p) => oeq (fold e) o && peq (py_eval e) p end', cases, raw, prelude, shard=300)
    # how many of the compared cases the model actually decided (not Unmodelled / PUnspec)
    outs, err = coq_eval(IMPORTS, ['(length (filter (fun c => match fold (fst (fst c)) with Unmodelled => false | _ => true end) cases), length (filter (fun c => match py_eval (fst (fst c)) with PUnspec => false | _ => true end) cases))'],
                         prelude='Definition cases : list (expr * outcome * presult) := [\n%s\n].' % ';\n'.join(cases[:400]))
    ctx.extra['model_decided_of_first_400'] = outs[0] if outs else err[-300:]
    enum_references(ctx)
    enum_value_uses(ctx)

def shrink_sig(t, r, py):
    """a coarse, stable signature of a wrong value: which construct kinds appear in the smallest failing sub-expression"""
    import evalrun
    try:
        tree = ast.parse(t, mode='eval').body
    except SyntaxError:
        return ['unparsable']
    best = t
    for node in ast.walk(tree):
        sub = ast.get_source_segment(t, node)
        if sub and len(sub) < len(best):
            rr = evalrun.eval_exprs([sub])[0]
            pp = py_eval(sub)
            if rr[0] == 'ok':
                got = rr[1]
                if isinstance(got, str):
                    try:
                        got = ast.literal_eval(got)
                    except Exception:
                        got = object()
                if pp[0] != 'ok' or not same_value(got, pp[1]):
                    best = sub
    kinds = []
    for node in ast.walk(ast.parse(best, mode='eval').body):
        if isinstance(node, ast.BinOp):
            kinds.append(type(node.op).__name__)
        elif isinstance(node, ast.UnaryOp):
            kinds.append('U' + type(node.op).__name__)
        elif isinstance(node, ast.Call):
            kinds.append(getattr(node.func, 'id', 'call') + '/%d' % len(node.args))
        elif isinstance(node, ast.Constant):
            kinds.append(type(node.value).__name__)
    return sorted(set(kinds))



# a string literal that ends with an octal escape of one or two digits, followed by `+`
SHORT_OCTAL = re.compile(r'''(?<!\\)(?:\\\\)*\\[0-7]{1,2}["']\s*\+''')


def enum_references(ctx: Ctx) -> None:
    """enum members that refer to other members (of the same and of other enums, some with equal names):
    every member folded with one shared evaluator, in module order, must equal the value CPython gives"""
    lib_shim = shim
    lib_shim()
    import tsession
    import rogw.tranp.syntax.node.definition as defs
    from rogw.tranp.transpiler.types import Evaluator
    from rogw.tranp.errors import Errors
    rnd = ctx.rnd
    for k in range(ctx.n(25, 1500)):
        enums, lines = [], ['from enum import Enum', '']
        for ei in range(rnd.randint(2, 3)):
            en = 'E%d' % ei
            members = []
            lines.append('class %s(Enum):' % en)
            for mn in rnd.sample(['A', 'B', 'C', 'D'], rnd.randint(2, 3)):
                c = rnd.random()
                if members and c < .35:
                    val = '%s %s %d' % (rnd.choice(members), rnd.choice(['+', '*']), rnd.randint(1, 5))
                elif enums and c < .7:
                    oe, om = rnd.choice([(e2, m2) for e2, ms in enums for m2 in ms])
                    val = '%s.%s.value %s %d' % (oe, om, rnd.choice(['+', '*']), rnd.randint(1, 5))
                    if members and rnd.random() < .5:
                        val = '%s + %s' % (rnd.choice(members), val)
                else:
                    val = str(rnd.choice([1, 2, 10, 20, 100]) + ei)
                lines.append('\t%s = %s' % (mn, val))
                members.append(mn)
            lines.append('')
            enums.append((en, members))
        src = '\n'.join(lines) + '\n'
        env = {}
        exec(src, env)
        ctx.case(src, True)
        try:
            sess = tsession.Session({'__main__': src})
            mod = sess.load('__main__')
            ev = sess.resolve(Evaluator)
        except Exception as e:
            ctx.violation('enum-module-rejected', 'a module of enums referring to each other is rejected', dict(input=dict(expression=src), impl_result=repr(e)[:300]))
            continue
        nodes = {n.symbol.tokens: n for n in mod.entrypoint.statements if isinstance(n, defs.Enum)}
        for en, members in enums:
            for mn in members:
                want = env[en][mn].value
                ctx.evaluations += 1
                try:
                    got = ev.exec(nodes[en].var_value(mn))
                except Errors.Error as e:
                    got = 'ERR ' + type(e).__name__
                if got != want or type(got) is not type(want):
                    ctx.violation('enum-reference', 'an enum member that refers to other members folds to %r, CPython gives %r' % (got, want),
                                  dict(input=dict(expression=src, member=en + '.' + mn), oracle_result=repr(want), impl_result=repr(got)))
                    break

def enum_value_uses(ctx: Ctx) -> None:
    """`E.M.value` in a function body is emitted as the literal of the folded member value: the text between the quotes of
    the C++ string literal (the integer, for int members) must be the value CPython gives"""
    shim()
    import tsession
    rnd = ctx.rnd
    spool = ['plain', '', 'a b', '"x"', "'y'", "a'b", 'q"', "'", 'x,y', '""', "''k", '#h', '{0}', '%d']
    for k in range(ctx.n(6, 300)):
        svals = rnd.sample(spool, rnd.randint(2, 5))
        lines = ['from enum import Enum', '', 'class S(Enum):'] + ['\tM%d = %r' % (i, v) for i, v in enumerate(svals)] + ['', 'class N(Enum):']
        nexprs = []
        for i in range(rnd.randint(2, 4)):
            e = str(rnd.randint(0, 20)) if not nexprs or rnd.random() < .4 else '%s %s %d' % ('P%d' % rnd.randrange(len(nexprs)), rnd.choice(['+', '*', '-']), rnd.randint(1, 5))
            nexprs.append(e)
            lines.append('\tP%d = %s' % (i, e))
        lines.append('')
        for i in range(len(svals)):
            lines += ['def s%d() -> str:' % i, '\treturn S.M%d.value' % i, '']
        for i in range(len(nexprs)):
            lines += ['def n%d() -> int:' % i, '\treturn N.P%d.value' % i, '']
        src = '\n'.join(lines)
        env = {}
        exec(src, env)
        ctx.case(src, any(c in v for v in svals for c in '\'"'))
        try:
            cpp = tsession.transpile_one(src)
        except Exception as e:
            ctx.violation('enum-module-rejected', 'a module that uses enum member values is rejected', dict(input=dict(expression=src), impl_result=repr(e)[:300]))
            continue
        for i, v in enumerate(svals):
            m = re.search(r'std::string s%d\(\) \{\n\treturn (.*);\n\}' % i, cpp)
            ctx.evaluations += 1
            if not m or m.group(1) != '"%s"' % v:
                ctx.violation('enum-value-literal', 'S.M%d.value (%r) is emitted as %s' % (i, v, m.group(1) if m else None),
                              dict(input=dict(expression=src, member='S.M%d' % i), oracle_result='"%s"' % v, impl_result=m.group(1) if m else cpp[-300:]))
                break
        for i in range(len(nexprs)):
            m = re.search(r'int n%d\(\) \{\n\treturn (-?\d+);\n\}' % i, cpp)
            want = env['N']['P%d' % i].value
            ctx.evaluations += 1
            if not m or int(m.group(1)) != want:
                ctx.violation('enum-value-literal', 'N.P%d.value (%r) is emitted as %s' % (i, want, m.group(1) if m else None),
                              dict(input=dict(expression=src, member='N.P%d' % i), oracle_result=repr(want), impl_result=m.group(1) if m else cpp[-300:]))
                break


def replay(ctx: Ctx, data: dict) -> int:
    import evalrun
    t = data['input']['expression']
    r = evalrun.eval_exprs([t])[0]
    py = py_eval(t)
    print('expression:', t, '\ntranp:', r, '\npython:', py)
    if r[0] == 'ok':
        got = r[1]
        if isinstance(got, str):
            try:
                got = ast.literal_eval(got)
            except Exception:
                got = object()
        bad = py[0] != 'ok' or not same_value(got, py[1])
    else:
        bad = r[0].startswith('LEAK')
    print('REPRODUCED' if bad else 'not reproduced')
    return 1 if bad else 0
