"""C07 - failures are always reported as tranp errors, never internal crashes.
Theorems: Properties/C07.v (exception flow: handler exceptions always leave Procedure as application errors;
a request is total when unwrapped stages raise application errors only). Correspondence: fault injection -
each stage of the real pipeline is made to raise a chosen exception class and the escaping class is compared
with the model. Oracle: mutated programs, token soups and ill-typed programs through the in-memory and the
on-disk path must end in a result or an Errors.Error, str(ErrorRender(e)) must be defined, within a time limit."""
from lib import *
import signal
import traceback

IMPORTS_IT = 'From Tranp Require Import Model.ExnFlow Model.Interactive.'
IMPORTS = 'From Tranp Require Import Model.ExnFlow.'
BASE = '''class K:
	n: int

	def __init__(self, k: int) -> None:
		self.n = k

	def get(self, m: int) -> int:
		return self.n + m

def f(a: int, b: str) -> int:
	xs = [a, 1]
	if a > 1:
		return xs[0]
	return K(a).get(2)
'''


class TimeLimit(Exception):
    pass


def limited(seconds, fn):
    def on_alarm(*a):
        raise TimeLimit()
    old = signal.signal(signal.SIGALRM, on_alarm)
    signal.setitimer(signal.ITIMER_REAL, seconds)
    try:
        return fn()
    finally:
        signal.setitimer(signal.ITIMER_REAL, 0)
        signal.signal(signal.SIGALRM, old)


def classify(fn):
    """('ok'|'app'|'leak'|'timeout', class name, where)"""
    from rogw.tranp.errors import Errors
    from rogw.tranp.view.error_render import ErrorRender
    try:
        limited(20, fn)
        return ('ok', '', '')
    except TimeLimit:
        return ('timeout', 'TimeLimit', '')
    except Errors.Error as e:
        try:
            text = str(ErrorRender(e))
            assert isinstance(text, str) and text
        except Exception as e2:
            return ('leak', 'ErrorRender:' + type(e2).__name__, '')
        return ('app', type(e).__name__, '')
    except RecursionError as e:
        return ('leak', 'RecursionError', '')
    except Exception as e:
        tb = traceback.extract_tb(e.__traceback__)
        where = next((os.path.relpath(fr.filename, REPO) + ':' + fr.name for fr in reversed(tb) if fr.filename.startswith(REPO)), '?')
        return ('leak', type(e).__name__, where)


def run(ctx: Ctx) -> None:
    shim()
    import tsession
    import progen
    import lark
    from rogw.tranp.errors import Errors
    from rogw.tranp.semantics.procedure import Procedure
    from rogw.tranp.implements.cpp.transpiler.py2cpp import Py2Cpp
    import rogw.tranp.syntax.node.definition as defs
    ctx.rule = ('(a) fault injection: 5 stages x 5 exception classes; (b) valid generated programs with one byte / token mutation, token soups over the grammar alphabet, well-formed ill-typed programs '
                '(undefined names, wrong argument types, missing annotations, unknown attributes); in-memory and on-disk module paths; non-trivial = input that is not accepted; distinct = distinct source text')
    ctx.prove([])
    rnd = ctx.rnd

    # ---- (a) fault injection ----
    EXC = {'EApp': Errors.UnresolvedSymbol, 'ETypeError': TypeError, 'EAssertion': AssertionError, 'EOther': KeyError, 'EOther2': ValueError}
    cases, raw = [], []

    def observe(fn):
        try:
            fn()
            return 'Ok'
        except Errors.Error:
            return 'App'
        except Exception:
            return 'Leak'

    for ename, ecls in EXC.items():
        mname = 'EOther' if ename == 'EOther2' else ename

        def boom(*a, **k):
            raise ecls('injected')
        # parse stage (in memory): wrapped
        orig = lark.Lark.parse
        lark.Lark.parse = boom
        try:
            got = observe(lambda: tsession.Session({'fi_mod': BASE}).transpile('fi_mod'))
        finally:
            lark.Lark.parse = orig
        cases.append(coq_pair('(pipeline [{| wrapped := true; raises := Some %s |}])' % mname, got))
        raw.append(dict(stage='parse(in-memory)', exc=ename, escaped=got))
        # preprocessor stage: not wrapped
        from rogw.tranp.semantics.processors.symbol_extends import SymbolExtends
        orig = SymbolExtends.__call__
        SymbolExtends.__call__ = boom
        try:
            got = observe(lambda: tsession.Session({'fi_mod': BASE}).transpile('fi_mod'))
        finally:
            SymbolExtends.__call__ = orig
        cases.append(coq_pair('(pipeline [{| wrapped := true; raises := None |}; {| wrapped := false; raises := Some %s |}])' % mname, got))
        raw.append(dict(stage='preprocess', exc=ename, escaped=got))
        # handler stage
        orig = Py2Cpp.on_function
        Py2Cpp.on_function = boom
        try:
            got = observe(lambda: tsession.Session({'fi_mod': BASE}).transpile('fi_mod'))
        finally:
            Py2Cpp.on_function = orig
        cases.append(coq_pair('(match exec None [{| has_handler := true; event_raises := None; handler_raises := Some %s |}] true with Some e => escape e | None => Ok end)' % mname, got))
        raw.append(dict(stage='handler', exc=ename, escaped=got))
        # flatten stage: Node.procedural raises, only while the transpiler's Procedure runs
        from rogw.tranp.syntax.node.node import Node
        orig_proc, orig_tr = Node.procedural, Py2Cpp.transpile
        flag = [False]

        def proc(self_):
            if flag[0]:
                raise ecls('injected')
            return orig_proc(self_)

        def tr(self_, node):
            flag[0] = True
            try:
                return orig_tr(self_, node)
            finally:
                flag[0] = False
        Node.procedural, Py2Cpp.transpile = proc, tr
        try:
            got = observe(lambda: tsession.Session({'fi_mod': BASE}).transpile('fi_mod'))
        finally:
            Node.procedural, Py2Cpp.transpile = orig_proc, orig_tr
        cases.append(coq_pair('(match exec (Some %s) [] true with Some e => escape e | None => Ok end)' % mname, got))
        raw.append(dict(stage='flatten', exc=ename, escaped=got))
    # missing handler
    s = tsession.Session({'fi_mod': BASE})
    ep = s.load('fi_mod').entrypoint
    got = observe(lambda: Procedure().exec(ep))
    cases.append(coq_pair('(match exec None [{| has_handler := false; event_raises := None; handler_raises := None |}] true with Some e => escape e | None => Ok end)', got))
    raw.append(dict(stage='missing-handler', escaped=got))
    ctx.correspond('fault_injection', IMPORTS, 'outcome * outcome', 'fun c => match c with (Ok, Ok) | (App, App) | (Leak, Leak) => true | _ => false end', cases, raw)
    for r in raw:
        ctx.count('inject:%s:%s' % (r['stage'], r['escaped']))

    directed(ctx)
    matrix(ctx)
    interactive(ctx)

    # ---- (b) fuzzing ----
    N = ctx.n(160, 4000) * (3 if ctx.broken else 1)
    alphabet = ['def', 'class', 'if', 'else', 'elif', 'for', 'in', 'while', 'return', 'pass', 'lambda', 'not', 'and', 'or', 'import', 'from', 'a', 'b', 'self', 'int', 'str',
                '1', '2.5', "'s'", '(', ')', '[', ']', '{', '}', ':', ',', '.', '=', '==', '+', '-', '*', '/', '->', '\n', '\n\t', '\n\t\t', ' ', '@', '#c', '"', "'''"]
    os.makedirs('c07mods', exist_ok=True)
    open('c07mods/__init__.py', 'w').close()
    for i in range(N):
        kind = ['mutate', 'mutate', 'soup', 'illtyped', 'valid'][i % 5]
        if kind == 'soup':
            src = ''.join(rnd.choice(alphabet) + rnd.choice(['', ' ']) for _ in range(rnd.randint(1, 25))) + '\n'
        else:
            src = progen.gen_program(rnd, rnd.randint(1, 2)).src if rnd.random() < .7 else BASE
            if kind == 'mutate':
                for _ in range(rnd.choice([1, 1, 2])):
                    k = rnd.randrange(len(src))
                    m = rnd.random()
                    if m < .35:
                        src = src[:k] + src[k + 1:]
                    elif m < .7:
                        src = src[:k] + rnd.choice(alphabet) + src[k:]
                    else:
                        j = rnd.randrange(len(src))
                        a, b = sorted([j, k])
                        src = src[:a] + src[b:]
            elif kind == 'illtyped':
                edits = [('int', 'Missing'), (' -> int', ''), ('self.', 'self.zz_'), ('return ', 'return undefined_name + '), (': int', ''), ('(a)', '(a, a, a)'), ('[0]', '["k"]'), ('K(', 'K.nope('), ('def ', 'async def '),
                         (' = ', ' += '), ('import', 'imprt'), (': int', ': dict[int]'), ('-> int', '-> dict[str]'), (': int', ': list[int, str]'), (': str', ': tuple[()]')]
                old, new = rnd.choice(edits)
                if old in src:
                    src = src.replace(old, new, rnd.choice([1, 1, 5]))
        ondisk = i % 4 == 3
        name = 'c07mods.m%d' % i if ondisk else 'fz_mod'
        if ondisk:
            with open(name.replace('.', '/') + '.py', 'w') as f:
                f.write(src)
        res = classify(lambda: tsession.Session({} if ondisk else {name: src}).transpile(name))
        ctx.case(src, res[0] != 'ok')
        ctx.count('%s:%s:%s' % (kind, 'disk' if ondisk else 'memory', res[0] + (':' + res[1] if res[0] == 'app' else '')))
        if len(ctx.samples) < 5 and res[0] == 'app':
            ctx.sample(dict(kind=kind, source=src[:200], outcome=res[1]))
        if res[0] in ('leak', 'timeout'):
            ctx.violation('%s:%s@%s' % (res[0], res[1], res[2]), 'a non-application exception escapes the pipeline: %s raised in %s' % (res[1], res[2] or '?'),
                          dict(input=dict(source=src, path='disk' if ondisk else 'memory'), impl_result=list(res)))
        if ondisk:
            try:
                os.remove(name.replace('.', '/') + '.py')
            except OSError:
                pass


# directed inputs: each ill-typed shape goes through the in-memory and the on-disk path on every run, and each pair
# (failing input, then a valid one) through one session, the way the interactive loop re-submits __main__
DIRECTED = [
    ('untyped-parameter', 'class A:\n\tdef f(self, b) -> None: ...\n'),
    ('unknown-type', 'def f() -> None:\n\ta: Foo = 1\n'),
    ('undefined-name', 'def f(a: int) -> int:\n\treturn a + missing\n'),
    ('missing-import', 'from c07_missing.mod import X\n\ndef f() -> None:\n\tpass\n'),
    ('undefined-import-name', 'from typing import TypeVars\n'),
    ('dict-arity', 'def f() -> None:\n\ta: dict[str] = {}\n'),
    ('syntax', 'def f(a: int) -> int:\n\treturn (a +\n'),
    ('dedent', 'if True:\n        a = 1\n    b = 2\n'),
    ('docstring-only', "'''only a docstring'''\n"),
    ('bad-call', 'def f(a: int) -> int:\n\treturn a.nope(1)\n'),
    ('self-outside-class', 'def f(self) -> None:\n\tpass\n'),
    ('return-outside-function', 'return 1\n'),
    ('class-list-base', 'class G([T]):\n\tpass\n'),
    ('deep-attribute-chain', 'x = a' + '.b' * 300 + '\n'),
    ('none-subscript', 'v: None[int] = 1\n'),
    ('function-attribute-type', 'x: len.y = 1\n'),
    ('unpack-list', 'def bad() -> int:\n\ta, b = [1, 2]\n\treturn a\n'),
    ('actual-without-name', '@__actual__()\ndef f() -> None: ...\n'),
    ('self-import', 'from {self} import a\n'),
    ('dotted-type-undefined-owner', 'x: foo.Bar = 1\n'),
    ('empty', ''),
    ('blank', ' \n'),
    ('comment-only', '# nothing\n'),
]
VALID = 'def ok(a: int) -> int:\n\treturn a + 1\n'


def directed(ctx: Ctx) -> None:
    import tsession
    os.makedirs('c07dir', exist_ok=True)
    open('c07dir/__init__.py', 'w').close()
    for k, (tag, src0) in enumerate(DIRECTED):
        for where in ('memory', 'disk'):
            name = 'c07dir.d%d' % k if where == 'disk' else 'dir_mod'
            src = src0.replace('{self}', name)
            if where == 'disk':
                with open('c07dir/d%d.py' % k, 'w') as f:
                    f.write(src)
            res = classify(lambda: tsession.Session({} if where == 'disk' else {name: src}).transpile(name))
            ctx.case(('directed', tag, where), res[0] != 'ok')
            ctx.count('directed:%s:%s:%s' % (tag, where, res[0]))
            if res[0] in ('leak', 'timeout'):
                ctx.violation('%s:%s@%s' % (res[0], res[1], res[2]), 'a non-application exception escapes the pipeline: %s raised in %s (%s input, %s)' % (res[1], res[2] or '?', tag, where),
                              dict(input=dict(source=src, path=where), impl_result=list(res)))
        # one session: the failing input, then a valid re-submission of the same module
        src = src0.replace('{self}', 'seq_mod')
        sources = {'seq_mod': src}
        sess = tsession.Session(sources)
        first = classify(lambda: sess.transpile('seq_mod'))

        def resubmit():
            sources['seq_mod'] = VALID
            sess.unload('seq_mod')
            return sess.transpile('seq_mod')
        second = classify(resubmit)
        ctx.count('sequence:%s:%s-then-%s' % (tag, first[0], second[0]))
        ctx.evaluations += 1
        if second[0] != 'ok':
            kind = second[0] if second[0] in ('leak', 'timeout') else 'valid-input-rejected-after-failure'
            ctx.violation('%s:%s@%s' % (kind, second[1], second[2]), 'after a failing input (%s) the re-submitted valid module does not transpile in the same session: %s %s' % (tag, second[0], second[1]),
                          dict(input=dict(source=src, then=VALID, path='memory-sequence'), impl_result=[list(first), list(second)]))


def matrix(ctx: Ctx) -> None:
    """symbol kind x position matrix of well-formed, ill-typed programs (harness/illtyped.py)"""
    import tsession
    import illtyped
    pairs = [(c, sy) for c in illtyped.CTX for sy in illtyped.SYMS]
    if ctx.tier == 'quick' and not ctx.broken:
        pairs = ctx.rnd.sample(pairs, 900)
    pairs = illtyped.PINNED + pairs
    sess, live, used = None, {}, 0
    for c, sy in pairs:
        src = illtyped.program(c, sy)
        # one application serves forty programs in a row (the way the interactive loop re-submits its main module): the
        # library modules are loaded once; an escaping exception is looked at again in a fresh application
        if sess is None or used >= 40:
            live = {'mx_mod': ''}
            sess, used = tsession.Session(live), 0
        live['mx_mod'] = src
        used += 1

        def resubmit():
            sess.unload('mx_mod')
            return sess.transpile('mx_mod')
        res = classify(resubmit)
        if res[0] in ('leak', 'timeout'):
            fresh = classify(lambda: tsession.Session({'mx_mod': src}).transpile('mx_mod'))
            if fresh[0] in ('leak', 'timeout'):
                res = fresh
            sess = None
        ctx.case(('matrix', c, sy), res[0] != 'ok')
        ctx.count('matrix:%s' % res[0])
        if res[0] in ('leak', 'timeout'):
            ctx.violation('%s:%s@%s' % (res[0], res[1], res[2]), 'a non-application exception escapes the pipeline: %s raised in %s (%s in position %s)' % (res[1], res[2] or '?', sy, c),
                          dict(input=dict(source=src, path='memory'), impl_result=list(res)))


EXIT = '<exit>'      # marker in a session: the word exit typed at the prompt
IT_VALID = [('z: int = 9', 'int z = 9;'), ('def ok(a: int) -> int:\n\treturn a + 1', 'return a + 1;'), ('class P:\n\tn: int = 3', 'class P')]
IT_FAILING = ['from __main__ import a', '@__actual__()\ndef f() -> None: ...', 'x: foo.Bar = 1', 'a = (1', 'a: int = b', 'def f(:', 'x: len.y = 1', ')', '"', "'" * 3, 'v: None[int] = 1', 'class G([T]):\n\tpass', 'def f(a: int) -> int:\n\treturn a + missing', 'if True:\n        a = 1\n    b = 2', 'return 1']


def interactive_session(seq):
    """runs the real Interactive.run over one scripted session; returns (ending, unread key lines, printed text)"""
    import contextlib
    import io
    import rogw.tranp.bin.io as tranp_io
    from rogw.tranp.app.app import App
    from rogw.tranp.bin.transpile import Args, Interactive, TranspileApp
    from rogw.tranp.lang.locator import Locator
    root = os.path.join(os.getcwd(), 'c07it')
    os.makedirs(os.path.join(root, 'src'), exist_ok=True)
    with open(os.path.join(root, 'src', 'stub.py'), 'w') as f:
        f.write('STUB: int = 0\n')
    config = os.path.join(root, 'config.yml')
    with open(config, 'w') as f:
        f.write('\n'.join(['grammar: %s/data/grammar.lark' % REPO, 'template_dirs:', '  - %s/data/cpp/template' % REPO, 'trans_mapping: %s/data/i18n.yml' % REPO, 'input_globs:', '  - src/**/*.py',
                           'output_dirs:', '  - ./out/', 'output_language: cpp:h', 'exclude_patterns: []', 'env:', '  transpiler:', '    include_dirs: []', '  view:',
                           '    immutable_param_types: [std::string, std::vector, std::map, std::function]', '']))
    keys = []
    for prog in seq:
        if prog == EXIT:
            keys.append('exit')
            continue
        if prog:
            keys.extend(prog.split('\n'))
        keys.append('')
    keys.append('exit')

    def scripted(prompt: str = '') -> str:
        return keys.pop(0) if keys else 'exit'
    here, orig = os.getcwd(), tranp_io.readline
    os.chdir(root)
    tranp_io.readline = scripted
    out = io.StringIO()
    ending = 'returned'

    def go():
        app = App(TranspileApp.definitions(Args(['-c', config, '-it'])))
        with contextlib.redirect_stdout(out):
            Interactive(app.resolve(Locator)).run()
    try:
        limited(60, go)
    except TimeLimit:
        ending = 'timeout'
    except BaseException as e:
        ending = 'escaped:' + type(e).__name__
    finally:
        tranp_io.readline = orig
        os.chdir(here)
    return ending, len(keys), out.getvalue()


def interactive(ctx: Ctx) -> None:
    """the real interactive loop (bin/transpile.py Interactive.run) with a scripted keyboard: only bin.io.readline is
    replaced. Each session enters programs (a blank line ends one) and `exit`; the loop must consume every line and print
    the C++ text of each valid program, whatever was entered before it."""
    rnd = ctx.rnd
    v = [p for p, _ in IT_VALID]
    sessions = [[v[0], '', v[1]], ['', v[0]], ['', '', v[2]], [v[0], 'exit_like = 1', v[1]]] + [[f, v[i % 3]] for i, f in enumerate(IT_FAILING)]
    for _ in range(ctx.n(6, 200)):
        seq = []
        for _ in range(rnd.randint(1, 4)):
            k = rnd.random()
            seq.append('' if k < .15 else rnd.choice(IT_FAILING) if k < .6 else rnd.choice(v))
        seq.append(rnd.choice(v))
        sessions.append(seq)
    # sessions with `exit` typed in the middle: what follows stays unread
    sessions += [[v[0], EXIT, v[1]], [IT_FAILING[0], '', EXIT, v[2], IT_FAILING[1]]]
    outcome_of = {}
    line_ids = {}
    icases, iraw = [], []
    for seq in sessions:
        ending, unread, printed = interactive_session(seq)
        before_exit = seq[:seq.index(EXIT)] if EXIT in seq else seq
        missing = [m for prog in before_exit for p, m in IT_VALID if prog == p and m not in printed]
        # ---- correspondence with Model/Interactive.v: keys, the outcome of each program on its own, what the loop did ----
        for prog in set(before_exit):
            if prog not in outcome_of:
                res = classify(lambda: __import__('tsession').Session({'__main__': prog + '\n' if prog else ''}).transpile('__main__'))
                outcome_of[prog] = {'ok': 'Ok', 'app': 'App'}.get(res[0], 'Leak')
        keys = []
        for prog in seq:
            if prog == EXIT:
                keys.append('KExit')
                continue
            for line in (prog.split('\n') if prog else []):
                keys.append('(KLine %d)' % line_ids.setdefault(line, len(line_ids)))
            keys.append('KBlank')
        keys.append('KExit')
        table = coq_list(coq_pair(coq_list(str(line_ids[l]) for l in (prog.split('\n') if prog else [])), outcome_of[prog]) for prog in sorted(set(before_exit)))
        events = [m.group(1) for m in re.finditer(r'(Result:\n---------------|Stacktrace:)', printed)]
        icases.append(coq_pair(coq_list(keys), table, 'Returned' if ending == 'returned' else 'Escaped', coq_list('true' if e.startswith('Result') else 'false' for e in events), coq_nat(unread)))
        iraw.append(dict(session=seq, ending=ending, unread=unread, events=events))
        ctx.evaluations += 1
        ctx.case(('interactive', tuple(seq)), any(p not in v for p in seq))
        ctx.count('interactive:%s' % ending)
        expected_unread = (len([l for prog in seq[seq.index(EXIT) + 1:] for l in (prog.split('\n') if prog else [])]) + len(seq[seq.index(EXIT) + 1:]) + 1) if EXIT in seq else 0
        if ending != 'returned' or unread != expected_unread or missing:
            what = ending if ending != 'returned' else ('unread-input' if unread != expected_unread else 'valid-program-not-transpiled')
            ctx.violation('interactive:%s' % what, 'the interactive loop does not survive a session (%s): %d key lines unread, %d valid programs without output' % (what, unread, len(missing)),
                          dict(input=dict(source='\n<blank line>\n'.join(seq), session=seq, path='interactive'), impl_result=[ending, printed[-600:]]))
    interactive_correspondence(ctx, icases, iraw)


def interactive_correspondence(ctx: Ctx, icases, iraw) -> None:
    prelude = ('Definition peq (a b : list nat) : bool := if list_eq_dec Nat.eq_dec a b then true else false.\n'
               'Fixpoint look (t : list (list nat * outcome)) (p : list nat) : outcome := match t with [] => Ok | (q, o) :: r => if peq q p then o else look r p end.\n'
               'Definition kinds (es : list event) : list bool := map (fun e => match e with EvResult _ => true | EvError _ => false end) es.\n'
               'Definition beq (a b : list bool) : bool := if list_eq_dec Bool.bool_dec a b then true else false.\n'
               'Definition endeq (a b : ending) : bool := match a, b with Returned, Returned | Escaped, Escaped => true | _, _ => false end.\n')
    ctx.correspond('interactive_loop', 'From Tranp Require Import Model.ExnFlow Model.Interactive.', 'list key * list (list nat * outcome) * ending * list bool * nat',
                   'fun c => match c with (keys, t, e, evs, unread) => match session (look t) keys with (e2, evs2, rest) => '
                   'endeq e e2 && beq (kinds evs2) evs && (match e with Returned => Nat.eqb (length rest) unread | Escaped => true end) end end', icases, iraw, prelude)


def replay(ctx: Ctx, data: dict) -> int:
    shim()
    import tsession
    if data['input'].get('path') == 'interactive':
        ending, unread, printed = interactive_session(data['input']['session'])
        print('session:', data['input']['session'], '\nending:', ending, 'unread key lines:', unread)
        bad = ending != 'returned' or unread > 0
        print('REPRODUCED' if bad else 'not reproduced')
        return 1 if bad else 0
    src = data['input']['source']
    res = classify(lambda: tsession.Session({'fz_mod': src}).transpile('fz_mod'))
    print(src)
    print('outcome now:', res)
    return 1 if res[0] in ('leak', 'timeout') else 0
