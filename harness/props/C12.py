"""C12 - the grammar engine reproduces itself and its compiled rule files.
Theorems: Properties/C12.v (closed fixed points on the regenerated grammar files and rule modules, the
escape fix-ups law). Correspondence: Gallina grammar tokenizer + engine + from_ast + compile (fix-ups and
literal read-back) vs SyntaxParser(gram_rules) / Rules.from_ast / GramApp.render_rules on generated
grammars. Oracle: from_ast(parse(pretty(g))) == g, compiled rules accept the same sentences with the same
trees, the fixed points on the real files."""
from lib import *
from props.C07 import limited, TimeLimit
import ast as pyast

IMPORTS = 'From Tranp Require Import Model.Peg Model.Lexer Properties.C12.'
SYMS = ['a', 'b', 'c', 'item', 'expr2', 'x_1', 'entry', 'tail']
TERMS = ['"x"', '"+"', '"if"', '"("', '")"', '"\\n"', '","', '"=="',
         '"\\INDENT"', '"\\DEDENT"', '"\\OP_UNARY_MINUS"', '"\\t"', '"a\\b"', '"\\\\"', '"x\\\\"']     # terminals with a backslash: the special symbols of py_gram.lark, a control code, a plain one
REGEXPS = ['/[a-z]+/', '/\\d+/', '/[*+?]/', '/a|b/', "/\\'[^\\']*\\'/", '/[\\/]x/', '/\\w\\d*/',
           '/[.]|\\//', '/\\/\\*x\\*\\//', '/\\/+/', '/"[^"]*"/', '/x\\\\/', '/[a]\\\\\\\\/']     # bodies that begin / end with an escaped delimiter or hold the other quote


def load_real():
    shim_rules()
    import importlib.util
    from rogw.tranp.app.dir import tranp_dir
    from rogw.tranp.implements.syntax.tranp.syntax import SyntaxParser
    from rogw.tranp.implements.syntax.tranp.rule import Rules, Patterns

    def load(fn):
        spec = importlib.util.spec_from_file_location(fn, os.path.join(tranp_dir(), 'data/syntax', fn + '.py'))
        m = importlib.util.module_from_spec(spec)
        spec.loader.exec_module(m)
        return m
    gr = load('gram_rules').gram_rules()
    gt = load('gram_tokenizer').gram_tokenizer()
    pr = load('py_rules').py_rules()
    return SyntaxParser, Rules, Patterns, gr, gt, pr


def struct(p, Patterns):
    if isinstance(p, Patterns):
        return ('G', p.op.value, p.rep.value, [struct(e, Patterns) for e in p.entries])
    return ('P', p.expression, p.role.value, p.comp.value)


def rules_struct(r, Patterns):
    return [(k, struct(r._rules[k], Patterns)) for k in r._rules]


def gen_expr(rnd, d, top=False):
    k = rnd.random()
    if d <= 0 or k < .35:
        return rnd.choice([rnd.choice(SYMS)] * 3 + [rnd.choice(TERMS), rnd.choice(REGEXPS)])
    if k < .55:
        return ' '.join(gen_expr(rnd, d - 1) for _ in range(rnd.randint(2, 3)))
    if k < .7:
        alts = [gen_expr(rnd, d - 1) for _ in range(rnd.randint(2, 3))]
        s = ' | '.join(alts)
        return s if top else '(%s)%s' % (s, rnd.choice(['', '*', '+', '?']))
    if k < .8:
        return '[%s]' % gen_expr(rnd, d - 1, True)
    if k < .95:
        return '(%s)%s' % (gen_expr(rnd, d - 1, True), rnd.choice(['*', '+', '?']))
    return '(%s)' % gen_expr(rnd, d - 1, True)     # a plain, non-repeated group


def gen_grammar(rnd):
    names = rnd.sample(SYMS, rnd.randint(1, 5))
    lines = []
    for n in names:
        if rnd.random() < .15:
            lines.append('// ' + rnd.choice(['comment', 'rule := x', '']))
        lines.append('%s%s := %s' % (n, rnd.choice(['', '', '[1]', '[*]']), gen_expr(rnd, rnd.randint(0, 3), True)))
        if rnd.random() < .2:
            lines.append('')
    return '\n'.join(lines) + '\n'


def coq_ttree(t):
    name, body = t
    if isinstance(body, str):
        return '(TTok %s %s)' % (coq_str(name), coq_str(body))
    return '(TTree %s [%s])' % (coq_str(name), '; '.join(coq_ttree(c) for c in body))


REP = {'off': 'NoRep', '*': 'Star0', '+': 'Plus1', '?': 'Opt', '[]': 'OptEmpty'}


def coq_pat(st):
    if st[0] == 'G':
        return '(PGroup [%s] %s %s)' % ('; '.join(coq_pat(e) for e in st[3]), coq_bool(st[1] == '||'), REP[st[2]])
    _, expr, role, comp = st
    if role == 0:
        return '(PSym %s)' % coq_str(expr)
    return '(%s %s)' % ('PEq' if comp == 2 else 'PRe', coq_str(expr))


TERMINAL = re.compile(r'''/(?:\\.|[^/\\\n])+/|"(?:\\.|[^"\\\n])*"''')


def has_unescaped_quote(text):
    """a terminal of the grammar text holds a single quote that is not escaped"""
    return any(re.search(r"(?<!\\)(?:\\\\)*'", m.group(0)) for m in TERMINAL.finditer(text))


def render_and_read(tree, name='out_rules'):
    """GramApp.render_rules + reading the from_ast argument back as a Python literal"""
    from rogw.tranp.bin.gram_check import App as GramApp
    app = GramApp.__new__(GramApp)

    class A:
        output = name + '.py'
    app.args = A()
    text = app.render_rules(tree)
    mod = pyast.parse(text)
    for node in pyast.walk(mod):
        if isinstance(node, pyast.Call) and isinstance(node.func, pyast.Attribute) and node.func.attr == 'from_ast':
            return pyast.literal_eval(node.args[0])
    raise ValueError('no from_ast call')


def sentences_for(rnd, rules, Patterns, depth=4):
    """a few token sentences derived from a rule set (only string terminals and simple regexps are instantiated)"""
    import re

    def sample_re(e):
        for cand in ['a', 'b', 'x', 'ab', '1', '12', '*', '+', "'q'", '/x', 'a1', 'x_1']:
            if re.fullmatch(e, cand):
                return cand
        return None

    def gen(p, d):
        if isinstance(p, Patterns):
            if p.rep.value == '*':
                n = rnd.randint(0, 2)
            elif p.rep.value == '+':
                n = rnd.randint(1, 2)
            elif p.rep.value in ('?', '[]'):
                n = rnd.randint(0, 1)
            else:
                n = 1
            out = []
            for _ in range(n):
                if p.op.value == '||':
                    r = gen(rnd.choice(p.entries), d)
                    if r is None:
                        return None
                    out += r
                else:
                    for e in p.entries:
                        r = gen(e, d)
                        if r is None:
                            return None
                        out += r
            return out
        if p.role.value == 1:
            if p.comp.value == 2:
                return [p.expression]
            v = sample_re(p.expression)
            return None if v is None else [v]
        if d <= 0:
            return None
        try:
            return gen(rules[p.expression], d - 1)
        except KeyError:
            return None
    return gen


def run(ctx: Ctx) -> None:
    SyntaxParser, Rules, Patterns, gr, gt, pr = load_real()
    from rogw.tranp.errors import Errors
    from rogw.tranp.implements.syntax.tranp.token import Token, TokenTypes
    ctx.rule = ('generated grammars in the meta-grammar (1-5 rules; symbols, string and regexp terminals with quotes / slashes / backslashes, sequences, alternatives, [optional], '
                '(..)* (..)+ (..)? groups, plain parenthesised groups, [1] / [*] unwrap markers, // comments); non-trivial = a nested group occurs; distinct = distinct grammar text')
    ctx.prove(['g_rules', 'g_tokendef'])
    rnd = ctx.rnd
    parser = SyntaxParser(gr, gt)
    N = ctx.n(300, 6000) * (4 if ctx.broken else 1)
    cases, raw = [], []

    # ---- the obligations on the real files, executed on the implementation too ----
    from rogw.tranp.app.dir import tranp_dir
    for fn, shipped in (('gram.lark', gr), ('py_gram.lark', pr)):
        src = open(os.path.join(tranp_dir(), 'data/syntax', fn)).read()
        tree = parser.parse(src, 'entry')
        back = render_and_read(tree)
        compiled = Rules.from_ast(back)
        ctx.case(('file', fn))
        if rules_struct(compiled, Patterns) != rules_struct(shipped, Patterns):
            ctx.violation('compiled-file:' + fn, 'compiling %s does not yield the checked-in rule module' % fn, dict(input=dict(file=fn), impl_result='rule sets differ'))
        if fn == 'gram.lark' and rules_struct(Rules.from_ast(tree.simplify()), Patterns) != rules_struct(gr, Patterns):
            ctx.violation('gram-fixpoint', 'parsing gram.lark with the built-in rules does not yield the built-in rules', dict(input=dict(file=fn), impl_result='differs'))

    for i in range(N):
        text = gen_grammar(rnd)
        if i == 0:
            text = "entry := /'x/ b\nb := \"it's\"\n"      # the recorded finding, replayed on every run: terminals that hold an unescaped single quote
        if i % 6 == 5:
            # malformed stream: one character dropped or replaced
            k = rnd.randrange(len(text))
            text = text[:k] + rnd.choice(['', '', '(', ']', '|', ':', '"']) + text[k + 1:]
            ctx.count('stream:mutated')
        ctx.case(text, '(' in text or '[' in text.split(':=', 1)[-1])
        try:
            tree = parser.parse(text, 'entry')
        except Errors.Syntax as e:
            ctx.count('grammar:rejected')
            if i % 6 != 5:
                # texts of the generator are sentences of the meta-grammar by construction: the engine has to read them
                ctx.violation('wellformed-grammar-rejected', 'a grammar text written in the meta-grammar is rejected by the engine (the printout of a rule set would not be read back)',
                              dict(input=dict(grammar=text), impl_result=str(e)[:300]))
            if i < 3000 and all(ord(c) < 128 for c in text):
                cases.append(coq_pair(coq_str(text), 'None'))
                raw.append(dict(grammar=text, impl='Syntax'))
            continue
        except Exception as e:
            # robustness of the engine on malformed text is the subject of C07/C11; here it is only counted
            ctx.count('grammar:leak:' + type(e).__name__)
            continue
        ctx.count('grammar:accepted')
        simp = tree.simplify()
        try:
            g = Rules.from_ast(simp)
        except AssertionError as e:
            ctx.violation('from_ast-fails', 'a parsed grammar cannot be turned into rules', dict(input=dict(grammar=text), impl_result=repr(e)[:300]))
            continue
        gs = rules_struct(g, Patterns)
        if i < 3:
            ctx.sample(dict(grammar=text, pretty=g.pretty()))
        # ---- oracle: pretty / parse round trip ----
        printed = g.pretty() + '\n'
        try:
            g2 = Rules.from_ast(parser.parse(printed, 'entry').simplify())
            g2s = rules_struct(g2, Patterns)
        except Exception as e:
            g2s = ('ERR', type(e).__name__)
        if g2s != gs:
            def kinds(st, outer=None, acc=None):
                acc = [] if acc is None else acc
                if st[0] == 'G':
                    if outer is not None and st[2] == 'off':
                        acc.append((outer, st[1], len(st[3])))
                    for e in st[3]:
                        kinds(e, (st[1], st[2]), acc)
                return acc
            bad = next((k for (k, a), (k2, b) in zip(gs, g2s) if a != b), '?') if isinstance(g2s, list) and len(g2s) == len(gs) else '?'
            ks = kinds(dict(gs).get(bad, ('P',))) if bad != '?' else []
            sig = 'pretty-roundtrip:' + ('plain-group' if ks else 'other')
            ctx.violation(sig, 'printing a rule set and parsing the printout gives a different rule set (%s)' % sig,
                          dict(input=dict(grammar=text), oracle_result=repr(dict(gs).get(bad))[:400], impl_result=dict(printed=printed, reparsed=repr(dict(g2s).get(bad) if isinstance(g2s, list) else g2s)[:400])))
        # ---- oracle: compiled (through the rule file) rules accept the same sentences with the same trees ----
        try:
            gc = Rules.from_ast(render_and_read(tree))
        except Exception as e:
            gc = None
            ctx.violation('compile-fails:' + ('unescaped-single-quote' if has_unescaped_quote(text) else type(e).__name__), 'the rendered rule file cannot be read back', dict(input=dict(grammar=text), impl_result=repr(e)[:300]))
        if gc is not None and 'entry' in dict(gs) and i % 3 == 0:
            gen = sentences_for(rnd, g, Patterns)
            for _ in range(3):
                try:
                    sent = gen(g['entry'], 4)
                except RecursionError:
                    sent = None
                if not sent or len(sent) > 12:
                    continue

                class ListTok:
                    def parse(self, source):
                        return [Token(TokenTypes.Name, x) for x in source.split('\x00')]
                outs = []
                for rr in (g, gc):
                    try:
                        # (a repeat whose body can match nothing does not terminate in the engine - for the original and for the
                        #  compiled rules alike: the outcome `timeout` is compared like any other)
                        outs.append(('ok', limited(3, lambda: SyntaxParser(rr, ListTok()).parse('\x00'.join(sent), 'entry').simplify())))
                    except TimeLimit:
                        outs.append(('timeout', None))
                    except Errors.Syntax:
                        outs.append(('syntax', None))
                    except RecursionError:
                        outs.append(('recursion', None))
                    except (AssertionError, KeyError) as ex:
                        outs.append((type(ex).__name__, None))   # a bare-terminal entry rule / an undefined symbol: same outcome expected from both rule sets
                ctx.count('sentence:' + outs[0][0])
                if outs[0] != outs[1]:
                    ctx.violation('compiled-differs', 'original and compiled rules disagree on a sentence', dict(input=dict(grammar=text, sentence=sent), oracle_result=repr(outs[0])[:300], impl_result=repr(outs[1])[:300]))
        # ---- correspondence ----
        if i < 3000 and all(ord(c) < 128 for c in text) and gc is not None:
            back = render_and_read(tree)
            cases.append(coq_pair(coq_str(text), '(Some (%s, %s, %s))' % (coq_ttree(simp), coq_list('(%s, %s)' % (coq_str(k), coq_pat(v)) for k, v in gs), coq_ttree(back))))
            raw.append(dict(grammar=text))
    prelude = ('Definition rx (e : str) : option re := match regex_of e with Some r => Some r | None => Some Emp end.\n')
    ctx.correspond('gram_parse_from_ast_compile', IMPORTS, 'str * option (ttree * rules * ttree)',
                   'fun c => match gram_parse (fst c), snd c with '
                   '| POk t, Some (want, rs, back) => ttree_eqb t want && match from_ast t with Some r => rules_eqb r rs | None => false end && ttree_eqb (compile_tree t) back '
                   '| PSyntax, None => true | _, _ => false end',
                   cases, raw, prelude, shard=60)


def replay(ctx: Ctx, data: dict) -> int:
    SyntaxParser, Rules, Patterns, gr, gt, pr = load_real()
    text = data['input'].get('grammar')
    if not text:
        print(data)
        return 1
    parser = SyntaxParser(gr, gt)
    g = Rules.from_ast(parser.parse(text, 'entry').simplify())
    printed = g.pretty() + '\n'
    g2 = Rules.from_ast(parser.parse(printed, 'entry').simplify())
    same = rules_struct(g, Patterns) == rules_struct(g2, Patterns)
    print('grammar:\n' + text + 'pretty:\n' + printed + ('round trip equal' if same else 'REPRODUCED: round trip differs'))
    return 0 if same else 1
