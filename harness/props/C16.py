"""C16 - a node's source span covers exactly the node's own text.
Theorems: Properties/C16.v (offset <-> line/column inversion, caret columns of the quotation, tab
replacement). Correspondence: model quotation / collector lines / lc vs ErrorRender.Quotation,
ErrorCollector and Token.SourceMap.make on generated sources and spans (tabs, multi-line spans, last line
without newline). Oracle: for every node of generated on-disk modules, cold and restored from the cache:
named tokens of the slice == named tokens of the node, child span inside parent span, ErrorRender marks
[begin, end) of the reported line."""
from lib import *
import keyword
import re

IMPORTS = 'From Tranp Require Import Model.Quotation Model.Lexer.'


def slice_of(src, sm):
    (bl, bc), (el, ec) = sm['begin'], sm['end']
    lines = src.split('\n')
    starts = [0]
    for ln in lines[:-1]:
        starts.append(starts[-1] + len(ln) + 1)
    return src[starts[bl - 1] + bc - 1: starts[el - 1] + ec - 1]


SCAN = re.compile(r"""(#[^\n]*)|([rf]?\"\"\"(?:\\.|[^\\])*?\"\"\"|[rf]?'''(?:\\.|[^\\])*?'''|[rf]?'(?:\\.|[^'\\\n])*'|[rf]?"(?:\\.|[^"\\\n])*")|([A-Za-z_]\w*)|(0[xX][0-9a-fA-F]+|\d[\d.]*(?:[eE][-+]?\d+)?)""", re.S)


def named_tokens_of_text(text, lexer=None, TokenTypes=None):
    """comments, string literals, identifiers that are not keywords, numbers - in source order"""
    out = []
    for m in SCAN.finditer(text):
        if m.group(3):
            if m.group(3) not in keyword.kwlist:
                out.append(m.group(3))
        else:
            out.append(m.group(0))
    return out


def same_tokens(got, want):
    """slice tokens vs node tokens, up to two things the grammar does: a quoted annotation ('Box[Item]') is held in the tree by
    the tokens of its content, and the keywords of Literal[...] and of `X: TypeAlias = ...` are anonymous terminals that the tree does not keep"""
    i = j = 0
    while i < len(got):
        if j < len(want) and got[i] == want[j]:
            i, j = i + 1, j + 1
            continue
        if got[i][:1] in '\'"' and got[i][:3] not in ("'''", '"""'):
            inner = named_tokens_of_text(got[i][1:-1])
            if inner and want[j:j + len(inner)] == inner:
                i, j = i + 1, j + len(inner)
                continue
        if got[i] in ('Literal', 'TypeAlias'):
            i += 1
            continue
        return False
    return j == len(want)


def named_values(values):
    out = []
    for v in values:
        if v.startswith('#'):
            out.append(v)
        elif re.fullmatch(r'[A-Za-z_]\w*', v):
            if v not in keyword.kwlist:
                out.append(v)
        elif re.fullmatch(r'0[xX][0-9a-fA-F]+|[0-9][0-9.]*(?:[eE][-+]?[0-9]+)?', v) or (v[:1] in '\'"' or v[:2] in ("r'", 'r"', "f'", 'f"')):
            out.append(v)
    return out


def span_tuple(sm):
    return (sm['begin'][0], sm['begin'][1], sm['end'][0], sm['end'][1])


def run(ctx: Ctx) -> None:
    shim()
    import tsession
    import progen
    from rogw.tranp.errors import Errors
    from rogw.tranp.view.error_render import ErrorRender
    from rogw.tranp.implements.syntax.tranp.syntax import ErrorCollector
    from rogw.tranp.implements.syntax.tranp.token import TokenDefinition, TokenTypes, Token
    from rogw.tranp.implements.syntax.tranp.tokenizer import Lexer, Tokenizer
    ctx.rule = ('generated modules written to disk (functions, classes, blocks, multi-line expressions, comments, tab indentation), every node with a span, cold parse and cache restore; '
                'plus random (source, span) pairs for the quotation / collector correspondence; non-trivial = node spanning more than one token; distinct = distinct (module, node path)')
    ctx.prove([])
    rnd = ctx.rnd
    lexer = Lexer(TokenDefinition())
    scale = 4 if ctx.broken else 1

    # ---- correspondence: quotation / collector / line-column on generated sources and spans ----
    qcases, qraw = [], []
    import lexgen
    os.makedirs('c16q', exist_ok=True)
    for i in range(ctx.n(300, 6000) * scale):
        src = lexgen.render(rnd, lexgen.gen_program(rnd), unit=rnd.choice(['\t', '  ', '    ']))
        if rnd.random() < .3:
            src = src.rstrip('\n')
        if not src or not all(ord(c) < 128 and (ord(c) >= 32 or c in '\n\t') for c in src):
            continue
        b = rnd.randrange(len(src) + (0 if src.endswith('\n') else 1))   # a span begins on an existing line
        e = rnd.randint(b, min(len(src), b + rnd.choice([0, 1, 3, 10, 40])))
        sm = Token.SourceMap.make(src, b, e)
        # quotation takes lark's 1-based span
        with open('c16q/q.py', 'w') as f:
            f.write(src)
        try:
            built = ErrorRender.Quotation('c16q/q.py', (sm.begin_line, sm.begin_column, sm.end_line, sm.end_column)).build()
            line, mark = built[2][len('    >>> '):], built[3][len('        '):]
        except Exception as ex:
            ctx.broken.append(dict(kind='correspondence', theorem='correspondence quotation: the implementation raised', detail=repr((src, b, e, ex))))
            continue
        toks = [Token(TokenTypes.Name, 'x', sm)]
        col = ErrorCollector(src, toks, 0)._quotation_lines()
        cline = col[0].split(' >>> ', 1)[1]
        cmark = col[1][len(' ' + ' ' * len(str(sm.begin_line + 1)) + '      '):]
        qcases.append(coq_pair(coq_str(src), coq_nat(b), coq_nat(e), '(%d, %d, %d, %d)' % tuple(sm), coq_str(line), coq_str(mark), coq_str(cline), coq_str(cmark)))
        qraw.append(dict(source=src, begin=b, end=e, span=list(sm)))
        ctx.count('quote:' + ('multi-line' if sm.begin_line != sm.end_line else ('empty' if b == e else 'single-line')) + (':tab' if '\t' in src.split('\n')[sm.begin_line] else ''))
    ctx.correspond('linecol_quotation_collector', IMPORTS, 'str * nat * nat * (nat * nat * nat * nat) * str * str * str * str',
                   'fun c => match c with (src, b, e, (bl, bc, el, ec), line, mark, cline, cmark) => '
                   'match source_map src b e with ((a1, a2), (a3, a4)) => Nat.eqb a1 bl && Nat.eqb a2 bc && Nat.eqb a3 el && Nat.eqb a4 ec end '
                   '&& match quotation src (S bl, S bc, S el, S ec) with (_, l, m) => str_eqb l line && str_eqb m mark end '
                   '&& match collector_lines src (bl, bc, el, ec) with (l, m) => str_eqb l cline && str_eqb m cmark end '
                   '&& Nat.eqb (off src bl bc) b && Nat.eqb (off src el ec) e end',
                   qcases, qraw, shard=80)

    # ---- oracle on real nodes: cold and restored from the cache ----
    os.makedirs('c16mods', exist_ok=True)
    open('c16mods/__init__.py', 'w').close()
    nmods = ctx.n(10, 200) * scale
    checked = 0
    import shapes
    fixed_srcs = [v for k, v in shapes.ALL.items() if k not in ('shape_uses', 'shape_openblock')]     # decorated functions and classes, properties, generic bases, docstrings
    for i in range(nmods + len(fixed_srcs)):
        src = fixed_srcs[i - nmods] if i >= nmods else progen.gen_program(rnd, rnd.randint(1, 3)).src
        lead = rnd.random()
        if lead < .2:
            src = '\n\n' + src                          # the text of the file, not a normalised copy of it, is what spans refer to
        elif lead < .35:
            src = '\n# header\n\n' + src
        elif lead < .45:
            src = src + '\n\n'
        if rnd.random() < .5:
            # a multi-line expression and a comment, to get spans over several lines
            src += '\ndef extra_%d(a: int, b: int) -> int:\n\t# note\n\treturn (a +\n\t\tb * 2)\n' % i
        if rnd.random() < .5:
            # line-break look-alikes that are not line breaks for the parser: a form-feed page break and U+2028 inside a string
            src += '\n\x0c\ndef extra2_%d() -> str:\n\treturn \'a\u2028b\'\n\ndef extra3_%d(a: int) -> int:\n\treturn a + 1\n' % (i, i)
        name = 'c16mods.m%d' % i
        path = name.replace('.', '/') + '.py'
        with open(path, 'w') as f:
            f.write(src)
        cold_spans = {}
        for phase in ('cold', 'cached'):
            sess = tsession.Session({})
            try:
                ep = sess.entrypoint(name)
            except Exception as ex:
                ctx.violation('module-rejected', 'a generated module was rejected', dict(input=dict(source=src), impl_result=repr(ex)[:400]))
                break
            bad = None
            for n in [*ep.procedural(), ep]:
                sm = n.source_map
                if phase == 'cold':
                    cold_spans[n.full_path] = span_tuple(sm)
                elif cold_spans.get(n.full_path) != span_tuple(sm):
                    bad = ('span-differs-after-restore:' + type(n).__name__, 'the span of a node restored from the cache differs from the span of the freshly parsed node',
                           dict(node=n.full_path, span=span_tuple(sm), cold_span=cold_spans.get(n.full_path)))
                    break
                if sm['begin'] == (0, 0) and sm['end'] == (0, 0):
                    continue
                checked += 1
                text = slice_of(src, sm)
                want = named_values(n._values())
                got = named_tokens_of_text(text, lexer, TokenTypes)
                ctx.case((name, n.full_path), len(want) > 1)
                if not same_tokens(got, want):
                    bad = ('span-tokens:' + type(n).__name__, 'the tokens of the source region of a node are not the node\'s tokens', dict(node=n.full_path, span=span_tuple(sm), slice=text[:200], slice_tokens=got[:20], node_tokens=want[:20]))
                    break
                try:
                    p = n.parent
                    psm = p.source_map
                except Exception:
                    psm = None
                if psm and psm['begin'] != (0, 0):
                    if not (tuple(psm['begin']) <= tuple(sm['begin']) and tuple(sm['end']) <= tuple(psm['end'])):
                        bad = ('span-nesting:' + type(n).__name__, 'a child span is not inside its parent span', dict(node=n.full_path, span=span_tuple(sm), parent=p.full_path, parent_span=span_tuple(psm)))
                        break
                # error quotation for this node
                if checked % 7 == 0:
                    try:
                        raise Errors.InvalidSchema(n, 'x')
                    except Errors.Error as raised:
                        text_r = str(ErrorRender(raised))
                    m = re.search(r'via Node:\n  (\S+):(\d+)\n    >>> (.*)\n        (.*)\n', text_r)
                    if not m:
                        bad = ('quotation-missing', 'ErrorRender did not quote the node', dict(node=n.full_path, text=text_r[-300:]))
                        break
                    line_no, qline, mark = int(m.group(2)), m.group(3), m.group(4)
                    (bl, bc), (el, ec) = sm['begin'], sm['end']
                    src_line = src.split('\n')[bl - 1].replace('\t', ' ')
                    cols = [j for j, ch in enumerate(mark) if ch == '^']
                    want_cols = list(range(bc - 1, (ec - 1) if bl == el else len(src_line))) or [bc - 1]
                    if line_no != bl or qline != src_line or cols != want_cols:
                        bad = ('quotation-range', 'the quoted line / caret range of an error does not point at the node', dict(node=n.full_path, span=span_tuple(sm), quoted=qline, mark=mark, expected_cols=want_cols[:3] + want_cols[-1:]))
                        break
            if bad:
                ctx.violation(bad[0] + ':' + phase, bad[1] + ' (%s tree)' % phase, dict(input=dict(source=src, phase=phase), impl_result=bad[2]))
                break
        if i < 2:
            ctx.sample(dict(module=name, source=src[:300]))
    ctx.extra['nodes_checked'] = checked


def replay(ctx: Ctx, data: dict) -> int:
    print(json.dumps(data.get('input'), indent=1)[:3000])
    print('observed:', json.dumps(data.get('impl_result'), indent=1, default=str)[:2000])
    return 1
