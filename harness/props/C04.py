"""C04 - output is deterministic and independent of session history.
Theorems: Properties/C04.v (bookkeeping: every transpile in any load/unload/transpile history yields the
fresh text; the pre-fix unload is kept as a refuted witness). Correspondence: loaded sets and outcomes of the
model vs Modules on random histories. Oracle: every transpile inside a history == the text of a fresh
session; fresh interpreter processes under several PYTHONHASHSEED values and target orders agree; loading a
module changes no node class / symbol of another."""
from lib import *
import subprocess

IMPORTS = 'From Tranp Require Import Model.Session.'


GENERIC_POOL = {
    'proj.gen': ("from collections.abc import Callable\nfrom typing import Generic, TypeVar\n\nT = TypeVar('T')\n\n\nclass Box(Generic[T]):\n\tv: T\n\n\tdef __init__(self, v: T) -> None:\n\t\tself.v = v\n\n"
                 "\tdef each(self, f: Callable[[T], None]) -> None:\n\t\tf(self.v)\n\n\tdef pick(self, f: Callable[[T, T], T], other: T) -> T:\n\t\treturn f(self.v, other)\n"
                 "\n\nclass IntBox(Box[int]):\n\tdef twice(self) -> int:\n\t\treturn self.v * 2\n"),
    'proj.ga': "from proj.gen import Box\n\n\ndef fa(b: Box[int]) -> int:\n\tb.each(lambda v: print(v))\n\treturn b.pick(lambda p, q: p + q, 2)\n",
    'proj.gb': "from proj.gen import Box\n\n\ndef fb(b: Box[str]) -> str:\n\tb.each(lambda s: print(s))\n\treturn b.pick(lambda p, q: p + q, 'x')\n",
    # an inherited member of the generic base, typed by its type variable, read through the subclass that binds it
    'proj.gd': "from proj.gen import IntBox\n\n\ndef fd(n: int) -> int:\n\tb = IntBox(n)\n\treturn b.v + b.twice() + b.v\n",
    'proj.gc': "from proj.gen import Box\n\n\ndef fc(n: float) -> float:\n\tb = Box(n)\n\tb.each(lambda w: print(w))\n\treturn b.pick(lambda p, q: p * q, 0.5)\n",
}


# third fixed pool: a user template that registers a dependency (emit_depends), a module whose transpile is refused, one with a
# closure (it triggers the template) and a plain one
TEMPLATE_POOL = {
    'proj.bad': 'def bad() -> int:\n\ta, b = [1, 2]\n\treturn a\n',
    'proj.fn': 'def fn(n: int) -> int:\n\tdef inner(q: int) -> int:\n\t\treturn q + n\n\treturn inner(1)\n',
    'proj.plain': 'def plain(n: int) -> int:\n\treturn n + 1\n',
}


def pool_templates():
    import lib
    return {'function/closure.j2': "{{- emit_depends('<functional>') -}}\n" + open(os.path.join(lib.REPO, 'data/cpp/template/function/closure.j2')).read()}


def outcome(fn):
    """the emitted text, or 'ERROR <class>' for an application error"""
    from rogw.tranp.errors import Errors
    try:
        return fn()
    except Errors.Error as e:
        return 'ERROR ' + type(e).__name__


def fresh_process(sources, order, seed, scratch):
    env = impl_env(PYTHONHASHSEED=str(seed), TRANP_SCRATCH=scratch)
    p = subprocess.run([PY, os.path.join(VERIF, 'harness', 'fresh_transpile.py')], input=json.dumps(dict(sources=sources, order=order)),
                       capture_output=True, text=True, env=env, timeout=300)
    if p.returncode != 0:
        return {'__error__': p.stderr[-500:]}
    return json.loads(p.stdout)


def import_closure(imps, m, acc=None):
    acc = [] if acc is None else acc
    for d in imps[m]:
        import_closure(imps, d, acc)
    if m not in acc:
        acc.append(m)
    return acc


def run(ctx: Ctx) -> None:
    shim()
    import tsession
    import progen
    import re
    from rogw.tranp.errors import Errors
    from rogw.tranp.semantics.reflection.db import SymbolDB
    ctx.rule = ('pools of 3-5 generated modules with imports between them (chains / diamonds), histories of load / unload / transpile (length <= 8); '
                'non-trivial = an unload of an imported module followed by a transpile of an importer; distinct = distinct (program, history)')
    ctx.prove([])
    rnd = ctx.rnd
    nh = ctx.n(8, 100) * (3 if ctx.broken else 1)
    cases, raw, all_srcs = [], [], []
    scratch = scratch_cwd()
    for hidx in range(nh):
        mods = progen.gen_modules(rnd, rnd.randint(3, 5))
        srcs = {k: p.src for k, p in mods.items()}
        if hidx == 0:
            # a fixed pool first: an import chain of depth two (m2 -> m10 -> m1) whose modules call a function with an
            # eleven-entry signature of the module they import - the directed histories below need both
            from props.C06 import module_src, mod
            chain = {0: [], 1: [0], 2: [1]}
            srcs = {'proj.%s' % mod(i): module_src(i, chain[i], 0, 0) for i in range(3)}
            # ... and a closure capturing four outer variables (the capture list must not depend on the hash seed)
            srcs['proj.mcl'] = ('def outer(alpha: int, beta: int, gamma: int) -> int:\n\tdelta = alpha + 1\n\tdef inner(q: int) -> int:\n'
                                '\t\treturn q + delta - gamma - beta - alpha\n\treturn inner(1)\n')
            # ... and an unrelated module whose path has that module's path as a prefix (mcl / mclx): the prefix-pair histories below
            srcs['proj.mclx'] = 'def other(n: int) -> int:\n\treturn n * 2\n'
        tpl = None
        if hidx == 2:
            srcs, tpl = dict(TEMPLATE_POOL), pool_templates()
        if hidx == 1:
            # a second fixed pool: a user-defined generic class whose method takes a callable over T, instantiated with lambdas at
            # three different type arguments by three modules (signatures of generic methods are re-bound per call site)
            srcs = dict(GENERIC_POOL)
        names = list(srcs)
        imps = {i: sorted(names.index(x) for x in set(re.findall(r'^from (\S+) import', srcs[n], flags=re.M)) if x in names) for i, n in enumerate(names)}
        fresh = {n: outcome(lambda: tsession.Session(srcs, templates=tpl).transpile(n)) for n in names}
        rejected = [n for n in names if fresh[n].startswith('ERROR') and not n.endswith('.bad')]
        if rejected:
            ctx.violation('pool-rejected:' + fresh[rejected[0]][6:], 'a module of the pool is rejected in a fresh session (%s)' % fresh[rejected[0]],
                          dict(sources=srcs, templates=tpl, history=[('transpile', names.index(rejected[0]))], impl_result=fresh[rejected[0]]))
            continue
        sess = tsession.Session(srcs, templates=tpl)
        hist, obs = [], []
        nontrivial = False
        follow = None
        for step in range(rnd.randint(3, 8)):
            k = rnd.random()
            m = rnd.randrange(len(names))
            if follow is not None:
                k, m, follow = .9, follow, None
            if k < .3:
                sess.load(names[m])
                hist.append(('load', m))
                obs.append('unit')
            elif k < .55:
                importers_loaded = any(m in import_closure(imps, x) and x != m for x in range(len(names)) if names[x] in [mm.path for mm in sess.modules.loaded()])
                sess.unload(names[m])
                hist.append(('unload', m))
                obs.append('unit')
                nontrivial = nontrivial or importers_loaded
                importers = [x for x in range(len(names)) if x != m and m in import_closure(imps, x)]
                if importers and rnd.random() < .6:
                    follow = rnd.choice(importers)     # next: transpile a module that imports the unloaded one
            else:
                text = outcome(lambda: sess.transpile(names[m]))
                obs.append('unresolved' if text.startswith('ERROR') else 'text')
                if text != fresh[names[m]]:
                    if text.startswith('ERROR'):
                        ctx.violation('history-breaks-transpile:' + text[6:], 'transpiling a module fails inside a session history although a fresh session succeeds (%s)' % text[6:],
                                      dict(sources=srcs, templates=tpl, history=hist + [('transpile', m)], impl_result=text))
                    else:
                        ctx.violation('history-dependent-output', 'transpiling a module inside a session history gives a different text than a fresh session',
                                      dict(sources=srcs, templates=tpl, history=hist + [('transpile', m)], oracle_result=fresh[names[m]][-300:], impl_result=text[-300:]))
                hist.append(('transpile', m))
            loaded = sorted(names.index(mm.path) for mm in sess.modules.loaded() if mm.path in names)
            obs.append(loaded)
        ctx.case((tuple(srcs.values()), tuple(hist)), nontrivial)
        for op in hist:
            ctx.count('op:' + op[0])
        if hidx < 2:
            ctx.sample(dict(imports=imps, history=hist))
        clo = 'fun m => match m with %s | _ => [] end' % ' '.join('| %d => %s' % (i, coq_list(map(str, import_closure(imps, i)))) for i in range(len(names)))
        ops = coq_list('(%s %d)' % ({'load': 'Load', 'unload': 'Unload', 'transpile': 'Transpile'}[o], m) for o, m in hist)
        outs = coq_list({'unit': 'OUnit', 'text': '(OText 0)', 'unresolved': 'OUnresolved'}[o] for o in obs[0::2])
        lsets = coq_list(coq_list(map(str, l)) for l in obs[1::2])
        if hidx != 2:      # (the third fixed pool holds a module that is refused on purpose: not a history of the bookkeeping model)
            cases.append(coq_pair('(%s)' % clo, ops, outs, lsets))
            raw.append(dict(imports=imps, history=hist))
        all_srcs.append(srcs)
        # ---- directed histories on the fixed pools: every ordered pair - transpile x (twice), then y, then x again ----
        if hidx < 3:
            import itertools
            orders = [(x, x, y, x) for x in range(len(names)) for y in range(len(names)) if x != y]
            if hidx == 2:
                orders += list(itertools.permutations(range(len(names))))
            for order in orders:
                s5 = tsession.Session(srcs, templates=tpl)
                h5 = []
                for m in order:
                    h5.append(('transpile', m))
                    ctx.evaluations += 1
                    ctx.count('directed:ordered-pair')
                    text = outcome(lambda: s5.transpile(names[m]))
                    if text != fresh[names[m]]:
                        sig = 'history-breaks-transpile:' + text[6:] if text.startswith('ERROR') else 'history-dependent-output'
                        ctx.violation(sig, 'transpiling a module inside a session history gives another outcome than a fresh session',
                                      dict(sources=srcs, templates=tpl, history=list(h5), oracle_result=fresh[names[m]][-300:], impl_result=text[-300:]))
                        break
        # ---- directed histories on the fixed pools: a submission of a module fails after parsing (undeclared type), then the valid
        #      text is re-submitted under the same path (the interactive loop: set the source, unload, load) ----
        if hidx < 2:
            for m in range(len(names)):
                live = dict(srcs)
                s6 = tsession.Session(live, templates=tpl)
                live[names[m]] = srcs[names[m]] + '\n\ndef zz_bad(a: MissingType) -> None: ...\n'
                h6 = [('submit-failing', m)]
                try:
                    s6.transpile(names[m])
                    ctx.count('directed:resubmit:first-accepted')
                except Errors.Error:
                    pass
                live[names[m]] = srcs[names[m]]
                s6.unload(names[m])
                importers = [x for x in range(len(names)) if x != m and m in import_closure(imps, x)]
                for t in [m] + importers[:1]:
                    h6.append(('resubmit' if t == m else 'transpile', t))
                    ctx.evaluations += 1
                    ctx.count('directed:resubmit')
                    try:
                        text = s6.transpile(names[t])
                    except Errors.Error as e:
                        ctx.violation('history-breaks-transpile:' + type(e).__name__, 'after a failed submission the valid text of the same module does not transpile in the same session (%s)' % type(e).__name__,
                                      dict(sources=srcs, history=list(h6), failing_suffix='def zz_bad(a: MissingType) -> None: ...', impl_result=str(e)[:300]))
                        break
                    if text != fresh[names[t]]:
                        ctx.violation('history-dependent-output', 'transpiling a module inside a session history gives a different text than a fresh session',
                                      dict(sources=srcs, history=list(h6), failing_suffix='def zz_bad(a: MissingType) -> None: ...', oracle_result=fresh[names[t]][-300:], impl_result=text[-300:]))
                        break
        # ---- directed histories: unload one of two unrelated modules whose paths are in string-prefix relation ----
        for x in range(len(names)):
            for y in range(len(names)):
                if x != y and names[y].startswith(names[x]) and x not in import_closure(imps, y) and y not in import_closure(imps, x) and hidx < ctx.n(6, 400):
                    for victim, kept in ((x, y), (y, x)):
                        s3 = tsession.Session(srcs, templates=tpl)
                        s3.load(names[kept])
                        s3.load(names[victim])
                        s3.unload(names[victim])
                        ctx.evaluations += 1
                        ctx.count('directed:prefix-pair')
                        h3 = [('load', kept), ('load', victim), ('unload', victim), ('transpile', kept)]
                        try:
                            text = s3.transpile(names[kept])
                            if text != fresh[names[kept]]:
                                ctx.violation('history-dependent-output', 'transpiling a module inside a session history gives a different text than a fresh session', dict(sources=srcs, history=h3, oracle_result=fresh[names[kept]][-300:], impl_result=text[-300:]))
                        except Errors.Error as e:
                            ctx.violation('history-breaks-transpile:' + type(e).__name__, 'transpiling a module fails inside a session history although a fresh session succeeds (%s)' % type(e).__name__,
                                          dict(sources=srcs, history=h3, impl_result=str(e)[:300]))
        # ---- directed histories: unload the root of an import chain of depth >= 2, then transpile the far end ----
        if hidx < ctx.n(6, 400):
            done = 0
            for c in range(len(names)):
                for b in imps[c]:
                    for a in imps[b]:
                        if done >= 2 or a in imps[c]:
                            continue
                        done += 1
                        s4 = tsession.Session(srcs, templates=tpl)
                        s4.load(names[c])
                        s4.unload(names[a])
                        ctx.evaluations += 1
                        ctx.count('directed:chain')
                        h4 = [('load', c), ('unload', a), ('transpile', c)]
                        try:
                            text = s4.transpile(names[c])
                            if text != fresh[names[c]]:
                                ctx.violation('history-dependent-output', 'transpiling a module inside a session history gives a different text than a fresh session', dict(sources=srcs, history=h4, oracle_result=fresh[names[c]][-300:], impl_result=text[-300:]))
                        except Errors.Error as e:
                            ctx.violation('history-breaks-transpile:' + type(e).__name__, 'transpiling a module fails inside a session history although a fresh session succeeds (%s)' % type(e).__name__,
                                          dict(sources=srcs, history=h4, impl_result=str(e)[:300]))
        # ---- the same modules as files, with the on-disk caches in use: a second load inside one session ----
        if hidx < ctx.n(3, 100):
            import shutil
            pool_dir = os.path.join(scratch, 'c04disk_%d' % hidx)
            shutil.rmtree(pool_dir, ignore_errors=True)
            for n_, src_ in srcs.items():
                path_ = os.path.join(pool_dir, n_.replace('.', '/') + '.py')
                os.makedirs(os.path.dirname(path_), exist_ok=True)
                open(os.path.join(os.path.dirname(path_), '__init__.py'), 'a').close()
                with open(path_, 'w') as fh:
                    fh.write(src_)
            old_cwd = os.getcwd()
            os.chdir(pool_dir)
            try:
                s5 = tsession.Session({})
                target = names[max(range(len(names)), key=lambda i_: len(import_closure(imps, i_)))]      # the module with the longest import chain
                for round_ in (1, 2):
                    ctx.evaluations += 1
                    ctx.count('directed:disk-reload')
                    try:
                        text = s5.transpile(target)
                    except Errors.Error as e:
                        text = 'ERROR ' + type(e).__name__
                    want = re.sub(r'"hash":"[0-9a-f]+"', '"hash":"dummy"', fresh[target])
                    got5 = re.sub(r'"hash":"[0-9a-f]+"', '"hash":"dummy"', text)
                    if got5 != want:
                        ctx.violation('history-dependent-output', 'a file-backed module transpiled a second time in one session (tables restored from the cache) differs from a fresh in-memory session',
                                      dict(sources=srcs, history=[('disk-transpile', names.index(target))] * round_, oracle_result=want[-300:], impl_result=got5[-300:]))
                        break
                    for n_ in reversed(names):
                        s5.unload(n_)
            finally:
                os.chdir(old_cwd)
                shutil.rmtree(pool_dir, ignore_errors=True)
        # ---- isolation: loading another module changes no symbol / node class of an untouched one ----
        s2 = tsession.Session(srcs, templates=tpl)
        a = next(n for n in names if not n.endswith('.bad'))
        s2.load(a)
        db = s2.resolve(SymbolDB)
        before = {k: str(db[k]) for k in db.keys() if k.startswith(a + '#')}
        nodes_before = [(n.full_path, type(n).__name__) for n in [*s2.load(a).entrypoint.procedural()]]
        for other in names:
            if other != a:
                s2.load(other)
        after = {k: str(db[k]) for k in db.keys() if k.startswith(a + '#')}
        nodes_after = [(n.full_path, type(n).__name__) for n in [*s2.load(a).entrypoint.procedural()]]
        ctx.evaluations += 1
        if before != after or nodes_before != nodes_after:
            ctx.violation('load-not-isolated', 'loading a module changed the symbols or node classes of another', dict(sources=srcs, impl_result='differs'))
        # ---- fresh interpreter processes: hash seeds and target orders ----
        if hidx < ctx.n(2, 40) and tpl is None:
            ref = None
            for seed, order in [(0, names), (1, list(reversed(names))), (2, names), ('random', sorted(names, key=lambda x: rnd.random()))]:
                got = fresh_process(srcs, order, seed, scratch)
                ctx.evaluations += 1
                if '__error__' in got:
                    ctx.broken.append(dict(kind='correspondence', theorem='C04 oracle: the fresh-process runner failed', detail=got['__error__']))
                    break
                texts = {m: got[m][1] for m in names}
                if ref is None:
                    ref = texts
                    if any(texts[m] != fresh[m] for m in names):
                        ctx.violation('process-differs-from-session', 'a fresh interpreter process emits a different text than a fresh in-process session', dict(sources=srcs, impl_result='differs'))
                elif texts != ref:
                    ctx.violation('seed-or-order-dependent', 'the output depends on PYTHONHASHSEED or on the order of targets', dict(sources=srcs, seed=seed, order=order, impl_result=[m for m in names if texts[m] != ref[m]]))
    prelude = ('Definition oeq (a b : out) : bool := match a, b with OUnit, OUnit | OUnresolved, OUnresolved => true | OText _, OText _ => true | _, _ => false end.\n'
               'Fixpoint oseq (a b : list out) : bool := match a, b with [], [] => true | x :: a2, y :: b2 => oeq x y && oseq a2 b2 | _, _ => false end.\n'
               'Fixpoint sets (clo : nat -> list nat) (l : list nat) (h : list op) : list (list nat) := match h with [] => [] | o :: r => let l2 := fst (step clo (fun m => 0) (unload clo) l o) in l2 :: sets clo l2 r end.\n'
               'Definition same_set (a b : list nat) : bool := forallb (fun x => existsb (Nat.eqb x) b) a && forallb (fun x => existsb (Nat.eqb x) a) b.\n'
               'Fixpoint sseq (a b : list (list nat)) : bool := match a, b with [], [] => true | x :: a2, y :: b2 => same_set x y && sseq a2 b2 | _, _ => false end.\n')
    all_srcs.append(None)
    bad = ctx.correspond('modules_bookkeeping', IMPORTS, '(nat -> list nat) * list op * list out * list (list nat)',
                   'fun c => match c with (clo, h, outs, ls) => oseq (run clo (fun m => 0) (unload clo) [] h) outs && sseq (sets clo [] h) ls end', cases, raw, prelude, shard=60)
    # focused search: replay every history on which model and implementation disagree, then transpile every module
    for i in bad:
        srcs = all_srcs[i]
        names = list(srcs)
        sess = tsession.Session(srcs, templates=tpl)
        for op, m in raw[i]['history']:
            try:
                getattr(sess, op)(names[m])
            except Errors.Error:
                pass
        for n in names:
            try:
                ok = sess.transpile(n) == tsession.Session(srcs, templates=tpl).transpile(n)
                why = 'differs'
            except Errors.Error as e:
                ok, why = False, type(e).__name__
            if not ok:
                ctx.violation('history-breaks-transpile:' + why, 'after a history on which the bookkeeping model and Modules disagree, transpiling a module fails or differs from a fresh session (%s)' % why,
                              dict(sources=srcs, history=raw[i]['history'] + [('transpile', names.index(n))], impl_result=why))
                break


def replay(ctx: Ctx, data: dict) -> int:
    import tsession
    from rogw.tranp.errors import Errors
    srcs = data['sources']
    names = list(srcs)
    live = dict(srcs)
    tpl = data.get('templates')
    sess = tsession.Session(live, templates=tpl)
    bad = False
    for op, m in data['history']:
        try:
            if op == 'submit-failing':
                live[names[m]] = srcs[names[m]] + '\n\n' + data.get('failing_suffix', '') + '\n'
                try:
                    sess.transpile(names[m])
                except Errors.Error as e:
                    print(op, names[m], '->', type(e).__name__, '(expected)')
                live[names[m]] = srcs[names[m]]
                sess.unload(names[m])
            elif op == 'load':
                sess.load(names[m])
            elif op == 'unload':
                sess.unload(names[m])
            else:
                t = outcome(lambda: sess.transpile(names[m]))
                if t != outcome(lambda: tsession.Session(srcs, templates=tpl).transpile(names[m])):
                    print(op, names[m], '-> differs from the fresh outcome')
                    bad = True
        except Errors.Error as e:
            print(op, names[m], '->', type(e).__name__)
            bad = True
    print('REPRODUCED' if bad else 'not reproduced')
    return 1 if bad else 0
