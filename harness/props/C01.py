"""C01 - transpiled C++ behaves like the Python source.
Theorems: Properties/C01.v (py2cpp's operand wrapping over the generated precedence / spelling tables is
re-parenthesising over the C++ ladder; every operator expression is grouped the way Python groups it).
Correspondence: model rendering (Python tokens -> ladder parse -> impl -> C++ tokens) vs the expression text
py2cpp emits. Oracle: generated programs are transpiled, compiled with g++ -std=c++20 and run; every entry
function must return / raise as under CPython on the same argument vectors; expression-only functions over the
whole operator ladder check the grouping end to end."""
from lib import *
import re
import shutil
from props.C02 import tokenize, coq_tok, IDS, WORD_OPS

IMPORTS = ('From Tranp Require Import Base.Str Model.Ladder Model.CppExpr.\nFrom TranpGen Require Import GenLadder GenCppPrec.')
CPP_TOK = re.compile(r'\s*(<<|>>|==|!=|<=|>=|&&|\|\||[-+*/%&|^~<>()!]|[A-Za-z_]\w*|\d+)')
INTV, BOOLV = ['a', 'b', 'c', 'x', 'y'], ['foo', 'bar']


class XG:
    """typed operator expressions over int variables a b c x y and bool variables foo bar; values stay small,
    shifts have literal counts on masked operands, % has a positive literal divisor on a masked operand"""

    def __init__(self, rnd, chain=False):
        self.rnd = rnd
        self.chain = chain

    def ie(self, d):
        r = self.rnd
        k = r.random()
        if d <= 0 or k < .3:
            return r.choice(INTV) if r.random() < .75 else str(r.choice([0, 1, 2, 3, 5, 7]))
        if k < .55:
            return '%s %s %s' % (self.ie(d - 1), r.choice(['+', '-', '+', '-', '*']), self.ie(d - 1))
        if k < .72:
            return '%s %s %s' % (self.ie(d - 1), r.choice(['&', '|', '^']), self.ie(d - 1))
        if k < .78:
            # parenthesised as a whole: a following `- y` would otherwise become part of the shift count
            return '((%s & 15) %s %s)' % (self.ie(d - 1), r.choice(['<<', '>>']), r.choice(['1', '2']))
        if k < .83:
            return '(((%s) & 255) %% %s)' % (self.ie(d - 1), r.choice(['3', '7']))      # (the mask covers the whole operand: | and ^ bind weaker than &)
        if k < .92:
            operand = self.ie(d - 1)
            if '%' in operand:
                operand = '(%s)' % operand       # -(x & 255) % 3 would be a modulo of a negative number: outside the subset
            return '%s%s' % (r.choice(['-', '+', '~', '- ']), operand)
        return '(%s)' % self.ie(d - 1)

    def be(self, d):
        r = self.rnd
        k = r.random()
        if d <= 0 or k < .15:
            return r.choice(BOOLV)
        if k < .55:
            e = '%s %s %s' % (self.ie(d - 1), r.choice(['<', '>', '==', '>=', '<=', '!=']), self.ie(d - 1))
            if self.chain and r.random() < .5:
                e += ' %s %s' % (r.choice(['<', '==', '>']), self.ie(d - 1))
            return e
        if k < .7:
            return 'not %s' % self.be(d - 1)
        if k < .92:
            return '%s %s %s' % (self.be(d - 1), r.choice(['and', 'or']), self.be(d - 1))
        return '(%s)' % self.be(d - 1)


def cpp_tokens(text):
    out, pos = [], 0
    text = text.strip()
    while pos < len(text):
        m = CPP_TOK.match(text, pos)
        if not m:
            return None
        out.append(m.group(1))
        pos = m.end()
    return out


def run(ctx: Ctx) -> None:
    shim()
    import tsession
    import progen
    import cpprun
    ctx.rule = ('(a) typed operator expressions over the whole ladder (arithmetic, bitwise, shifts, comparisons, not / and / or, unary + - ~, deliberate and missing parentheses); '
                '(b) generated programs (functions, loops, if / elif / else, lists, dicts, tuples, comprehensions, closures, lambdas, default arguments, classes with fields and methods, enums, casts, '
                'try / raise / except, string building) with three argument vectors per entry function; non-trivial = expression with an operator pair whose C++ precedence order differs from Python\'s, '
                'or a program using an extended construct; distinct = distinct text')
    ctx.prove(['g_ladder', 'g_cppprec'])
    rnd = ctx.rnd
    scale = 3 if ctx.broken else 1
    work = os.path.join(scratch_dir(), 'c01_cpp')
    shutil.rmtree(work, ignore_errors=True)

    # ---- (a) expressions: rendering correspondence + value differential ----
    n_expr = ctx.n(120, 4000) * scale
    exprs = []
    for i in range(n_expr):
        g = XG(rnd)
        is_bool = rnd.random() < .5
        exprs.append((is_bool, (g.be if is_bool else g.ie)(rnd.choice([1, 2, 2, 3]))))
    exprs += [(True, 'a & b == c'), (True, 'not a == b'), (False, '- -a'), (True, 'not a & b == c | x or foo and not bar'), (False, '-(a) - -(b)'), (True, 'a | b ^ c & x == y'),
              (False, 'a + b << 1'), (False, '1 << (a & 7) + 1'), (False, 'x >> 1 + (b & 1) & 3'), (True, 'a << 1 < b + 20'), (False, 'a * 3 % 7 + b'), (False, '(a & 7) * 5 % 3 - 1')]
    params = ', '.join(['%s: int' % v for v in INTV] + ['%s: bool' % v for v in BOOLV])
    B = 30
    cases, raw, units = [], [], []
    vectors = [(1, 2, 3, 4, 5, True, False), (7, 0, 2, 2, 9, False, False), (3, 3, 1, 12, 0, True, True), (0, 5, 3, 1, 1, False, True)]
    for lo in range(0, len(exprs), B):
        chunk = exprs[lo:lo + B]
        src = ''.join('def e%d(%s) -> %s:\n\treturn %s\n\n' % (k, params, 'bool' if isb else 'int', text) for k, (isb, text) in enumerate(chunk))
        try:
            cpp = tsession.transpile_one(src)
        except Exception as e:
            ctx.violation('program-rejected', 'a module of operator expressions is rejected', dict(input=dict(source=src), impl_result=repr(e)[:300]))
            continue
        rets = re.findall(r'\n(?:int|bool) e(\d+)\([^)]*\) \{\n\treturn (.*);\n\}', cpp)
        by_idx = {int(k): t for k, t in rets}
        entries = []
        for k, (isb, text) in enumerate(chunk):
            ptoks, ctoks = tokenize(text), cpp_tokens(by_idx.get(k, '?'))
            inverted = bool(re.search(r'[&|^][^()]*(==|!=|<|>)|(==|!=|<|>)[^()]*[&|^]|not [^()]*(==|<|>)|[-+~] ?[-+~]', text))
            ctx.case(text, inverted)
            if ptoks is None or ctoks is None:
                ctx.count('expr:untokenizable')
                continue
            if all(t in IDS or not t[0].isalpha() or t in WORD_OPS for t in ptoks):
                cases.append(coq_pair(coq_list(coq_tok(t) for t in ptoks), coq_list(coq_tok(t) for t in ctoks)))
                raw.append(dict(python=text, cpp=by_idx.get(k)))
            entries.append(('e%d' % k, vectors, 'bool' if isb else 'int'))
        units.append((len(units), src, cpp, entries, 'expr'))
    prelude = ('Definition tok_eqb (a b : tok str) : bool := match a, b with TId _ n, TId _ m => Nat.eqb n m | TOp _ o, TOp _ p => str_eqb o p | TL _, TL _ | TR _, TR _ => true | _, _ => false end.\n'
               'Fixpoint toks_eqb (a b : list (tok str)) : bool := match a, b with [], [] => true | x :: r, y :: q => tok_eqb x y && toks_eqb r q | _, _ => false end.\n'
               'Definition render (ts : list (tok str)) : option (list (tok str)) := match parse_with tranp_ladder 400 0 ts with '
               'Some (e, []) => Some (toks str (impl tranp_cpp_binary_prec tranp_cpp_unary_prec tranp_cpp_primary_prec tranp_cpp_renames e)) | _ => None end.\n')
    # python literals are atoms for the model: map digits to ids as on the C++ side
    cases = [c.replace('(TId str -1)', '(TId str 0)') for c in cases]
    ctx.correspond('render_expression', IMPORTS, 'list (tok str) * list (tok str)', 'fun c => match render (fst c) with Some r => toks_eqb r (snd c) | None => false end', cases, raw, prelude, shard=100)

    # ---- (b) programs ----
    N = ctx.n(14, 300) * scale
    for i in range(N):
        # every extended construct at least once per run: two of them are forced into each program, in turn
        forced = [progen.EXT_KINDS[(2 * i + k) % len(progen.EXT_KINDS)] for k in range(2)]
        p = progen.gen_program(rnd, rnd.randint(1, 3), dict(ext=True, force_ext=forced, force_subclass=(i % 5 == 0), force_libname=(i % 5 == 0)))      # every fifth program: a class hierarchy three levels deep
        ext_used = any(k.startswith('ext_') for k in p.constructs)
        ctx.case(p.src, ext_used)
        for k in p.constructs:
            ctx.count('construct:' + k, p.constructs[k])
        try:
            cpp = tsession.transpile_one(p.src)
        except Exception as e:
            ctx.violation('program-rejected:' + type(e).__name__, 'a program of the subset is rejected by the transpiler', dict(input=dict(source=p.src), impl_result=repr(e)[:400]))
            continue
        if i < 2:
            ctx.sample(dict(source=p.src[:300]))
        units.append((len(units), p.src, cpp, p.entries, 'program'))
    for src, entries, tag in KNOWN_SHAPES:
        try:
            units.append((len(units), src, tsession.transpile_one(src), entries, tag))
        except Exception as e:
            ctx.violation('program-rejected:' + tag, 'a program of the subset is rejected by the transpiler (%s)' % tag, dict(input=dict(source=src), impl_result=repr(e)[:400]))
    results, bad = cpprun.compile_and_run(work, [(idx, cpp, entries) for idx, _, cpp, entries, _ in units])
    for idx, src, cpp, entries, tag in units:
        if idx in bad:
            msg = re.sub(r'u\d+\.cpp:\d+:\d+: ', '', bad[idx].split('\n')[0])
            msg = re.sub(r'‘[^’]*’', '_', msg)[:100]
            sig = 'does-not-compile:' + (tag if tag not in ('expr', 'program') else msg)
            ctx.violation(sig, 'the emitted C++ is not accepted by g++ -std=c++20 (%s)' % bad[idx].split('\n')[0][:200], dict(input=dict(source=src, entries=[[e[0], [list(a) for a in e[1]]] for e in entries]), impl_result=bad[idx][:800], cpp=cpp[:3000]))
            continue
        want = cpprun.py_results(src, entries)
        if want is None:
            ctx.count('outside-subset:integer-range')
            continue
        for (ei, ai), w in want.items():
            ctx.evaluations += 1
            got = results.get((idx, ei, ai))
            if got != w:
                fn = entries[ei][0]
                body = re.search(r'def %s\(.*?\n((?:\t.*\n)+)' % re.escape(fn.split('(')[0]), src)
                sig = 'value-differs:' + (tag if tag != 'program' else 'program')
                ctx.violation(sig, 'entry %s%r returns %s under CPython and %s from the compiled C++' % (fn, tuple(entries[ei][1][ai]), w, got),
                              dict(input=dict(source=src, entries=[[e[0], [list(a) for a in e[1]]] for e in entries], entry=fn, args=list(entries[ei][1][ai])), oracle_result=w, impl_result=got, cpp=cpp[:3000]))
                break
    ctx.extra['translation_units'] = len(units)
    ctx.extra['units_not_compiled'] = len(bad)
    shutil.rmtree(work, ignore_errors=True)


# shapes with a recorded divergence (each is replayed on every run)
KNOWN_SHAPES = [
    ('def ch(a: int, b: int, c: int) -> bool:\n\treturn a < b < c\n', [('ch', [(0, 5, 3), (1, 2, 3)], 'bool')], 'chained-comparison'),
    ("def lc(n: int) -> str:\n\treturn 'ab' + 'c' + str(n)\n", [('lc', [(1,)], 'str')], 'string-literal-concat'),
    ("def si(s: str) -> bool:\n\treturn s[0] == 'a'\n", [('si', [('abc',), ('xbc',)], 'bool')], 'str-index-compare'),
    ("def bo(a: int, b: int) -> int:\n\treturn a or b\n", [('bo', [(0, 5), (2, 5)], 'int')], 'or-on-int'),
    ("def ec(a: int, b: int) -> int:\n\ttotal = 0\n\tys = [a, b, 3]\n\tfor i, x in enumerate(ys):\n\t\tif x > 2:\n\t\t\tcontinue\n\t\ttotal += i + x\n\treturn total\n", [('ec', [(200, 1), (1, 1)], 'int')], 'enumerate-continue'),
    ("def il(a: int) -> bool:\n\treturn a in [1, 2]\n", [('il', [(1,), (5,)], 'bool')], 'in-list-literal'),
    ("def ce(a: int, b: int) -> int:\n\tys = [a, b, 3]\n\tzs = [i * x for i, x in enumerate(ys)]\n\treturn zs[0] + zs[1] * 10 + zs[2] * 100\n", [('ce', [(2, 3), (1, 1)], 'int')], 'enumerate-comprehension'),
    ("class K:\n\ta: int\n\tb: int\n\n\tdef __init__(self, n: int) -> None:\n\t\tself.a = n\n\t\tself.a += 1\n\t\tself.b = self.a\n\ndef ci(n: int) -> int:\n\tk = K(n)\n\treturn k.a * 100 + k.b\n", [('ci', [(2,), (5,)], 'int')], 'ctor-statement-order'),
    ("def fl(n: int) -> int:\n\tt = 0\n\tfor x in [1, 2, n]:\n\t\tt += x\n\treturn t\n", [('fl', [(2,), (5,)], 'int')], 'for-over-list-literal'),
    ("def lu(a: int) -> bool:\n\txs = [a, 1]\n\treturn len(xs) < a - 5\n", [('lu', [(2,), (9,)], 'bool')], 'len-unsigned-compare'),
    ("def rr(n: int) -> int:\n\tt = 0\n\tfor i in range(n):\n\t\tn = n - 1\n\t\tt += 1\n\treturn t\n", [('rr', [(4,), (7,)], 'int')], 'range-bound-reevaluated'),
    # repaired shapes, kept as regression inputs
    ("def cq(n: int, d: int) -> int:\n\txs = [n, d]\n\ti = n + 1\n\tdef inner(b: int) -> int:\n\t\tys = [idx + b for idx in xs]\n\t\treturn len(ys) + ys[1] + d + i\n\treturn inner(1)\n", [('cq', [(2, 3), (5, 1)], 'int')], 'closure-with-comprehension'),
    ("def cc(n: int) -> int:\n\tdef one(q: int) -> int:\n\t\treturn q + n\n\tdef two(q: int) -> int:\n\t\treturn one(q) * 2\n\tw = (lambda q: one(q) + 1)(n)\n\treturn two(n) + w\n", [('cc', [(2,), (5,)], 'int')], 'closure-calls-closure'),
    ("def rb(a: int) -> int:\n\ttotal = 0\n\tfor i in range(a & 3):\n\t\ttotal += i\n\tys = [a, 1, 3]\n\tys.insert(a & 1, 9)\n\treturn total + ys[0] + ys.pop(a & 1)\n", [('rb', [(200,), (7,)], 'int')], 'range-and-index-grouping'),
    ("def dg(a: int, s: str) -> int:\n\td = {'x': a}\n\treturn d.get('y', 0) + len(d) + len(str(a) + s) * 2\n", [('dg', [(3, 'ab')], 'int')], 'call-result-grouping'),
    # dict.get as an operand through a member receiver / with an operator in the key; comprehensions over the three dict views
    ('class Bag:\n\titems: dict[str, int]\n\tbonus: int\n\n\tdef __init__(self, n: int) -> None:\n\t\tself.items = {\'a\': n}\n\t\tself.bonus = n * 2\n\n'
     '\tdef total(self, k: str) -> int:\n\t\treturn self.items.get(k, 0) + self.bonus - self.items.get(\'zz\', 5) * 3\n\n'
     'def bg(n: int) -> int:\n\td = {2: n, 4: n + 1}\n\treturn Bag(n).total(\'a\') + d.get(1 << 1, 0) + 7 - d.get(n >> 9, 3)\n', [('bg', [(3,), (10,)], 'int')], 'member-dict-get-grouping'),
    ('def dv(n: int) -> int:\n\td = {1: n + 10, 2: n + 20}\n\tvs = [v for v in d.values()]\n\tks = [k * 100 for k in d.keys()]\n\tws = [v for v in d.values() if v > 15]\n'
     '\tdd = {k: v + 1 for k, v in d.items()}\n\tee = {v: v for v in d.values()}\n\treturn vs[0] + vs[1] + ks[0] + ks[1] + len(ws) + dd[1] + len(ee) + (1 if n + 10 in ee else 0)\n', [('dv', [(3,), (10,)], 'int')], 'dict-view-comprehensions'),
]


def replay(ctx: Ctx, data: dict) -> int:
    shim()
    import tsession
    import cpprun
    src = data['input']['source']
    entries = [(e[0], [tuple(a) for a in e[1]], 'int') for e in data['input']['entries']]
    work = os.path.join(scratch_dir(), 'c01_replay')
    cpp = tsession.transpile_one(src)
    results, bad = cpprun.compile_and_run(work, [(0, cpp, entries)])
    want = cpprun.py_results(src, entries) or {}
    shutil.rmtree(work, ignore_errors=True)
    print(src)
    if bad:
        print('does not compile / run:', bad[0][:600])
        print('REPRODUCED')
        return 1
    diff = [(entries[ei][0], entries[ei][1][ai], w, results.get((0, ei, ai))) for (ei, ai), w in want.items() if results.get((0, ei, ai)) != w]
    for d in diff[:5]:
        print('entry %s%r: CPython %s, C++ %s' % d)
    print('REPRODUCED' if diff else 'not reproduced')
    return 1 if diff else 0
