"""C14 - exporting and re-importing the symbol table loses nothing.
Theorems: Properties/C14.v (attrs roundtrip for every forest; partial export-order closure).
Correspondence: model flatten / by_depth / rebuild vs seqs.expand + ReflectionSerializer._deserialize_attrs on
random forests (wide: indices >= 10, deep) through the JSON text; model order_keys vs SymbolDB._order_keys on
the symbol tables of generated multi-module programs. Oracle: export M, unload M, import, compare symbol by
symbol; import twice."""
from lib import *
import json as _json

IMPORTS = 'From Tranp Require Import Model.SymJson.'


class FakeTypes:
    def __init__(self, key):
        self.fullyname = key


class FakeSym:
    """stands for a reflection: a type key and a list of attrs"""

    def __init__(self, key, attrs=None):
        self.key = key
        self.types = FakeTypes(key)
        self.attrs = list(attrs or [])

    def stack(self):
        return FakeSym(self.key, self.attrs)

    def extends(self, *attrs):
        self.attrs = [*self.attrs, *attrs]
        return self


def gen_forest(rnd, depth, wide):
    n = rnd.choice([0, 1, 2, 3, 12, 14] if wide else [0, 1, 2, 3])
    return [(rnd.randrange(40), gen_forest(rnd, depth - 1, wide and rnd.random() < .3) if depth > 0 and rnd.random() < .6 else []) for _ in range(n)]


def to_fake(f):
    return [FakeSym('k%d' % k, to_fake(cs)) for k, cs in f]


def from_fake(attrs):
    return [(int(a.key[1:]), from_fake(a.attrs)) for a in attrs]


def coq_xforest(f):
    return '[' + '; '.join('XNd %d %s %s' % (k, coq_xforest(cs), coq_xforest(ds)) for k, cs, ds in f) + ']'


def coq_forest(f):
    return '[%s]' % '; '.join('Nd %d %s' % (k, coq_forest(cs)) for k, cs in f)


def coq_items(d):
    return coq_list('(%s, %d)' % (coq_list(str(int(x)) for x in p.split('.')), int(v[1:])) for p, v in d.items())


def describe(sym):
    """canonical, session-independent description of a symbol"""
    def attrs(s):
        return [(a.types.fullyname, attrs(a)) for a in s.attrs]
    return dict(cls=type(sym).__name__, types=sym.types.fullyname, decl=sym.decl.fullyname if hasattr(sym.decl, 'fullyname') else str(sym.decl),
                decl_path=sym.decl.full_path, node=sym.node.full_path, node_module=sym.node.module_path, attrs=attrs(sym), text=str(sym))


def run(ctx: Ctx) -> None:
    shim()
    import tsession
    import progen
    import rogw.tranp.lang.sequence as seqs
    from rogw.tranp.semantics.reflection.serializer import ReflectionSerializer
    from rogw.tranp.semantics.reflection.serialization import IReflectionSerializer
    from rogw.tranp.semantics.reflection.db import SymbolDB
    ctx.rule = ('(a) random attr forests (depth<=4, width up to 14 so that indices >= 10 occur) through expand -> JSON text -> _deserialize_attrs; '
                '(b) symbol tables of generated 2-4 module programs (functions, classes, fields, methods, lists, enums) and of the example module; '
                'non-trivial = forest of depth >= 2 / module with at least one imported symbol; distinct = distinct forest or program')
    ctx.prove([])
    rnd = ctx.rnd
    scale = 5 if ctx.broken else 1
    ser = ReflectionSerializer.__new__(ReflectionSerializer)

    # ---- (a) attrs encoding ---------------------------------------------------------------------
    cases, raw = [], []
    for i in range(ctx.n(500, 20000) * scale):
        f = gen_forest(rnd, rnd.randint(0, 4), rnd.random() < .4)
        fake = to_fake(f)
        flat = seqs.expand(fake, iter_key='attrs')
        data = {path: a.types.fullyname for path, a in flat.items()}
        data2 = _json.loads(_json.dumps(data, separators=(',', ':')))
        db = {'k%d' % k: FakeSym('k%d' % k) for k in range(40)}
        try:
            rebuilt = from_fake(ser._deserialize_attrs(db, data2))
        except Exception as e:
            rebuilt = ('ERR', type(e).__name__)
        deep = any(cs for _, cs in f)
        ctx.case(('forest', repr(f)), deep)
        ctx.count('forest:' + ('deep' if deep else 'flat') + (':wide' if any(len(x) >= 10 for x in [f] + [cs for _, cs in f]) else ''))
        if rebuilt != f:
            ctx.violation('attrs-roundtrip', 'attrs rebuilt from the flattened form differ from the original attrs',
                          dict(input=dict(kind='forest', forest=f), oracle_result=repr(f), impl_result=repr(rebuilt)))
        if i < 2:
            ctx.sample(dict(kind='attr forest', forest=repr(f)[:200], flattened=dict(list(data.items())[:8])))
        if isinstance(rebuilt, list):
            cases.append(coq_pair(coq_forest(f), coq_items(data), coq_forest(rebuilt)))
            raw.append(dict(forest=repr(f)))
    ctx.correspond('flatten_rebuild', IMPORTS, 'forest * list item * forest',
                   'fun c => match c with (f, items, r) => (if list_eq_dec (fun a b : item => (ltac:(decide equality; [apply Nat.eq_dec | apply (list_eq_dec Nat.eq_dec)]) : {a = b} + {a <> b})) (flatten f) items then true else false) && forest_eqb (rebuild items) r end',
                   cases, raw, shard=250)

    # ---- (b) real symbol tables ---------------------------------------------------------------------
    ocases, oraw = [], []
    nprog = ctx.n(14, 300) * scale
    for i in range(nprog):
        mods = progen.gen_modules(rnd, rnd.randint(2, 4))
        srcs = {k: p.src for k, p in mods.items()}
        if i == 1:
            import shapes
            srcs = dict(shapes.ALL)      # generic classes, forward references inside type arguments, wide signatures
        names = list(srcs)
        if i == 0:
            names = names + ['example.json']
        try:
            s = tsession.Session(srcs)
            for k in names:
                s.load(k)
        except Exception as e:
            ctx.violation('program-rejected', 'a generated multi-module program was rejected', dict(input=dict(kind='program', sources=srcs), impl_result=repr(e)[:500]))
            continue
        db = s.resolve(SymbolDB)
        serializer = s.resolve(IReflectionSerializer)
        for M in names:
            keys_m = [k for k, _ in db.items(M)]
            before = {k: describe(db[k]) for k in keys_m}
            ctx.case(('module', srcs.get(M, M)), len(names) > 1)
            # model of the export order vs the real one
            order = db._order_keys(M)
            allkeys = {}
            for k in list(db.keys()):
                allkeys.setdefault(k, len(allkeys))

            def kid(k):
                return allkeys.setdefault(k, len(allkeys))

            def attrs_forest(sym):
                return [(kid(a.types.fullyname), attrs_forest(a)) for a in sym.attrs]

            class TooBig(Exception):
                pass
            budget = [4000]

            def xforest(sym, blocked, depth=0):
                """attrs as (type key, attrs, attrs of the table entry of that type): the lookup _order_keys_recursive makes for a type of the
                exported module that is not being listed already, unfolded in advance"""
                out = []
                for a in sym.attrs:
                    budget[0] -= 1
                    if budget[0] < 0 or depth > 12:
                        raise TooBig()
                    fn = a.types.fullyname
                    decl = []
                    if a.types.module_path == M and fn in db and fn not in blocked and db[fn] is not a:
                        decl = xforest(db[fn], blocked | {fn}, depth + 1)
                    out.append((kid(fn), xforest(a, blocked, depth + 1), decl))
                return out
            modid = {}

            def mid(mp):
                return modid.setdefault(mp, len(modid) + 1)
            rows, tmods = [], {}
            from rogw.tranp.dsn.module import ModuleDSN
            for k in db.keys():
                sym = db[k]
                try:
                    in_m = ModuleDSN.parsed(k)[0] == M
                    tf = sym.types.fullyname
                    rdecl = xforest(db[tf], frozenset([tf])) if in_m and sym.types.module_path == M and tf in db and db[tf] is not sym else []
                    rows.append((kid(k), mid(ModuleDSN.parsed(k)[0]), kid(tf), mid(sym.types.module_path), xforest(sym, frozenset()) if in_m else [], rdecl))
                except TooBig:
                    rows = None
                    break
                tmods[kid(sym.types.fullyname)] = mid(sym.types.module_path)

                def walk(x):
                    for a in x.attrs:
                        tmods[kid(a.types.fullyname)] = mid(a.types.module_path)
                        walk(a)
                walk(sym)
                if sym.types.fullyname in db:
                    walk(db[sym.types.fullyname])
            tm = [tmods.get(j, 0) for j in range(len(allkeys))]
            if rows is not None and len(rows) <= 700:
                ocases.append(coq_pair(str(mid(M)), coq_list(map(str, tm)),
                                       coq_list('{| rkey := %d; rmod := %d; rtype := %d; rtmod := %d; rattrs := %s; rdecl := %s |}' % (a, b, c, d, coq_xforest(e), coq_xforest(f)) for a, b, c, d, e, f in rows),
                                       coq_list(str(kid(k)) for k in order)))
                oraw.append(dict(module=M, rows=len(rows)))
            # ---- oracle: export, unload, import, compare ----
            try:
                data = _json.loads(_json.dumps(db.to_json(serializer, for_module_path=M), separators=(',', ':')))
                db.unload(M)
                missing_before = [k for k in keys_m if k in db]
                db.import_json(serializer, data)
                after = {k: describe(db[k]) for k in keys_m if k in db}
                ok_completed = db.completed(M) or not keys_m       # (a module without any symbol has no row that could mark it complete)
                db.import_json(serializer, data)
                again = {k: describe(db[k]) for k in keys_m if k in db}
            except Exception as e:
                ctx.violation('import-fails:' + type(e).__name__, 'exporting a module and importing it into the table of the other modules fails (%s)' % type(e).__name__,
                              dict(input=dict(kind='program', sources=srcs, module=M), impl_result=repr(e)[:600]))
                break
            ctx.count('module-symbols', len(keys_m))
            diffs = [k for k in keys_m if before[k] != after.get(k)]
            if diffs or missing_before or not ok_completed or again != after:
                k = diffs[0] if diffs else None
                field = next((f for f in before[k] if before[k][f] != after.get(k, {}).get(f)), '?') if k else ('unload' if missing_before else 'completed/idempotence')
                ctx.violation('symbol-differs:' + field, 'a re-imported symbol differs from the exported one (%s)' % field,
                              dict(input=dict(kind='program', sources=srcs, module=M), oracle_result=before.get(k), impl_result=after.get(k) if k else dict(completed=ok_completed, idempotent=(again == after))))
                break
            if i < 2 and M == names[-1]:
                ctx.sample(dict(kind='module export', module=M, keys=list(data.keys())[:6], first_row=data[next(iter(data))] if data else None))
    ctx.correspond('order_keys', IMPORTS, 'nat * list nat * list row * list nat',
                   'fun c => match c with (m, tm, rows, want) => if list_eq_dec Nat.eq_dec (order_keys (fun k => nth k tm 0) m rows) want then true else false end',
                   ocases, oraw, shard=4)


def replay(ctx: Ctx, data: dict) -> int:
    print(_json.dumps(data.get('input'), indent=1)[:4000])
    print('expected:', data.get('oracle_result'), '\nobserved when found:', data.get('impl_result'))
    return 1
