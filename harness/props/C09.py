"""C09 - every handler receives exactly the results of its own children.
Theorems: Properties/C09.v (exec_correct for all trees satisfying WF; schema side condition on generated
data). Correspondence: model stack machine vs the real Procedure on (a) random trees of fake Node
classes, including trees violating WF (error behaviour compared), (b) node trees of generated programs
and real modules. Oracle: identity-valued Procedure over every real node + WF monitor."""
from lib import *
import itertools

IMPORTS = 'From Tranp Require Import Model.Procedure.'
REAL_MODULES = ['rogw.tranp.compatible.libralies.classes', 'rogw.tranp.compatible.libralies.type', 'example.json', 'example.FW.string',
                'tests.unit.rogw.tranp.implements.cpp.transpiler.fixtures.fixture_py2cpp']

_cls_counter = itertools.count()


def fake_classes():
    """Node subclasses whose tree structure is given by plain attributes (no AST behind them)."""
    shim()
    from rogw.tranp.syntax.node.node import Node
    from rogw.tranp.syntax.node.behavior import ITerminal
    from rogw.tranp.syntax.node.embed import Meta, expandable

    def make(nprops_kinds, terminal):
        idx = next(_cls_counter)
        ns = {}

        def ctor(self, nid, values, under):
            self.nid = nid
            self.values = values
            self.under_nodes = under
        ns['__init__'] = ctor
        ns['_under_expand'] = lambda self: list(self.under_nodes)
        ns['__repr__'] = lambda self: '<Fake %d>' % self.nid
        for k, is_list in enumerate(nprops_kinds):
            if is_list:
                def fget(self, k=k) -> list[Node]:
                    return self.values[k]
            else:
                def fget(self, k=k) -> Node:
                    return self.values[k]
            fget.__name__ = 'p%d' % k
            fget.__qualname__ = 'Fake%d.p%d' % (idx, k)
            ns['p%d' % k] = property(Meta.embed(Node, expandable)(fget))
        bases = (Node, ITerminal) if terminal else (Node,)
        return type('Fake%d' % idx, bases, ns)
    return make


def gen_fake(rnd, make, cache, depth, ids, wf_only):
    """returns (python node, abstract tuple (id, term, props, under))"""
    nid = next(ids)
    term = rnd.random() < (.3 if depth > 0 else 1.0)
    kinds = []
    if not term or (not wf_only and rnd.random() < .15):
        kinds = [rnd.random() < .6 for _ in range(rnd.randint(0, 3))]
    key = (tuple(kinds), term)
    if key not in cache:
        cache[key] = make(kinds, term)
    cls = cache[key]
    values, aprops = [], []
    for is_list in kinds:
        if is_list:
            cs = [gen_fake(rnd, make, cache, depth - 1, ids, wf_only) for _ in range(rnd.choice([0, 0, 1, 2, 3]))]
            values.append([c[0] for c in cs])
            aprops.append((True, [c[1] for c in cs]))
        else:
            c = gen_fake(rnd, make, cache, depth - 1, ids, wf_only)
            values.append(c[0])
            aprops.append((False, [c[1]]))
    yields = any(p[1] for p in aprops)
    under = []
    if not term and (not yields) and depth > 0 and rnd.random() < (.0 if wf_only else .3):
        under = [gen_fake(rnd, make, cache, depth - 1, ids, wf_only) for _ in range(rnd.randint(1, 2))]
    elif not term and yields and rnd.random() < .3 and depth > 0:
        under = [gen_fake(rnd, make, cache, depth - 1, ids, wf_only)]   # ignored by procedural(): properties yield
    node = cls(nid, values, [u[0] for u in under])
    return node, (nid, term, aprops, [u[1] for u in under])


def coq_tree(t) -> str:
    nid, term, props, under = t
    return '(Nd %d%%N %s [%s] [%s])' % (nid, coq_bool(term), '; '.join('(%s, [%s])' % (coq_bool(b), '; '.join(map(coq_tree, cs))) for b, cs in props),
                                    '; '.join(map(coq_tree, under)))


def coq_res(r) -> str:
    nid, evs = r
    parts = []
    for e in evs:
        if e[0] == 'one':
            parts.append('EOne _ %s' % coq_res(e[1]))
        else:
            parts.append('EMany _ [%s]' % '; '.join(map(coq_res, e[1])))
    return '(Res %d%%N [%s])' % (nid, '; '.join(parts))


def run_real(root, idof):
    """real Procedure with a recording fallback handler; result = call tree (id, events) or error class"""
    from rogw.tranp.semantics.procedure import Procedure
    from rogw.tranp.errors import Errors
    proc = Procedure(verbose=False)

    def on_fallback(node, **event):
        evs = []
        for k in node.prop_keys():
            v = event[k]
            evs.append(('many', v) if isinstance(v, list) else ('one', v))
        return (idof(node), evs)
    proc.on('on_fallback', on_fallback)
    try:
        return ('ok', proc.exec(root))
    except Errors.Logic:
        return ('Logic', None)
    except Exception as e:
        return (type(e).__name__, None)


def abstract_real(n, ids):
    """abstract tree of a real node: id by first visit"""
    keys = n.prop_keys()
    props = []
    nid = ids.setdefault(n.full_path, len(ids))
    for k in keys:
        v = getattr(n, k)
        anno = getattr(n.__class__, k).fget.__annotations__['return']
        is_list = hasattr(anno, '__origin__') and anno.__origin__ is list
        cs = v if isinstance(v, list) else [v]
        props.append((is_list, [abstract_real(c, ids) for c in cs]))
    term = not n.can_expand
    under = []
    if not term and not any(p[1] for p in props):
        under = [abstract_real(c, ids) for c in n._under_expand()]
    return (nid, term, props, under)


def size(t):
    return 1 + sum(size(c) for _, cs in t[2] for c in cs) + sum(size(c) for c in t[3])


def wf(t):
    nid, term, props, under = t
    if term and props:
        return False
    if not any(cs for _, cs in props) and under:
        return False
    return all((b or len(cs) == 1) and all(wf(c) for c in cs) for b, cs in props)


def run(ctx: Ctx) -> None:
    import tsession
    import progen
    ctx.rule = ('(a) random trees of fake Node subclasses (0-3 single/list expandable properties, terminals, under-nodes; ~25% violate the WF side condition on purpose), '
                '(b) node trees of generated programs and of real library/example/fixture modules; non-trivial = tree with >= 3 nodes; distinct = distinct abstract tree')
    ctx.prove(['g_nodeschema'])
    rnd = ctx.rnd
    make = fake_classes()
    cache = {}
    cases, raw = [], []
    nfake = ctx.n(600, 6000) * (5 if ctx.broken else 1)
    for i in range(nfake):
        ids = itertools.count()
        wf_only = rnd.random() < .75
        node, at = gen_fake(rnd, make, cache, rnd.randint(1, 4), ids, wf_only)
        got = run_real(node, lambda n: n.nid)
        ctx.count('fake:' + ('wf' if wf(at) else 'not-wf') + ':' + got[0])
        cases.append(coq_pair(coq_tree(at), coq_opt(coq_res(got[1]) if got[0] == 'ok' else None)))
        raw.append(dict(tree=repr(at), impl=repr(got)))
        ctx.case(at, size(at) >= 3)
        if wf(at):
            # property oracle on the implementation (independent of the model): recursive evaluation
            want = spec_eval(at)
            if got != ('ok', want):
                ctx.violation('fake-tree:' + got[0], 'Procedure.exec on a well-formed tree does not give each handler exactly its children results',
                              dict(input=dict(kind='fake', tree=repr(at)), oracle_result=repr(want), impl_result=repr(got)))
        if got[0] not in ('ok', 'Logic'):
            ctx.broken.append(dict(kind='correspondence', theorem='correspondence exec: unexpected exception class ' + got[0], detail=repr(at)))
        if i < 2:
            ctx.sample(dict(kind='fake tree', tree=repr(at)[:300], result=repr(got)[:300]))

    # ---- real node trees -------------------------------------------------------------------------
    sess = tsession.Session({})
    real = []
    mods = REAL_MODULES if ctx.thorough else REAL_MODULES[:3]
    for m in mods:
        try:
            real.append((m, sess.entrypoint(m)))
        except Exception as e:
            ctx.broken.append(dict(kind='correspondence', theorem='loading real module %s failed' % m, detail=repr(e)))
    nprog = ctx.n(60, 1500) * (5 if ctx.broken else 1)
    srcs = {}
    for i in range(nprog):
        p = progen.gen_program(rnd, rnd.randint(1, 3))
        srcs['gen_%d' % i] = p.src
    import shapes
    srcs.update(shapes.ALL)      # generic bases, static / class methods, properties, with / try, nested closures
    s2 = tsession.Session(srcs)
    for name in srcs:
        try:
            real.append((name, s2.entrypoint(name)))
        except Exception as e:
            ctx.violation('generated-program-rejected', 'a generated subset program was rejected while building its node tree',
                          dict(input=dict(kind='program', source=srcs[name]), impl_result=repr(e)))
    nodes_checked = 0
    for name, ep in real:
        ids = {}
        at = abstract_real(ep, ids)
        got = run_real(ep, lambda n: ids[n.full_path])
        ctx.count('real:' + got[0])
        ctx.case(at, True)
        sz = size(at)
        nodes_checked += sz
        if sz <= 2500:   # literal size bound for one coqc shard; larger trees are covered by the oracle below
            cases.append(coq_pair(coq_tree(at), coq_opt(coq_res(got[1]) if got[0] == 'ok' else None)))
            raw.append(dict(module=name, size=sz))
        # WF monitor + oracle
        if not wf(at):
            ctx.violation('real-tree-not-wf', 'a real node tree violates the side condition of C09_exec_correct (terminal with expandable property / unconsumed under nodes)',
                          dict(input=dict(kind='module', module=name, source=srcs.get(name)), impl_result='WF fails'))
        want = spec_eval(at)
        if got != ('ok', want):
            ctx.violation('real-tree:' + got[0], 'Procedure.exec on a real node tree: a handler did not get exactly the results of its own children, or the final stack size is not one',
                          dict(input=dict(kind='module', module=name, source=srcs.get(name)), oracle_result=repr(want)[:2000], impl_result=repr(got)[:2000]))
        if name.startswith('gen_0'):
            ctx.sample(dict(kind='generated program', source=srcs[name][:400], nodes=sz))
    ctx.extra['real_nodes_checked'] = nodes_checked
    ctx.correspond('exec', IMPORTS, 'node * option res',
                   'fun c => match exec res record (fst c), snd c with Some a, Some b => res_eqb a b | None, None => true | _, _ => false end',
                   cases, raw, shard=40)


def spec_eval(t):
    nid, term, props, under = t
    evs = []
    for b, cs in props:
        rs = [spec_eval(c) for c in cs]
        evs.append(('many', rs) if b else ('one', rs[0]))
    return (nid, evs)


def replay(ctx: Ctx, data: dict) -> int:
    import tsession
    inp = data['input']
    if inp.get('kind') == 'fake':
        print('fake tree:', inp['tree'])
        print('expected:', data.get('oracle_result'), '\nobserved when found:', data.get('impl_result'))
        return 1
    src = inp.get('source')
    name = inp.get('module', 'replay_mod')
    sess = tsession.Session({name: src} if src else {})
    ep = sess.entrypoint(name)
    ids = {}
    at = abstract_real(ep, ids)
    got = run_real(ep, lambda n: ids[n.full_path])
    ok = got == ('ok', spec_eval(at)) and wf(at)
    print('module', name, 'nodes', size(at), 'wf', wf(at), 'exec', got[0])
    print('REPRODUCED' if not ok else 'not reproduced')
    return 0 if ok else 1
