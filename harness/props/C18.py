"""C18 - fragment splitting helpers respect bracket and quote nesting.
Theorems: coq/theories/Properties/C18.v. Model: Model/Block.v (tied by correspondence on generated
fragments + a malformed stream). Oracle: the laws evaluated directly on the real helpers."""
from lib import *
import re

PAIRS = ['[]', '()', '{}', '<>']
QUOTES = ['"', "'"]
IMPORTS = 'From Tranp Require Import Model.Block Model.BlockParse.'


# ---- fragment grammar (the same inductive family as Proofs/BlockProofs.v: Ch / Q / G) -----------

def gen_items(rnd, depth, n, qmode):
    """qmode: 'plain' quote bodies without token chars; 'full' bodies may hold delimiters, brackets and
    the other quote kind; 'otherkind:<oc>' bodies may hold brackets except the pair <oc>."""
    items = []
    for _ in range(n):
        r = rnd.random()
        if r < .45:
            w = rnd.choice(['a', 'bc', 'x1', 'foo', 'std::map', 'this', '12', '0', ' ', ' ', ',', ', ', '=', ':', ' = ', '.', '_t', '&', '*', 'const '])
            items.extend(('ch', c) for c in w)
        elif r < .65:
            q = rnd.choice(QUOTES)
            pool = 'ab ,=:x_'
            if qmode == 'full':
                pool += '()[]{}<>' + (QUOTES[1] if q == QUOTES[0] else QUOTES[0])
            elif qmode.startswith('otherkind:'):
                pool += ''.join(c for c in '()[]{}<>' if c not in qmode[10:])
            items.append(('q', q, ''.join(rnd.choice(pool) for _ in range(rnd.randint(0, 5)))))
        elif depth > 0:
            oc = rnd.choice(PAIRS)
            items.extend(('ch', c) for c in rnd.choice(['', '', 'f', 'T', 'vec']))
            items.append(('g', oc, gen_items(rnd, depth - 1, rnd.randint(0, 3), qmode)))
        else:
            items.append(('ch', rnd.choice('abxyz09')))
    return items


def flat(items):
    out = []
    for it in items:
        if it[0] == 'ch':
            out.append(it[1])
        elif it[0] == 'q':
            out.append(it[1] + it[2] + it[1])
        else:
            out.append(it[1][0] + flat(it[2]) + it[1][1])
    return ''.join(out)


def split_items(d, items):
    """specification: cut only at top-level delimiter characters that are not the last character"""
    parts, cur = [], []
    for i, it in enumerate(items):
        if it[0] == 'ch' and it[1] == d and i + 1 < len(items):
            parts.append(cur)
            cur = []
        else:
            cur.append(it)
    if cur:
        parts.append(cur)
    return parts


def groups_of(group, oc):
    """specification of parse_bracket below one group: the group, then the groups of the same kind directly inside it
    (not those inside a quoted string or a group of another kind), outermost first, in document order"""
    out = [flat([group])]
    for sub in group[2]:
        if sub[0] == 'g' and sub[1] == oc:
            out.extend(groups_of(sub, oc))
    return out


def find_is_exact(items, oc, dirty=False):
    """okl of Proofs/BlockParseProofs.v: no quoted string / other-kind group that holds the opening bracket sits
    between the last blank and a group of the parsed kind"""
    for it in items:
        if it[0] == 'g' and it[1] == oc:
            if dirty or not find_is_exact(it[2], oc, False):
                return False
            dirty = False
        elif it[0] == 'ch' and it[1] in ' \n\t':
            dirty = False
        else:
            dirty = dirty or (oc[0] in flat([it]))
    return True


def gen_dict(rnd, depth):
    """canonical dict text and its (key, value text, depth) pairs"""
    n = rnd.randint(0, 3)
    pairs, parts = [], []
    for _ in range(n):
        k = rnd.choice(['a', 'key', 'x1', '"k"', "'a,b'", '"p:q"', 'T', 'n_2'])
        r = rnd.random()
        if depth > 0 and r < .35:
            vt, sub = gen_dict(rnd, depth - 1)
        else:
            vt, sub = rnd.choice(['b', '1', 'f(x, y)', '[1, 2]', 'map<K, V>', '"v: w"', "'{'", 'g(h(i(0)))', 'v[0]']), []
        pairs.append((k, vt, sub))
        parts.append('%s: %s' % (k, vt))
    return '{' + ', '.join(parts) + '}', pairs


def dict_pairs_by_depth(pairs):
    out, level = [], pairs
    while level:
        out.extend((k, v) for k, v, _ in level)
        level = [p for _, _, sub in level for p in sub]
    return out


def malformed(rnd):
    return ''.join(rnd.choice('a,( )[]"\'=<>{}: x') for _ in range(rnd.randint(0, 14)))


def impl():
    shim()
    from rogw.tranp.view.helper.block import BlockParser
    from rogw.tranp.view.helper.decorator import DecoratorHelper
    from rogw.tranp.implements.cpp.view.cpp_view_helper import CppViewHelper
    return BlockParser, DecoratorHelper, CppViewHelper


def guarded(f):
    try:
        return ('ok', f())
    except IndexError:
        return ('IndexError', None)
    except Exception as e:  # any other class is reported as a disagreement with the model
        return (type(e).__name__, None)


def run(ctx: Ctx) -> None:
    B, D, V = impl()
    ctx.rule = ('fragments from the inductive family Ch/Q/G (identifiers, numbers, blanks, delimiters, quoted strings, nested ()[]{}<> groups, depth<=3) '
                '+ a malformed stream of random bracket/quote/delimiter soups; a case is non-trivial when the fragment holds a group or a quote; distinct = distinct (helper, text, delimiter)')
    ctx.prove(['g_block'])
    rnd = ctx.rnd
    N = ctx.n(1500, 40000)
    if ctx.broken:
        N *= 10  # focused search: a proof obligation no longer checks

    # -------- correspondence: model vs implementation -----------------------------------------
    other_tokens = ''.join(B._all_pair)
    bs_cases, bs_raw, sk_cases, sk_raw, bl_cases, bl_raw, de_cases, de_raw, pa_cases, pa_raw, pb_cases, pb_raw, pp_cases, pp_raw = ([] for _ in range(14))
    ncorr = ctx.n(1200, 12000)
    for i in range(ncorr):
        if rnd.random() < .75:
            t = flat(gen_items(rnd, 3, rnd.randint(0, 5), rnd.choice(['plain', 'full'])))
            ctx.count('corr:wellformed')
        else:
            t = malformed(rnd)
            ctx.count('corr:malformed')
        d = rnd.choice([',', '=', ' ', ':', ', '])
        r = guarded(lambda: B.break_separator(t, d))
        bs_raw.append((t, d, r))
        bs_cases.append(coq_pair(coq_str(t), coq_str(d), coq_opt(coq_list(map(coq_str, r[1])) if r[0] == 'ok' else None)))
        if t:
            b = rnd.randrange(len(t))
            r = guarded(lambda: B._skip_other_block(t, other_tokens, b))
            sk_raw.append((t, b, r))
            sk_cases.append(coq_pair(coq_str(t), coq_nat(b), coq_nat(r[1])))
        oc = rnd.choice(PAIRS)
        r = guarded(lambda: B.break_last_block(t, oc))
        bl_raw.append((t, oc, r))
        bl_cases.append(coq_pair(coq_str(t), coq_str(oc), coq_opt(coq_pair(coq_str(r[1][0]), coq_str(r[1][1])) if r[0] == 'ok' else None)))
        if r[0] not in ('ok', 'IndexError'):
            ctx.broken.append(dict(kind='correspondence', theorem='correspondence break_last_block: unexpected exception class', detail=repr((t, oc, r))))
        tb = t
        if rnd.random() < .3:
            tb = gen_dict(rnd, 2)[0] if rnd.random() < .5 else rnd.choice(['f', 'T', '']) + oc[0] + t + oc[1]
        r = guarded(lambda: B.parse_bracket(tb, oc))
        pb_raw.append((tb, oc, r))
        pb_cases.append(coq_pair(coq_str(tb), coq_str(oc), coq_opt(coq_list(map(coq_str, r[1])) if r[0] == 'ok' else None)))
        if r[0] not in ('ok', 'IndexError'):
            ctx.broken.append(dict(kind='correspondence', theorem='correspondence parse_bracket: unexpected exception class', detail=repr((tb, oc, r))))
        pd = rnd.choice([':', ',', ':,'])
        r = guarded(lambda: B.parse_pair(tb, oc, pd))
        pp_raw.append((tb, oc, pd, r))
        pp_cases.append(coq_pair(coq_str(tb), coq_str(oc), coq_str(pd), coq_opt(coq_list(coq_pair(coq_str(k), coq_str(v)) for k, v in r[1]) if r[0] == 'ok' else None)))
        r = guarded(lambda: D('x')._parse(t))
        de_raw.append((t, r))
        de_cases.append(coq_pair(coq_str(t), coq_opt(None if r[0] != 'ok' else coq_pair(coq_str(r[1][0]), coq_list(coq_pair(coq_str(k), coq_str(v)) for k, v in r[1][1].items()), coq_str(r[1][2])))))
        r = guarded(lambda: (lambda p: (p.var_type, p.symbol, p.default_value))(V.Param.parse(t)))
        pa_raw.append((t, r))
        pa_cases.append(coq_pair(coq_str(t), coq_opt(None if r[0] != 'ok' else coq_pair(coq_str(r[1][0]), coq_str(r[1][1]), coq_str(r[1][2])))))
    opt_eq = 'Definition oeq {A} (e : A -> A -> bool) (a b : option A) := match a, b with Some x, Some y => e x y | None, None => true | _, _ => false end.\n' \
             'Definition leq (a b : list str) : bool := if list_eq_dec (list_eq_dec Ascii.ascii_dec) a b then true else false.\n' \
             'Definition peq (a b : str * str) : bool := str_eqb (fst a) (fst b) && str_eqb (snd a) (snd b).\n' \
             'Fixpoint dleq (a b : list (str * str)) : bool := match a, b with [] , [] => true | x :: a, y :: b => peq x y && dleq a b | _, _ => false end.\n'
    ctx.correspond('break_separator', IMPORTS, 'str * str * option (list str)',
                   'fun c => match c with (t, d, r) => oeq leq (Some (break_separator t d)) r end', bs_cases, bs_raw, opt_eq)
    ctx.correspond('skip_other_block', IMPORTS, 'str * nat * nat',
                   'fun c => match c with (t, b, r) => Nat.eqb (b + skip other_tokens (drop b t) [] 0) r end', sk_cases, sk_raw, opt_eq)
    ctx.correspond('break_last_block', IMPORTS, 'str * str * option (str * str)',
                   'fun c => match c with (t, oc, r) => oeq peq (break_last_block t (nth_c oc 0) (nth_c oc 1)) r end', bl_cases, bl_raw, opt_eq)
    ctx.correspond('parse_bracket', IMPORTS, 'str * str * option (list str)',
                   'fun c => match c with (t, oc, r) => oeq leq (parse_bracket t (nth_c oc 0) (nth_c oc 1)) r end', pb_cases, pb_raw, opt_eq)
    ctx.correspond('parse_pair', IMPORTS, 'str * str * str * option (list (str * str))',
                   'fun c => match c with (t, oc, d, r) => oeq dleq (parse_pair t (nth_c oc 0) (nth_c oc 1) d) r end', pp_cases, pp_raw, opt_eq)
    ctx.correspond('decorator_parse', IMPORTS, 'str * option (str * list (str * str) * str)',
                   'fun c => match c with (t, r) => match r with Some (p, a, j) => match decorator_parse t with (p2, a2, j2) => str_eqb p p2 && dleq a a2 && str_eqb j j2 end | None => false end end', de_cases, de_raw, opt_eq)
    ctx.correspond('param_parse', IMPORTS, 'str * option (str * str * str)',
                   'fun c => match c with (t, r) => match r, param_parse t with Some (a, b, c), Some (a2, b2, c2) => str_eqb a a2 && str_eqb b b2 && str_eqb c c2 | None, None => true | _, _ => false end end', pa_cases, pa_raw, opt_eq)
    if ctx.broken and not any(b['kind'] == 'unchecked-obligation' for b in ctx.broken):
        N *= 10

    # -------- property oracle on the implementation ---------------------------------------------
    for i in range(N):
        oracle_one(ctx, B, D, V, rnd)
    # the recorded finding, replayed on every run (Properties/C18.v: C18_parse_bracket_find_refuted)
    t = '(a, m["("](b))'
    got = guarded(lambda: B.parse_bracket(t, '()'))
    ctx.evaluations += 1
    if got != ('ok', [t, '(b)']):
        ctx.violation('parse_bracket:find-from-entry-begin', 'parse_bracket cuts a group from a bracket inside a quoted string that stands directly in front of it',
                      dict(input=dict(helper='parse_bracket', text=t, brackets='()'), oracle_result=[t, '(b)'], impl_result=got))


def oracle_one(ctx, B, D, V, rnd):
    law = rnd.choice(['sep', 'sep', 'last', 'dec', 'param', 'bracket', 'bracket', 'pair'])
    ctx.count('law:' + law)
    if law == 'sep':
        qmode = rnd.choice(['plain', 'full', 'full'])
        items = gen_items(rnd, 3, rnd.randint(0, 6), qmode)
        d = rnd.choice([',', ':', '=', ' '])
        t = flat(items)
        want = [flat(p).strip(' ') for p in split_items(d, items)]
        got = guarded(lambda: B.break_separator(t, d))
        ctx.case(('sep', t, d), any(it[0] != 'ch' for it in items))
        ctx.sample(dict(law='break_separator', text=t, delimiter=d, result=got[1]))
        if got != ('ok', want):
            encl = 'quote-encloses-bracket-or-quote' if any(it[0] == 'q' and any(c in '()[]{}<>"\'' for c in it[2]) for it in walk(items)) else ('quote' if any(it[0] == 'q' for it in walk(items)) else 'brackets-only')
            ctx.violation('break_separator:' + encl, 'break_separator cuts inside a bracket/quote or loses text (%s)' % encl,
                          dict(input=dict(helper='break_separator', text=t, delimiter=d), oracle_result=want, impl_result=got))
    elif law == 'last':
        oc = rnd.choice(PAIRS)
        qm = 'otherkind:' + oc
        # prefix balanced for (o, c): build from items, then group
        prefix = flat(gen_items(rnd, 2, rnd.randint(0, 3), qm))
        inner = flat(gen_items(rnd, 2, rnd.randint(0, 4), qm))
        t = prefix + oc[0] + inner + oc[1]
        got = guarded(lambda: B.break_last_block(t, oc))
        ctx.case(('last', t, oc))
        ctx.sample(dict(law='break_last_block', text=t, brackets=oc, result=got[1]))
        if got != ('ok', (prefix, inner)):
            ctx.violation('break_last_block', 'break_last_block(prefix+group) does not return (prefix, inside)',
                          dict(input=dict(helper='break_last_block', text=t, brackets=oc), oracle_result=[prefix, inner], impl_result=got))
    elif law == 'bracket':
        oc = rnd.choice(PAIRS)
        items = gen_items(rnd, 2, rnd.randint(0, 3), 'full')
        # a root group of the parsed kind with same-kind nesting up to four levels, adjacent closers included
        def nest(d):
            body = gen_items(rnd, 1, rnd.randint(0, 3), 'full')
            for _ in range(rnd.randint(0, 2) if d > 0 else 0):
                body.insert(rnd.randint(0, len(body)), nest(d - 1))
                if rnd.random() < .5:
                    body.append(('ch', rnd.choice('ax ,')))
            return ('g', oc, body)
        pre = [it for it in items if not (it[0] == 'g' and it[1] == oc)]
        root = nest(rnd.randint(1, 4))
        tail = gen_items(rnd, 1, rnd.randint(0, 2), 'full')
        t = flat(pre + [root] + tail)
        exact = find_is_exact(pre + [root], oc)
        want = groups_of(root, oc)
        got = guarded(lambda: B.parse_bracket(t, oc))
        ctx.case(('bracket', t, oc), oc[1] * 2 in t or not exact)
        ctx.sample(dict(law='parse_bracket', text=t, brackets=oc, result=got[1]))
        if got != ('ok', want):
            sig = 'parse_bracket:groups' if exact else 'parse_bracket:find-from-entry-begin'
            ctx.violation(sig, 'parse_bracket does not return the groups below the first group, or returns an unbalanced piece (%s)' % sig,
                          dict(input=dict(helper='parse_bracket', text=t, brackets=oc), oracle_result=want, impl_result=got))
    elif law == 'pair':
        t, pairs = gen_dict(rnd, 3)
        t = rnd.choice(['', '', 'name']) + t
        want = [list(p) for p in dict_pairs_by_depth(pairs)]
        got = guarded(lambda: B.parse_pair(t, '{}', ':,'))
        ctx.case(('pair', t), any(sub for _, _, sub in pairs))
        ctx.sample(dict(law='parse_pair', text=t, result=got[1]))
        if got[0] != 'ok' or [list(p) for p in got[1]] != want:
            ctx.violation('parse_pair', 'parse_pair does not return the key / value texts of a canonical dict, outer pairs first',
                          dict(input=dict(helper='parse_pair', text=t), oracle_result=want, impl_result=got))
    elif law == 'dec':
        path = '.'.join(rnd.choice(['Embed', 'alias', 'prop', 'a', 'b_c', 'meta']) for _ in range(rnd.randint(1, 3)))
        args = []
        for k in range(rnd.randint(0, 4)):
            val = flat([it for it in gen_items(rnd, 2, rnd.randint(1, 3), 'full') if not (it[0] == 'ch' and it[1] in ',')]).strip(' ')
            if not val:
                val = 'v'
            if rnd.random() < .4:
                args.append((rnd.choice(['p', 'q', 'name', 'k%d' % k]), val))
            else:
                if '=' in val:
                    val = val.replace('=', '_')  # a positional value with '=' is classified as labelled by design of the helper
                args.append((None, val))
        join_args = ', '.join(v if k is None else k + '=' + v for k, v in args)
        text = path + '(' + join_args + ')'
        want_args = {}
        for i, (k, v) in enumerate(args):
            want_args[str(i) if k is None else k] = v
        if not args:
            want_args = {}
        got = guarded(lambda: D('x')._parse(text))
        ctx.case(('dec', text), len(args) > 0)
        ctx.sample(dict(law='decorator', text=text, result=got[1]))
        if got != ('ok', (path, want_args, join_args)):
            ctx.violation('decorator_parse', 'DecoratorHelper does not reassemble path/arguments',
                          dict(input=dict(helper='DecoratorHelper._parse', text=text), oracle_result=[path, want_args, join_args], impl_result=got))
    else:
        ty = rnd.choice(['int', 'std::string', 'const int&', 'int*', 'std::map<int, std::string>', 'const std::vector<std::map<K, V>>&', 'std::function<void(int, int)>', 'T'])
        name = rnd.choice(['n', 'p', 'value', 'a_b'])
        default = ''
        if rnd.random() < .5:
            default = flat([it for it in gen_items(rnd, 2, rnd.randint(1, 3), 'full') if not (it[0] == 'ch' and it[1] in '= ')]).strip(' ') or '0'
        text = ty + ' ' + name + (' = ' + default if default else '')
        got = guarded(lambda: (lambda p: (p.var_type, p.symbol, p.default_value))(V.Param.parse(text)))
        ctx.case(('param', text), '<' in ty or bool(default))
        ctx.sample(dict(law='param', text=text, result=got[1]))
        if got != ('ok', (ty, name, default)):
            ctx.violation('param_parse', 'Param.parse does not reassemble type/name/default',
                          dict(input=dict(helper='CppViewHelper.Param.parse', text=text), oracle_result=[ty, name, default], impl_result=got))


def walk(items):
    for it in items:
        yield it
        if it[0] == 'g':
            yield from walk(it[2])


def replay(ctx: Ctx, data: dict) -> int:
    B, D, V = impl()
    inp = data['input']
    h = inp['helper']
    if h == 'break_separator':
        got = guarded(lambda: B.break_separator(inp['text'], inp['delimiter']))
    elif h == 'break_last_block':
        got = guarded(lambda: B.break_last_block(inp['text'], inp['brackets']))
    elif h == 'parse_bracket':
        got = guarded(lambda: B.parse_bracket(inp['text'], inp['brackets']))
    elif h == 'parse_pair':
        got = guarded(lambda: [list(p) for p in B.parse_pair(inp['text'], '{}', ':,')])
    elif h == 'DecoratorHelper._parse':
        got = guarded(lambda: D('x')._parse(inp['text']))
    else:
        got = guarded(lambda: (lambda p: (p.var_type, p.symbol, p.default_value))(V.Param.parse(inp['text'])))
    print('input:', inp, '\nexpected:', data.get('oracle_result'), '\nimplementation now:', got)
    ok = json.loads(json.dumps(got[1])) == data.get('oracle_result') if got[0] == 'ok' else False
    print('REPRODUCED' if not ok else 'not reproduced (implementation now meets the law on this input)')
    return 1 if not ok else 0
