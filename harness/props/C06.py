"""C06 - non-forced runs leave every output equal to a forced run.
Theorems: Properties/C06.v (run = forced run when module texts do not depend on imports; refuted with
imports; untouched files). Correspondence: which modules a run rewrites (model target selection vs mtimes of
the real CLI runs), header extraction, output path rules. Oracle: after every history, a non-forced run
followed by a forced run changes no file content; distinct modules get distinct output paths."""
from lib import *
import shutil

IMPORTS = 'From Tranp Require Import Model.Runner.'
TYPES = [('int', '1'), ('str', "'s'"), ('float', '1.5'), ('bool', 'True')]


MODS = ['m1', 'm10', 'm2', 'm1x']      # file names by module index: in string-prefix relation on purpose (m1 / m10 / m1x)


def mod(i):
    return MODS[i]


def idx_of(f):
    """module index of an output / cache file name"""
    base = os.path.basename(f)
    stem = base[:-2] if base.endswith('.h') else base.split('-')[0]
    return MODS.index(stem)


def module_src(i, imports, variant, comment, pkg='proj'):
    """module i: imports f_j and the module-level variable v_j of every imported module; its own v_i is
    inferred from the first import (so types flow along import chains), f_i returns a literal of the variant type"""
    t, lit = TYPES[variant % len(TYPES)]
    lines = ['from %s.%s import f%d, v%d, w%d' % (pkg, mod(j), j, j, j) for j in imports]
    if lines:
        lines.append('')
    lines.append('v%d = %s' % (i, 'v%d' % imports[0] if imports else lit))
    lines.append('')
    lines.append('def f%d() -> %s:' % (i, t))
    for j in imports:
        lines.append('\ty%d = f%d()' % (j, j))
        lines.append('\tz%d = v%d' % (j, j))
        # a signature with eleven entries on one level (ten parameters + the return type)
        lines.append("\tq%d = w%d(0, 1, 2, 3, 4, 5, 6, 7, 8, 'a')" % (j, j))
    lines.append('\treturn %s' % lit)
    lines.append('')
    lines.append('def w%d(%s, p9: str) -> float:' % (i, ', '.join('p%d: int' % k for k in range(9))))
    lines.append('\treturn 1.5')
    if comment:
        # odd numbers carry a blank at the end of the line: every second benign edit changes nothing but trailing white space
        lines.append('# edit %d%s' % (comment // 2, ' ' if comment % 2 else ''))
    return '\n'.join(lines) + '\n'


def gen_graph(rnd):
    n = rnd.randint(2, 4)
    shape = rnd.choice(['chain', 'diamond', 'independent', 'random'])
    imps = {i: [] for i in range(n)}
    if shape == 'chain':
        for i in range(1, n):
            imps[i] = [i - 1]
    elif shape == 'diamond' and n >= 3:
        for i in range(1, n - 1):
            imps[i] = [0]
        imps[n - 1] = list(range(1, n - 1)) or [0]
    elif shape == 'random':
        for i in range(1, n):
            imps[i] = rnd.sample(range(i), rnd.randint(0, min(2, i)))      # (the order of the import statements varies too)
    return n, shape, imps


USER_TEMPLATES = {'literal/string.j2': "{{- emit_depends('<string>') -}}\n\"{{ value[1:-1] }}\""}


CLOSURE_MOD = ('def outer(alpha: int, beta: int, gamma: int, label: str) -> int:\n\tdelta = alpha + 1\n\tdef inner(q: int) -> int:\n'
               '\t\treturn q + delta - gamma - beta - alpha + len(label)\n\treturn inner(1)\n')


def process_history(ctx: Ctx, cli, root) -> None:
    """every run in an interpreter process of its own, each with another string-hash seed (the command line is started once per
    build): run; edit one module; run; the untouched outputs must be what a forced run in yet another process writes"""
    proj_dir = os.path.join(root, 'c06_proc')
    p = cli.Project(proj_dir, output_dirs=['./out'])
    p.edit('mcl', CLOSURE_MOD)
    p.edit(mod(0), module_src(0, [], 0, 0))
    hist = [('run', 'PYTHONHASHSEED=1'), ('edit', 0, 1, 0, 'now'), ('run', 'PYTHONHASHSEED=2'), ('runf', 'PYTHONHASHSEED=3')]
    r0 = p.run(force=False, fresh_process=True, env={'PYTHONHASHSEED': '1'})
    p.edit(mod(0), module_src(0, [], 1, 0))
    r1 = p.run(force=False, fresh_process=True, env={'PYTHONHASHSEED': '2'})
    a = {f: c for f, (c, _) in p.outputs().items()}
    r2 = p.run(force=True, fresh_process=True, env={'PYTHONHASHSEED': '3'})
    b = {f: c for f, (c, _) in p.outputs().items()}
    ctx.evaluations += 1
    ctx.count('process-history')
    if r0[0] != 'ok' or r1[0] != 'ok' or r2[0] != 'ok':
        ctx.violation('run-fails:process', 'a run in a fresh interpreter process failed', dict(history=hist, impl_result=(r0, r1, r2)))
    elif a != b:
        stale = sorted(f for f in b if a.get(f) != b[f])
        ctx.violation('stale-other', 'an up-to-date output left by a non-forced run differs from what a forced run in another interpreter process writes',
                      dict(history=hist, graph={0: []}, sources={'mcl': CLOSURE_MOD}, oracle_result={f: b[f][-300:] for f in stale}, impl_result={f: a.get(f, '')[-300:] for f in stale}))
    shutil.rmtree(proj_dir, ignore_errors=True)


def whitespace_history(ctx: Ctx, cli, root) -> None:
    """run; an edit that only adds a blank at the end of a comment line (comments are copied into the output); run: the non-forced
    run must leave what a forced run writes"""
    proj_dir = os.path.join(root, 'c06_ws')
    p = cli.Project(proj_dir, output_dirs=['./out'])
    imps = {0: [], 1: [0]}
    for i in range(2):
        p.edit(mod(i), module_src(i, imps[i], 0, 2))
    hist = [('edit', 0, 0, 2, 'now'), ('edit', 1, 0, 2, 'now'), ('run',)]
    r = p.run(force=False)
    for m in (1, 0):
        p.edit(mod(m), module_src(m, imps[m], 0, 3))
        hist.append(('edit', m, 0, 3, 'now'))
        r1 = p.run(force=False)
        a = {f: c for f, (c, _) in p.outputs().items()}
        r2 = p.run(force=True)
        b = {f: c for f, (c, _) in p.outputs().items()}
        ctx.evaluations += 1
        ctx.count('whitespace-edit')
        if r[0] != 'ok' or r1[0] != 'ok' or r2[0] != 'ok':
            ctx.violation('run-fails:whitespace', 'a run failed', dict(history=hist, graph=imps, impl_result=(r, r1, r2)))
            break
        if a != b:
            stale = sorted(f for f in b if a.get(f) != b[f])
            ctx.violation('stale-other', 'a non-forced run leaves an output that a forced run would write differently (edit of trailing white space only)',
                          dict(history=hist + [('run',)], graph=imps, output_dirs=['./out'], pkg='proj', oracle_result={f: b[f][-200:] for f in stale}, impl_result={f: a.get(f, '')[-200:] for f in stale}))
            break
    shutil.rmtree(proj_dir, ignore_errors=True)


def user_template_history(ctx: Ctx, cli, root) -> None:
    """four independent modules, the first and the last one in file-name order hold string literals (a user template registers
    <string> for them through emit_depends), the two in between do not; after the first run each of the two is edited in turn:
    the non-forced run must leave what a forced run writes"""
    proj_dir = os.path.join(root, 'c06_tpl')
    p = cli.Project(proj_dir, output_dirs=['./out'], templates=USER_TEMPLATES)
    imps = {0: [], 1: [], 2: [], 3: []}
    variant = {0: 1, 1: 0, 2: 1, 3: 0}       # file-name order: m1 (str), m10 (int), m1x (int), m2 (str)
    for i in range(4):
        p.edit(mod(i), module_src(i, [], variant[i], 0))
    hist = [('run',)]
    r = p.run(force=False)
    for m in (1, 3):
        p.edit(mod(m), module_src(m, [], 2, 0))
        hist.append(('edit', m, 2, 0, 'now'))
        r1 = p.run(force=False)
        a = {f: c for f, (c, _) in p.outputs().items()}
        r2 = p.run(force=True)
        b = {f: c for f, (c, _) in p.outputs().items()}
        ctx.evaluations += 1
        ctx.count('user-template')
        if 'ok' not in (r[0], r1[0], r2[0]) or r1[0] != 'ok' or r2[0] != 'ok':
            ctx.violation('run-fails:user-template', 'a run failed on a project with a user template', dict(history=hist, graph=imps, templates=USER_TEMPLATES, variants=variant, impl_result=(r, r1, r2)))
            break
        if a != b:
            stale = sorted(f for f in b if a.get(f) != b[f])
            ctx.violation('stale-other', 'a non-forced run leaves an output that a forced run would write differently (user template with emit_depends)',
                          dict(history=hist + [('run',)], graph=imps, templates=USER_TEMPLATES, variants=variant, output_dirs=['./out'], pkg='proj',
                               oracle_result={f: b[f][:300] for f in stale}, impl_result={f: a.get(f, '')[:300] for f in stale}))
            break
    shutil.rmtree(proj_dir, ignore_errors=True)


def run(ctx: Ctx) -> None:
    import cli
    shim()
    from rogw.tranp.data.meta.header import MetaHeader
    ctx.rule = ('module graphs (chain / diamond / independent / random DAG of 2-4 generated modules whose inferred local types depend on the return type of imported functions), '
                'histories of edit(module, variant) / benign edit / run / run -f / delete-output (length <= 6), 3 output_dirs mappings; non-trivial = an edit of an imported module followed by a run; distinct = distinct (graph, history)')
    ctx.prove([])
    rnd = ctx.rnd
    root = scratch_cwd()
    nh = ctx.n(8, 120) * (3 if ctx.broken else 1)
    tcases, traw = [], []
    for hidx in range(nh):
        n, shape, imps = gen_graph(rnd)
        proj_dir = os.path.join(root, 'c06_%d' % hidx)
        outdirs = rnd.choice([['./out'], ['proj/*:gen', './out'], ['proj/:flat', './out']])
        pkg = 'proj'
        if hidx % 4 == 3:
            pkg, outdirs = 'proj_' + 'x' * 64, ['./out']       # a module path of more than 63 characters: the header line exceeds 256 characters
        templates = None
        if hidx % 4 == 2:
            # a user template that registers a dependency through the emit_depends view helper (every string literal needs <string>)
            templates = {'literal/string.j2': "{{- emit_depends('<string>') -}}\n\"{{ value[1:-1] }}\""}
        p = cli.Project(proj_dir, pkg=pkg, output_dirs=outdirs, templates=templates)
        variant = {i: 0 for i in range(n)}
        comment = {i: 0 for i in range(n)}
        for i in range(n):
            p.edit(mod(i), module_src(i, imps[i], 0, 0, pkg))
        hist = []
        ops_model = []
        written_impl = []
        edited_since_run = set()
        nontrivial = False
        fixed = [.9, .1] if hidx == 1 else None      # the second history is always: run; an edit that keeps an old time stamp
        for step in range(len(fixed) if fixed else rnd.randint(2, 6)):
            k = fixed[step] if fixed else rnd.random()
            if k < .35:
                m = rnd.randrange(n)
                if rnd.random() < .7 or fixed:
                    variant[m] = (variant[m] + 1) % len(TYPES) if fixed else rnd.randrange(len(TYPES))
                else:
                    comment[m] += 1
                p.edit(mod(m), module_src(m, imps[m], variant[m], comment[m], pkg))
                restored = rnd.random() < .2 or bool(fixed)
                if restored:
                    os.utime(p.path(mod(m)), (1000000000, 1000000000))     # content changes, the time stamp is older than every output (a file restored from a backup)
                hist.append(('edit', m, variant[m], comment[m], 'old-mtime' if restored else 'now'))
                ops_model.append('(Edit nat %d %d)' % (m, variant[m] * 100 + comment[m]))
                edited_since_run.add(m)
            elif k < .5 and p.outputs():
                m = rnd.randrange(n)
                target = [f for f in p.outputs() if os.path.basename(f) == mod(m) + '.h']
                if target:
                    os.remove(os.path.join(proj_dir, target[0]))
                    hist.append(('delete', m))
                    ops_model.append('(DeleteOut nat %d)' % m)
            else:
                force = rnd.random() < .3
                before = p.outputs()
                r = p.run(force=force)
                after = p.outputs()
                if r[0] != 'ok':
                    ctx.violation('run-fails:' + r[0], 'a run of the command line application failed on a generated project', dict(history=hist, graph=imps, impl_result=r[1]))
                    break
                wr = sorted(idx_of(f) for f in after if f.endswith('.h') and '__init__' not in f and (f not in before or before[f][1] != after[f][1]))
                written_impl.append(wr)
                hist.append(('runf',) if force else ('run',))
                ops_model.append('(RunF nat)' if force else '(Run nat)')
                if any(any(e in imps[d] for e in edited_since_run) for d in range(n)):
                    nontrivial = True
                edited_since_run = set()
        # ---- oracle: Run then RunF must not change any content ----
        r = p.run(force=False)
        a = {f: c for f, (c, _) in p.outputs().items()}
        r2 = p.run(force=True)
        b = {f: c for f, (c, _) in p.outputs().items()}
        ctx.case((shape, tuple(sorted(imps.items(), key=str)), tuple(hist)), nontrivial)
        ctx.count('graph:' + shape)
        if r[0] != 'ok' or r2[0] != 'ok':
            ctx.violation('run-fails:' + (r[0] if r[0] != 'ok' else r2[0]), 'a run failed', dict(history=hist, graph=imps, impl_result=(r, r2)))
        elif a != b:
            stale = sorted(f for f in b if a.get(f) != b[f])
            ms = [idx_of(f) for f in stale if '__init__' not in f]
            own_header_current = all(MetaHeader.try_from_content(a[f]) == MetaHeader.try_from_content(b[f]) for f in stale if f in a)
            sig = 'stale-dependent' if own_header_current and all(imps[m] for m in ms) else 'stale-other'
            ctx.violation(sig, 'a non-forced run leaves an output that a forced run would write differently (%s)' % sig,
                          dict(history=hist, graph=imps, output_dirs=outdirs, pkg=pkg, templates=templates, oracle_result={f: b[f][-200:] for f in stale}, impl_result={f: a.get(f, '')[-200:] for f in stale}))
        # ---- the same after an upgrade of the application: headers written by an older version are stale ----
        if hidx % 2 == 0 and r[0] == 'ok' and r2[0] == 'ok':
            from rogw.tranp.data.version import Versions
            old_version = Versions.app
            Versions.app = '9.9.9'
            try:
                r3 = p.run(force=False)
                a3 = {f: c for f, (c, _) in p.outputs().items()}
                r4 = p.run(force=True)
                b3 = {f: c for f, (c, _) in p.outputs().items()}
            finally:
                Versions.app = old_version
            ctx.evaluations += 1
            ctx.count('version-change')
            if r3[0] == 'ok' and r4[0] == 'ok' and a3 != b3:
                stale = sorted(f for f in b3 if a3.get(f) != b3[f])
                ctx.violation('stale-after-version-change', 'after the application version changed, a non-forced run leaves outputs that a forced run would write differently',
                              dict(history=hist + [('version', '9.9.9'), ('run',)], graph=imps, output_dirs=outdirs, oracle_result={f: b3[f][:160] for f in stale}, impl_result={f: a3.get(f, '')[:160] for f in stale}))
            p.run(force=True)
            b = {f: c for f, (c, _) in p.outputs().items()}
        # distinct modules, distinct paths
        paths = [f for f in b]
        if len(set(paths)) != n + 1:
            ctx.violation('output-paths', 'distinct modules share an output path (or an output is missing)', dict(history=hist, graph=imps, output_dirs=outdirs, impl_result=paths))
        if hidx < 2:
            ctx.sample(dict(graph=imps, history=hist, output_dirs=outdirs))
        tcases.append(coq_pair(str(n), coq_list(ops_model), coq_list(coq_list(map(str, w)) for w in written_impl)))
        traw.append(dict(graph=imps, history=hist))
        shutil.rmtree(proj_dir, ignore_errors=True)
    user_template_history(ctx, cli, root)
    whitespace_history(ctx, cli, root)
    process_history(ctx, cli, root)
    prelude = ('Definition st0 : state nat := {| sources := fun _ => 0; outs := fun _ => None |}.\n'
               'Definition targets (n : nat) (force : bool) (st : state nat) : list nat := filter (fun m => force || can_transpile nat (fun x => x) st m) (seq 0 n).\n'
               'Fixpoint written (n : nat) (st : state nat) (h : list (op nat)) : list (list nat) := match h with [] => [] | o :: r => '
               'let st2 := step nat (fun x => x) n (fun m _ => m) st o in match o with Run _ => targets n false st :: written n st2 r | RunF _ => targets n true st :: written n st2 r | _ => written n st2 r end end.\n'
               'Definition lleq (a b : list (list nat)) : bool := if list_eq_dec (list_eq_dec Nat.eq_dec) a b then true else false.\n')
    ctx.correspond('target_selection', IMPORTS, 'nat * list (op nat) * list (list nat)',
                   'fun c => match c with (n, h, w) => lleq (written n st0 h) w end', tcases, traw, prelude, shard=50)

    # ---- header extraction and output path rules ----
    hcases, hraw = [], []
    captured = []
    orig = MetaHeader.__dict__['from_json']
    MetaHeader.from_json = classmethod(lambda cls, js: captured.append(js) or js)
    try:
        for i in range(ctx.n(300, 5000)):
            js = rnd.choice(['{"version":"1.0.0","module":{"hash":"%s","path":"a.b"},"transpiler":{"version":"1.0.0","module":"x.Y"}}' % ''.join(rnd.choice('0123456789abcdef') for _ in range(8)), '{}', '{"a":{"b":"}"}}'])
            pre = rnd.choice(['// ', '', '/* x */ // ', '# '])
            post = rnd.choice(['\n#pragma once\n', '\n', ' }\nint f() { return 1; }\n', '', '\n{}\n', ' // trailing\n'])
            content = rnd.choice(['', 'int x;\n']) + (pre + '@tranp.meta: ' + js + post if rnd.random() < .85 else 'no header here {}\n')
            del captured[:]
            try:
                r = MetaHeader.try_from_content(content)
                got = None if r is None else captured[0]
            except Exception as e:
                got = ('ERR', type(e).__name__)
            if isinstance(got, tuple):
                continue
            hcases.append(coq_pair(coq_str(content), coq_opt(None if got is None else coq_str(got))))
            hraw.append(dict(content=content, extracted=got))
    finally:
        MetaHeader.from_json = orig
    ctx.correspond('header_json', IMPORTS, 'str * option str',
                   'fun c => match header_json (fst c), snd c with Some a, Some b => str_eqb a b | None, None => true | _, _ => false end', hcases, hraw, shard=200)

    from rogw.tranp.bin.transpile import Runner
    pcases, praw = [], []

    class Cfg:
        pass
    for i in range(ctx.n(300, 5000)):
        rules = []
        for _ in range(rnd.randint(0, 3)):
            base = rnd.choice(['proj', 'proj/sub', 'lib', 'pr.j', 'a'])
            rules.append((base + rnd.choice(['/*', '/']), rnd.choice(['gen', 'out/x', 'flat'])))
        fb = rnd.choice(['./', 'out', 'dist/h'])
        # (paths in which the rule's prefix text occurs a second time are part of the pool)
        fp = rnd.choice(['proj', 'proj/sub', 'lib', 'proXj', 'prxj', 'a', 'ab', 'proj/proj', 'a/a', 'lib/mylib', 'a/x/a', 'proj/sub/proj/sub']) + '/' + rnd.choice(['m0.h', 'x/y.h', 'a/m0.h', 'proj/m0.h'])
        rn = Runner.__new__(Runner)
        rn.config = Cfg()
        rn.config.output_dirs = ['%s:%s' % r for r in rules] + [fb]
        got = rn.fetch_output_path(fp)
        pcases.append(coq_pair(coq_list(coq_pair(coq_str(c), coq_str(d)) for c, d in rules), coq_str(fb), coq_str(fp), coq_str(os.path.normpath(got))))
        praw.append(dict(rules=rules, fallback=fb, filepath=fp, result=got))
    norm = ('Fixpoint norm_segs (segs : list str) (acc : list str) : list str := match segs with [] => rev acc | x :: r => if str_eqb x (s ".") || str_eqb x [] then norm_segs r acc else norm_segs r (x :: acc) end.\n'
            'Definition normpath (p : str) : str := join ["/"%char] (norm_segs (split "/"%char p) []).\n')
    ctx.correspond('fetch_output_path', IMPORTS, 'list (str * str) * str * str * str',
                   'fun c => match c with (rules, fb, fp, want) => str_eqb (normpath (fetch_output_path rules fb fp)) want end', pcases, praw, norm, shard=300)


def replay(ctx: Ctx, data: dict) -> int:
    import cli
    imps = {int(k): v for k, v in data['graph'].items()}
    n = len(imps)
    proj_dir = os.path.join(scratch_cwd(), 'c06_replay')
    pkg = data.get('pkg') or 'proj'
    p = cli.Project(proj_dir, pkg=pkg, output_dirs=data.get('output_dirs') or ['./out'], templates=data.get('templates'))
    variant = {i: int((data.get('variants') or {}).get(str(i), 0)) for i in range(n)}
    comment = {i: 0 for i in range(n)}
    for i in range(n):
        p.edit(mod(i), module_src(i, imps[i], variant[i], 0, pkg))
    for op in data['history']:
        if op[0] == 'edit':
            variant[op[1]], comment[op[1]] = op[2], op[3]
            p.edit(mod(op[1]), module_src(op[1], imps[op[1]], op[2], op[3], pkg))
            if len(op) > 4 and op[4] == 'old-mtime':
                os.utime(p.path(mod(op[1])), (1000000000, 1000000000))
        elif op[0] == 'delete':
            for f in p.outputs():
                if os.path.basename(f) == mod(op[1]) + '.h':
                    os.remove(os.path.join(proj_dir, f))
        else:
            p.run(force=op[0] == 'runf')
    p.run(force=False)
    a = {f: c for f, (c, _) in p.outputs().items()}
    p.run(force=True)
    b = {f: c for f, (c, _) in p.outputs().items()}
    stale = [f for f in b if a.get(f) != b[f]]
    print('history:', data['history'], 'graph:', imps)
    print('REPRODUCED: stale after a non-forced run: %s' % stale if stale else 'not reproduced')
    return 1 if stale else 0
