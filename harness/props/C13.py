"""C13 - tokenizer agrees with Python and ignores insignificant layout.
Theorems: Properties/C13.v. Correspondence: Gallina lexer / post filter / rebuild vs Lexer.parse_impl,
Lexer.parse, Tokenizer.parse (types, strings, spans) on generated sources and a malformed stream.
Oracle: canonical tokens == CPython tokenize; layout rewrites leave the significant tokens unchanged;
indents and dedents balance; raw tokens concatenate to the source and spans address their text."""
from lib import *
import io
import tokenize as pytok
import token as pytoken

IMPORTS = 'From Tranp Require Import Model.Lexer.'


def impl():
    shim()
    from rogw.tranp.implements.syntax.tranp.token import TokenDefinition, TokenTypes, SpecialSymbols
    from rogw.tranp.implements.syntax.tranp.tokenizer import Lexer, Tokenizer
    return TokenDefinition, TokenTypes, SpecialSymbols, Lexer, Tokenizer


def guarded(f):
    from rogw.tranp.errors import Errors
    try:
        return ('ok', f())
    except Errors.Syntax:
        return ('assert', None)     # a character of no token domain (model outcome LAssert)
    except AssertionError:
        return ('other:AssertionError', None)
    except IndexError:
        return ('index', None)
    except Exception as e:
        return ('other:' + type(e).__name__, None)


def cpython_tokens(src):
    """canonical CPython tokens: (kind, text) with kind in NAME NUMBER STRING OP NEWLINE INDENT DEDENT"""
    out = []
    fparts = None
    for t in pytok.generate_tokens(io.StringIO(src).readline):
        n = pytoken.tok_name[t.type]
        if n in ('COMMENT', 'NL', 'ENDMARKER', 'ENCODING'):
            continue
        if n == 'FSTRING_START':
            fparts = [t.string]
            continue
        if n == 'FSTRING_MIDDLE':
            fparts.append(t.string)
            continue
        if n == 'FSTRING_END':
            fparts.append(t.string)
            out.append(('STRING', ''.join(fparts)))
            fparts = None
            continue
        if n in ('NEWLINE', 'INDENT', 'DEDENT'):
            out.append((n, ''))
        else:
            out.append((n, t.string))
    return out


def canon(tokens, TokenTypes, unary_as_minus=True):
    out = []
    for k in tokens:
        ty = k.type
        if ty == TokenTypes.NewLine:
            out.append(('NEWLINE', ''))
        elif ty == TokenTypes.Indent:
            out.append(('INDENT', ''))
        elif ty == TokenTypes.Dedent:
            out.append(('DEDENT', ''))
        elif ty == TokenTypes.Name:
            out.append(('NAME', k.string))
        elif ty in (TokenTypes.Digit, TokenTypes.Decimal):
            out.append(('NUMBER', k.string))
        elif ty in (TokenTypes.String, TokenTypes.Regexp):
            out.append(('STRING', k.string))
        elif k.string == '\\OP_UNARY_MINUS':
            out.append(('OP', '-' if unary_as_minus else 'u-'))
        else:
            out.append(('OP', k.string))
    return out


def slice_by_linecol(src, sm):
    lines = src.split('\n')
    starts = [0]
    for ln in lines[:-1]:
        starts.append(starts[-1] + len(ln) + 1)
    return src[starts[sm.begin_line] + sm.begin_column: starts[sm.end_line] + sm.end_column]


def coq_toks(tokens, with_span=True):
    return coq_list('(%d, %s, %s)' % (k.type.value, coq_str(k.string),
                                      '(%d, %d, %d, %d)' % tuple(k.source_map) if with_span else '(0, 0, 0, 0)') for k in tokens)


def run(ctx: Ctx) -> None:
    import lexgen
    TokenDefinition, TokenTypes, SpecialSymbols, Lexer, Tokenizer = impl()
    ctx.rule = ('token programs (names, keywords, ints, d.d floats, \' " """ strings with r/f prefixes and escapes, single and combined operators, nested brackets spanning lines, block nesting) '
                'rendered under random layouts (indent unit 2/4/8 spaces or tab, optional blanks, comments, blank lines, trailing blanks) + a malformed character stream; '
                'non-trivial = at least one block or bracket or string; distinct = distinct source text')
    ctx.prove(['g_tokendef'])
    rnd = ctx.rnd
    lexer = Lexer(TokenDefinition())
    tokenizer = Tokenizer()
    N = ctx.n(900, 20000) * (4 if ctx.broken else 1)
    ncoq = ctx.n(600, 6000)
    c1, c2, c3, raw = [], [], [], []
    for i in range(N):
        prog = lexgen.gen_program(rnd)
        unit = rnd.choice(['  ', '    ', '\t', '        '])
        minus = []
        irregular = rnd.random() < .2
        src = lexgen.render(rnd, prog, unit=unit, minus_pattern=minus, irregular=irregular)
        ctx.count('indent:' + ('irregular' if irregular else 'regular'))
        ctx.case(src, any(lv > 0 for lv, _ in prog) or any(c in src for c in '([{\'"'))
        ctx.count('unit:' + repr(unit))
        # ---- oracle 1: CPython agreement --------------------------------------------------------
        try:
            want = cpython_tokens(src)
        except Exception as e:
            ctx.count('cpython-rejects')
            want = None
        got = guarded(lambda: tokenizer.parse(src))
        if want is not None:
            if got[0] != 'ok' or canon(got[1], TokenTypes) != want:
                mine = canon(got[1], TokenTypes) if got[0] == 'ok' else got[0]
                j = next((k for k, (a, b) in enumerate(zip(mine, want)) if a != b), min(len(mine), len(want))) if isinstance(mine, list) else 0
                pair = (want[j - 1][0] if j > 0 else 'BEGIN', want[j][0] if j < len(want) else 'END')
                sig = 'cpython-differs:%s>%s' % pair if isinstance(mine, list) else 'tokenizer-raises:' + str(mine)
                ctx.violation(sig, 'token sequence differs from CPython tokenize (%s)' % sig,
                              dict(input=dict(source=src), oracle_result=want[max(0, j - 3):j + 4], impl_result=(mine[max(0, j - 3):j + 4] if isinstance(mine, list) else mine)))
        # ---- oracle 2: raw tokens partition the source, spans address their text -----------------
        rawt = guarded(lambda: lexer.parse_impl(src))
        if rawt[0] == 'ok':
            texts = ['-' if k.string == SpecialSymbols.OpUnaryMinus.value else k.string for k in rawt[1]]
            if ''.join(texts) != src:
                ctx.violation('partition', 'concatenating the raw lexer tokens does not reproduce the source', dict(input=dict(source=src), impl_result=texts[:40]))
            for k, tx in zip(rawt[1], texts):
                if slice_by_linecol(src, k.source_map) != tx:
                    ctx.violation('span:' + k.type.name, 'a token span does not address the token text', dict(input=dict(source=src), impl_result=[k.type.name, tx, list(k.source_map)]))
                    break
        # ---- oracle 3: layout rewrite ------------------------------------------------------------
        unit2 = rnd.choice([u for u in ['  ', '    ', '\t', '   '] if u != unit])
        src2 = lexgen.render(rnd, prog, unit=unit2, comments=rnd.random() < .5, loose=rnd.random() < .5, minus_pattern=minus)
        got2 = guarded(lambda: tokenizer.parse(src2))
        if got[0] == 'ok' and got2[0] == 'ok':
            a, b = canon(got[1], TokenTypes, False), canon(got2[1], TokenTypes, False)
            try:
                same_for_python = cpython_tokens(src) == cpython_tokens(src2)
            except Exception:
                same_for_python = False
            if same_for_python and a != b:
                j = next((k for k, (x, y) in enumerate(zip(a, b)) if x != y), min(len(a), len(b)))
                ctx.violation('layout:%s' % (a[j][0] if j < len(a) else 'END'), 'a layout-only rewrite changes the significant token sequence',
                              dict(input=dict(source=src, rewritten=src2), oracle_result=a[max(0, j - 3):j + 3], impl_result=b[max(0, j - 3):j + 3]))
            ni = sum(1 for k in got[1] if k.type == TokenTypes.Indent)
            nd = sum(1 for k in got[1] if k.type == TokenTypes.Dedent)
            if ni != nd:
                ctx.violation('indent-balance', 'indents and dedents do not balance', dict(input=dict(source=src), impl_result=dict(indents=ni, dedents=nd)))
        if i < 3:
            ctx.sample(dict(source=src, tokens=[list(x) for x in (want or [])[:14]]))
        # ---- correspondence inputs (well-formed + malformed stream) --------------------------------
        if i < ncoq:
            for s in ([src] if i % 4 else [src, lexgen.malformed(rnd)]):
                if not all(ord(c) < 128 and (ord(c) >= 32 or c in '\n\t') for c in s):
                    continue
                r1 = guarded(lambda: lexer.parse_impl(s))
                r2 = guarded(lambda: lexer.parse(s))
                r3 = guarded(lambda: tokenizer.parse(s))
                if any(r[0].startswith('other') for r in (r1, r2, r3)):
                    ctx.broken.append(dict(kind='correspondence', theorem='correspondence lexer: unexpected exception class', detail=repr((s, r1[0], r2[0], r3[0]))))
                    continue

                def enc(r, span):
                    return {'ok': lambda: '(ROk %s)' % coq_toks(r[1], span), 'assert': lambda: 'RAssert', 'index': lambda: 'RIndex'}[r[0]]()
                c1.append(coq_pair(coq_str(s), enc(r1, True), enc(r2, False), enc(r3, False)))
                raw.append(dict(source=s, outcome=[r1[0], r2[0], r3[0]]))
                ctx.count('corr:' + r1[0])
    prelude = ('Inductive rr := ROk (l : list (nat * str * (nat * nat * nat * nat))) | RAssert | RIndex.\n'
               'Definition teq (src : str) (span : bool) (k : tok) (x : nat * str * (nat * nat * nat * nat)) : bool := match x with (ty, txt, (bl, bc, el, ec)) => Nat.eqb (ttype k) ty && str_eqb (ttext k) txt && (negb span || match source_map src (tb k) (te k) with ((a, b), (c, d)) => Nat.eqb a bl && Nat.eqb b bc && Nat.eqb c el && Nat.eqb d ec end) end.\n'
               'Fixpoint tseq (src : str) (span : bool) (a : list tok) (b : list (nat * str * (nat * nat * nat * nat))) : bool := match a, b with [], [] => true | k :: a2, x :: b2 => teq src span k x && tseq src span a2 b2 | _, _ => false end.\n'
               'Definition req (src : str) (span : bool) (a : lexres) (b : rr) : bool := match a, b with LOk x, ROk y => tseq src span x y | LAssert, RAssert => true | LIndex, RIndex => true | _, _ => false end.\n')
    ctx.correspond('lex_postfilter_rebuild', IMPORTS, 'str * rr * rr * rr',
                   'fun c => match c with (src, r1, r2, r3) => req src true (lex py_tokdef src) r1 && req src false (lexer_parse py_tokdef src) r2 && req src false (tokenize py_tokdef src) r3 end',
                   c1, raw, prelude, shard=60)


def replay(ctx: Ctx, data: dict) -> int:
    TokenDefinition, TokenTypes, SpecialSymbols, Lexer, Tokenizer = impl()
    src = data['input']['source']
    got = guarded(lambda: Tokenizer().parse(src))
    print('source:', repr(src))
    try:
        want = cpython_tokens(src)
    except Exception as e:
        want = repr(e)
    mine = canon(got[1], TokenTypes) if got[0] == 'ok' else got[0]
    print('cpython:', want, '\ntranp  :', mine)
    bad = mine != want
    if 'rewritten' in data['input']:
        g2 = guarded(lambda: Tokenizer().parse(data['input']['rewritten']))
        bad = got[0] == 'ok' and g2[0] == 'ok' and canon(got[1], TokenTypes, False) != canon(g2[1], TokenTypes, False)
    print('REPRODUCED' if bad else 'not reproduced')
    return 1 if bad else 0
