"""C02 - the node tree groups programs exactly as CPython parses them.
Theorems: Properties/C02.v (the ladder read from data/grammar.lark is Python's; print / parse round trip for
every expression tree; function kinds). Correspondence: (a) the ladder parser + flatten of the model vs the
lark tree tranp builds for generated operator expressions and malformed token lists, (b) the class chosen for
every function_def of generated modules vs the model's matchers. Oracle: canon(nodes(s)) == canon(ast.parse(s))
for generated modules over the constructs of grammar.lark, plus function / parameter kinds and declaration vs
reference of every name occurrence, derived from the ast context."""
from lib import *
import ast
import re

IMPORTS = 'From Tranp Require Import Model.Ladder Model.Classify.\nFrom TranpGen Require Import GenLadder.'
IDS = ['a', 'b', 'c', 'x', 'y', 'foo', 'bar', 'n1', 'val', 'xs', 'd']
TOK_RE = re.compile(r'\s*(not\s+in\b|is\s+not\b|<<|>>|==|!=|<=|>=|[-+*/%&|^~<>()]|[A-Za-z_]\w*|\d+)')
WORD_OPS = {'or', 'and', 'not', 'in', 'is', 'not in', 'is not'}


def tokenize(text):
    out, pos = [], 0
    text = text.strip()
    while pos < len(text):
        m = TOK_RE.match(text, pos)
        if not m:
            return None
        t = re.sub(r'\s+', ' ', m.group(1))
        pos = m.end()
        out.append(t)
    return out


def coq_tok(t):
    if t == '(':
        return '(TL str)'
    if t == ')':
        return '(TR str)'
    if t.isdigit():
        return '(TId str %d)' % (100 + int(t))
    if t in WORD_OPS or not (t[0].isalpha() or t[0] == '_'):
        return '(TOp str %s)' % coq_str(t)
    return '(TId str %d)' % IDS.index(t)


def gen_expr_text(rnd, d):
    """operator expressions over names with deliberate parentheses"""
    import nodegen
    g = nodegen.NG(rnd)
    g.atom = lambda dd: rnd.choice(IDS) if dd <= 0 or rnd.random() < .7 else '(' + g.level(0, dd - 1) + ')'
    g.primary = lambda dd: g.atom(dd)
    return g.level(0, d)


def run(ctx: Ctx) -> None:
    shim()
    import lark
    import tsession
    import nodegen
    import nodecanon
    from rogw.tranp.errors import Errors
    ctx.rule = ('modules over the constructs of data/grammar.lark (operator ladder with deliberate parentheses, ternaries, lambdas, attribute / call / index / slice chains, '
                'positional / keyword / * / ** arguments, literals, comprehensions, all simple and compound statements, typed parameters with defaults, decorators, class bases, '
                'methods / class methods / constructors / closures, also under compound statements); non-trivial = module with a compound statement and at least three operators; '
                'distinct = distinct text')
    ctx.prove(['g_ladder'])
    rnd = ctx.rnd
    scale = 3 if ctx.broken else 1

    # ---- (a) ladder correspondence ----
    cases, raw = [], []
    n_expr = ctx.n(250, 6000) * scale
    srcs, texts = {}, []
    for i in range(n_expr):
        text = gen_expr_text(rnd, rnd.choice([1, 2, 2, 3]))
        toks = tokenize(text)
        if toks is None or len(toks) > 60:
            continue
        if i % 6 == 5:
            # malformed: drop / duplicate / swap one token
            k = rnd.randrange(len(toks))
            m = rnd.random()
            toks = toks[:k] + toks[k + 1:] if m < .4 else toks[:k] + [toks[k]] + toks[k:] if m < .7 else toks[:k] + [rnd.choice(['+', 'not', ')', '(', '==', 'a'])] + toks[k:]
            text = ' '.join(toks)
            if not toks:
                continue
        texts.append((text, toks))
    for text, toks in texts:
        try:
            ep = tsession.Session({'lad': 'zz = ' + text + '\n'}).entrypoint('lad')
            root = ep._Node__nodes._Nodes__entries.by('file_input').source
            tree = root.children[0].children[1] if root.children[0].data == 'assign' else None
            got = lark_flat(tree) if tree is not None else None
        except Errors.Syntax:
            got = None
        if got is not None and '?' in got:
            continue
        cases.append(coq_pair(coq_list(coq_tok(t) for t in toks), coq_opt(got)))
        raw.append(dict(text=text, accepted=got is not None))
        ctx.count('ladder:' + ('accepted' if got is not None else 'rejected'))
    prelude = ('Definition nl (n : str) : nat := find_level (fun l => str_eqb (lv_name l) n) tranp_ladder.\n'
               'Fixpoint flat_eqb (a b : flat str) : bool := match a, b with\n'
               '  | FAtom _ n, FAtom _ m => Nat.eqb n m\n'
               '  | FChain _ k f r, FChain _ k2 f2 r2 => Nat.eqb k k2 && flat_eqb f f2 && (fix go (x y : list (str * flat str)) : bool := match x, y with [], [] => true '
               '| (o, e) :: x2, (o2, e2) :: y2 => str_eqb o o2 && flat_eqb e e2 && go x2 y2 | _, _ => false end) r r2\n'
               '  | FUn _ o e, FUn _ o2 e2 => str_eqb o o2 && flat_eqb e e2\n'
               '  | FGroup _ e, FGroup _ e2 => flat_eqb e e2\n'
               '  | _, _ => false end.\n')
    ctx.correspond('ladder_parse', IMPORTS + '\nFrom Tranp Require Import Base.Str.', 'list (tok str) * option (flat str)',
                   'fun c => match parse_with tranp_ladder 400 0 (fst c), snd c with Some (e, []), Some w => flat_eqb (flatten_with tranp_ladder e) w | Some (_, _ :: _), None => true | None, None => true | _, _ => false end',
                   cases, raw, prelude, shard=100)

    # ---- oracle + (b) classification correspondence ----
    N = ctx.n(160, 12000) * scale
    kcases, kraw = [], []
    t_budget = time.time() + ctx.n(60, 1200)
    for i in range(N):
        if time.time() > t_budget:
            ctx.extra['stopped_early_after'] = i
            break
        opts = {'chained_assign': i % 40 == 7, 'classmethod_not_first': i % 3 == 0}
        if i < len(NESTING):
            opts, src = {'chained_assign': False, 'classmethod_not_first': False}, NESTING[i]      # every nesting of def / class up to four levels, on every run
        else:
            src = nodegen.NG(rnd, opts).module(rnd.choice([1, 2, 2, 3]))
            if i % 10 == 3:
                src += EDGE
        try:
            want = nodecanon.canon_python(src)
        except (SyntaxError, ValueError, RecursionError):
            ctx.count('not-python')
            continue
        try:
            ep = tsession.Session({'m': src}).entrypoint('m')
        except Errors.Syntax:
            ctx.count('not-in-grammar.lark')
            continue
        nops = len(re.findall(r'[-+*/%<>=&|^~]|\band\b|\bor\b|\bnot\b', src))
        ctx.case(src, nops >= 3 and bool(re.search(r'^\s*(if|for|while|def|class|try|with)\b', src, re.M)))
        if i < 2:
            ctx.sample(dict(source=src[:400]))
        try:
            got = nodecanon.canon_nodes(ep)
        except Exception as e:
            ctx.violation('node-property-raises:' + type(e).__name__, 'a node property raises while the tree is walked: %s' % repr(e)[:200], dict(input=dict(source=src), impl_result=repr(e)[:500]))
            continue
        if got != want:
            where = nodecanon.first_diff(got, want)
            chained = where.endswith('assign/:len') and any(isinstance(n, ast.Assign) and len(n.targets) > 1 for n in ast.walk(ast.parse(src)))
            sig = 'chained-assignment' if chained else 'tree-differs:' + where
            ctx.violation(sig, 'the node tree differs from CPython\'s ast (%s)' % (sig), dict(input=dict(source=src), where=where, oracle_result=repr(want)[:1500], impl_result=repr(got)[:1500]))
        a, b = nodecanon.node_kinds(ep), nodecanon.py_kinds(src)
        if a != b:
            da, db = [x for x in a if x not in b], [x for x in b if x not in a]
            sig = 'kind:%s-for-%s' % (da[0][1] if da else '?', db[0][1] if db else '?')
            ctx.violation(sig, 'a function / parameter is not classified as Python semantics dictates (%s)' % sig, dict(input=dict(source=src), oracle_result=db[:5], impl_result=da[:5]))
        a, b = nodecanon.node_names(ep), nodecanon.py_names(src)
        if a != b and not opts['chained_assign']:      # (a chained assignment also loses the declarations of its middle targets: same finding)
            da, db = [x for x in a if x not in b], [x for x in b if x not in a]
            sig = 'name-role:%s-for-%s' % (da[0][3] if da else 'missing', db[0][3] if db else 'extra')
            ctx.violation(sig, 'a name occurrence is classified %s' % sig, dict(input=dict(source=src), oracle_result=db[:5], impl_result=da[:5]))
        # classification correspondence cases
        if len(kcases) < ctx.n(150, 3000):
            for fn in iter_functions(ep):
                elems = fn._full_path.de_identify().elements
                decos = [d.path.tokens for d in fn.decorators]
                ps = fn.parameters
                kcases.append(coq_pair('{| f_path := %s; f_decos := %s; f_name := %s; f_first := %s |}' % (
                    coq_list(map(coq_str, elems)), coq_list(map(coq_str, decos)), coq_str(fn.symbol.tokens), coq_opt(coq_str(ps[0].symbol.tokens) if ps else None)), coq_str(type(fn).__name__)))
                kraw.append(dict(path='.'.join(elems), decorators=decos, name=fn.symbol.tokens, cls=type(fn).__name__))
                ctx.count('kind:' + type(fn).__name__)
    ctx.correspond('function_kind', IMPORTS + '\nFrom Tranp Require Import Base.Str.', 'fdef * str',
                   'fun c => match first_accepting function_def_order (fst c) with Some k => str_eqb k (snd c) | None => false end', kcases, kraw, shard=200)


def nesting_sources():
    """def / class nested in each other in every order, two to four levels; a def directly inside a class also as constructor and as
    class method (the kind of a def is decided by the nearest enclosing scope, whatever lies further out)"""
    import itertools
    out = []
    for n in (2, 3, 4):
        for seq in itertools.product(['def', 'class'], repeat=n):
            variants = ['plain']
            if seq[-1] == 'def' and seq[-2] == 'class':
                variants += ['init', 'classmethod']
            for variant in variants:
                lines = []
                for d, k in enumerate(seq):
                    ind = '\t' * d
                    in_class = d > 0 and seq[d - 1] == 'class'
                    last = d == n - 1
                    if k == 'class':
                        lines.append('%sclass K%d:' % (ind, d))
                    elif last and variant == 'init':
                        lines.append('%sdef __init__(self, a%d: int) -> None:' % (ind, d))
                    elif last and variant == 'classmethod':
                        lines += ['%s@classmethod' % ind, '%sdef f%d(cls, a%d: int) -> None:' % (ind, d, d)]
                    else:
                        lines.append('%sdef f%d(%sa%d: int) -> None:' % (ind, d, 'self, ' if in_class else '', d))
                lines.append('\t' * n + 'pass')
                out.append('\n'.join(lines) + '\n')
    return out


NESTING = nesting_sources()

EDGE = '''
class Edge(Base):
	if True:
		def under_if(self, a: int) -> int:
			def inner(self, b: int) -> int:
				return b
			def __init__(q: int) -> None:
				pass
			return a
		def no_receiver(a: int) -> int:
			return a
	@abstractmethod
	@classmethod
	def make(cls) -> 'Edge':
		return cls()
def __init__(self) -> None:
	pass
'''


def iter_functions(ep):
    out = []

    def walk(stmts):
        for s in stmts:
            c = type(s).__name__
            if c in ('Function', 'Method', 'ClassMethod', 'Constructor', 'Closure'):
                out.append(s)
                walk(s.statements)
            elif c in ('Class', 'Enum', 'For', 'While', 'With'):
                walk(s.statements)
            elif c == 'If':
                walk(s.statements)
                for e in s.else_ifs:
                    walk(e.statements)
                if type(s.else_clause).__name__ == 'Else':
                    walk(s.else_clause.statements)
            elif c == 'Try':
                walk(s.statements)
                for h in s.catches:
                    walk(h.statements)
    walk(ep.statements)
    return out


def lark_flat(t):
    """lark tree of an operator expression over names -> Coq literal of Model.Ladder.flat (or '?' when the tree has another shape)"""
    import lark
    if isinstance(t, lark.Token) or t is None:
        return '?'
    d = str(t.data)
    if d == 'var':
        name = t.children[0].children[0] if isinstance(t.children[0], lark.Tree) else t.children[0]
        if str(name) not in IDS:
            return '?'
        return '(FAtom str %d)' % IDS.index(str(name))
    if d == 'group_expr':
        return '(FGroup str %s)' % lark_flat(t.children[0])
    if d in ('not_test', 'factor'):
        op = t.children[0]
        return '(FUn str %s %s)' % (coq_str(str(op)), lark_flat(t.children[1]))
    kids = t.children
    if len(kids) >= 3 and len(kids) % 2 == 1:
        rest = []
        for i in range(1, len(kids), 2):
            o = kids[i]
            if isinstance(o, lark.Tree):
                o = ' '.join(str(x) for x in o.children)
            rest.append('(%s, %s)' % (coq_str(str(o)), lark_flat(kids[i + 1])))
        return '(FChain str (nl %s) %s [%s])' % (coq_str(d), lark_flat(kids[0]), '; '.join(rest))
    return '?'


def replay(ctx: Ctx, data: dict) -> int:
    shim()
    import tsession
    import nodecanon
    src = data['input']['source']
    ep = tsession.Session({'m': src}).entrypoint('m')
    want = nodecanon.canon_python(src)
    try:
        got = nodecanon.canon_nodes(ep)
    except Exception as e:
        got = 'RAISES ' + repr(e)
    bad = got != want or nodecanon.node_kinds(ep) != nodecanon.py_kinds(src) or nodecanon.node_names(ep) != nodecanon.py_names(src)
    print(src)
    print('first difference:', nodecanon.first_diff(got, want) if not isinstance(got, str) else got)
    print('kinds (tranp):', nodecanon.node_kinds(ep))
    print('kinds (python):', nodecanon.py_kinds(src))
    print('REPRODUCED' if bad else 'not reproduced')
    return 1 if bad else 0
