"""C10 - tree addressing is a bijection and node resolution is order-independent.
Theorems: Properties/C10.v. Correspondence: full_pathfy / pluck / EntryCache ids / children / siblings of
the model vs ASTFinder / EntryCache / Nodes on random dict trees (repeated, unique, empty tags) and on
lark trees of generated programs. Oracle: the laws checked directly on real parse trees, and the
resolved class per path under permuted query orders."""
from lib import *

IMPORTS = 'From Tranp Require Import Model.Finder.'
TAGS = ['a', 'b', 'c', 'name', 'block', 'x', 'y']


def gen_tree(rnd, depth):
    """raw dict tree for EntryOfDict: {'name', 'children'} | {'name', 'value'} | None"""
    r = rnd.random()
    if depth <= 0 or r < .3:
        if rnd.random() < .2:
            return None
        return {'name': rnd.choice(TAGS), 'value': rnd.choice(['v', 'w', ''])}
    n = rnd.choice([0, 1, 2, 2, 3, 4, 5])
    # bias towards repeated tags among siblings
    pool = rnd.sample(TAGS, rnd.randint(1, 3))
    return {'name': rnd.choice(TAGS), 'children': [with_name(gen_tree(rnd, depth - 1), rnd.choice(pool)) for _ in range(n)]}


def with_name(t, name):
    if t is not None:
        t['name'] = name
    return t


def raw_of_lark(t):
    import lark
    if isinstance(t, lark.Tree):
        return {'name': str(t.data), 'children': [raw_of_lark(c) for c in t.children]}
    if isinstance(t, lark.Token):
        return {'name': str(t.type), 'value': str(t.value)}
    return None


def coq_entry(t):
    if t is None:
        return '(L %s)' % coq_str('__empty__')
    if 'children' in t:
        return '(T %s [%s])' % (coq_str(t['name']), '; '.join(coq_entry(c) for c in t['children']))
    return '(L %s)' % coq_str(t['name'])


def preorder(t, pos=()):
    yield pos, t
    if t is not None and 'children' in t:
        for i, c in enumerate(t['children']):
            yield from preorder(c, pos + (i,))


def preorder_lark(t):
    import lark
    yield t
    if isinstance(t, lark.Tree):
        for c in t.children:
            yield from preorder_lark(c)


def at(t, pos):
    for i in pos:
        t = t['children'][i]
    return t


class StubResolver:
    """stands for NodeResolver inside Nodes: resolve returns the path itself"""

    def __init__(self, tags):
        self.tags = tags

    def can_resolve(self, symbol):
        return symbol in self.tags

    def resolve(self, symbol, full_path):
        return full_path


def pos_str(pos):
    return coq_list(coq_nat(i) for i in pos)


def run(ctx: Ctx) -> None:
    shim()
    import tsession
    import progen
    from rogw.tranp.syntax.ast.entry import EntryOfDict
    from rogw.tranp.syntax.ast.finder import ASTFinder
    from rogw.tranp.syntax.node.query import Nodes
    from rogw.tranp.errors import Errors
    ctx.rule = ('random dict trees (depth<=4, 0-5 children, sibling tags drawn from 1-3 names so that repeated / unique / empty tags all occur) '
                'and lark trees of generated programs / real modules; non-trivial = tree with a repeated sibling tag; distinct = distinct tree')
    ctx.prove(['g_grammar'])
    rnd = ctx.rnd
    finder = ASTFinder()
    scale = 5 if ctx.broken else 1

    trees = []
    for i in range(ctx.n(300, 6000) * scale):
        t = gen_tree(rnd, rnd.randint(1, 4))
        if t is None or 'children' not in t:
            t = {'name': 'root', 'children': [t]}
        trees.append(('random', t, None))
    srcs = {'gen_%d' % i: progen.gen_program(rnd, rnd.randint(1, 2)).src for i in range(ctx.n(25, 600) * scale)}
    import shapes
    srcs.update(shapes.ALL)
    srcs.update(shapes.TREES_ONLY)     # trees with entries that no node class accepts
    sess = tsession.Session(srcs)
    lark_roots = {}
    for name in list(srcs) + (['example.FW.string'] if not ctx.thorough else ['example.FW.string', 'example.json', 'rogw.tranp.compatible.libralies.classes']):
        ep = sess.entrypoint(name)
        nodes = ep._Node__nodes
        root_entry = nodes._Nodes__entries.by('file_input')
        raw = raw_of_lark(root_entry.source)
        lark_roots[name] = (ep, nodes, root_entry)
        trees.append(('lark:' + name, raw, root_entry))

    all_cases, all_raw = [], []
    nq = 0
    for kind, raw, real_entry in trees:
        root = real_entry if real_entry is not None else EntryOfDict(raw)
        listing = list(preorder(raw))
        srcs_pre = [n for _, n in listing] if real_entry is None else list(preorder_lark(real_entry.source))
        repeated = any(t is not None and 'children' in t and len({(c or {'name': '__empty__'})['name'] for c in t['children']}) < len(t['children']) for _, t in listing)
        ctx.case(coq_entry(raw), repeated)
        ctx.count('tree:' + kind.split(':')[0] + (':repeated-tags' if repeated else ':unique-tags'))
        small = len(listing) <= (700 if ctx.thorough else 350)
        pl_cases, ch_cases = [], []
        # ---- full_pathfy: paths in dict order
        fp = finder.full_pathfy(root)
        paths = list(fp.keys())
        # ---- property oracle: bijection with the underlying tree
        ok = len(paths) == len(listing)
        if ok:
            for (path, ent), node in zip(fp.items(), srcs_pre):
                if ent.source is not node and not (ent.source is None and node is None):
                    ok = False
                    break
                try:
                    got = finder.pluck(root, path)
                except Errors.NodeNotFound:
                    got = None
                if got is None or (got.source is not node and not (got.source is None and node is None)):
                    ok = False
                    break
        if not ok:
            ctx.violation('bijection', 'full_pathfy/pluck is not a bijection between entries and paths in document order',
                          dict(input=dict(kind=kind, tree=raw if real_entry is None else None, source=srcs.get(kind[5:])), impl_result=paths[:50]))
        if len(ctx.samples) < 3:
            ctx.sample(dict(kind=kind, paths=paths[:12], entries=len(listing)))
        # ---- pluck on arbitrary paths (mostly generated ones, some perturbed)
        if small:
            queries = rnd.sample(paths, min(len(paths), 6))
            for q in list(queries):
                el = q.split('.')
                k = rnd.randrange(len(el))
                mut = rnd.choice(['idx', 'tag', 'drop', 'append', 'noidx'])
                if mut == 'idx':
                    el[k] = el[k].split('[')[0] + '[%d]' % rnd.randint(0, 5)
                elif mut == 'tag':
                    el[k] = rnd.choice(TAGS)
                elif mut == 'drop' and len(el) > 1:
                    del el[k]
                elif mut == 'append':
                    el.append(rnd.choice(TAGS))
                else:
                    el[k] = el[k].split('[')[0]
                queries.append('.'.join(el))
            idmap = {id(node): pos for (pos, _), node in zip(listing, srcs_pre) if node is not None}
            for q in queries:
                try:
                    e = finder.pluck(root, q)
                    if e.source is None:
                        exp = '(Some None)'
                    else:
                        exp = '(Some (Some %s))' % pos_str(idmap[id(e.source)])
                except Errors.NodeNotFound:
                    exp = 'None'
                pl_cases.append(coq_pair(coq_str(q), exp))
        # ---- ids, children, siblings through the real Nodes with a stub resolver
        nodes = Nodes(StubResolver(set(TAGS)), root) if real_entry is None else lark_roots[kind[5:]][1]
        ids = [nodes.id(p) for p in paths]
        if ids != list(range(len(paths))):
            ctx.violation('ids-order', 'ids do not follow document order', dict(input=dict(kind=kind, tree=raw if real_entry is None else None, source=srcs.get(kind[5:])), impl_result=ids[:50]))
        by_pos = {pos: p for p, (pos, _) in zip(paths, listing)} if len(paths) == len(listing) else {}
        sample_paths = paths if len(paths) <= 40 else rnd.sample(paths, 40)
        for p in sample_paths:
            pos = next((ps for ps, pp in by_pos.items() if pp == p), None)
            if pos is None:
                continue
            node = at(raw, pos)
            want_children = [by_pos[pos + (i,)] for i in range(len(node['children']))] if node is not None and 'children' in node else []
            if real_entry is None:
                got_children = nodes.children(p)
                got_siblings = nodes.siblings(p) if pos else None
            else:
                # real Nodes resolve entries to Node objects: use their full_path
                try:
                    got_children = [c.full_path for c in nodes.children(p)]
                    got_siblings = [c.full_path for c in nodes.siblings(p)] if pos else None
                except Errors.UnresolvedNode:
                    if kind[5:] in shapes.TREES_ONLY:
                        continue      # an entry that no node class accepts is among them: these queries have no answer
                    raise
            if got_children != want_children:
                ctx.violation('children', 'children query disagrees with the underlying tree', dict(input=dict(kind=kind, tree=raw if real_entry is None else None, source=srcs.get(kind[5:]), path=p), oracle_result=want_children, impl_result=got_children))
            if pos:
                up = at(raw, pos[:-1])
                want_sib = [by_pos[pos[:-1] + (i,)] for i in range(len(up['children']))]
                if got_siblings != want_sib:
                    ctx.violation('siblings', 'siblings query disagrees with the children of the parent', dict(input=dict(kind=kind, tree=raw if real_entry is None else None, source=srcs.get(kind[5:]), path=p), oracle_result=want_sib, impl_result=got_siblings))
            if len(listing) <= 120 and real_entry is None:
                ch_cases.append(coq_pair(coq_str(p), coq_list(map(coq_str, got_children)), coq_opt(coq_list(map(coq_str, got_siblings)) if got_siblings is not None else None)))
        if small:
            if len(ch_cases) > 12:
                ch_cases = rnd.sample(ch_cases, 12)
            all_cases.append(coq_pair(coq_entry(raw), coq_list(map(coq_str, paths)), coq_list(pl_cases), coq_list(ch_cases)))
            all_raw.append(dict(kind=kind, tree=repr(raw)[:800]))
            nq += len(pl_cases) + len(ch_cases) + 1

    prelude = ('Definition leq (a b : list str) : bool := if list_eq_dec (list_eq_dec Ascii.ascii_dec) a b then true else false.\n'
               'Definition poseq (a b : list nat) : bool := if list_eq_dec Nat.eq_dec a b then true else false.\n'
               'Definition is_empty_at (t : entry) (pos : list nat) : bool := match at_pos t pos with Some (L n) => str_eqb n (s "__empty__") | _ => false end.\n'
               'Definition pl (t : entry) (q : str) : option (list nat) := match parse q with Some p => pluck t p | None => None end.\n'
               'Definition rpaths (x : option (list (path * list nat))) : option (list str) := option_map (map (fun y => render (fst y))) x.\n'
               'Definition oleq (a b : option (list str)) : bool := match a, b with Some x, Some y => leq x y | None, None => true | _, _ => false end.\n')
    test = ('fun c => match c with (t, paths, pls, chs) => '
            'leq (map (fun x => render (fst x)) (full_pathfy t)) paths '
            '&& forallb (fun x => match x with (q, e) => match pl t q, e with Some p, Some (Some p2) => poseq p p2 | Some p, Some None => is_empty_at t p | None, None => true | _, _ => false end end) pls '
            '&& (match chs with [] => true | _ => let bc := build t in forallb (fun x => match x with (q, ch, sb) => match parse q with Some p => oleq (rpaths (children_of bc p)) (Some ch) && match sb with Some y => oleq (rpaths (siblings_of bc p)) (Some y) | None => true end | None => false end end) chs end) end')
    order = list(range(len(all_cases)))
    rnd.shuffle(order)
    all_cases = [all_cases[i] for i in order]
    all_raw = [all_raw[i] for i in order]
    ctx.correspond('finder_cache_queries', IMPORTS, 'entry * list str * list (str * option (option (list nat))) * list (str * list str * option (list str))',
                   test, all_cases, all_raw, prelude, shard=10)
    ctx.extra['correspondence_queries'] = nq

    # ---- ancestor queries: the answer is a function of (path, tag), whatever was asked before ------
    import re as _re
    acases, araw = [], []
    for name in list(srcs)[:ctx.n(12, 200)]:
        ep, nodes, root_entry = lark_roots[name]
        paths = [n.full_path for n in ep.procedural() if '__empty__' not in n.full_path]      # (placeholders of absent optional parts are not nodes)
        for via in rnd.sample(paths, min(len(paths), ctx.n(12, 80))):
            elems = via.split('.')
            tags = [_re.sub(r'\[\d+\]$', '', e) for e in elems]
            asked = list(dict.fromkeys(tags))
            rnd.shuffle(asked)
            for tag in asked[:4]:
                k = max(i for i, t in enumerate(tags) if t == tag)       # the nearest one, the node itself included
                want = '.'.join(elems[:k + 1])
                ctx.evaluations += 1
                try:
                    got = nodes.ancestor(via, tag).full_path
                except Exception as e:
                    got = 'ERR ' + type(e).__name__
                if len(acases) < ctx.n(300, 6000):
                    acases.append(coq_pair(coq_str(via), coq_str(tag), coq_opt(None if got.startswith('ERR') else coq_str(got))))
                    araw.append(dict(via=via, tag=tag, result=got))
                if got != want:
                    ctx.violation('ancestor', 'Nodes.ancestor(path, tag) is not the nearest entry with that tag on the path (it depends on earlier queries or picks another entry)',
                                  dict(input=dict(kind='ancestor', source=srcs.get(name), via=via, tag=tag, asked_before=asked[:asked.index(tag)]), oracle_result=want, impl_result=got))
                    break

    ctx.correspond('ancestor_queries', IMPORTS, 'str * str * option str',
                   'fun c => match c with (q, tag, w) => match parse q with Some p => match ancestor p tag, w with Some a, Some x => str_eqb (render a) x | None, None => true | _, _ => false end | None => false end end',
                   acases, araw, shard=300)

    # ---- resolution order independence on real node resolvers ------------------------------------
    perms = ctx.n(3, 20)
    names = list(srcs)[:ctx.n(8, 60)] + list(shapes.TREES_ONLY) + ['shape_literals', 'example.FW.string']
    for name in names:
        ep, nodes, root_entry = lark_roots[name]
        paths = list(ASTFinder().full_pathfy(root_entry).keys())
        base = None
        for k in range(perms + 1):
            s2 = tsession.Session(srcs)
            ep2 = s2.entrypoint(name)
            n2 = ep2._Node__nodes
            order = list(paths)
            if k > 0:
                rnd.shuffle(order)
            seen = {}
            for p in order:
                try:
                    seen[p] = type(n2.by(p)).__name__
                except Exception as e:
                    seen[p] = 'ERR:' + type(e).__name__
            ctx.evaluations += 1
            # asked again in the same session, every path answers the same way (an instance, or the same failure)
            again = {}
            for p in order:
                try:
                    again[p] = type(n2.by(p)).__name__
                except Exception as e:
                    again[p] = 'ERR:' + type(e).__name__
            if again != seen:
                diff = [(p, seen[p], again[p]) for p in paths if again[p] != seen[p]][:5]
                ctx.violation('resolve-order', 'the node class resolved for a path changes when the path is asked a second time',
                              dict(input=dict(kind='lark:' + name, source=srcs.get(name), order=order[:200]), oracle_result=[d[:2] for d in diff], impl_result=diff))
                break
            if base is None:
                base = seen
            elif seen != base:
                diff = [(p, base[p], seen[p]) for p in paths if base[p] != seen[p]][:5]
                ctx.violation('resolve-order', 'the node class resolved for a path depends on the order of earlier queries',
                              dict(input=dict(kind='lark:' + name, source=srcs.get(name), order=order[:200]), oracle_result=[d[:2] for d in diff], impl_result=diff))
                break
    ctx.extra['query_order_permutations'] = perms

    # ---- queries that fail answer the same way every time they are asked ------------------------------
    for name in list(shapes.TREES_ONLY) + ['shape_literals', 'shape_flow']:
        s3 = tsession.Session(srcs)
        n3 = s3.entrypoint(name)._Node__nodes
        paths = list(ASTFinder().full_pathfy(lark_roots[name][2]).keys())
        deep = max(paths, key=lambda q: q.count('.'))
        asks = [('parent', ('file_input',)), ('ancestor', (deep, 'no_such_tag')), ('children', ('file_input.no_such_entry',)), ('by', ('file_input.no_such_entry',)),
                ('siblings', ('file_input',)), ('ancestor', (deep, 'file_input'))] + [('children', (p_,)) for p_ in paths if p_.endswith('.assign') or p_.endswith('.assign[0]')][:3]
        for what, args in asks:
            answers = []
            for _ in range(3):
                try:
                    r_ = getattr(n3, what)(*args)
                    answers.append('None' if r_ is None else (type(r_).__name__ if not isinstance(r_, list) else 'list:%d' % len(r_)))
                except Exception as e:
                    answers.append('ERR:' + type(e).__name__)
            ctx.evaluations += 1
            ctx.count('repeated-failing-query')
            if len(set(answers)) != 1:
                ctx.violation('resolve-order', 'the same query asked three times on one tree gives different answers',
                              dict(input=dict(kind='lark:' + name, source=srcs.get(name), query=[what, list(args)]), oracle_result=answers[0], impl_result=answers))
                break


def replay(ctx: Ctx, data: dict) -> int:
    print(json.dumps(data.get('input'), indent=1)[:3000])
    print('expected:', data.get('oracle_result'), '\nobserved when found:', data.get('impl_result'))
    return 1
