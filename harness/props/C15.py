"""C15 - the stored form of a syntax tree restores an identical tree.
Theorems: Properties/C15.v (view roundtrip for every tree). Correspondence: model dumps / loads / view vs
Serialization + EntryOfLark on lark trees of generated programs and on random lark trees (empty slots,
tokens without positions, trees with empty meta). Oracle: fresh parse vs restored tree field by field,
through json text and through the real cache file, and node classes / tokens / spans of the two."""
from lib import *
import json as _json

IMPORTS = 'From Tranp Require Import Model.LarkEntry.'


def rand_lark(rnd, depth):
    import lark
    r = rnd.random()
    if r < .12:
        return None
    if depth <= 0 or r < .45:
        tok = lark.Token(rnd.choice(['NAME', 'DEC_NUMBER', 'STRING', 'PLUS', '__ANON_1']), rnd.choice(['a', 'foo', '12', '"s"', '+', '']))
        mode = rnd.random()
        if mode < .6:
            tok.line, tok.column, tok.end_line, tok.end_column = rnd.randint(1, 9), rnd.randint(1, 30), rnd.randint(1, 9), rnd.randint(1, 30)
        elif mode < .75:
            tok.line, tok.column, tok.end_line, tok.end_column = rnd.randint(0, 3), rnd.randint(0, 3), rnd.randint(0, 3), rnd.randint(0, 3)
        elif mode < .85:
            tok.line = rnd.randint(1, 9)   # partial positions
        return tok
    kids = [rand_lark(rnd, depth - 1) for _ in range(rnd.randint(0, 4))]
    meta = lark.tree.Meta()
    if rnd.random() < .75:
        meta.line, meta.column, meta.end_line, meta.end_column = rnd.randint(1, 9), rnd.randint(1, 30), rnd.randint(1, 9), rnd.randint(1, 30)
        if rnd.random() < .1:
            meta.end_line = meta.end_column = None      # a tree whose end position is unknown
        meta.empty = False
    return lark.Tree(rnd.choice(['funcdef', 'block', 'sum', 'name', 'assign']), kids, meta)


def zopt(x):
    return 'None' if x is None else '(Some %s)' % coq_Z(int(x))


def zenc(x):
    """a missing number of a tree's own position (lark leaves the end open when the text stops inside a block) is
    carried through unchanged by the code; it is encoded as -1, a value no real position has"""
    return -1 if x is None else int(x)


def coq_lark(t):
    import lark
    if t is None:
        return 'LNone'
    if isinstance(t, lark.Tree):
        m = t.meta
        meta = 'None' if (m is None or m.empty) else '(Some (%s, %s, %s, %s))' % tuple(coq_Z(zenc(x)) for x in (m.line, m.column, m.end_line, m.end_column))
        return '(LTree %s [%s] %s)' % (coq_str(str(t.data)), '; '.join(coq_lark(c) for c in t.children), meta)
    return '(LToken %s %s %s %s %s %s)' % (coq_str(str(t.type)), coq_str(str(t.value)), zopt(t.line), zopt(t.column), zopt(t.end_line), zopt(t.end_column))


def coq_dump(d):
    if d is None:
        return 'DNone'
    sm = '(%s, %s, %s, %s)' % tuple(coq_Z(zenc(x)) for x in d['source_map'])
    if 'children' in d:
        return '(DTree %s [%s] %s)' % (coq_str(d['name']), '; '.join(coq_dump(c) for c in d['children']), sm)
    return '(DToken %s %s %s)' % (coq_str(d['name']), coq_str(d['value']), sm)


def view(e):
    """the EntryOfLark view, recursively, as plain data"""
    sm = e.source_map
    smt = (sm['begin'][0], sm['begin'][1], sm['end'][0], sm['end'][1])
    if e.has_child:
        return ('T', e.name, [view(c) for c in e.children], smt, e.is_terminal, e.is_empty)
    if e.is_empty:
        return ('E', e.name, e.value, smt)
    return ('K', e.name, e.value, smt, e.is_terminal)


def coq_view(v):
    sm = '(%s, %s, %s, %s)' % tuple(coq_Z(zenc(x)) for x in v[3])
    if v[0] == 'T':
        return '(VTree %s [%s] %s)' % (coq_str(v[1]), '; '.join(coq_view(c) for c in v[2]), sm)
    if v[0] == 'E':
        return 'VEmpty'
    return '(VToken %s %s %s)' % (coq_str(v[1]), coq_str(v[2]), sm)


def ascii_ok(t):
    import lark
    if t is None:
        return True
    if isinstance(t, lark.Tree):
        return all(ascii_ok(c) for c in t.children)
    return all(ord(c) < 128 for c in str(t.value))


def size(t):
    import lark
    return 1 + (sum(size(c) for c in t.children) if isinstance(t, lark.Tree) else 0)


def first_diff(a, b, path='root'):
    if type(a) != type(b) or (isinstance(a, tuple) and (a[0] != b[0] or a[1] != b[1])):
        return path, 'kind/name'
    if a[0] == 'T':
        if a[3] != b[3]:
            return path, 'source_map'
        if len(a[2]) != len(b[2]):
            return path, 'children'
        for i, (x, y) in enumerate(zip(a[2], b[2])):
            d = first_diff(x, y, '%s.%s[%d]' % (path, x[1], i))
            if d:
                return d
        return None
    if a[2] != b[2]:
        return path, 'value'
    if a[3] != b[3]:
        return path, 'source_map'
    return None


def run(ctx: Ctx) -> None:
    shim()
    import lark
    import io
    import tsession
    import progen
    from rogw.tranp.implements.syntax.lark.entry import EntryOfLark, Serialization
    from rogw.tranp.implements.syntax.lark.parser import EntryStored
    ctx.rule = ('lark trees of generated programs / real modules and random lark trees (12% empty slots, tokens with full / zero / partial / no positions, 25% trees with empty meta); '
                'non-trivial = tree containing an empty slot or a token without full positions; distinct = distinct tree')
    ctx.prove([])
    rnd = ctx.rnd
    scale = 5 if ctx.broken else 1
    trees = []
    for i in range(ctx.n(400, 8000) * scale):
        t = rand_lark(rnd, rnd.randint(1, 4))
        if not isinstance(t, lark.Tree):
            t = lark.Tree('file_input', [t], lark.tree.Meta())
        trees.append(('random', t, None))
    srcs = {'gen_%d' % i: progen.gen_program(rnd, rnd.randint(1, 3)).src for i in range(ctx.n(40, 800) * scale)}
    import shapes
    srcs.update(shapes.ALL)
    sess = tsession.Session(srcs)
    mods = list(srcs) + ['example.FW.string', 'example.json'] + (['rogw.tranp.compatible.libralies.classes', 'tests.unit.rogw.tranp.implements.cpp.transpiler.fixtures.fixture_py2cpp'] if ctx.thorough else [])
    for name in mods:
        ep = sess.entrypoint(name)
        root_entry = ep._Node__nodes._Nodes__entries.by('file_input')
        trees.append(('lark:' + name, root_entry.source, ep))

    cases, raw = [], []
    for kind, t, ep in trees:
        special = any(x is None or (isinstance(x, lark.Token) and not (x.line and x.column and x.end_line and x.end_column)) for x in iter_lark(t))
        ctx.case(coq_lark(t) if size(t) < 2000 else (kind, size(t)), special)
        ctx.count(kind.split(':')[0] + (':with-empty-or-unpositioned' if special else ':fully-positioned'))
        d = Serialization.dumps(t)
        text = _json.dumps(d, separators=(',', ':'))
        restored = Serialization.loads(_json.loads(text))
        v0, v1 = view(EntryOfLark(t)), view(EntryOfLark(restored))
        # through the real cache store object
        buf = io.BytesIO()
        EntryStored(EntryOfLark(t)).save(buf)
        buf.seek(0)
        v2 = view(EntryStored.load(buf).entry)
        for which, vv in (('json text', v1), ('cache file', v2)):
            if vv != v0:
                where = first_diff(v0, vv)
                ctx.violation('view-differs:%s' % (where[1] if where else '?'), 'restored tree differs from the fresh tree (%s) via %s' % (where, which),
                              dict(input=dict(kind=kind, source=srcs.get(kind[5:]), tree=coq_lark(t) if kind == 'random' else None), oracle_result=repr(where), impl_result=which))
        if len(ctx.samples) < 3:
            ctx.sample(dict(kind=kind, entries=size(t), stored_form=text[:300]))
        if size(t) <= (1500 if ctx.thorough else 500) and ascii_ok(t):
            cases.append(coq_pair(coq_lark(t), coq_dump(d), coq_lark(restored), coq_view(v1)))
            raw.append(dict(kind=kind, tree=coq_lark(t)[:600]))
    order = list(range(len(cases)))
    rnd.shuffle(order)
    prelude = ('Fixpoint lark_eqb (a b : lark) : bool := match a, b with\n'
               ' | LTree d ks m, LTree d2 ks2 m2 => str_eqb d d2 && (match m, m2 with Some x, Some y => smap_eqb x y | None, None => true | _, _ => false end) && (fix go (x y : list lark) : bool := match x, y with [], [] => true | u :: x2, v :: y2 => lark_eqb u v && go x2 y2 | _, _ => false end) ks ks2\n'
               ' | LToken t v l c el ec, LToken t2 v2 l2 c2 el2 ec2 => str_eqb t t2 && str_eqb v v2 && (let oe := fun (p q : option Z) => match p, q with Some x, Some y => Z.eqb x y | None, None => true | _, _ => false end in oe l l2 && oe c c2 && oe el el2 && oe ec ec2)\n'
               ' | LNone, LNone => true | _, _ => false end.\n')
    ctx.correspond('dumps_loads_view', IMPORTS, 'lark * dump * lark * view',
                   'fun c => match c with (t, d, r, v) => dump_eqb (dumps t) d && lark_eqb (loads d) r && view_eqb (view_of r) v && view_eqb (view_of t) v end',
                   [cases[i] for i in order], [raw[i] for i in order], prelude, shard=30)

    # ---- nodes(T) vs nodes(restored T): on-disk modules, cold parse then warm load from the AST cache ----
    nmods = ctx.n(6, 60)
    os.makedirs('c15mods', exist_ok=True)
    open('c15mods/__init__.py', 'w').close()
    names = []
    for i in range(nmods):
        with open('c15mods/m%d.py' % i, 'w') as f:
            f.write(progen.gen_program(rnd, rnd.randint(1, 3)).src)
        names.append('c15mods.m%d' % i)

    def snapshot(name):
        s = tsession.Session({})
        ep = s.entrypoint(name)
        out = []
        for n in [*ep.procedural(), ep]:
            sm = n.source_map
            out.append((n.full_path, type(n).__name__, n.tokens, sm['begin'], sm['end']))
        return sorted(out)
    for name in names:
        cold = snapshot(name)
        cached = [f for f in os.listdir('.cache/tranp/c15mods') if f.startswith(name.split('.')[1] + '-')] if os.path.isdir('.cache/tranp/c15mods') else []
        warm = snapshot(name)
        ctx.evaluations += 1
        if not cached:
            ctx.broken.append(dict(kind='correspondence', theorem='C15 oracle: no AST cache file was written for an on-disk module', detail=name))
        if cold != warm:
            diff = [(a, b) for a, b in zip(cold, warm) if a != b][:3]
            ctx.violation('nodes-differ', 'nodes of the tree restored from the cache differ from the nodes of the fresh parse',
                          dict(input=dict(kind='ondisk', source=open(name.replace('.', '/') + '.py').read()), oracle_result=repr(diff[:1]), impl_result=repr(diff)))
    ctx.extra['ondisk_cold_vs_warm_modules'] = nmods


def iter_lark(t):
    import lark
    yield t
    if isinstance(t, lark.Tree):
        for c in t.children:
            yield from iter_lark(c)


def replay(ctx: Ctx, data: dict) -> int:
    print(_json.dumps(data.get('input'), indent=1)[:3000])
    print('difference:', data.get('oracle_result'), data.get('impl_result'))
    return 1
