#!/bin/sh
# usage: goal.sh file.v LINE  -> prints the goal just before LINE
f=$1; n=$2
head -n $((n-1)) "$f" > /var/tmp/_goal_tmp.v
echo "Show." >> /var/tmp/_goal_tmp.v
timeout 300 coqc -Q /verif/coq/theories Tranp -Q /verif/coq/gen TranpGen /var/tmp/_goal_tmp.v 2>&1 | grep -v "^Error: There are pending proofs" | tail -n ${3:-40}
rm -f /var/tmp/_goal_tmp.*  /var/tmp/._goal_tmp.aux
