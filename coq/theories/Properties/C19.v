(* C19 - the dependency container follows its simple reference model. *)
From Coq Require Import List Arith Bool.
Import ListNotations.
From Tranp Require Import Model.DI Proofs.DIProofs.

(* For every operation sequence (bind, unbind, rebind, resolve, can_resolve, invoke, clone, combine, lazy
   by-name instantiation) over a pool of containers, the container of di.py (by-name definitions,
   injectors, instances) gives, observation by observation, what the reference model (one map
   symbol -> (factory, bound?, instance) per container; combine = right-biased union; invoke validates
   its arguments on every call) gives. *)
Theorem C19_refines : forall ops, run cont conc ([], 0) ops = run smap spec ([], 0) ops.
Proof. exact refines. Qed.

Theorem C19_one_instance_per_generation : forall c m n s v c' n' k k', R c m ->
  resolve cont conc (S k) (c, n) s = (Ok v, (c', n')) ->
  resolve cont conc (S k') (c', n') s = (Ok v, (c', n')).
Proof. exact resolve_idempotent. Qed.

Theorem C19_rebind_discards : forall c m s f c', R c m -> c_rebind c s f = Some c' -> inj c' s = Some f /\ ins c' s = None.
Proof. exact rebind_discards. Qed.

Theorem C19_combine_right_wins : forall a ma b mb s, R a ma -> R b mb ->
  absf (c_combine a b) s = match absf b s with Some e => Some e | None => absf a s end.
Proof. exact combine_right_wins. Qed.

Theorem C19_unknown_symbol_is_value_error : forall c n s k, defs c s = None -> inj c s = None ->
  resolve cont conc (S k) (c, n) s = (VErr, (c, n)).
Proof. exact resolve_unknown. Qed.

Theorem C19_invoke_fills_leading_block : forall C (I : impl C) rs ps s0 acc cur rest s1,
  curry C I rs ps s0 acc = (Ok (cur, rest), s1) ->
  exists pre, ps = pre ++ rest /\ length cur = length acc + length pre /\ Forall (fun p => exists s, p = PSym s) pre.
Proof. exact curry_prefix. Qed.

(* non-vacuity: a run with lazy definitions, dependencies, a mismatched invoke after a good one,
   rebind and combine with an unresolved right operand *)
Definition fA := {| fname := 0; fret := 0; fparams := [] |}.
Definition fA2 := {| fname := 1; fret := 0; fparams := [] |}.
Definition fB := {| fname := 2; fret := 1; fparams := [PSym 0] |}.
Definition fac3 := {| fname := 3; fret := 2; fparams := [PSym 0; PSym 1; PInt] |}.
Definition ex_ops : list op :=
  [ONew [(0, fA)]; OResolve 0 0; OBind 0 1 fB; OResolve 0 1; OInvoke 0 fac3 [VInt]; OInvoke 0 fac3 [VStr];
   ONew [(0, fA2)]; OCombine 0 1; OResolve 2 0; OResolve 0 0; ORebind 0 0 fA2; OResolve 0 0; OUnbind 0 1; OResolve 0 1; OCan 0 1].
Example ex_run : run cont conc ([], 0) ex_ops =
  [BUnit; BVal (VObj 0 0); BUnit; BVal (VObj 1 1); BInv (VObj 2 2) [VObj 0 0; VObj 1 1; VInt]; BErr;
   BUnit; BUnit; BVal (VObj 3 0); BVal (VObj 0 0); BUnit; BVal (VObj 4 0); BUnit; BErr; BBool false].
Proof. vm_compute. reflexivity. Qed.

Print Assumptions C19_refines.
Print Assumptions C19_one_instance_per_generation.
Print Assumptions C19_rebind_discards.
Print Assumptions C19_combine_right_wins.
Print Assumptions C19_unknown_symbol_is_value_error.
Print Assumptions C19_invoke_fills_leading_block.
