(* C11 - the self-hosted parser: soundness facts of the engine for every rule set, and the tie of the
   shipped Python rule set to its grammar file. *)
From Tranp Require Import Model.Peg Model.Lexer Proofs.PegProofs Properties.C12.
From TranpGen Require Import GenRules.
Local Open Scope nat_scope.

(* for every rule set, token list, cursor and fuel: a successful match never consumes more tokens than
   remain in front of the cursor (the five mutually recursive matchers together) *)
Theorem C11_engine_bounded : forall rs regex_of kws fuel, bounded rs regex_of kws fuel.
Proof. exact engine_bounded. Qed.

(* a parse is accepted only when the entry symbol consumed exactly the whole token list *)
Theorem C11_accepted_consumes_all : forall rs regex_of kws toks entry t,
  parse_tokens rs regex_of kws toks entry = POk t ->
  exists n, m_symbol rs regex_of kws (200 * (length toks + 2)) toks 0 entry = MOk (n, t) /\ n = length toks.
Proof. exact accepted_consumes_all. Qed.

(* the Python rule set the engine ships with is the compiled py_gram.lark (closed, regenerated data) *)
Theorem C11_py_rules_from_grammar : ttree_eqb (compile_tree (tree_of (gram_parse py_lark_text))) py_rules_ast = true.
Proof. exact C12_compiled_py. Qed.

Definition py_rules : rules := match from_ast py_rules_ast with Some r => r | None => [] end.
Definition py_tokens (src : str) : lexres := tokenize py_tokdef src.
(* SyntaxParser(py_rules()).parse(text, 'entry') *)
Definition py_parse (src : str) : pres :=
  match py_tokens src with
  | LOk ts => parse_tokens py_rules regex_of (keywords py_rules) (map ttext ts) (s "entry")
  | _ => PSyntax
  end.

(* non-vacuity: a small program is accepted with the expected grouping *)
Example ex_parse : py_parse (s "x = a + b * 2
") = POk (TTree (s "entry") [TTree (s "move") [TTok (s "name") (s "x");
        TTree (s "calc_sum") [TTree (s "var") [TTok (s "name") (s "a")]; TTok (s "op_add") (s "+");
          TTree (s "calc_mul") [TTree (s "var") [TTok (s "name") (s "b")]; TTok (s "op_mul") (s "*"); TTok (s "digit") (s "2")]]]]).
Proof. vm_compute. reflexivity. Qed.

Print Assumptions C11_engine_bounded.
Print Assumptions C11_accepted_consumes_all.
Print Assumptions C11_py_rules_from_grammar.
