(* C04 - output is deterministic and independent of session history (bookkeeping part). *)
From Coq Require Import List Arith Bool.
Import ListNotations.
From Tranp Require Import Model.Session Proofs.SessionProofs.

(* For every history of load / unload / transpile operations over any module graph (import closures that
   contain the module and are closed under imports), started from any closed session: no transpile fails
   for lack of a dependency, and every transpile yields the text of a fresh process. The parser, the symbol
   extraction and the renderer are pure Section functions here; their purity is what the oracle tests. *)
Theorem C04_history_independent :
  forall (closure : nat -> list nat) (text : nat -> nat),
  (forall m, In m (closure m)) ->
  (forall m d, In d (closure m) -> forall e, In e (closure d) -> In e (closure m)) ->
  forall h loaded, closed closure loaded ->
  Forall (fun b => match b with OUnresolved => False | _ => True end) (run closure text (unload closure) loaded h) /\
  forall pre m post, h = pre ++ Transpile m :: post ->
    nth (length pre) (run closure text (unload closure) loaded h) OUnit = OText (text m).
Proof. exact history_independent. Qed.

(* the behaviour before the fix: commit violated it (kept as a regression witness), the repaired one does not *)
Theorem C04_old_unload_refuted :
  run demo_closure (fun m => m) unload_old [] [Load 1; Unload 0; Transpile 1] = [OUnit; OUnit; OUnresolved].
Proof. exact old_unload_refuted. Qed.
Theorem C04_new_unload_ok :
  run demo_closure (fun m => m) (unload demo_closure) [] [Load 1; Unload 0; Transpile 1] = [OUnit; OUnit; OText 1].
Proof. exact new_unload_ok. Qed.

Print Assumptions C04_history_independent.
Print Assumptions C04_old_unload_refuted.
Print Assumptions C04_new_unload_ok.
