(* C03 - inferred static types equal the types values have at run time (expression core). *)
From Coq Require Import String Ascii List Bool.
Import ListNotations.
From Tranp Require Import Base.Str Model.MiniTy Proofs.MiniTyProofs.
From TranpGen Require Import GenOpTable.

(* Full statement: whatever type is inferred, every value the expression can have under CPython has it. *)
Definition C03_soundness_full : Prop :=
  forall e G R t, env_ok G R -> infer' G e = Some t -> forall r, In r (dyn R e) -> has_type r t = true.

(* Proved on the guarded part of the input space (guard: unary + - ~ on int / float / bool operands, not on unions; and / or on
   bool operands only; & and | not answered by bool's method for a non-bool partner; dict literals whose
   items all have the types of the first). The operator table is the one generated from classes.py. *)
Theorem C03_soundness_partial : forall e G R t, env_ok G R -> infer' G e = Some t -> guard' G e = true ->
  forall r, In r (dyn R e) -> has_type r t = true.
Proof. exact soundness. Qed.

(* ... and false without the guard: each clause of the guard has a witness *)
Definition Gx (l : list ty) (n : nat) : option ty := nth_error l n.
Definition Rx (l : list rty) (n : nat) : rty := nth n l (RB BNone).
Theorem C03_refuted_or_on_int :   (* n or m : tranp bool, CPython int *)
  let e := EOr (EVar 0) (EVar 0) in
  env_ok (Gx [TB BInt]) (Rx [RB BInt]) /\ infer' (Gx [TB BInt]) e = Some (TB BBool) /\ In (RB BInt) (dyn (Rx [RB BInt]) e) /\ has_type (RB BInt) (TB BBool) = false.
Proof. split; [intros [|[|n]] t H; try discriminate; injection H as <-; reflexivity | vm_compute; auto]. Qed.
Theorem C03_refuted_bool_and_int :   (* flag & n : tranp bool, CPython int *)
  let e := EBin OAnd (EVar 0) (EVar 1) in let G := Gx [TB BBool; TB BInt] in let R := Rx [RB BBool; RB BInt] in
  env_ok G R /\ infer' G e = Some (TB BBool) /\ dyn R e = [RB BInt] /\ has_type (RB BInt) (TB BBool) = false.
Proof. split; [intros [|[|[|n]]] t H; try discriminate; injection H as <-; reflexivity | vm_compute; auto]. Qed.
Theorem C03_refuted_dict_items :   (* {'a': 1, 'b': 2.0} : tranp dict<str, int>, a float value at run time *)
  let e := EDict [(ELit BStr, ELit BInt); (ELit BStr, ELit BFloat)] in
  infer' (Gx []) e = Some (TDict (TB BStr) (TB BInt)) /\ dyn (Rx []) e = [RDict [RB BStr; RB BStr] [RB BInt; RB BFloat]]
  /\ has_type (RDict [RB BStr; RB BStr] [RB BInt; RB BFloat]) (TDict (TB BStr) (TB BInt)) = false.
Proof. vm_compute. auto. Qed.
Theorem C03_refuted_list_same_class :   (* [[1], ['a']] : tranp list<list<str>> (one entry per class of element type, the last one wins), a list of int at run time *)
  let e := EList [EList [ELit BInt]; EList [ELit BStr]] in
  infer' (Gx []) e = Some (TList (TList (TB BStr))) /\ dyn (Rx []) e = [RList [RList [RB BInt]; RList [RB BStr]]]
  /\ has_type (RList [RList [RB BInt]; RList [RB BStr]]) (TList (TList (TB BStr))) = false.
Proof. vm_compute. auto. Qed.
Theorem C03_soundness_refuted : ~ C03_soundness_full.
Proof.
  intros H. destruct C03_refuted_or_on_int as [He [Hi [Hd Hn]]].
  specialize (H _ _ _ _ He Hi (RB BInt) Hd). rewrite H in Hn. discriminate.
Qed.

(* Totality of operator typing: wherever CPython defines a binary operator on int / float / str operands, a type
   is inferred (finite domain, decided by computation over the generated table) ... *)
Theorem C03_total_binop_partial : forall a b o,
  a <> BBool -> b <> BBool -> dyn_bin o (RB a) (RB b) <> None -> binop' (TB a) o (TB b) <> None.
Proof. intros a b o Ha Hb Hd. destruct a, b, o; try congruence; vm_compute in Hd |- *; congruence. Qed.
(* ... but not with a bool operand: CPython gives True ^ False : bool, flag << flag : int, 1.5 % flag : float,
   's' * flag : str; no type is inferred for them *)
Theorem C03_total_refuted :
  (binop' (TB BBool) OXor (TB BBool) = None /\ dyn_bin OXor (RB BBool) (RB BBool) = Some (RB BBool))
  /\ (binop' (TB BBool) OShl (TB BBool) = None /\ dyn_bin OShl (RB BBool) (RB BBool) = Some (RB BInt))
  /\ (binop' (TB BFloat) OMod (TB BBool) = None /\ dyn_bin OMod (RB BFloat) (RB BBool) = Some (RB BFloat))
  /\ (binop' (TB BStr) OMul (TB BBool) = None /\ dyn_bin OMul (RB BStr) (RB BBool) = Some (RB BStr))
.
Proof. vm_compute. repeat split. Qed.

(* non-vacuity: a guarded expression with every operator kind: [v0 * 2.5, v1 / v1][0] if not v2 else -v1  *)
(* unary minus on a bool is an int (repaired: it used to be typed bool) *)
Example C03_unary_on_bool : infer' (Gx [TB BBool]) (EUn UNeg (EVar 0)) = Some (TB BInt) /\ dyn (Rx [RB BBool]) (EUn UNeg (EVar 0)) = [RB BInt].
Proof. vm_compute. auto. Qed.
Example C03_example :
  let G := Gx [TB BInt; TB BFloat; TB BBool] in
  let e := EIf (ENot (EVar 2)) (EIndex (EList [EBin OMul (EVar 0) (ELit BFloat); EBin ODiv (EVar 1) (EVar 1)]) (ELit BInt)) (EUn UNeg (EVar 1)) in
  infer' G e = Some (TB BFloat) /\ guard' G e = true /\ dyn (Rx [RB BInt; RB BFloat; RB BBool]) e = [RB BFloat; RB BFloat; RB BFloat].
Proof. vm_compute. auto. Qed.

(* a comprehension binds its variable to the element type of what it iterates: [w * 2.5 for w in v0 if w < v1] : list<float> *)
Example C03_example_comprehension :
  let G := Gx [TB BInt; TList (TB BInt)] in
  let e := EComp 8 (EBin OMul (EVar 8) (ELit BFloat)) (EVar 1) (Some (ECmp (EVar 8) (EVar 0))) in
  infer' G e = Some (TList (TB BFloat)) /\ guard' G e = true /\ dyn (Rx [RB BInt; RList [RB BInt]]) e = [RList [RB BFloat]].
Proof. vm_compute. auto. Qed.

Print Assumptions C03_soundness_partial.
Print Assumptions C03_soundness_refuted.
Print Assumptions C03_total_binop_partial.
Print Assumptions C03_total_refuted.
Print Assumptions C03_refuted_list_same_class.
