(* C12 - the grammar engine reproduces itself and its compiled rule files. *)
From Tranp Require Import Model.Peg Model.Lexer Proofs.PegProofs.
From TranpGen Require Import GenRules.
Local Open Scope nat_scope.

Definition regex_of (e : str) : option re :=
  match List.find (fun p => str_eqb (fst p) e) regex_table with Some p => Some (snd p) | None => None end.
(* the grammar tokenizer (data/syntax/gram_tokenizer.py) applied to a grammar text *)
Definition gram_tokens (src : str) : option (list str) :=
  match tokenize gram_tokdef src with LOk ts => Some (map ttext ts) | _ => None end.
Definition gram_rules : rules := match from_ast gram_rules_ast with Some r => r | None => [] end.
(* bin/gram_check.py: parse a grammar text with the engine's built-in rules *)
Definition gram_parse (src : str) : pres :=
  match gram_tokens src with
  | Some ts => parse_tokens gram_rules regex_of (keywords gram_rules) ts (s "entry")
  | None => PSyntax
  end.
Definition tree_of (r : pres) : ttree := match r with POk t => t | _ => TTok [] [] end.

(* the checked-in meta rules are a well-formed rule set *)
Theorem C12_gram_rules_wellformed : exists r, from_ast gram_rules_ast = Some r /\ length r = 13.
Proof. vm_compute. eexists. split; reflexivity. Qed.

(* parsing the meta-grammar file with the engine's built-in rules yields those same rules *)
Theorem C12_gram_fixpoint :
  match gram_parse gram_lark_text with POk t => match from_ast t with Some r => rules_eqb r gram_rules | None => false end | _ => false end = true.
Proof. vm_compute. reflexivity. Qed.

(* compiling each shipped .lark grammar (parse, render with the escape fix-ups, read back as a Python
   literal) yields exactly the rule module checked in next to it *)
Theorem C12_compiled_gram : ttree_eqb (compile_tree (tree_of (gram_parse gram_lark_text))) gram_rules_ast = true.
Proof. vm_compute. reflexivity. Qed.
Theorem C12_compiled_py : ttree_eqb (compile_tree (tree_of (gram_parse py_lark_text))) py_rules_ast = true.
Proof. vm_compute. reflexivity. Qed.
Theorem C12_py_rules_wellformed : match from_ast py_rules_ast with Some r => Nat.ltb 50 (length r) | None => false end = true.
Proof. vm_compute. reflexivity. Qed.

(* what the rule file stores for any token value: only the backslash of \' is lost *)
Theorem C12_fixups_law : forall v, through_file v = drop_bs_sq v.
Proof. exact fixups_law. Qed.

(* the regexp terminals of both rule sets were all translated *)
Theorem C12_regexps_translated :
  forallb (fun e => match regex_of e with Some _ => true | None => false end)
          (flat_map (fun kp => (fix go (p : pat) : list str := match p with PRe e => [e] | PGroup es _ _ => flat_map go es | _ => [] end) (snd kp))
                    (gram_rules ++ match from_ast py_rules_ast with Some r => r | None => [] end)) = true.
Proof. vm_compute. reflexivity. Qed.

Print Assumptions C12_gram_fixpoint.
Print Assumptions C12_compiled_gram.
Print Assumptions C12_compiled_py.
Print Assumptions C12_fixups_law.
Print Assumptions C12_regexps_translated.
