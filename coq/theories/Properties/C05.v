(* C05 - on-disk caches never change the result. *)
From Coq Require Import List Arith Bool.
Import ListNotations.
From Tranp Require Import Model.Cache Proofs.CacheProofs.

(* holds when md5 identifies file contents and the symbol table of a module is determined by its own
   source and the sources it imports directly: after any history of edits, runs (caching on or off) and
   cache clears, what a run obtains from the caches equals what a run with an empty cache obtains *)
Theorem C05_warm_eq_cold_partial :
  forall (src : Type) (hash : src -> nat) (nmods : nat) (imports : nat -> list nat)
         (symbols_of : nat -> (nat -> src) -> nat) (parse : src -> nat),
  (forall a b, hash a = hash b -> a = b) ->
  (forall m s1 s2, (forall j, In j (imports m ++ [m]) -> s1 j = s2 j) -> symbols_of m s1 = symbols_of m s2) ->
  forall h st0, Inv src hash imports symbols_of parse st0 ->
  fst (run_all src hash nmods imports symbols_of parse true (exec src hash nmods imports symbols_of parse st0 h))
  = cold src nmods symbols_of parse (exec src hash nmods imports symbols_of parse st0 h).
Proof. exact warm_eq_cold_partial. Qed.

(* false of the code as written when a table depends on a module two imports away (chain 2 -> 1 -> 0):
   the key of the stored table covers the directly imported files only *)
Theorem C05_warm_eq_cold_refuted :
  fst (run_all nat (fun x => x) 3 demo_imports demo_symbols (fun x => x) true (exec nat (fun x => x) 3 demo_imports demo_symbols (fun x => x) demo_st0 demo_hist))
  <> cold nat 3 demo_symbols (fun x => x) (exec nat (fun x => x) 3 demo_imports demo_symbols (fun x => x) demo_st0 demo_hist).
Proof. exact warm_eq_cold_refuted. Qed.

(* with caching disabled a run writes no cache entry (and consults none: load_* with enabled = false do not read the tables) *)
Theorem C05_disabled_no_write :
  forall (src : Type) (hash : src -> nat) (nmods : nat) (imports : nat -> list nat)
         (symbols_of : nat -> (nat -> src) -> nat) (parse : src -> nat) st,
  symcache src (snd (run_all src hash nmods imports symbols_of parse false st)) = symcache src st /\
  astcache src (snd (run_all src hash nmods imports symbols_of parse false st)) = astcache src st.
Proof. exact disabled_no_write. Qed.

Print Assumptions C05_warm_eq_cold_partial.
Print Assumptions C05_warm_eq_cold_refuted.
Print Assumptions C05_disabled_no_write.
