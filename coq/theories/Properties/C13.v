(* C13 - tokenizer agrees with Python and ignores insignificant layout (the parts carried by proof). *)
From Tranp Require Import Model.Lexer Proofs.LexerProofs.
From Coq Require Import ZArith.
Local Open Scope nat_scope.

(* the generated token definitions satisfy the side condition of the lexer theorems (non-empty openers) *)
Theorem C13_defs_ok : defs_ok py_tokdef = true /\ defs_ok gram_tokdef = true.
Proof. split; vm_compute; reflexivity. Qed.

(* for every source: the raw lexer terminates; if it returns tokens, their slices concatenate to the
   source and their character offsets are contiguous from 0 (each token addresses exactly its text) *)
Theorem C13_lex_partition : forall src,
  lex py_tokdef src <> LFuel /\
  (forall ts, lex py_tokdef src = LOk ts -> concat (map traw ts) = src /\ spans_ok 0 ts).
Proof. intros src. apply lex_partition. exact (proj1 C13_defs_ok). Qed.

(* comments and plain white space never survive the post filter *)
Theorem C13_no_comment_no_blank : forall ts,
  Forall (fun k => ttype k <> T_Comment) (post_filter py_tokdef ts) /\
  Forall (fun k => ttype k <> T_WhiteSpace) (post_filter py_tokdef ts).
Proof. intros ts. split; apply post_filter_removes; vm_compute; tauto. Qed.

(* indents and dedents always balance (EOF last, brackets not left open, no marker tokens in the input) *)
Theorem C13_indent_balance : forall ts, Forall plain ts ->
  (enclosure (final_ctxt {| nest := 0; enclosure := 0%Z; indents := [] |} ts) <= 0)%Z ->
  cnt T_Indent (rebuild (ts ++ [eof_tok])) = cnt T_Dedent (rebuild (ts ++ [eof_tok])).
Proof. exact indent_balance. Qed.

(* switching the indentation width by any positive factor (tab <-> m spaces, 2 <-> 4 spaces) leaves the
   rebuilt token stream unchanged *)
Theorem C13_width_invariant : forall m ts ts', 0 < m -> Forall2 (same_but_width m) ts ts' -> rebuild ts' = rebuild ts.
Proof. exact rebuild_width_invariant. Qed.

(* non-vacuity on a concrete source: blocks of different widths, a comment, brackets over two lines,
   a string ending in an escaped backslash followed by another string *)
Definition ex_src : str := s "if a:
  b = 'x\\' + 'y'  # c
if c:
      d(1,
   2)
e".
Example ex_tokens : match tokenize py_tokdef ex_src with
                    | LOk ts => map ttext ts
                    | _ => [] end =
  [s "if"; s "a"; s ":"; [ascii_of_nat 10]; s "\INDENT"; s "b"; s "="; s "'x\\'"; s "+"; s "'y'"; [ascii_of_nat 10]; s "\DEDENT";
   s "if"; s "c"; s ":"; [ascii_of_nat 10]; s "\INDENT"; s "d"; s "("; s "1"; s ","; s "2"; s ")"; [ascii_of_nat 10]; s "\DEDENT"; s "e"; [ascii_of_nat 10]].
Proof. vm_compute. reflexivity. Qed.

Print Assumptions C13_defs_ok.
Print Assumptions C13_lex_partition.
Print Assumptions C13_no_comment_no_blank.
Print Assumptions C13_indent_balance.
Print Assumptions C13_width_invariant.
