(* C15 - the stored form of a syntax tree restores an identical tree. *)
From Tranp Require Import Model.LarkEntry Proofs.LarkEntryProofs.
Local Open Scope Z_scope.

Theorem C15_roundtrip : forall e, view_of (loads (dumps e)) = view_of e.
Proof. exact view_roundtrip. Qed.

Theorem C15_stored_form_stable : forall e, dumps (loads (dumps e)) = dumps e.
Proof. exact dumps_loads_dumps. Qed.

Theorem C15_derived : forall (A : Type) (f : view -> A) e, f (view_of (loads (dumps e))) = f (view_of e).
Proof. intros A f e. exact (derived_agree f e). Qed.

(* non-vacuity: an empty optional slot, a token without positions, a tree without meta, a zero column *)
Definition ex_tree : lark :=
  LTree (s "file_input") [LTree (s "funcdef") [LToken (s "NAME") (s "f") (Some 1) (Some 5) (Some 1) (Some 6); LNone;
                                               LToken (s "ANON") (s "x") None None None None;
                                               LToken (s "Z") (s "z") (Some 2) (Some 0) (Some 2) (Some 1)] (Some (1, 1, 3, 1));
                          LTree (s "block") [] None] (Some (1, 1, 3, 1)).
Example ex_roundtrip : view_eqb (view_of (loads (dumps ex_tree))) (view_of ex_tree) = true.
Proof. vm_compute. reflexivity. Qed.
Example ex_not_identity : loads (dumps ex_tree) <> ex_tree.
Proof. vm_compute. discriminate. Qed.

Print Assumptions C15_roundtrip.
Print Assumptions C15_stored_form_stable.
Print Assumptions C15_derived.
