(* C07 - failures are always reported as tranp errors (the exception-flow part). *)
From Coq Require Import List Bool.
Import ListNotations.
From Tranp Require Import Model.ExnFlow Proofs.ExnFlowProofs.

Theorem C07_handler_total : forall h, match emit h with Some e => e = EApp | None => h = None end.
Proof. exact handler_total. Qed.

Theorem C07_procedure_total_partial : forall fl nodes ok,
  (fl = None \/ fl = Some EAssertion \/ fl = Some EApp) ->
  Forall (fun n => event_raises n = None \/ event_raises n = Some EAssertion \/ event_raises n = Some EApp) nodes ->
  match exec fl nodes ok with Some e => e = EApp | None => True end.
Proof. exact exec_total. Qed.

Theorem C07_pipeline_total_partial : forall stages,
  Forall (fun s => wrapped s = true \/ raises s = None \/ raises s = Some EApp) stages -> pipeline stages <> Leak.
Proof. exact pipeline_total. Qed.

Theorem C07_unwrapped_stage_leaks :
  pipeline [{| wrapped := false; raises := Some EOther |}] = Leak /\
  loop_survives [{| wrapped := false; raises := Some EOther |}] = false /\
  pipeline [{| wrapped := true; raises := Some EOther |}] = App.
Proof. exact unwrapped_stage_leaks. Qed.

Print Assumptions C07_handler_total.
Print Assumptions C07_procedure_total_partial.
Print Assumptions C07_pipeline_total_partial.
Print Assumptions C07_unwrapped_stage_leaks.
