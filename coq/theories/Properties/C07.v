(* C07 - failures are always reported as tranp errors (the exception-flow part). *)
From Coq Require Import List Bool.
Import ListNotations.
From Tranp Require Import Model.ExnFlow Proofs.ExnFlowProofs Model.Interactive Proofs.InteractiveProofs.

Theorem C07_handler_total : forall h, match emit h with Some e => e = EApp | None => h = None end.
Proof. exact handler_total. Qed.

Theorem C07_procedure_total_partial : forall fl nodes ok,
  (fl = None \/ fl = Some EAssertion \/ fl = Some EApp) ->
  Forall (fun n => event_raises n = None \/ event_raises n = Some EAssertion \/ event_raises n = Some EApp) nodes ->
  match exec fl nodes ok with Some e => e = EApp | None => True end.
Proof. exact exec_total. Qed.

Theorem C07_pipeline_total_partial : forall stages,
  Forall (fun s => wrapped s = true \/ raises s = None \/ raises s = Some EApp) stages -> pipeline stages <> Leak.
Proof. exact pipeline_total. Qed.

Theorem C07_unwrapped_stage_leaks :
  pipeline [{| wrapped := false; raises := Some EOther |}] = Leak /\
  loop_survives [{| wrapped := false; raises := Some EOther |}] = false /\
  pipeline [{| wrapped := true; raises := Some EOther |}] = App.
Proof. exact unwrapped_stage_leaks. Qed.

(* the interactive loop (bin/io.py tty, bin/transpile.py Interactive.run) over any scripted keyboard: when no request leaks,
   it reads exactly the keys up to the first `exit`, answers every program typed before it - the empty one too - with a result
   or a rendered application error, in order, and returns *)
Theorem C07_interactive_loop_survives : forall oc keys, (forall p, oc p <> Leak) ->
  session oc keys = (Returned, map (event_of oc) (programs keys []), after_exit keys).
Proof. exact session_survives. Qed.

(* with the stages of every request converting what they raise, no request leaks *)
Theorem C07_interactive_loop_with_wrapped_stages : forall (stages_of : list nat -> list stage) keys,
  (forall p, Forall (fun s => wrapped s = true \/ raises s = None \/ raises s = Some EApp) (stages_of p)) ->
  session (fun p => pipeline (stages_of p)) keys
  = (Returned, map (event_of (fun p => pipeline (stages_of p))) (programs keys []), after_exit keys).
Proof. intros stages_of keys H. apply session_survives. intros p. apply pipeline_total. apply H. Qed.

(* and the converse: the first request that leaks ends the loop, the rest of the script stays unread *)
Theorem C07_interactive_loop_leak : forall oc keys ps1 p ps2,
  programs keys [] = ps1 ++ p :: ps2 -> (forall q, In q ps1 -> oc q <> Leak) -> oc p = Leak ->
  exists r, session oc keys = (Escaped, map (event_of oc) ps1, r).
Proof. exact session_leak. Qed.

(* non-vacuity: a failing program, the empty program, a two-line program, `exit`, one unread line *)
Example ex_session :
  session (fun p => match p with [1] => App | _ => Ok end) [KLine 1; KBlank; KBlank; KLine 2; KLine 3; KBlank; KExit; KLine 4]
  = (Returned, [EvError [1]; EvResult []; EvResult [2; 3]], [KLine 4]).
Proof. vm_compute. reflexivity. Qed.

Print Assumptions C07_handler_total.
Print Assumptions C07_procedure_total_partial.
Print Assumptions C07_pipeline_total_partial.
Print Assumptions C07_unwrapped_stage_leaks.
Print Assumptions C07_interactive_loop_survives.
Print Assumptions C07_interactive_loop_with_wrapped_stages.
Print Assumptions C07_interactive_loop_leak.
