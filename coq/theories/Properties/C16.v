(* C16 - a node's source span covers exactly the node's own text (span arithmetic and error quotation). *)
From Tranp Require Import Base.LineCol Proofs.LineColProofs Model.Quotation Proofs.QuotationProofs.
Local Open Scope nat_scope.

(* a span recorded as the (line, column) pairs of two character offsets addresses exactly text[b:e] *)
Theorem C16_span_addresses_text : forall t b e, b <= e -> e <= length t ->
  sub t (off t (fst (lc t b)) (snd (lc t b))) (off t (fst (lc t e)) (snd (lc t e))) = sub t b e.
Proof. exact span_addresses_text. Qed.

(* the caret line of an error quotation marks columns [begin, end) of the reported line (to the end of
   the line for a span over several lines; one column for an empty range) *)
Theorem C16_line_mark_columns : forall line bl bc el ec,
  marked_cols (line_mark line (bl, bc, el, ec)) 0 =
  seq bc (Nat.max 1 ((if Nat.eqb bl el then bc + (ec - bc) else length line) - bc)).
Proof. exact line_mark_columns. Qed.

Theorem C16_single_line_marks : forall line l bc ec, bc < ec -> marked_cols (line_mark line (l, bc, l, ec)) 0 = seq bc (ec - bc).
Proof. exact single_line_marks. Qed.

(* tab replacement keeps columns *)
Theorem C16_tabs_keep_columns : forall l, length (tab_to_space l) = length l.
Proof. exact tab_to_space_length. Qed.

Theorem C16_quotation_line : forall src bl bc el ec, 1 <= bl ->
  let '(no, line, mark) := quotation src (bl, bc, el, ec) in
  no = bl /\ line = tab_to_space (nth_line src (bl - 1) []) /\
  marked_cols mark 0 = seq (bc - 1) (Nat.max 1 ((if Nat.eqb (bl - 1) (el - 1) then (bc - 1) + ((ec - 1) - (bc - 1)) else length line) - (bc - 1))).
Proof. exact quotation_line. Qed.

Definition ex_src : str := s "def f(a):
	return a + 12
x".
Example ex_quote : quotation ex_src (2, 9, 2, 15) = (2, s " return a + 12", s "        ^^^^^^").
Proof. vm_compute. reflexivity. Qed.
Example ex_lc : lc ex_src 18 = (1, 8) /\ off ex_src 1 8 = 18.
Proof. split; vm_compute; reflexivity. Qed.

Print Assumptions C16_span_addresses_text.
Print Assumptions C16_line_mark_columns.
Print Assumptions C16_single_line_marks.
Print Assumptions C16_tabs_keep_columns.
Print Assumptions C16_quotation_line.
