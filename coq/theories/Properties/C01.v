(* C01 - transpiled C++ behaves like the Python source: the expression-grouping part. *)
From Coq Require Import String Ascii List Bool Arith.
Import ListNotations.
From Tranp Require Import Base.Str Model.Ladder Model.CppExpr Proofs.LadderProofs Proofs.CppExprProofs.
From TranpGen Require Import GenCppPrec.
Local Open Scope string_scope.

(* the precedence table py2cpp wraps operands with (generated from CppPrecedences) gives every binary operator of
   the ladder the level the C++ grammar gives its C++ spelling - except "<>", which is not C++ at all *)
Theorem C01_precedence_table_is_cpp :
  filter (fun o => negb (bin_ok o)) (map fst tranp_cpp_binary_prec) = [s "<>"]
  /\ tranp_cpp_unary_prec = plvl_of cpp_ladder (s "!") + 2 /\ tranp_cpp_primary_prec = length cpp_ladder + 2.
Proof. vm_compute. auto. Qed.

(* py2cpp's operand wrapping (impl: the algorithm of proc_operand over the generated tables) is exactly
   re-parenthesising the renamed tree over the C++ ladder *)
Theorem C01_wrapping_is_reparen : forall e, known e -> impl' e = reparen_with cpp_ladder extra_unary (rename' e).
Proof. exact impl_is_reparen. Qed.

(* every expression is grouped the way Python groups it: parsing the rendered tokens with the C++ ladder gives
   back the rendered tree, and without its parentheses that tree is the Python tree with the operators renamed
   (and -> &&, or -> ||, not -> !, is -> ==, is not -> !=). For every operator expression, of any size. *)
Theorem C01_grouping : forall e, known e ->
  (exists f, parse_with cpp_ladder f 0 (toks str (impl' e)) = Some (impl' e, []))
  /\ Ladder.strip str (impl' e) = rename' (Ladder.strip str e).
Proof. exact grouping. Qed.

(* the renderings that used to regroup (repaired): a & b == c, not a == b, - -a *)
Example C01_example_bit_compare :   (* (a & b) == c, written a & b == c in Python *)
  impl' (Bin str (s "==") (Bin str (s "&") (Atom str 0) (Atom str 1)) (Atom str 2))
  = Bin str (s "==") (Par str (Bin str (s "&") (Atom str 0) (Atom str 1))) (Atom str 2).
Proof. vm_compute. reflexivity. Qed.
Example C01_example_not_compare :   (* not (a == b), written not a == b *)
  impl' (Un str (s "not") (Bin str (s "==") (Atom str 0) (Atom str 1)))
  = Un str (s "!") (Par str (Bin str (s "==") (Atom str 0) (Atom str 1))).
Proof. vm_compute. reflexivity. Qed.
Example C01_example_double_minus :
  impl' (Un str (s "-") (Un str (s "-") (Atom str 0))) = Un str (s "-") (Par str (Un str (s "-") (Atom str 0))).
Proof. vm_compute. reflexivity. Qed.
Example C01_example_known :
  known (Un str (s "not") (Bin str (s "or") (Bin str (s "<") (Bin str (s "|") (Atom str 0) (Atom str 1)) (Atom str 2)) (Bin str (s "is not") (Atom str 3) (Un str (s "~") (Atom str 4))))).
Proof. vm_compute. auto 10. Qed.
(* what the theorem does not say: a chained comparison keeps its shape but not its meaning - C++ has no chaining
   (a < b < c is (a < b) < c there). The tree is preserved, the value is not: recorded as a known finding and
   replayed through the compiled program by the check. *)
Example C01_chain_shape :
  impl' (Bin str (s "<") (Bin str (s "<") (Atom str 0) (Atom str 1)) (Atom str 2)) = Bin str (s "<") (Bin str (s "<") (Atom str 0) (Atom str 1)) (Atom str 2).
Proof. vm_compute. reflexivity. Qed.

Print Assumptions C01_precedence_table_is_cpp.
Print Assumptions C01_wrapping_is_reparen.
Print Assumptions C01_grouping.
