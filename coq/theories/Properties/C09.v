(* C09 - every handler receives exactly the results of its own children. *)
From Coq Require Import List NArith Bool.
Import ListNotations.
From Tranp Require Import Model.Procedure Proofs.ProcedureProofs.
From TranpGen Require Import GenNodeSchema.

(* For every result type, every handler and every tree meeting the side condition WF: the stack machine
   of Procedure.exec ends with exactly one result, and that result is the recursive evaluation in which
   each handler gets, per expandable property in declaration order, a single result or the list of the
   results of the nodes that property yields, in source order. *)
Theorem C09_exec_correct : forall (R : Type) (h : N -> list (ev R) -> R) t, WF t -> exec R h t = Some (eval R h t).
Proof. exact exec_correct. Qed.

Theorem C09_no_sibling_leak : forall (R : Type) (h : N -> list (ev R) -> R) t s, WF t ->
  run R h (flat t ++ [t]) s = Some (eval R h t :: s).
Proof. exact no_sibling_leak. Qed.

Theorem C09_nested_exec_preserves_outer : forall (R : Type) (h : N -> list (ev R) -> R) t stacks, WF t ->
  exec_on R h stacks t = Some (eval R h t, stacks).
Proof. exact nested_exec_preserves_outer. Qed.

(* class-level part of WF on the node schema regenerated from /repo: ITerminal classes declare no
   expandable property (finite, closed, by computation) *)
Theorem C09_schema_ok : schema_ok node_schema = true.
Proof. vm_compute. reflexivity. Qed.

(* non-vacuity: a tree with a single-valued property, a list property, an empty list property and a terminal *)
Definition ex_tree : node :=
  Nd 0%N false [(false, [Nd 1%N true [] []]); (true, [Nd 2%N false [(true, [])] []; Nd 3%N true [] []]); (true, [])] [].
Example ex_wf : WF ex_tree.
Proof.
  unfold ex_tree.
  repeat (constructor; simpl; try discriminate; try reflexivity; try (intros; reflexivity); try tauto).
Qed.
Example ex_run : exec res record ex_tree =
  Some (Res 0%N [EOne _ (Res 1%N []); EMany _ [Res 2%N [EMany _ []]; Res 3%N []]; EMany _ []]).
Proof. vm_compute. reflexivity. Qed.

Print Assumptions C09_exec_correct.
Print Assumptions C09_no_sibling_leak.
Print Assumptions C09_nested_exec_preserves_outer.
Print Assumptions C09_schema_ok.
