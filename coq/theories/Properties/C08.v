(* C08 - consistent renaming of user identifiers commutes with transpilation (names and lookup part). *)
From Tranp Require Import Model.Dsn Proofs.DsnProofs.

(* names built by joining identifier-like elements are decomposed into exactly those elements, so a
   joined name identifies its elements whatever their spelling or length *)
Theorem C08_elements_join : forall xs, Forall elem_ok xs -> dsn_elements (dsn_join xs) = xs.
Proof. exact elements_join. Qed.
Theorem C08_join_injective : forall xs ys, Forall elem_ok xs -> Forall elem_ok ys -> dsn_join xs = dsn_join ys -> xs = ys.
Proof. exact join_injective. Qed.
Theorem C08_parsed_full_joined : forall m xs, m <> [] -> ~ In "#"%char m -> Forall elem_ok xs -> xs <> [] ->
  parsed (full_joined m xs) = (m, dsn_join xs).
Proof. exact parsed_full_joined. Qed.

(* the scope walk only compares identifiers: renaming every identifier of the table, of the scope and of
   the looked-up name by an injective map renames the answer and nothing else *)
Theorem C08_lookup_equivariant :
  forall (ident : Type) (eqb : ident -> ident -> bool), (forall a b, eqb a b = true <-> a = b) ->
  forall (r : ident -> ident), (forall a b, r a = r b -> a = b) ->
  forall d scope name,
  find ident eqb (map (map r) d) (map r scope) (map r name) = option_map (map r) (find ident eqb d scope name).
Proof. exact lookup_equivariant. Qed.

(* string prefix tests on joined names do not respect element boundaries (the shape the oracle's
   adversarial name pools are built from) *)
Theorem C08_string_prefix_is_not_scope_prefix :
  starts (s "m#foo") (s "m#foobar") = true /\ dsn_elements (s "foobar") <> dsn_elements (s "foo") ++ [s "bar"].
Proof. exact string_prefix_is_not_scope_prefix. Qed.

Print Assumptions C08_elements_join.
Print Assumptions C08_join_injective.
Print Assumptions C08_parsed_full_joined.
Print Assumptions C08_lookup_equivariant.
