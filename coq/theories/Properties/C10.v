(* C10 - tree addressing is a bijection and node resolution is order-independent. *)
From Tranp Require Import Model.Finder Proofs.FinderProofs Proofs.PathStrProofs.
From TranpGen Require Import GenGrammar.
Local Open Scope nat_scope.

(* looking up a generated full path returns the very entry (position) it was generated for *)
Theorem C10_pluck_full_pathfy : forall root p pos, In (p, pos) (full_pathfy root) ->
  pluck root p = Some pos /\ exists e, at_pos root pos = Some e.
Proof. exact pluck_full_pathfy. Qed.

(* each entry is listed once, and no two entries share a full path *)
Theorem C10_positions_nodup : forall root, NoDup (map snd (full_pathfy root)).
Proof. exact full_pathfy_nodup_positions. Qed.
Theorem C10_paths_nodup : forall root, NoDup (map fst (full_pathfy root)).
Proof. exact full_pathfy_nodup_paths. Qed.

(* the entry cache holds exactly the document-order listing; the id of a path is its index in it *)
Theorem C10_cache_is_listing : forall root, entries (build root) = full_pathfy root.
Proof. exact build_entries. Qed.
Theorem C10_ids_document_order : forall root p, index_of (build root) p = index_in p (full_pathfy root) 0.
Proof. exact ids_document_order. Qed.

(* the string form 'tag.tag[3]' parses back to the structural path, hence identifies it *)
Theorem C10_path_string_roundtrip : forall p, Forall (fun e => tag_ok (fst e) = true) p -> parse (render p) = Some p.
Proof. exact path_string_roundtrip. Qed.
Theorem C10_render_injective : forall p q, Forall (fun e => tag_ok (fst e) = true) p -> Forall (fun e => tag_ok (fst e) = true) q ->
  render p = render q -> p = q.
Proof. exact render_injective. Qed.
(* every tag of the grammar regenerated from /repo satisfies the side condition (finite, by computation) *)
Theorem C10_tags_ok : forallb tag_ok grammar_tags = true.
Proof. vm_compute. reflexivity. Qed.

(* the class resolved for a path is the first accepting class in registration order, whatever was
   resolved before (match_feature is a function of tree and path: a Section variable, see DESIGN) *)
Theorem C10_resolve_order_independent :
  forall (cls : Type) (candidates : str -> list cls) (accepts : cls -> path -> bool) (tagf : path -> str) qs p,
  fst (resolve cls candidates accepts (run_queries cls candidates accepts tagf qs) (tagf p) p)
  = resolve_fresh cls candidates accepts (tagf p) p.
Proof. exact resolve_order_independent. Qed.

(* non-vacuity: repeated, unique and empty-placeholder tags *)
Definition ex_tree : entry :=
  T (s "root") [T (s "a") [L (s "x"); L (s "__empty__")]; L (s "b"); T (s "a") [L (s "x"); L (s "x")]].
Example ex_paths : map (fun x => render (fst x)) (full_pathfy ex_tree) =
  [s "root"; s "root.a[0]"; s "root.a[0].x"; s "root.a[0].__empty__"; s "root.b"; s "root.a[2]"; s "root.a[2].x[0]"; s "root.a[2].x[1]"].
Proof. vm_compute. reflexivity. Qed.
Example ex_pluck : map (fun x => pluck ex_tree (fst x)) (full_pathfy ex_tree) = map (fun x => Some (snd x)) (full_pathfy ex_tree).
Proof. vm_compute. reflexivity. Qed.

(* Nodes.ancestor: the answer is the nearest entry with the tag on the path (the path's own end included) - a function
   of path and tag, so no earlier query can change it *)
Theorem C10_ancestor_nearest : forall p tag q, ancestor p tag = Some q ->
  exists rest, p = q ++ rest /\ (exists e, last q e = e /\ q <> [] /\ fst (last q e) = tag) /\ Forall (fun x => fst x <> tag) rest.
Proof. exact ancestor_nearest. Qed.
Theorem C10_ancestor_none : forall p tag, ancestor p tag = None <-> Forall (fun x => fst x <> tag) p.
Proof. exact ancestor_none. Qed.

Print Assumptions C10_pluck_full_pathfy.
Print Assumptions C10_positions_nodup.
Print Assumptions C10_paths_nodup.
Print Assumptions C10_cache_is_listing.
Print Assumptions C10_ids_document_order.
Print Assumptions C10_path_string_roundtrip.
Print Assumptions C10_render_injective.
Print Assumptions C10_tags_ok.
Print Assumptions C10_resolve_order_independent.
Print Assumptions C10_ancestor_nearest.
Print Assumptions C10_ancestor_none.
