(* C14 - exporting and re-importing the symbol table loses nothing (attrs encoding and export order). *)
From Coq Require Import List Arith Bool.
Import ListNotations.
From Tranp Require Import Model.SymJson Proofs.SymJsonProofs.

(* the attrs of a symbol - a forest of type keys of any depth and width (indices >= 10 included) -
   flattened to {index path: type key} and rebuilt shallow-to-deep give back the same forest *)
Theorem C14_attrs_roundtrip : forall f, rebuild (flatten f) = f.
Proof. exact attrs_roundtrip. Qed.

(* export order: a row whose key is listed at its own turn comes after every type key its attrs use (all depths) that belongs
   to the exported module, and after its own type key if that is in the module *)
Theorem C14_export_order_partial : forall (tmod : nat -> nat) m pre r post,
  rmod r = m ->
  mem_nat (rkey r) (order_row_pre tmod m r (order_keys tmod m pre)) = false ->
  exists a b, order_keys tmod m (pre ++ r :: post) = a ++ rkey r :: b /\
    (forall k, In k (uforest_keys (rattrs r)) -> tmod k = m -> In k a) /\ (rtmod r = m -> In (rtype r) a).
Proof. exact export_order_partial. Qed.

(* ... and a type key comes after the keys its declaration uses (the type variables of a generic class): at an attr ... *)
Theorem C14_declaration_first : forall (tmod : nat -> nat) m k cs d bl o,
  Nat.eqb m (tmod k) && negb (mem_nat k (order_forest tmod m bl cs o)) && negb (mem_nat k bl) = true ->
  exists a, order_x tmod m (XNd k cs d) bl o = a ++ [k] /\
    (forall x, In x (uforest_keys d) -> tmod x = m -> ~ In x (k :: bl) -> In x a).
Proof. exact declaration_first. Qed.

(* ... and at the row that lists its own type *)
Theorem C14_export_order_declaration : forall (tmod : nat -> nat) m pre r post,
  rmod r = m -> rtmod r = m ->
  mem_nat (rtype r) (order_forest tmod m [] (rattrs r) (order_keys tmod m pre)) = false ->
  exists a b, order_keys tmod m (pre ++ r :: post) = a ++ rtype r :: b /\
    forall k, In k (uforest_keys (rdecl r)) -> tmod k = m -> k <> rtype r -> In k a.
Proof. exact export_order_declaration. Qed.

(* the shape of the repaired defect: f(a: 'G[int]') listed first; G (key 2) is declared with the type variable U (key 3);
   keys 0 = f, 1 = int (another module), 2 = G, 3 = U: U comes before G, G before f *)
Example ex_forward_reference :
  order_keys (fun k => match k with 1 => 9 | _ => 1 end) 1
    [ {| rkey := 0; rmod := 1; rtype := 0; rtmod := 1; rattrs := [XNd 2 [XNd 1 [] []] [XNd 3 [] []]]; rdecl := [] |};
      {| rkey := 3; rmod := 1; rtype := 3; rtmod := 1; rattrs := []; rdecl := [] |};
      {| rkey := 2; rmod := 1; rtype := 2; rtmod := 1; rattrs := [XNd 3 [] []]; rdecl := [] |} ] = [3; 2; 0].
Proof. vm_compute. reflexivity. Qed.

(* non-vacuity *)
Definition ex_forest : forest :=
  [Nd 1 [Nd 2 []; Nd 3 [Nd 4 []]]; Nd 5 []; Nd 6 [Nd 7 []; Nd 8 []; Nd 9 []; Nd 10 []; Nd 11 []; Nd 12 []; Nd 13 []; Nd 14 []; Nd 15 []; Nd 16 []; Nd 17 [Nd 18 []]]].
Example ex_flat : map fst (by_depth (flatten ex_forest)) =
  [[0]; [1]; [2]; [0; 0]; [0; 1]; [2; 0]; [2; 1]; [2; 2]; [2; 3]; [2; 4]; [2; 5]; [2; 6]; [2; 7]; [2; 8]; [2; 9]; [2; 10]; [0; 1; 0]; [2; 10; 0]].
Proof. vm_compute. reflexivity. Qed.
Example ex_round : forest_eqb (rebuild (flatten ex_forest)) ex_forest = true.
Proof. vm_compute. reflexivity. Qed.

Print Assumptions C14_attrs_roundtrip.
Print Assumptions C14_export_order_partial.
Print Assumptions C14_declaration_first.
Print Assumptions C14_export_order_declaration.
