(* C14 - exporting and re-importing the symbol table loses nothing (attrs encoding and export order). *)
From Coq Require Import List Arith Bool.
Import ListNotations.
From Tranp Require Import Model.SymJson Proofs.SymJsonProofs.

(* the attrs of a symbol - a forest of type keys of any depth and width (indices >= 10 included) -
   flattened to {index path: type key} and rebuilt shallow-to-deep give back the same forest *)
Theorem C14_attrs_roundtrip : forall f, rebuild (flatten f) = f.
Proof. exact attrs_roundtrip. Qed.

(* export order: a row whose key is listed at its own turn comes after every type key of its attrs (all
   depths) that belongs to the exported module, and after its own type key if that is in the module *)
Theorem C14_export_order_partial : forall (tmod : nat -> nat) m pre r post,
  rmod r = m -> rkey r <> rtype r ->
  mem_nat (rkey r) (fold_left (fun o c => order_attr tmod m c o) (rattrs r) (order_keys tmod m pre)) = false ->
  exists a b, order_keys tmod m (pre ++ r :: post) = a ++ rkey r :: b /\
    (forall k, In k (forest_keys (rattrs r)) -> tmod k = m -> In k a) /\ (rtmod r = m -> In (rtype r) a).
Proof. exact export_order_partial. Qed.

(* non-vacuity *)
Definition ex_forest : forest :=
  [Nd 1 [Nd 2 []; Nd 3 [Nd 4 []]]; Nd 5 []; Nd 6 [Nd 7 []; Nd 8 []; Nd 9 []; Nd 10 []; Nd 11 []; Nd 12 []; Nd 13 []; Nd 14 []; Nd 15 []; Nd 16 []; Nd 17 [Nd 18 []]]].
Example ex_flat : map fst (by_depth (flatten ex_forest)) =
  [[0]; [1]; [2]; [0; 0]; [0; 1]; [2; 0]; [2; 1]; [2; 2]; [2; 3]; [2; 4]; [2; 5]; [2; 6]; [2; 7]; [2; 8]; [2; 9]; [2; 10]; [0; 1; 0]; [2; 10; 0]].
Proof. vm_compute. reflexivity. Qed.
Example ex_round : forest_eqb (rebuild (flatten ex_forest)) ex_forest = true.
Proof. vm_compute. reflexivity. Qed.

Print Assumptions C14_attrs_roundtrip.
Print Assumptions C14_export_order_partial.
