(* C06 - non-forced runs leave every output equal to a forced run. *)
From Tranp Require Import Model.Runner Proofs.RunnerProofs.
Local Open Scope nat_scope.

(* full statement: after any history of edits, runs, forced runs and output deletions, a non-forced run
   leaves the files a forced run would write *)
Definition C06_run_eq_force_full : Prop :=
  forall (src : Type) (hash : src -> nat) (nmods : nat) (render : nat -> (nat -> src) -> nat),
  (forall a b, hash a = hash b -> a = b) ->
  forall h st0, Inv src hash render st0 -> forall m,
  outs src (run src hash nmods render false (exec src hash nmods render st0 h)) m
  = outs src (run src hash nmods render true (exec src hash nmods render st0 h)) m.

(* it is false of the code as written: the recorded hash is of the module's own source only, so the output
   of a module that imports an edited module stays stale (witness: two modules, Run, Edit dep, then Run) *)
Theorem C06_run_eq_force_refuted :
  exists m, outs nat (run nat (fun x => x) 2 demo_render false (exec nat (fun x => x) 2 demo_render demo_init demo_hist)) m
         <> outs nat (run nat (fun x => x) 2 demo_render true (exec nat (fun x => x) 2 demo_render demo_init demo_hist)) m.
Proof. exact run_eq_force_refuted. Qed.

(* it holds when the text of a module depends on its own source only (no import between targets) *)
Theorem C06_run_eq_force_partial :
  forall (src : Type) (hash : src -> nat) (nmods : nat) (render : nat -> (nat -> src) -> nat),
  (forall a b, hash a = hash b -> a = b) ->
  (forall m s1 s2, s1 m = s2 m -> render m s1 = render m s2) ->
  forall h st0, Inv src hash render st0 -> forall m,
  outs src (run src hash nmods render false (exec src hash nmods render st0 h)) m
  = outs src (run src hash nmods render true (exec src hash nmods render st0 h)) m.
Proof. exact run_eq_force_partial. Qed.

(* files whose recorded header matches are left untouched *)
Theorem C06_untouched : forall (src : Type) (hash : src -> nat) (nmods : nat) (render : nat -> (nat -> src) -> nat) st m f,
  outs src st m = Some f -> fhash f = hash (sources src st m) -> outs src (run src hash nmods render false st) m = Some f.
Proof. exact untouched. Qed.

(* the header written into an output is found again: the text handed to the JSON decoder is the JSON
   that was written (closed instance; the general extraction is tied by correspondence) *)
Example C06_header_found :
  header_json (s "// " ++ header_line (s "{""version"":""1.0.0"",""module"":{""hash"":""ab"",""path"":""p.m""},""transpiler"":{""version"":""1.0.0"",""module"":""x.Py2Cpp""}}") ++ nlc :: s "#pragma once {}")
  = Some (s " {""version"":""1.0.0"",""module"":{""hash"":""ab"",""path"":""p.m""},""transpiler"":{""version"":""1.0.0"",""module"":""x.Py2Cpp""}}").
Proof. vm_compute. reflexivity. Qed.

Print Assumptions C06_run_eq_force_refuted.
Print Assumptions C06_run_eq_force_partial.
Print Assumptions C06_untouched.
