(* C18 - fragment splitting helpers respect bracket and quote nesting.
   Only theorem statements closed by `exact`, their non-vacuity examples, and Print Assumptions. *)
From Tranp Require Import Model.Block Model.BlockParse Proofs.BlockProofs Proofs.BlockParseProofs.
From Tranp Require Proofs.SkipGen.
Local Open Scope nat_scope.

(* _skip_other_block started on a bracket group or a quoted string consumes exactly that item,
   whatever follows and whatever the quoted strings inside contain (delimiters, brackets, the other quote). *)
Theorem C18_skip_group_exact : forall it rest, wf it -> is_block it = true ->
  skip other_tokens (flat_item it ++ rest) [] 0 = length (flat_item it).
Proof. exact skip_block_exact. Qed.

(* break_separator = the item-level split: cuts only at top-level delimiter characters (never the last
   character), each piece is strip(' ') of whole top-level items. *)
Theorem C18_break_separator_spec : forall d items, Forall wf items -> mem d other_tokens = false ->
  break_separator (flat items) [d] = map (fun p => strip (flat p)) (split_items d items []).
Proof. exact break_separator_spec. Qed.

(* putting the delimiter items back between the pieces restores the fragment: nothing is lost or added *)
Theorem C18_split_rejoin : forall d items, rejoin d (split_items d items []) = items.
Proof. intros d items. exact (split_rejoin d items []). Qed.

(* every piece consists of well-formed (balanced) items *)
Theorem C18_pieces_balanced : forall d items, Forall wf items -> Forall (Forall wf) (split_items d items []).
Proof. intros d items H. exact (split_pieces_wf d items [] H (Forall_nil _)). Qed.

Theorem C18_break_last_block_spec : forall o c p g, o <> c -> bal o c p -> bal o c g ->
  break_last_block (p ++ o :: g ++ [c]) o c = Some (p, g).
Proof. exact break_last_block_spec. Qed.

Theorem C18_decorator_path_args : forall path args, ~ In "("%char path ->
  let '(p, _, j) := decorator_parse (path ++ "("%char :: args ++ [")"%char]) in p = path /\ j = args.
Proof. exact decorator_path_args. Qed.

(* the generated bracket/quote table satisfies the side conditions the proofs use *)
Theorem C18_table_ok : table_ok = true.
Proof. exact table_ok_true. Qed.

(* non-vacuity: a fragment with a quoted string that holds a delimiter, a bracket and the other quote,
   nested in a group, is well formed, and the split is the expected one *)
Definition ex_items : list item :=
  [Ch "f"; G "(" ")" [Q """" (s "(, '"); Ch ","; Ch " "; Ch "p"; Ch "="; Ch "1"]; Ch ","; Ch " "; G "<" ">" [Ch "a"; Ch ","; Ch "b"]; Ch ","].
Example ex_wf : Forall wf ex_items.
Proof.
  unfold ex_items.
  repeat match goal with
  | |- Forall _ [] => constructor
  | |- Forall _ (_ :: _) => constructor
  | |- wf (Ch _) => constructor; vm_compute; reflexivity
  | |- wf (Q _ _) => constructor; [simpl; auto 10 | simpl; intuition discriminate]
  | |- wf (G _ _ _) => constructor; [simpl; auto 10 | discriminate | ]
  end.
Qed.
Example ex_split : break_separator (flat ex_items) [","%char] = [s "f(""(, '"", p=1)"; s "<a,b>,"].
Proof. vm_compute. reflexivity. Qed.


(* parse_bracket (BlockParser.parse + Entry.unders): on a fragment whose groups of the parsed bracket kind form the
   trees pre ++ PG b :: r (atoms = plain characters, quoted strings, groups of the other kinds - their content is
   arbitrary, brackets of the parsed kind included), the result is exactly the groups of PG b, outermost first,
   in document order; okl excludes one shape: a quoted string or other-kind group that holds the opening bracket
   and sits, without a blank, directly in front of a group (refuted below). *)
Theorem C18_parse_bracket_groups : forall o c pre b r, In (o, c) all_pair -> o <> c ->
  Forall (wfp o c) (pre ++ PG b :: r) -> Forall is_atom pre -> okl o (okp o) (pre ++ [PG b]) false = true ->
  parse_bracket (flatp o c (pre ++ PG b :: r)) o c = Some (groups1 o c (PG b)).
Proof. exact parse_bracket_groups_tab. Qed.

(* each piece is a whole group: opening bracket, the text of a tree list, closing bracket *)
Theorem C18_parse_bracket_pieces_are_groups : forall o c p g, In g (groups1 o c p) -> exists b, g = o :: flatp o c b ++ [c].
Proof. exact groups1_shape. Qed.

(* the full statement without the okl side condition is false of the code: text.find(bracket, entry.begin) picks the
   bracket inside the quoted string *)
Theorem C18_parse_bracket_find_refuted :
  parse_bracket (s "(a, m[""(""](b))") "(" ")" = Some [s "(a, m[""(""](b))"; s "(""](b)"].
Proof. vm_compute. reflexivity. Qed.

(* non-vacuity: three levels of the same bracket kind with adjacent closers, a quoted string holding the bracket
   and a delimiter, another-kind group holding the bracket, text after the root group *)
Definition ex_pre : list pt := [PA (Ch "f")].
Definition ex_body : list pt :=
  [PA (Ch "a"); PA (Ch ","); PA (Ch " "); PA (Ch "g");
   PG [PG [PA (Q """" (s "(,")); PA (Ch " "); PA (G "[" "]" [Ch "("])]]; PA (Ch " "); PA (Ch "x")].
Definition ex_rest : list pt := [PA (Ch "y")].
Example ex_parse_wf : Forall (wfp "(" ")") (ex_pre ++ PG ex_body :: ex_rest).
Proof.
  unfold ex_pre, ex_body, ex_rest. cbn [app].
  repeat match goal with
  | |- Forall _ [] => constructor
  | |- Forall _ (_ :: _) => constructor
  | |- wfp _ _ (PG _) => constructor
  | |- wfp _ _ (PA _) => constructor; split; [|cbn; try exact I; split; discriminate]
  | |- SkipGen.wf_t _ (Ch _) => constructor; vm_compute; reflexivity
  | |- SkipGen.wf_t _ (Q _ _) => constructor; [vm_compute; auto 10 | cbn; intuition discriminate]
  | |- SkipGen.wf_t _ (G _ _ _) => constructor; [vm_compute; auto 10 | discriminate | ]
  end.
Qed.
Example ex_parse_atoms : Forall is_atom ex_pre.
Proof. repeat constructor. Qed.
Example ex_parse_ok : okl "(" (okp "(") (ex_pre ++ [PG ex_body]) false = true.
Proof. vm_compute. reflexivity. Qed.
Example ex_parse_text : flatp "(" ")" (ex_pre ++ PG ex_body :: ex_rest) = s "f(a, g((""(,"" [(])) x)y".
Proof. vm_compute. reflexivity. Qed.
Example ex_parse_result : parse_bracket (s "f(a, g((""(,"" [(])) x)y") "(" ")"
  = Some [s "(a, g((""(,"" [(])) x)"; s "((""(,"" [(]))"; s "(""(,"" [(])"].
Proof. vm_compute. reflexivity. Qed.

Print Assumptions C18_skip_group_exact.
Print Assumptions C18_break_separator_spec.
Print Assumptions C18_split_rejoin.
Print Assumptions C18_pieces_balanced.
Print Assumptions C18_break_last_block_spec.
Print Assumptions C18_decorator_path_args.
Print Assumptions C18_table_ok.
Print Assumptions C18_parse_bracket_groups.
Print Assumptions C18_parse_bracket_pieces_are_groups.
Print Assumptions C18_parse_bracket_find_refuted.
