(* C02 - the node tree groups programs exactly as CPython parses them (expression ladder and function kinds). *)
From Coq Require Import String Ascii List Bool.
Import ListNotations.
From Tranp Require Import Base.Str Model.Ladder Model.Classify Proofs.LadderProofs Proofs.ClassifyProofs.
From TranpGen Require Import GenLadder.
Local Open Scope string_scope.

(* Specification constant: the operator ladder of the Python reference grammar (6.17 Operator precedence),
   restricted to the operators data/grammar.lark has (no ** // @ await; lambda / conditional / := sit above
   the ladder), with the tree name each level produces. "<>" is the Python 2 spelling of != that lark's
   python grammar keeps; CPython 3 rejects it, so it never occurs in a text both accept. *)
Definition py_ladder : list lv := [
  (s "or_test", true, [s "or"]);
  (s "and_test", true, [s "and"]);
  (s "not_test", false, [s "not"]);
  (s "comparison", true, [s "<"; s ">"; s "=="; s ">="; s "<="; s "<>"; s "!="; s "in"; s "not in"; s "is"; s "is not"]);
  (s "or_expr", true, [s "|"]);
  (s "xor_expr", true, [s "^"]);
  (s "and_expr", true, [s "&"]);
  (s "shift_expr", true, [s "<<"; s ">>"]);
  (s "sum", true, [s "+"; s "-"]);
  (s "term", true, [s "*"; s "/"; s "%"]);
  (s "factor", false, [s "+"; s "-"; s "~"])].

(* the ladder read from data/grammar.lark on this run is Python's *)
Theorem C02_ladder_is_python : tranp_ladder = py_ladder.
Proof. reflexivity. Qed.

(* every parenthesis-free expression tree, printed with the parentheses Python's ladder requires, is parsed by
   the ladder of grammar.lark into exactly that tree (parentheses kept as group nodes, dropped by strip), and the
   flat chains lark produces fold back into it *)
Theorem C02_expr_roundtrip : forall e : expr str,
  no_par str e -> ops_ok str (length py_ladder) (lvl_of py_ladder) (plvl_of py_ladder) e ->
  (exists f, parse_with tranp_ladder f 0 (toks str (paren_with py_ladder e)) = Some (paren_with py_ladder e, []))
  /\ Ladder.strip str (paren_with py_ladder e) = e
  /\ unflatten str (flatten_with tranp_ladder (paren_with py_ladder e)) = paren_with py_ladder e.
Proof. rewrite C02_ladder_is_python. exact (roundtrip_with py_ladder). Qed.

(* for every ladder: a well-parenthesised expression is parsed back to itself *)
Theorem C02_parse_toks_any_ladder : forall (L : list lv) (e : expr str) rest,
  wf str (length L) (lvl_of L) (plvl_of L) 0 e -> follow str (lvl_of L) 0 rest ->
  exists f, parse_with L f 0 (toks str e ++ rest) = Some (e, rest).
Proof. intros L. exact (parse_toks str (length L) (lvl_of L) (plvl_of L) (isbin_of L) (lvl_of_bin L) (plvl_of_pre L)). Qed.

(* function kinds: the classes tried in the registered order give what Python semantics dictates *)
Theorem C02_function_kinds : forall c : pctx, fillers_ok c -> first_accepting function_def_order (fdef_of c) = Some (python_kind c).
Proof. intros c. apply classify_is_python. reflexivity. Qed.

(* non-vacuity: not a == b | c & - d << e parses to not (a == (b | (c & ((- d) << e)))) *)
Example C02_example :
  let e := Un str (s "not") (Bin str (s "==") (Atom str 0) (Bin str (s "|") (Atom str 1) (Bin str (s "&") (Atom str 2)
             (Bin str (s "<<") (Un str (s "-") (Atom str 3)) (Atom str 4))))) in
  paren_with py_ladder e = e /\ parse_with tranp_ladder 40 0 (toks str e) = Some (e, []).
Proof. vm_compute. split; reflexivity. Qed.
(* parentheses appear exactly where the ladder needs them: a & (b == c) keeps them, (a & b) == c prints as a & b == c *)
Example C02_example_paren :
  paren_with py_ladder (Bin str (s "&") (Atom str 0) (Bin str (s "==") (Atom str 1) (Atom str 2)))
    = Bin str (s "&") (Atom str 0) (Par str (Bin str (s "==") (Atom str 1) (Atom str 2)))
  /\ paren_with py_ladder (Bin str (s "==") (Bin str (s "&") (Atom str 0) (Atom str 1)) (Atom str 2))
    = Bin str (s "==") (Bin str (s "&") (Atom str 0) (Atom str 1)) (Atom str 2).
Proof. vm_compute. split; reflexivity. Qed.
Example C02_example_kind :
  let c := {| p_scopes := [(SFunc, [s "if_stmt"; s "if_clause"; s "block"]); (SClass, [])]; p_decos := []; p_name := s "__init__"; p_first := Some (s "self") |} in
  fillers_ok c /\ first_accepting function_def_order (fdef_of c) = Some (s "Closure").
Proof. split; [repeat constructor | vm_compute; reflexivity]. Qed.

Print Assumptions C02_ladder_is_python.
Print Assumptions C02_expr_roundtrip.
Print Assumptions C02_parse_toks_any_ladder.
Print Assumptions C02_function_kinds.
