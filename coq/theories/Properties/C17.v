(* C17 - folding constant expressions gives the value Python gives. *)
From Tranp Require Import Model.Fold Proofs.FoldProofs.
From TranpGen Require Import GenEvalOps.
From Coq Require Import PrimFloat.
Local Open Scope Z_scope.

(* For every expression (any nesting: chains at every precedence level, unary sign, groups, casts) for
   which the evaluator produces a value and whose Python meaning is specified (py_eval e <> PUnspec:
   plain quoted strings, exact int->float conversions, no float %, no float<->text conversion), Python
   evaluates the expression without raising, to that very value with the same type (strings compared
   after decoding the produced literal text). A different value is never produced. *)
Theorem C17_sound : forall e v, fold e = Val v -> py_eval e <> PUnspec -> py_eval e = decode v.
Proof. exact fold_sound. Qed.

(* the operators of the model are exactly the operator tables of evaluator.py (regenerated on every run) *)
Theorem C17_ops_table :
  strs_eqb (map bop_text (filter is_arith all_bops)) arith_ops
  && strs_eqb (map bop_text (filter (fun o => negb (is_arith o)) all_bops)) bitwise_ops
  && strs_eqb allow_ops (arith_ops ++ bitwise_ops) = true.
Proof. vm_compute. reflexivity. Qed.

(* non-vacuity: values of all three kinds are produced and specified *)
Definition ex1 : expr := EChain (ELit (VInt 1)) [(Add, EChain (ELit (VInt 2)) [(Mul, ELit (VInt 3))]); (Sub, EFactor true (ELit (VInt 4)))].
Definition ex2 : expr := EChain (ELit (VStr (s "'ab'"))) [(Add, ECast CStr [ELit (VInt (-12))]); (Add, ELit (VStr (s """c d""")))].
Definition ex3 : expr := EChain (ELit (VInt 7)) [(Div, ELit (VInt 2)); (Add, ECast CFloat [ELit (VInt 1)])].
Example ex1_ok : fold ex1 = Val (VInt 11) /\ py_eval ex1 = PVal (PInt 11).
Proof. split; vm_compute; reflexivity. Qed.
Example ex2_ok : fold ex2 = Val (VStr (s "'ab-12c d'")) /\ py_eval ex2 = PVal (PStr (s "ab-12c d")).
Proof. split; vm_compute; reflexivity. Qed.
Example ex3_ok : fold ex3 = Val (VFloat 4.5%float) /\ py_eval ex3 = PVal (PFloat 4.5%float).
Proof. split; vm_compute; reflexivity. Qed.

Print Assumptions C17_sound.
Print Assumptions C17_ops_table.
