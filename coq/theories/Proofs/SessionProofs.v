From Coq Require Import List Arith Bool Lia.
Import ListNotations.
From Tranp Require Import Model.Session.

Section P.
  Variable closure : nat -> list nat.
  Variable text : nat -> nat.
  (* the import closure contains the module and is closed under imports *)
  Hypothesis Hself : forall m, In m (closure m).
  Hypothesis Htrans : forall m d, In d (closure m) -> forall e, In e (closure d) -> In e (closure m).

  Notation load := (load closure).
  Notation unload := (unload closure).
  Notation transpile := (transpile closure text).
  Notation step := (step closure text (Session.unload closure)).

  Lemma mem_in x l : mem x l = true <-> In x l.
  Proof. unfold mem. rewrite existsb_exists. split; [intros [y [H E]]; apply Nat.eqb_eq in E; subst; exact H|intros H; exists x; split; [exact H|apply Nat.eqb_refl]]. Qed.

  (* every loaded module has all its (transitive) imports loaded *)
  Definition closed (loaded : list nat) : Prop := forall m, In m loaded -> forall d, In d (closure m) -> In d loaded.

  Lemma add_all_in l : forall loaded x, In x (add_all l loaded) <-> In x l \/ In x loaded.
  Proof.
    induction l as [|y r IH]; intros loaded x; [simpl; tauto|]. cbn [add_all]. rewrite IH.
    destruct (mem y loaded) eqn:E.
    - apply mem_in in E. simpl. split; [tauto|]. intros [[->|H]|H]; auto.
    - rewrite in_app_iff. simpl. tauto.
  Qed.

  Lemma load_closed loaded m : closed loaded -> closed (load loaded m).
  Proof.
    intros H x Hx d Hd. unfold Session.load in *. rewrite add_all_in in *. destruct Hx as [Hx|Hx].
    - left. eapply Htrans; eassumption.
    - right. eapply H; eassumption.
  Qed.

  Lemma unload_closed loaded m : closed loaded -> closed (unload loaded m).
  Proof.
    intros H x Hx d Hd. unfold Session.unload in *. destruct (mem m loaded); [|eapply H; eassumption].
    apply filter_In in Hx as [Hx Hm]. apply filter_In. split; [eapply H; eassumption|].
    apply negb_true_iff in Hm. apply negb_true_iff. destruct (mem m (closure d)) eqn:E; [|reflexivity].
    apply mem_in in E. assert (In m (closure x)) as C by (eapply Htrans; eassumption).
    apply mem_in in C. congruence.
  Qed.

  Lemma step_closed loaded o : closed loaded -> closed (fst (step loaded o)).
  Proof.
    intros H. destruct o as [m|m|m]; cbn [Session.step fst].
    - apply load_closed. exact H.
    - apply unload_closed. exact H.
    - destruct (mem m loaded); [exact H|apply load_closed; exact H].
  Qed.

  (* in a session whose loaded set is closed, transpiling a module yields the text of a fresh process *)
  Lemma transpile_fresh loaded m : closed loaded -> snd (step loaded (Transpile m)) = OText (text m).
  Proof.
    intros H. cbn [Session.step snd]. unfold Session.transpile.
    set (l2 := if mem m loaded then loaded else load loaded m).
    assert (closed l2) as C by (unfold l2; destruct (mem m loaded); [exact H|apply load_closed; exact H]).
    assert (In m l2) as M.
    { unfold l2. destruct (mem m loaded) eqn:E; [apply mem_in; exact E|]. unfold Session.load. apply add_all_in. left. apply Hself. }
    replace (forallb (fun d => mem d l2) (closure m)) with true; [reflexivity|].
    symmetry. apply forallb_forall. intros d Hd. apply mem_in. eapply C; eassumption.
  Qed.

  (* whatever was loaded, unloaded or transpiled before, in any order: every transpile inside the history
     yields the text a fresh process yields *)
  Theorem history_independent h : forall loaded, closed loaded ->
    Forall (fun b => match b with OUnresolved => False | _ => True end) (run closure text (Session.unload closure) loaded h) /\
    forall pre m post, h = pre ++ Transpile m :: post ->
      nth (length pre) (run closure text (Session.unload closure) loaded h) OUnit = OText (text m).
  Proof.
    induction h as [|o h IH]; intros loaded H.
    - split; [constructor|]. intros pre m post E. destruct pre; discriminate.
    - cbn [run]. pose proof (step_closed loaded o H) as C. destruct (step loaded o) as [l2 b] eqn:S. cbn [fst] in C.
      destruct (IH l2 C) as [A B]. split.
      + constructor; [|exact A]. destruct o as [m|m|m]; cbn [Session.step] in S; try (injection S as _ <-; exact I).
        pose proof (transpile_fresh loaded m H) as T. cbn [Session.step snd] in T. injection S as _ <-. rewrite T. exact I.
      + intros pre m post E. destruct pre as [|p pre].
        * cbn [app] in E. injection E as -> ->. cbn [length nth]. pose proof (transpile_fresh loaded m H) as T. rewrite S in T. exact T.
        * cbn [app] in E. injection E as -> ->. cbn [length nth]. apply (B pre m post). reflexivity.
  Qed.
End P.

(* before the fix: unloading an imported module left the importer loaded, and transpiling it failed *)
Definition demo_closure (m : nat) : list nat := match m with 0 => [0] | _ => [0; 1] end.   (* module 1 imports module 0 *)
Theorem old_unload_refuted :
  run demo_closure (fun m => m) (unload_old) [] [Load 1; Unload 0; Transpile 1] = [OUnit; OUnit; OUnresolved].
Proof. vm_compute. reflexivity. Qed.
Theorem new_unload_ok :
  run demo_closure (fun m => m) (unload demo_closure) [] [Load 1; Unload 0; Transpile 1] = [OUnit; OUnit; OText 1].
Proof. vm_compute. reflexivity. Qed.
