(* C18 proofs: fragments as an inductive family; _skip_other_block consumes exactly one group / quoted
   string; break_separator refines the item-level split. *)
From Tranp Require Import Model.Block.
Local Open Scope nat_scope.

Inductive item := Ch (c : ascii) | Q (q : ascii) (body : str) | G (o c : ascii) (body : list item).

Fixpoint flat_item (it : item) : str :=
  match it with
  | Ch c => [c]
  | Q q b => q :: b ++ [q]
  | G o c b => o :: flat_map flat_item b ++ [c]
  end.
Definition flat (items : list item) : str := flat_map flat_item items.

(* well-formed fragments (for the repaired code a quoted body may hold any character but its own quote) *)
Inductive wf : item -> Prop :=
| wf_ch c : mem c other_tokens = false -> wf (Ch c)
| wf_q q b : In (q, q) all_pair -> ~ In q b -> wf (Q q b)
| wf_g o c b : In (o, c) all_pair -> o <> c -> Forall wf b -> wf (G o c b).

Section ItemInd.
  Variable P : item -> Prop.
  Hypothesis Hc : forall c, P (Ch c).
  Hypothesis Hq : forall q b, P (Q q b).
  Hypothesis Hg : forall o c b, Forall P b -> P (G o c b).
  Fixpoint item_ind' (it : item) : P it :=
    match it with
    | Ch c => Hc c
    | Q q b => Hq q b
    | G o c b => Hg o c b ((fix go (l : list item) : Forall P l :=
                   match l with [] => Forall_nil P | x :: r => Forall_cons x (item_ind' x) (go r) end) b)
    end.
End ItemInd.

(* ---- facts about the generated pair table, checked by computation on every run ---- *)
Definition table_ok : bool :=
  forallb (fun p => match index_of (fst p) other_tokens with
                    | Some i => Nat.even i && Ascii.eqb (nth_c other_tokens (S i)) (snd p)
                    | None => false end) all_pair
  && forallb (fun p => Ascii.eqb (fst p) (snd p)
                       || (negb (is_quote (snd p)) && negb (is_quote (fst p))
                           && forallb (fun p' => Ascii.eqb (fst p') (snd p') || negb (Ascii.eqb (snd p') (fst p))) all_pair)) all_pair
  && forallb (fun p => negb (Ascii.eqb (fst p) (snd p)) || is_quote (fst p)) all_pair.

Lemma table_ok_true : table_ok = true.
Proof. vm_compute. reflexivity. Qed.

(* proper closer *)
Definition PC (c : ascii) : Prop := exists o, In (o, c) all_pair /\ o <> c.

Lemma tab_open o c : In (o, c) all_pair ->
  exists i, index_of o other_tokens = Some i /\ Nat.even i = true /\ nth_c other_tokens (S i) = c.
Proof.
  intros H. pose proof table_ok_true as T. unfold table_ok in T.
  apply andb_true_iff in T as [T _]. apply andb_true_iff in T as [T _].
  rewrite forallb_forall in T. specialize (T _ H). cbn [fst snd] in T.
  destruct (index_of o other_tokens) as [i|]; [|discriminate].
  apply andb_true_iff in T as [T1 T2]. apply Ascii.eqb_eq in T2. eauto.
Qed.

Lemma tab_proper o c : In (o, c) all_pair -> o <> c ->
  is_quote c = false /\ is_quote o = false /\ forall c', PC c' -> c' <> o.
Proof.
  intros H Hne. pose proof table_ok_true as T. unfold table_ok in T.
  apply andb_true_iff in T as [T _]. apply andb_true_iff in T as [_ T].
  rewrite forallb_forall in T. specialize (T _ H). cbn [fst snd] in T.
  apply orb_true_iff in T as [T|T]; [apply Ascii.eqb_eq in T; contradiction|].
  apply andb_true_iff in T as [T T3]. apply andb_true_iff in T as [T1 T2].
  apply negb_true_iff in T1, T2. repeat split; auto.
  intros c' [o' [Hin Hne']] ->. rewrite forallb_forall in T3. specialize (T3 _ Hin). cbn [fst snd] in T3.
  apply orb_true_iff in T3 as [T3|T3]; [apply Ascii.eqb_eq in T3; contradiction|].
  apply negb_true_iff in T3. rewrite Ascii.eqb_refl in T3. discriminate.
Qed.

Lemma tab_quote q : In (q, q) all_pair -> is_quote q = true.
Proof.
  intros H. pose proof table_ok_true as T. unfold table_ok in T.
  apply andb_true_iff in T as [_ T]. rewrite forallb_forall in T. specialize (T _ H). cbn [fst snd] in T.
  rewrite Ascii.eqb_refl in T. exact T.
Qed.

Lemma PC_not_quote c : PC c -> is_quote c = false.
Proof. intros [o [H Hne]]. apply (tab_proper o c H Hne). Qed.

(* ---- skip ---- *)
Notation toks := other_tokens.

Lemma skip_cons c r st n :
  skip toks (c :: r) st n = match skip_step toks c st with [] => S n | cl => skip toks r cl (S n) end.
Proof. reflexivity. Qed.

Lemma step_plain x st : mem x toks = false -> skip_step toks x st = st.
Proof. unfold mem, skip_step. destruct (index_of x toks); [discriminate|reflexivity]. Qed.

Lemma step_open_proper o c st : In (o, c) all_pair -> o <> c -> Forall PC st -> skip_step toks o st = c :: st.
Proof.
  intros H Hne Hst. destruct (tab_open _ _ H) as [i [Hi [He Hn]]]. unfold skip_step. rewrite Hi.
  destruct st as [|top rest]; [rewrite He, Hn; reflexivity|].
  pose proof (Forall_inv Hst) as Htop.
  destruct (tab_proper _ _ H Hne) as [_ [_ Hd]].
  destruct (Ascii.eqb top o) eqn:E; [apply Ascii.eqb_eq in E; exfalso; exact (Hd top Htop E)|].
  rewrite (PC_not_quote _ Htop), He, Hn. reflexivity.
Qed.

Lemma step_close c st : skip_step toks c (c :: st) = st \/ index_of c toks = None.
Proof. unfold skip_step. destruct (index_of c toks); [left; rewrite Ascii.eqb_refl; reflexivity | right; reflexivity]. Qed.

Lemma step_close_pair o c st : In (o, c) all_pair -> o <> c -> skip_step toks c (c :: st) = st.
Proof.
  intros H Hne. unfold skip_step.
  assert (In c toks) as Hin.
  { unfold other_tokens. apply in_flat_map. exists (o, c). split; [exact H|simpl; auto]. }
  apply mem_true_iff in Hin. unfold mem in Hin. destruct (index_of c toks); [|discriminate].
  rewrite Ascii.eqb_refl. reflexivity.
Qed.

Lemma step_open_quote q st : In (q, q) all_pair -> Forall PC st -> skip_step toks q st = q :: st.
Proof.
  intros H Hst. destruct (tab_open _ _ H) as [i [Hi [He Hn]]]. unfold skip_step. rewrite Hi.
  destruct st as [|top rest]; [rewrite He, Hn; reflexivity|].
  pose proof (Forall_inv Hst) as Htop.
  destruct (Ascii.eqb top q) eqn:E.
  - apply Ascii.eqb_eq in E. subst top. pose proof (PC_not_quote _ Htop) as F.
    rewrite (tab_quote _ H) in F. discriminate.
  - rewrite (PC_not_quote _ Htop), He, Hn. reflexivity.
Qed.

Lemma step_close_quote q st : In (q, q) all_pair -> skip_step toks q (q :: st) = st.
Proof.
  intros H. destruct (tab_open _ _ H) as [i [Hi _]]. unfold skip_step. rewrite Hi, Ascii.eqb_refl. reflexivity.
Qed.

Lemma step_in_quote q x st : In (q, q) all_pair -> x <> q -> skip_step toks x (q :: st) = q :: st.
Proof.
  intros H Hne. unfold skip_step. destruct (index_of x toks); [|reflexivity].
  destruct (Ascii.eqb q x) eqn:E; [apply Ascii.eqb_eq in E; congruence|].
  rewrite (tab_quote _ H). reflexivity.
Qed.

Lemma skip_quote_body q b rest st n : In (q, q) all_pair -> ~ In q b ->
  skip toks (b ++ rest) (q :: st) n = skip toks rest (q :: st) (n + length b).
Proof.
  intros H. revert n. induction b as [|x b IH]; intros n Hb; simpl app.
  - f_equal. simpl. lia.
  - rewrite skip_cons, step_in_quote; [|exact H|intros ->; apply Hb; left; reflexivity].
    rewrite IH; [f_equal; simpl; lia|]. intros Hin. apply Hb. right. exact Hin.
Qed.

Definition skips_through (it : item) : Prop :=
  wf it -> forall rest c0 st0 n, Forall PC (c0 :: st0) ->
  skip toks (flat_item it ++ rest) (c0 :: st0) n = skip toks rest (c0 :: st0) (n + length (flat_item it)).

Lemma skips_through_list b : Forall skips_through b -> Forall wf b ->
  forall rest c0 st0 n, Forall PC (c0 :: st0) ->
  skip toks (flat b ++ rest) (c0 :: st0) n = skip toks rest (c0 :: st0) (n + length (flat b)).
Proof.
  induction 1 as [|it b Hit _ IH]; intros Hwf rest c0 st0 n Hst.
  - simpl. f_equal. lia.
  - inversion Hwf as [|? ? Hw1 Hw2]; subst. unfold flat. simpl flat_map. rewrite <- app_assoc.
    rewrite (Hit Hw1 _ _ _ _ Hst). fold (flat b). rewrite (IH Hw2 _ _ _ _ Hst). f_equal. rewrite app_length. lia.
Qed.

Lemma skips_through_all it : skips_through it.
Proof.
  induction it as [c|q b|o c b IH] using item_ind'; intros Hwf rest c0 st0 n Hst; inversion Hwf; subst.
  - simpl. rewrite step_plain by assumption. f_equal. lia.
  - simpl flat_item. simpl app. rewrite skip_cons, step_open_quote by assumption.
    rewrite <- app_assoc, skip_quote_body by assumption. simpl app. rewrite skip_cons, step_close_quote by assumption.
    f_equal. simpl. rewrite app_length. simpl. lia.
  - simpl flat_item. simpl app. rewrite skip_cons, (step_open_proper o c) by assumption.
    rewrite <- app_assoc. fold (flat b).
    assert (Forall PC (c :: c0 :: st0)) as Hst' by (constructor; [exists o; auto|exact Hst]).
    rewrite (skips_through_list b IH) by assumption.
    simpl app. rewrite skip_cons, (step_close_pair o c) by assumption.
    f_equal. simpl. rewrite app_length. simpl. lia.
Qed.

Definition is_block (it : item) : bool := match it with Ch _ => false | _ => true end.

(* _skip_other_block started on a group or a quoted string consumes exactly that item *)
Theorem skip_block_exact it rest : wf it -> is_block it = true ->
  skip toks (flat_item it ++ rest) [] 0 = length (flat_item it).
Proof.
  intros Hwf Hb. destruct it as [c|q b|o c b]; [discriminate| |]; inversion Hwf; subst.
  - simpl flat_item. simpl app. rewrite skip_cons, step_open_quote by (auto; constructor).
    rewrite <- app_assoc, skip_quote_body by assumption. simpl app. rewrite skip_cons, step_close_quote by assumption.
    simpl. rewrite app_length. simpl. lia.
  - simpl flat_item. simpl app. rewrite skip_cons, (step_open_proper o c) by (auto; constructor).
    rewrite <- app_assoc. fold (flat b).
    assert (Forall PC [c]) as Hst' by (constructor; [exists o; auto|constructor]).
    assert (Forall skips_through b) as Hall by (apply Forall_forall; intros; apply skips_through_all).
    rewrite (skips_through_list b Hall) by assumption.
    simpl app. rewrite skip_cons, (step_close_pair o c) by assumption.
    simpl. rewrite app_length. simpl. lia.
Qed.

(* ---- break_separator refines the item-level split ---- *)
Fixpoint split_items (d : ascii) (items : list item) (cur : list item) : list (list item) :=
  match items with
  | [] => match cur with [] => [] | _ => [rev cur] end
  | Ch c :: r =>
      if Ascii.eqb c d && (match r with [] => false | _ => true end)
      then rev cur :: split_items d r []
      else split_items d r (Ch c :: cur)
  | it :: r => split_items d r (it :: cur)
  end.

Lemma flat_app a b : flat (a ++ b) = flat a ++ flat b.
Proof. unfold flat. apply flat_map_app. Qed.

Lemma flat_cons it items : flat (it :: items) = flat_item it ++ flat items.
Proof. reflexivity. Qed.

Lemma flat_item_nonempty it : flat_item it <> [].
Proof. destruct it; simpl; discriminate. Qed.

Lemma flat_nil_iff l : flat l = [] <-> l = [].
Proof.
  split; [|intros ->; reflexivity]. destruct l as [|it r]; [reflexivity|].
  unfold flat; simpl. intros H. apply app_eq_nil in H as [H _]. exfalso. exact (flat_item_nonempty _ H).
Qed.

Lemma block_opens it : wf it -> is_block it = true ->
  exists x r, flat_item it = x :: r /\ mem x open_tokens = true.
Proof.
  intros Hwf Hb. destruct it as [c|q b|o c b]; [discriminate| |]; inversion Hwf; subst; simpl; eexists _, _; split; try reflexivity.
  - apply mem_true_iff. unfold open_tokens. apply in_map_iff. exists (q, q). auto.
  - apply mem_true_iff. unfold open_tokens. apply in_map_iff. exists (o, c). auto.
Qed.

Lemma open_in_toks x : mem x open_tokens = true -> mem x toks = true.
Proof.
  rewrite !mem_true_iff. unfold open_tokens, other_tokens. rewrite in_map_iff, in_flat_map.
  intros [p [E H]]. exists p. split; [exact H|]. subst. simpl. auto.
Qed.

Lemma rev_flat_cons it cur : rev (flat_item it) ++ rev (flat (rev cur)) = rev (flat (rev (it :: cur))).
Proof.
  change (rev (it :: cur)) with (rev cur ++ [it]).
  assert (flat [it] = flat_item it) as E by (unfold flat; simpl; apply app_nil_r).
  rewrite flat_app, E, rev_app_distr. reflexivity.
Qed.

Theorem bsep_refines d items : Forall wf items -> mem d toks = false ->
  forall fuel cur acc, length (flat items) < fuel ->
  bsep fuel [d] (flat items) (rev (flat (rev cur))) acc
  = rev acc ++ map (fun p => strip (flat p)) (split_items d items cur).
Proof.
  intros Hwf Hd. induction Hwf as [|it items Hit Hwf IH]; intros fuel cur acc Hf.
  - destruct fuel as [|f]; [simpl in Hf; lia|]. simpl.
    destruct cur as [|c0 cur]; simpl; [rewrite app_nil_r; reflexivity|].
    destruct (rev (flat (rev cur ++ [c0]))) eqn:E.
    + exfalso. apply (f_equal (@rev _)) in E. rewrite rev_involutive in E. simpl in E.
      apply flat_nil_iff in E. destruct (rev cur); discriminate.
    + rewrite <- E, rev_involutive. reflexivity.
  - destruct fuel as [|f]; [simpl in Hf; lia|].
    destruct it as [c|q b|o c b].
    + (* plain character *)
      inversion Hit; subst. rewrite flat_cons. cbn [flat_item app].
      cbn [bsep].
      assert (mem c open_tokens = false) as Ho.
      { destruct (mem c open_tokens) eqn:E; [|reflexivity]. apply open_in_toks in E. congruence. }
      rewrite Ho. cbn [starts]. rewrite andb_true_r.
      cbn [split_items].
      assert ((1 <? length (c :: flat items)) = (match items with [] => false | _ => true end)) as Hl.
      { destruct items as [|i2 r2]; [reflexivity|]. rewrite flat_cons. destruct (flat_item i2) eqn:E; [exfalso; exact (flat_item_nonempty _ E)|reflexivity]. }
      cbn [length] in Hl |- *. rewrite Hl. rewrite (Ascii.eqb_sym d c).
      destruct (Ascii.eqb c d && match items with [] => false | _ => true end) eqn:Ecut.
      * cbn [drop]. pose proof (IH f [] (strip (rev (rev (flat (rev cur)))) :: acc)) as IH'.
        change (rev (flat (rev []))) with (@nil ascii) in IH'.
        rewrite IH' by (rewrite flat_cons in Hf; simpl in Hf; lia).
        cbn [rev map]. rewrite rev_involutive, <- app_assoc. reflexivity.
      * replace (c :: rev (flat (rev cur))) with (rev (flat (rev (Ch c :: cur)))).
        -- apply IH. rewrite flat_cons in Hf; simpl in Hf; lia.
        -- rewrite <- rev_flat_cons. reflexivity.
    + (* quoted string *)
      destruct (block_opens (Q q b) Hit eq_refl) as [x [r [Ex Hx]]].
      rewrite flat_cons. rewrite Ex. cbn [app bsep]. rewrite Hx.
      rewrite app_comm_cons, <- Ex.
      rewrite (skip_block_exact (Q q b) (flat items) Hit eq_refl).
      rewrite drop_app_length, firstn_app_length.
      cbn [split_items]. rewrite rev_flat_cons. apply IH.
      rewrite flat_cons, app_length in Hf.
      pose proof (flat_item_nonempty (Q q b)). destruct (flat_item (Q q b)); [congruence|simpl in Hf; lia].
    + destruct (block_opens (G o c b) Hit eq_refl) as [x [r [Ex Hx]]].
      rewrite flat_cons. rewrite Ex. cbn [app bsep]. rewrite Hx.
      rewrite app_comm_cons, <- Ex.
      rewrite (skip_block_exact (G o c b) (flat items) Hit eq_refl).
      rewrite drop_app_length, firstn_app_length.
      cbn [split_items]. rewrite rev_flat_cons. apply IH.
      rewrite flat_cons, app_length in Hf.
      pose proof (flat_item_nonempty (G o c b)). destruct (flat_item (G o c b)); [congruence|simpl in Hf; lia].
Qed.

(* the statement used by Properties/C18.v *)
Theorem break_separator_spec d items : Forall wf items -> mem d toks = false ->
  break_separator (flat items) [d] = map (fun p => strip (flat p)) (split_items d items []).
Proof.
  intros Hwf Hd. unfold break_separator.
  exact (bsep_refines d items Hwf Hd (S (length (flat items))) [] [] (Nat.lt_succ_diag_r _)).
Qed.

(* the item-level split only removes top-level delimiter items: putting them back restores the fragment *)
Fixpoint rejoin (d : ascii) (parts : list (list item)) : list item :=
  match parts with [] => [] | [p] => p | p :: r => p ++ Ch d :: rejoin d r end.

Lemma split_items_nonempty_tail d items cur : items <> [] -> split_items d items cur <> [].
Proof.
  revert cur. induction items as [|it r IH]; intros cur H; [congruence|].
  destruct it as [c| |]; cbn [split_items].
  - destruct (Ascii.eqb c d && match r with [] => false | _ => true end); [discriminate|].
    destruct r; [simpl; discriminate|apply IH; discriminate].
  - destruct r; [simpl; discriminate|apply IH; discriminate].
  - destruct r; [simpl; discriminate|apply IH; discriminate].
Qed.

Theorem split_rejoin d items cur : rejoin d (split_items d items cur) = rev cur ++ items.
Proof.
  revert cur. induction items as [|it r IH]; intros cur.
  - simpl. destruct cur; simpl; [reflexivity|rewrite app_nil_r; reflexivity].
  - destruct it as [c|q b|o c b]; cbn [split_items].
    + destruct (Ascii.eqb c d && match r with [] => false | _ => true end) eqn:E.
      * apply andb_true_iff in E as [E1 E2]. apply Ascii.eqb_eq in E1. subst.
        cbn [rejoin]. destruct (split_items d r []) eqn:F.
        -- exfalso. destruct r; [discriminate|]. eapply split_items_nonempty_tail; [|exact F]. discriminate.
        -- rewrite <- F, IH. reflexivity.
      * rewrite IH. simpl. rewrite <- app_assoc. reflexivity.
    + rewrite IH. simpl. rewrite <- app_assoc. reflexivity.
    + rewrite IH. simpl. rewrite <- app_assoc. reflexivity.
Qed.

(* every piece is made of whole top-level items, hence balanced *)
Theorem split_pieces_wf d items cur : Forall wf items -> Forall wf cur ->
  Forall (Forall wf) (split_items d items cur).
Proof.
  intros H. revert cur. induction H as [|it r Hit Hr IH]; intros cur Hc.
  - simpl. destruct cur; constructor; [|constructor]. apply Forall_rev. exact Hc.
  - destruct it as [c|q b|o c b]; cbn [split_items].
    + destruct (Ascii.eqb c d && match r with [] => false | _ => true end).
      * constructor; [apply Forall_rev; exact Hc|apply IH; constructor].
      * apply IH. constructor; assumption.
    + apply IH. constructor; assumption.
    + apply IH. constructor; assumption.
Qed.

(* ---- break_last_block ---- *)
(* balanced for one bracket kind only (the scan ignores every other character) *)
Inductive bal (o c : ascii) : str -> Prop :=
| bal_nil : bal o c []
| bal_ch x t : x <> o -> x <> c -> bal o c t -> bal o c (x :: t)
| bal_grp g t : bal o c g -> bal o c t -> bal o c (o :: g ++ c :: t).

Lemma blb_inner o c g : o <> c -> bal o c g -> forall rest idx begin k last,
  blb o c (g ++ rest) idx begin (S k) last = blb o c rest (idx + length g) begin (S k) last.
Proof.
  intros Hne H. induction H as [|x t Hxo Hxc _ IH|g t _ IHg _ IHt]; intros rest idx begin k last.
  - simpl. f_equal. lia.
  - simpl. apply Ascii.eqb_neq in Hxo, Hxc. rewrite Hxo, Hxc, IH. f_equal. simpl. lia.
  - simpl. rewrite Ascii.eqb_refl. rewrite <- app_assoc, IHg. simpl.
    assert (Ascii.eqb c o = false) as E by (apply Ascii.eqb_neq; congruence). rewrite E, Ascii.eqb_refl.
    rewrite IHt. f_equal. rewrite app_length. simpl. lia.
Qed.

(* stack-0 scan over a balanced prefix: it may record ranges, but ends at stack 0; the final group then wins *)
Lemma blb_prefix o c p : o <> c -> bal o c p -> forall g idx begin last, bal o c g ->
  blb o c (p ++ o :: g ++ [c]) idx begin 0 last = Some (S (idx + length p), S (idx + length p) + length g).
Proof.
  intros Hne H. induction H as [|x t Hxo Hxc _ IH|g1 t Hg1 _ _ IHt]; intros g idx begin last Hg.
  - simpl. rewrite Ascii.eqb_refl. rewrite (blb_inner o c g Hne Hg). simpl.
    assert (Ascii.eqb c o = false) as E by (apply Ascii.eqb_neq; congruence). rewrite E, Ascii.eqb_refl.
    f_equal. f_equal; lia.
  - simpl. apply Ascii.eqb_neq in Hxo, Hxc. rewrite Hxo, Hxc, IH by assumption. f_equal. f_equal; simpl; lia.
  - simpl. rewrite Ascii.eqb_refl. rewrite <- app_assoc. rewrite (blb_inner o c g1 Hne Hg1). simpl.
    assert (Ascii.eqb c o = false) as E by (apply Ascii.eqb_neq; congruence). rewrite E, Ascii.eqb_refl.
    rewrite IHt by assumption. f_equal. rewrite app_length. simpl. f_equal; lia.
Qed.

Theorem break_last_block_spec o c p g : o <> c -> bal o c p -> bal o c g ->
  break_last_block (p ++ o :: g ++ [c]) o c = Some (p, g).
Proof.
  intros Hne Hp Hg. unfold break_last_block. rewrite (blb_prefix o c p Hne Hp g 0 0 None Hg). simpl.
  f_equal. f_equal.
  - replace (length p - 0) with (length p) by lia. apply firstn_app_length.
  - unfold slice. replace (S (length p + length g) - S (length p)) with (length g) by lia.
    replace (S (length p)) with (length (p ++ [o])) by (rewrite app_length; simpl; lia).
    replace (p ++ o :: g ++ [c]) with ((p ++ [o]) ++ g ++ [c]) by (rewrite <- app_assoc; reflexivity).
    rewrite drop_app_length. apply firstn_app_length.
Qed.

(* ---- decorator: path and raw argument text ---- *)
Lemma find_sub_skip x p rest fuel : ~ In x p -> length p <= fuel ->
  find_sub fuel [x] (p ++ x :: rest) = Some (length p).
Proof.
  revert fuel. induction p as [|y p IH]; intros fuel Hn Hf.
  - destruct fuel; simpl; rewrite Ascii.eqb_refl; reflexivity.
  - destruct fuel as [|f]; [simpl in Hf; lia|]. simpl.
    assert (Ascii.eqb x y = false) as E by (apply Ascii.eqb_neq; intros ->; apply Hn; left; reflexivity).
    rewrite E. simpl. rewrite IH; [reflexivity| |simpl in Hf; lia]. intros H. apply Hn. right. exact H.
Qed.

Theorem decorator_path_args path args : ~ In "("%char path ->
  let '(p, _, j) := decorator_parse (path ++ "("%char :: args ++ [")"%char]) in p = path /\ j = args.
Proof.
  intros Hn. unfold decorator_parse, find.
  rewrite find_sub_skip; [|exact Hn|rewrite app_length; lia].
  split; [apply firstn_app_length|].
  unfold slice. rewrite app_length. simpl length. rewrite app_length. simpl length.
  replace (length path + S (length args + 1) - 1 - S (length path)) with (length args) by lia.
  replace (S (length path)) with (length (path ++ ["("%char])) by (rewrite app_length; simpl; lia).
  replace (path ++ "("%char :: args ++ [")"%char]) with ((path ++ ["("%char]) ++ args ++ [")"%char]) by (rewrite <- app_assoc; reflexivity).
  rewrite drop_app_length. apply firstn_app_length.
Qed.
