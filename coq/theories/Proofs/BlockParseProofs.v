(* C18 proofs, second part: BlockParser.parse on fragments whose groups of the parsed bracket kind form a tree
   (pt), with plain characters, quoted strings and groups of the other kinds as atoms; parse_bracket returns
   exactly the groups below the first top-level group, in document order, each one balanced. *)
From Tranp Require Import Model.BlockParse Proofs.BlockProofs Proofs.SkipGen.
Local Open Scope nat_scope.

Inductive pt := PA (it : item) | PG (body : list pt).

Section PtInd.
  Variable P : pt -> Prop.
  Hypothesis Ha : forall it, P (PA it).
  Hypothesis Hg : forall b, Forall P b -> P (PG b).
  Fixpoint pt_ind' (p : pt) : P p :=
    match p with
    | PA it => Ha it
    | PG b => Hg b ((fix go (l : list pt) : Forall P l :=
                 match l with [] => Forall_nil P | x :: r => Forall_cons x (pt_ind' x) (go r) end) b)
    end.
End PtInd.

Definition blank_atom (it : item) : bool := match it with Ch x => is_blank x | _ => false end.

Section Parse.
Variables o c : ascii.
Notation tab' := (tab_without o c).
Notation otoks := (toks_without o c).

(* side conditions on the generated table, checked by computation for every bracket pair (parse_side_all) *)
Definition side_ok : bool :=
  SkipGen.table_ok tab' && negb (mem o otoks) && negb (mem c otoks) && negb (Ascii.eqb o c).
Hypothesis Hside : side_ok = true.

Lemma side_all : SkipGen.table_ok tab' = true /\ mem o otoks = false /\ mem c otoks = false /\ Ascii.eqb o c = false.
Proof.
  pose proof Hside as H. unfold side_ok in H.
  apply andb_true_iff in H as [H H4]. apply andb_true_iff in H as [H H3]. apply andb_true_iff in H as [H1 H2].
  apply negb_true_iff in H2, H3, H4. auto.
Qed.
Lemma side_tab : SkipGen.table_ok tab' = true. Proof. apply side_all. Qed.
Lemma side_o : mem o otoks = false. Proof. apply side_all. Qed.
Lemma side_c : mem c otoks = false. Proof. apply side_all. Qed.
Lemma side_ne : Ascii.eqb o c = false. Proof. apply side_all. Qed.
Lemma side_ne' : Ascii.eqb c o = false.
Proof. rewrite Ascii.eqb_sym. exact side_ne. Qed.

Fixpoint flatp1 (p : pt) : str :=
  match p with PA it => flat_item it | PG b => o :: flat_map flatp1 b ++ [c] end.
Definition flatp (l : list pt) : str := flat_map flatp1 l.

Definition atom_ok (it : item) : Prop :=
  wf_t tab' it /\ match it with Ch x => x <> o /\ x <> c | _ => True end.
Inductive wfp : pt -> Prop :=
| wfp_a it : atom_ok it -> wfp (PA it)
| wfp_g b : Forall wfp b -> wfp (PG b).

(* the entries _parse produces for a list of trees that starts at position idx (eb = entry_begin of the scan in
   progress, fresh = no character consumed yet by the current _analyze_entry); closing = the list is the inside
   of a group, so it is followed by the closing bracket *)
Section Go.
  Variable bexp : pt -> nat -> nat -> list entry.
  Fixpoint go (closing : bool) (depth : nat) (l : list pt) (idx eb : nat) (fresh : bool) : list entry :=
    match l with
    | [] => if closing && negb fresh then [En eb idx depth false []] else []
    | q :: r =>
        match q with
        | PA it => go closing depth r (idx + length (flat_item it)) (if blank_atom it then S idx else eb) false
        | PG _ => let e := idx + length (flatp1 q) in
                  En eb e depth true (bexp q (S idx) (S depth)) :: go closing depth r e e true
        end
    end.
End Go.
Fixpoint body_exp (p : pt) (idx depth : nat) : list entry :=
  match p with PA _ => [] | PG b => go body_exp true depth b idx idx true end.
Notation gox := (go body_exp).

Lemma go_fresh closing depth p r idx eb : gox closing depth (p :: r) idx eb true = gox closing depth (p :: r) idx eb false.
Proof. destruct p; reflexivity. Qed.

Lemma flatp_cons p r : flatp (p :: r) = flatp1 p ++ flatp r.
Proof. reflexivity. Qed.
Lemma flatp_app a b : flatp (a ++ b) = flatp a ++ flatp b.
Proof. unfold flatp. apply flat_map_app. Qed.
Lemma flatp1_g b : flatp1 (PG b) = o :: flatp b ++ [c].
Proof. reflexivity. Qed.

Definition pstep (f : nat) (an : kind * nat * nat * str) (depth : nat) : str * nat * list entry :=
  match an with
  | (KBlock, eb, ifk, t1) =>
      let '(t2, e, subs) := pblock f otoks o c [] (tl t1) (S ifk) depth in
      let '(t3, i3, es) := pparse f otoks o c [] t2 e depth in
      (t3, i3, En eb e depth true subs :: es)
  | (KElem, eb, ifk, t1) =>
      let '(t3, i3, es) := pparse f otoks o c [] t1 ifk depth in
      (t3, i3, En eb ifk depth false [] :: es)
  | (KEnd, eb, _, t1) => (t1, eb, [])
  end.

Lemma pparse_unfold f x r idx depth :
  pparse (S f) otoks o c [] (x :: r) idx depth = pstep f (analyze otoks o c [] (x :: r) idx) depth.
Proof.
  cbn [pparse]. destruct (analyze otoks o c [] (x :: r) idx) as [[[k eb] ifk] t1]. destruct k; reflexivity.
Qed.

Definition rest_ok (closing : bool) (rest : str) : Prop :=
  if closing then exists tail, rest = c :: tail else rest = [].

Definition Sstmt (l : list pt) : Prop := forall closing depth rest idx eb fs f,
  rest_ok closing rest -> length (flatp l ++ rest) < fs -> 2 * length (flatp l) + 1 <= f ->
  pstep f (scan fs otoks o c [] (flatp l ++ rest) idx eb) depth
  = (rest, idx + length (flatp l), gox closing depth l idx eb false).

Definition Pstmt (l : list pt) : Prop := forall closing depth rest idx f,
  rest_ok closing rest -> 2 * length (flatp l) + 2 <= f ->
  pparse f otoks o c [] (flatp l ++ rest) idx depth
  = (rest, idx + length (flatp l), gox closing depth l idx idx true).

Definition Bstmt (b : list pt) : Prop := forall depth tail idx f,
  2 * length (flatp b) + 3 <= f ->
  pblock f otoks o c [] (flatp b ++ c :: tail) idx depth
  = (tail, idx + length (flatp b) + 1, gox true (S depth) b idx idx true).

Definition QB (p : pt) : Prop := wfp p -> match p with PG b => Bstmt b | PA _ => True end.

(* first character of an atom *)
Lemma atom_first it : atom_ok it ->
  exists x r, flat_item it = x :: r /\ Ascii.eqb x o = false /\ Ascii.eqb x c = false /\
    (mem x otoks = is_block it) .
Proof.
  intros [Hwf Hch]. destruct it as [x|q b|o' c' b].
  - destruct Hch as [H1 H2]. exists x, []. repeat split.
    + apply Ascii.eqb_neq. exact H1.
    + apply Ascii.eqb_neq. exact H2.
    + inversion Hwf; subst. assumption.
  - inversion Hwf; subst. exists q, (b ++ [q]).
    assert (mem q otoks = true) as Hm.
    { apply mem_true_iff. unfold toks_without, toks_of. apply in_flat_map. exists (q, q). split; [assumption|simpl; auto]. }
    repeat split; try exact Hm.
    + destruct (Ascii.eqb q o) eqn:E; [|reflexivity]. apply Ascii.eqb_eq in E. subst. rewrite side_o in Hm. discriminate.
    + destruct (Ascii.eqb q c) eqn:E; [|reflexivity]. apply Ascii.eqb_eq in E. subst. rewrite side_c in Hm. discriminate.
  - inversion Hwf; subst. exists o', (flat_map flat_item b ++ [c']).
    assert (mem o' otoks = true) as Hm.
    { apply mem_true_iff. unfold toks_without, toks_of. apply in_flat_map. exists (o', c'). split; [assumption|simpl; auto]. }
    repeat split; try exact Hm.
    + destruct (Ascii.eqb o' o) eqn:E; [|reflexivity]. apply Ascii.eqb_eq in E. subst. rewrite side_o in Hm. discriminate.
    + destruct (Ascii.eqb o' c) eqn:E; [|reflexivity]. apply Ascii.eqb_eq in E. subst. rewrite side_c in Hm. discriminate.
Qed.

Lemma scan_unfold fs x r idx eb :
  scan (S fs) otoks o c [] (x :: r) idx eb =
  if mem x otoks then let k := skip otoks (x :: r) [] 0 in scan fs otoks o c [] (drop k (x :: r)) (idx + k) eb
  else if Ascii.eqb x o then (KBlock, eb, idx, x :: r)
  else if Ascii.eqb x c || mem x [] then (KElem, eb, idx, x :: r)
  else scan fs otoks o c [] r (S idx) (if is_blank x then S idx else eb).
Proof. reflexivity. Qed.

Lemma S_nil : Sstmt [].
Proof.
  intros closing depth rest idx eb fs f Hr Hfs Hf. cbn [flatp flat_map app length] in *. rewrite Nat.add_0_r.
  destruct closing; cbn [rest_ok] in Hr.
  - destruct Hr as [tail ->]. destruct fs as [|fs]; [simpl in Hfs; lia|].
    rewrite scan_unfold, side_c, side_ne', Ascii.eqb_refl. cbn [orb pstep].
    destruct f as [|f']; [reflexivity|].
    rewrite pparse_unfold. cbn [analyze]. rewrite side_ne', Ascii.eqb_refl. reflexivity.
  - subst rest. destruct fs as [|fs]; [simpl in Hfs; lia|]. reflexivity.
Qed.

Lemma P_from_S l : Forall wfp l -> Sstmt l -> Pstmt l.
Proof.
  intros Hwf HS closing depth rest idx f Hr Hf.
  destruct l as [|p r].
  - cbn [flatp flat_map app length] in *. rewrite Nat.add_0_r.
    destruct closing; cbn [rest_ok] in Hr.
    + destruct Hr as [tail ->]. destruct f as [|f']; [lia|].
      rewrite pparse_unfold. cbn [analyze]. rewrite side_ne', Ascii.eqb_refl. reflexivity.
    + subst rest. destruct f; reflexivity.
  - rewrite go_fresh. destruct f as [|f']; [lia|].
    inversion Hwf as [|? ? Hp Hr']; subst.
    assert (exists x t, flatp (p :: r) ++ rest = x :: t /\
              analyze otoks o c [] (x :: t) idx = scan (S (length (x :: t))) otoks o c [] (x :: t) idx idx) as [x [t [Et Ea]]].
    { destruct p as [it|b].
      - inversion Hp as [? Hok|]; subst. destruct (atom_first it Hok) as [x [t0 [Ef [H1 [H2 _]]]]].
        exists x, (t0 ++ flatp r ++ rest). split.
        + rewrite flatp_cons. cbn [flatp1]. rewrite Ef, <- app_assoc. reflexivity.
        + cbn [analyze]. rewrite H1, H2. reflexivity.
      - exists o, ((flatp b ++ [c]) ++ flatp r ++ rest). split.
        + rewrite flatp_cons, flatp1_g, <- app_assoc. reflexivity.
        + cbn [analyze]. rewrite Ascii.eqb_refl. rewrite scan_unfold, side_o, Ascii.eqb_refl. reflexivity. }
    rewrite Et, pparse_unfold, Ea, <- Et.
    apply HS; [exact Hr| rewrite Et; lia | lia].
Qed.

Lemma B_from_P b : Forall wfp b -> Pstmt b -> Bstmt b.
Proof.
  intros Hwf HP depth tail idx f Hf. destruct f as [|f']; [lia|].
  destruct b as [|p r].
  - cbn [flatp flat_map app length pblock]. rewrite Ascii.eqb_refl. f_equal. f_equal. lia.
  - assert (exists x t, flatp (p :: r) ++ c :: tail = x :: t /\ Ascii.eqb x c = false) as [x [t [Et Ex]]].
    { inversion Hwf as [|? ? Hp Hr']; subst. destruct p as [it|b'].
      - inversion Hp as [? Hok|]; subst. destruct (atom_first it Hok) as [x [t0 [Ef [H1 [H2 _]]]]].
        exists x, (t0 ++ flatp r ++ c :: tail). split; [|exact H2].
        rewrite flatp_cons. cbn [flatp1]. rewrite Ef, <- app_assoc. reflexivity.
      - exists o, ((flatp b' ++ [c]) ++ flatp r ++ c :: tail). split; [|exact side_ne].
        rewrite flatp_cons, flatp1_g, <- app_assoc. reflexivity. }
    rewrite Et. cbn [pblock]. rewrite Ex, <- Et.
    rewrite (HP true (S depth) (c :: tail) idx f') by (cbn [rest_ok]; eauto || lia).
    destruct f' as [|f'']; [lia|]. cbn [pblock]. rewrite Ascii.eqb_refl, app_nil_r. f_equal. f_equal. lia.
Qed.

Lemma S_from_Q l : Forall wfp l -> Forall QB l -> Sstmt l.
Proof.
  intros Hwf HQ. induction l as [|p r IH]; [exact S_nil|].
  inversion Hwf as [|? ? Hp Hwr]; subst. inversion HQ as [|? ? HQp HQr]; subst.
  specialize (IH Hwr HQr).
  intros closing depth rest idx eb fs f Hr Hfs Hf.
  destruct p as [it|b].
  - (* atom *)
    inversion Hp as [? Hok|]; subst.
    destruct (atom_first it Hok) as [x [t0 [Ef [H1 [H2 Hm]]]]].
    rewrite flatp_cons in *. cbn [flatp1] in *. rewrite <- app_assoc in *.
    destruct fs as [|fs]; [lia|].
    cbn [gox go].
    destruct it as [x'|q body|o' c' body].
    + (* plain character *)
      cbn [flat_item] in Ef. injection Ef as -> <-. cbn [flat_item app length] in *.
      rewrite scan_unfold. cbn [is_block] in Hm. rewrite Hm, H1, H2. cbn [orb mem index_of].
      rewrite (IH closing depth rest (S idx) (if is_blank x then S idx else eb) fs f Hr) by lia.
      cbn [blank_atom]. f_equal; [f_equal; lia|]. replace (idx + 1) with (S idx) by lia. reflexivity.
    + rewrite Ef in *. cbn [app] in *. rewrite scan_unfold. cbn [is_block] in Hm. rewrite Hm. cbv zeta.
      rewrite app_comm_cons, <- Ef.
      destruct Hok as [Hwfi _].
      assert (skip otoks (flat_item (Q q body) ++ flatp r ++ rest) [] 0 = length (flat_item (Q q body))) as Ek
        by exact (SkipGen.skip_block_exact tab' side_tab (Q q body) (flatp r ++ rest) Hwfi eq_refl).
      rewrite Ek.
      rewrite drop_app_length.
      rewrite (IH closing depth rest (idx + length (flat_item (Q q body))) eb fs f Hr).
      * cbn [blank_atom]. f_equal. f_equal. rewrite app_comm_cons, <- Ef, app_length. lia.
      * cbn [length] in Hfs. rewrite app_length in Hfs. lia.
      * cbn [length] in Hf. rewrite app_length in Hf. lia.
    + rewrite Ef in *. cbn [app] in *. rewrite scan_unfold. cbn [is_block] in Hm. rewrite Hm. cbv zeta.
      rewrite app_comm_cons, <- Ef.
      destruct Hok as [Hwfi _].
      assert (skip otoks (flat_item (G o' c' body) ++ flatp r ++ rest) [] 0 = length (flat_item (G o' c' body))) as Ek
        by exact (SkipGen.skip_block_exact tab' side_tab (G o' c' body) (flatp r ++ rest) Hwfi eq_refl).
      rewrite Ek.
      rewrite drop_app_length.
      rewrite (IH closing depth rest (idx + length (flat_item (G o' c' body))) eb fs f Hr).
      * cbn [blank_atom]. f_equal. f_equal. rewrite app_comm_cons, <- Ef, app_length. lia.
      * cbn [length] in Hfs. rewrite app_length in Hfs. lia.
      * cbn [length] in Hf. rewrite app_length in Hf. lia.
  - (* group of the parsed kind *)
    pose proof (HQp Hp) as HB. cbn beta iota in HB.
    inversion Hp as [|? Hwb]; subst.
    rewrite flatp_cons, flatp1_g in *. cbn [app] in *.
    destruct fs as [|fs]; [lia|].
    rewrite scan_unfold, side_o, Ascii.eqb_refl. cbn [pstep tl].
    repeat rewrite <- app_assoc. cbn [app].
    cbn [length] in Hf. rewrite !app_length in Hf. cbn [length] in Hf.
    rewrite (HB depth (flatp r ++ rest) (S idx) f) by lia.
    pose proof (P_from_S r Hwr IH) as HP.
    rewrite (HP closing depth rest (S idx + length (flatp b) + 1) f Hr) by lia.
    cbn [gox go body_exp]. rewrite flatp1_g. cbn [length]. rewrite !app_length. cbn [length].
    replace (idx + S (length (flatp b) + 1)) with (S idx + length (flatp b) + 1) by lia.
    f_equal. f_equal. lia.
Qed.

Lemma Q_all p : QB p.
Proof.
  induction p as [it|b IH] using pt_ind'; intros Hwf; [exact I|].
  inversion Hwf as [|? Hwb]; subst.
  apply B_from_P; [exact Hwb|]. apply P_from_S; [exact Hwb|]. apply S_from_Q; assumption.
Qed.

Theorem pparse_spec l : Forall wfp l -> Pstmt l.
Proof.
  intros Hwf. apply P_from_S; [exact Hwf|]. apply S_from_Q; [exact Hwf|].
  apply Forall_forall. intros p _. apply Q_all.
Qed.


(* ---- from the entries to parse_bracket ---- *)
Definition ents (es : list entry) : list entry := flat_map (fun e => e :: unders e) es.

Lemma unders_ents b e d k subs : unders (En b e d k subs) = ents subs.
Proof.
  cbn [unders]. induction subs as [|x r IH]; [reflexivity|].
  change (ents (x :: r)) with (x :: unders x ++ ents r). f_equal; try f_equal; exact IH.
Qed.

Definition piece (text : str) (e : entry) : list str :=
  if en_blk e then [slice (match find_from o text 0 (en_b e) with Some b => b | None => 0 end) (en_e e) text] else [].

Fixpoint groups1 (p : pt) : list str :=
  match p with PA _ => [] | PG b => flatp1 p :: flat_map groups1 b end.

(* text.find(brackets[0], entry.begin) finds the bracket of the entry only if no atom that holds the opening
   bracket (inside a quoted string or a group of another kind) sits between the entry begin - the position
   after the last blank - and the bracket: dirty = such an atom was passed since the last blank *)
Section Ok.
  Variable okb : pt -> bool.
  Fixpoint okl (l : list pt) (dirty : bool) : bool :=
    match l with
    | [] => true
    | q :: r =>
        match q with
        | PA it => okl r (if blank_atom it then false else dirty || mem o (flat_item it))
        | PG _ => negb dirty && okb q && okl r false
        end
    end.
End Ok.
Fixpoint okp (p : pt) : bool := match p with PA _ => true | PG b => okl okp b false end.

Definition clean (A : str) (eb : nat) : Prop := exists A1 A2, A = A1 ++ A2 /\ length A1 = eb /\ ~ In o A2.

Lemma find_from_skip ch A2 rest i begin : begin <= i -> ~ In ch A2 ->
  find_from ch (A2 ++ ch :: rest) i begin = Some (i + length A2).
Proof.
  revert i. induction A2 as [|x A2 IH]; intros i Hb Hn; cbn [app find_from length].
  - replace (begin <=? i) with true by (symmetry; apply Nat.leb_le; exact Hb). rewrite Ascii.eqb_refl. cbn [andb]. f_equal. lia.
  - replace (Ascii.eqb x ch) with false.
    + rewrite andb_false_r. rewrite IH; [f_equal; lia|lia|]. intros H. apply Hn. right. exact H.
    + symmetry. apply Ascii.eqb_neq. intros ->. apply Hn. left. reflexivity.
Qed.

Lemma find_from_before ch A1 t i : find_from ch (A1 ++ t) i (i + length A1) = find_from ch t (i + length A1) (i + length A1).
Proof.
  revert i. induction A1 as [|x A1 IH]; intros i; cbn [app length find_from].
  - rewrite Nat.add_0_r. reflexivity.
  - replace (i + S (length A1) <=? i) with false by (symmetry; apply Nat.leb_gt; lia). cbn [andb].
    replace (i + S (length A1)) with (S i + length A1) by lia. apply IH.
Qed.

Lemma find_clean A eb rest : clean A eb -> find_from o (A ++ o :: rest) 0 eb = Some (length A).
Proof.
  intros [A1 [A2 [-> [<- Hn]]]]. rewrite <- app_assoc.
  pose proof (find_from_before o A1 (A2 ++ o :: rest) 0) as E. cbn [Nat.add] in E. rewrite E.
  rewrite find_from_skip by (auto || lia). rewrite app_length. reflexivity.
Qed.

Lemma slice_mid (A M Z : str) : slice (length A) (length A + length M) (A ++ M ++ Z) = M.
Proof.
  unfold slice. rewrite drop_app_length. replace (length A + length M - length A) with (length M) by lia.
  apply firstn_app_length.
Qed.

Lemma clean_here A : clean A (length A).
Proof. exists A, []. rewrite app_nil_r. auto. Qed.

Lemma clean_step it A idx eb dirty : length A = idx -> (dirty = false -> clean A eb) ->
  (if blank_atom it then false else dirty || mem o (flat_item it)) = false ->
  (blank_atom it = true -> length (flat_item it) = 1) ->
  clean (A ++ flat_item it) (if blank_atom it then S idx else eb).
Proof.
  intros HA Hc Hd Hb. destruct (blank_atom it) eqn:Eb.
  - specialize (Hb eq_refl). replace (S idx) with (length (A ++ flat_item it)) by (rewrite app_length; lia).
    apply clean_here.
  - apply orb_false_iff in Hd as [-> Hm]. destruct (Hc eq_refl) as [A1 [A2 [-> [HL Hn]]]].
    exists A1, (A2 ++ flat_item it). rewrite app_assoc. repeat split; [exact HL|].
    intros Hin. apply in_app_or in Hin as [Hin|Hin]; [exact (Hn Hin)|].
    apply mem_false_iff in Hm. exact (Hm Hin).
Qed.

Lemma blank_len it : blank_atom it = true -> length (flat_item it) = 1.
Proof. destruct it; [reflexivity|discriminate|discriminate]. Qed.

Definition Gstmt (l : list pt) : Prop := forall closing depth idx eb fresh dirty A Z text,
  text = A ++ flatp l ++ Z -> length A = idx -> (dirty = false -> clean A eb) -> okl okp l dirty = true ->
  flat_map (piece text) (ents (gox closing depth l idx eb fresh)) = flat_map groups1 l.
Definition GQ (p : pt) : Prop := match p with PG b => Gstmt b | PA _ => True end.

Lemma G_from_GQ l : Forall GQ l -> Gstmt l.
Proof.
  induction 1 as [|p r Hp _ IH]; intros closing depth idx eb fresh dirty A Z text Ht HA Hc Hok.
  - cbn [gox go]. destruct (closing && negb fresh); reflexivity.
  - destruct p as [it|b].
    + cbn [gox go flat_map groups1 app]. cbn [okl] in Hok.
      apply (IH closing depth _ _ false (if blank_atom it then false else dirty || mem o (flat_item it)) (A ++ flat_item it) Z text).
      * rewrite Ht, flatp_cons. cbn [flatp1]. rewrite <- !app_assoc. reflexivity.
      * rewrite app_length. lia.
      * intros Hd. apply (clean_step it A idx eb dirty HA Hc Hd (blank_len it)).
      * exact Hok.
    + cbn [okl] in Hok. apply andb_true_iff in Hok as [Hok Hokr]. apply andb_true_iff in Hok as [Hd Hokb].
      apply negb_true_iff in Hd. cbn [okp] in Hokb.
      cbn [gox go]. cbn [ents flat_map]. fold (ents (gox closing depth r (idx + length (flatp1 (PG b))) (idx + length (flatp1 (PG b))) true)).
      rewrite unders_ents. cbn [app flat_map groups1]. rewrite !flat_map_app.
      cbn [body_exp].
      assert (text = A ++ flatp1 (PG b) ++ flatp r ++ Z) as Ht' by (rewrite Ht, flatp_cons, <- app_assoc; reflexivity).
      assert (piece text (En eb (idx + length (flatp1 (PG b))) depth true (gox true (S depth) b (S idx) (S idx) true))
              = [flatp1 (PG b)]) as E1.
      { unfold piece. cbn [en_blk en_b en_e].
        assert (find_from o text 0 eb = Some (length A)) as Ef.
        { rewrite Ht', flatp1_g. cbn [app]. apply find_clean. exact (Hc Hd). }
        rewrite Ef, Ht', <- HA, slice_mid. reflexivity. }
      rewrite E1. cbn [app]. f_equal. f_equal.
      * cbn [GQ] in Hp.
        apply (Hp true (S depth) (S idx) (S idx) true false (A ++ [o]) (c :: flatp r ++ Z) text).
        -- rewrite Ht', flatp1_g. cbn [app]. rewrite <- !app_assoc. reflexivity.
        -- rewrite app_length. cbn [length]. lia.
        -- intros _. replace (S idx) with (length (A ++ [o])) by (rewrite app_length; cbn [length]; lia). apply clean_here.
        -- exact Hokb.
      * apply (IH closing depth _ _ true false (A ++ flatp1 (PG b)) Z text).
        -- rewrite Ht', <- !app_assoc. reflexivity.
        -- rewrite app_length. lia.
        -- intros _. replace (idx + length (flatp1 (PG b))) with (length (A ++ flatp1 (PG b))) by (rewrite app_length; lia).
           apply clean_here.
        -- exact Hokr.
Qed.

Lemma GQ_all p : GQ p.
Proof. induction p as [it|b IH] using pt_ind'; [exact I|]. cbn [GQ]. apply G_from_GQ. exact IH. Qed.

Lemma G_all l : Gstmt l.
Proof. apply G_from_GQ. apply Forall_forall. intros p _. apply GQ_all. Qed.

(* ---- the atoms in front of the first group ---- *)
Definition is_atom (p : pt) : Prop := match p with PA _ => True | PG _ => False end.

Fixpoint eb_of (pre : list pt) (idx eb : nat) : nat :=
  match pre with
  | PA it :: r => eb_of r (idx + length (flat_item it)) (if blank_atom it then S idx else eb)
  | _ => eb
  end.
Fixpoint dirty_of (pre : list pt) (dirty : bool) : bool :=
  match pre with
  | PA it :: r => dirty_of r (if blank_atom it then false else dirty || mem o (flat_item it))
  | _ => dirty
  end.

Lemma go_atoms pre q r closing depth idx eb fresh : Forall is_atom pre ->
  gox closing depth (pre ++ q :: r) idx eb fresh = gox closing depth (q :: r) (idx + length (flatp pre)) (eb_of pre idx eb) false.
Proof.
  intros H. revert idx eb fresh. induction H as [|p pre Hp _ IH]; intros idx eb fresh.
  - cbn [app flatp flat_map length eb_of]. rewrite Nat.add_0_r. destruct fresh; [apply go_fresh|reflexivity].
  - destruct p as [it|b]; [|destruct Hp].
    change (gox closing depth ((PA it :: pre) ++ q :: r) idx eb fresh)
      with (gox closing depth (pre ++ q :: r) (idx + length (flat_item it)) (if blank_atom it then S idx else eb) false).
    rewrite IH. cbn [eb_of]. rewrite flatp_cons, app_length. cbn [flatp1]. rewrite Nat.add_assoc. reflexivity.
Qed.

Lemma okl_atoms pre l dirty : Forall is_atom pre -> okl okp (pre ++ l) dirty = okl okp l (dirty_of pre dirty).
Proof.
  intros H. revert dirty. induction H as [|p pre Hp _ IH]; intros dirty; [reflexivity|].
  destruct p as [it|b]; [|destruct Hp]. cbn [app okl dirty_of]. apply IH.
Qed.

Lemma clean_atoms pre A idx eb dirty : Forall is_atom pre -> length A = idx -> (dirty = false -> clean A eb) ->
  dirty_of pre dirty = false -> clean (A ++ flatp pre) (eb_of pre idx eb).
Proof.
  intros H. revert A idx eb dirty. induction H as [|p pre Hp _ IH]; intros A idx eb dirty HA Hc Hd.
  - cbn [flatp flat_map eb_of dirty_of] in *. rewrite app_nil_r. exact (Hc Hd).
  - destruct p as [it|b]; [|destruct Hp]. cbn [eb_of dirty_of] in *. rewrite flatp_cons. cbn [flatp1]. rewrite app_assoc.
    apply (IH (A ++ flat_item it) _ _ (if blank_atom it then false else dirty || mem o (flat_item it))); [rewrite app_length; lia| |exact Hd].
    intros Hd'. apply (clean_step it A idx eb dirty HA Hc Hd' (blank_len it)).
Qed.

(* parse_bracket on a fragment whose first top-level group of the parsed kind is PG b: exactly the groups of that
   kind in PG b, outermost first, in document order - each one a balanced substring *)
Theorem parse_bracket_groups pre b r :
  Forall wfp (pre ++ PG b :: r) -> Forall is_atom pre -> okl okp (pre ++ [PG b]) false = true ->
  parse_bracket (flatp (pre ++ PG b :: r)) o c = Some (groups1 (PG b)).
Proof.
  intros Hwf Hpre Hok. unfold parse_bracket, parse.
  set (l := pre ++ PG b :: r). set (text := flatp l).
  pose proof (pparse_spec l Hwf false 0 [] 0 (parse_fuel text) eq_refl) as HP.
  rewrite app_nil_r in HP. fold text in HP. rewrite HP by (unfold parse_fuel; lia).
  unfold l at 1. rewrite go_atoms by exact Hpre. cbn [gox go].
  set (idx := 0 + length (flatp pre)). set (eb := eb_of pre 0 0).
  set (root := En eb (idx + length (flatp1 (PG b))) 0 true (body_exp (PG b) (S idx) 1)).
  f_equal.
  assert (flat_map (piece text) (ents (gox false 0 [PG b] idx eb false)) = flat_map groups1 [PG b]) as HG.
  { apply (G_all [PG b] false 0 idx eb false (dirty_of pre false) (flatp pre) (flatp r) text).
    - unfold text, l. rewrite flatp_app, flatp_cons. cbn [flatp flat_map]. rewrite app_nil_r. reflexivity.
    - unfold idx. lia.
    - intros Hd. unfold eb. replace (flatp pre) with ([] ++ flatp pre) by reflexivity.
      apply (clean_atoms pre [] 0 0 false Hpre eq_refl); [intros _; apply (clean_here [])|exact Hd].
    - rewrite okl_atoms in Hok by exact Hpre. exact Hok. }
  change (gox false 0 [PG b] idx eb false) with [root] in HG. unfold ents in HG. cbn [flat_map] in HG.
  rewrite !app_nil_r in HG. exact HG.
Qed.

End Parse.

(* the side conditions hold for every bracket pair of the generated table *)
Lemma parse_side_all : forallb (fun p => Ascii.eqb (fst p) (snd p) || side_ok (fst p) (snd p)) all_pair = true.
Proof. vm_compute. reflexivity. Qed.

Lemma parse_side o c : In (o, c) all_pair -> o <> c -> side_ok o c = true.
Proof.
  intros H Hne. pose proof parse_side_all as T. rewrite forallb_forall in T. specialize (T _ H). cbn [fst snd] in T.
  apply orb_true_iff in T as [T|T]; [apply Ascii.eqb_eq in T; contradiction|exact T].
Qed.

(* the statement used by Properties/C18.v: for every bracket pair of the table *)
Theorem parse_bracket_groups_tab o c pre b r : In (o, c) all_pair -> o <> c ->
  Forall (wfp o c) (pre ++ PG b :: r) -> Forall is_atom pre -> okl o (okp o) (pre ++ [PG b]) false = true ->
  parse_bracket (flatp o c (pre ++ PG b :: r)) o c = Some (groups1 o c (PG b)).
Proof. intros H Hne. apply parse_bracket_groups. exact (parse_side o c H Hne). Qed.

(* every returned piece is the text of a group: it starts with the opening bracket, ends with the closing one *)
Lemma groups1_shape o c p g : In g (groups1 o c p) -> exists b, g = o :: flatp o c b ++ [c].
Proof.
  induction p as [it|b IH] using pt_ind'; cbn [groups1]; [intros []|].
  intros [<-|Hin]; [exists b; reflexivity|].
  apply in_flat_map in Hin as [q [Hq Hg]]. rewrite Forall_forall in IH. exact (IH q Hq Hg).
Qed.
