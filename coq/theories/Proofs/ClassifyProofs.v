From Coq Require Import String Ascii List Bool Lia.
Import ListNotations.
From Tranp Require Import Base.Str Model.Classify.
Local Open Scope string_scope.

Lemma fold_scope_app a b acc :
  fold_left (fun acc e => if is_scope_tag e then Some e else acc) (a ++ b) acc =
  fold_left (fun acc e => if is_scope_tag e then Some e else acc) b (fold_left (fun acc e => if is_scope_tag e then Some e else acc) a acc).
Proof. apply fold_left_app. Qed.
Lemma fold_no_scope l acc : Forall (fun e => is_scope_tag e = false) l ->
  fold_left (fun acc e => if is_scope_tag e then Some e else acc) l acc = acc.
Proof. induction 1 as [|x r Hx _ IH]; simpl; auto. rewrite Hx. exact IH. Qed.

Lemma outer_of_path c : fillers_ok c ->
  outer_scope_tag (path_of c) = match p_scopes c with (SClass, _) :: _ => Some (s "class_def_raw") | (SFunc, _) :: _ => Some (s "function_def_raw") | [] => None end.
Proof.
  unfold fillers_ok, outer_scope_tag, path_of. intros Hf. rewrite removelast_last.
  destruct (p_scopes c) as [|[sc filler] r]; simpl; [reflexivity|].
  inversion Hf as [|x l Hx Hr]; subst. simpl in Hx.
  rewrite !fold_scope_app. rewrite (fold_no_scope filler _ Hx).
  destruct sc; reflexivity.
Qed.

Theorem classify_is_python (order : list str) (c : pctx) :
  order = [s "ClassMethod"; s "Constructor"; s "Method"; s "Closure"; s "Function"] ->
  fillers_ok c -> first_accepting order (fdef_of c) = Some (python_kind c).
Proof.
  intros Ho Hf. subst order. unfold first_accepting, matches, in_class, in_function, fdef_of; simpl f_path; simpl f_decos; simpl f_name; simpl f_first.
  rewrite (outer_of_path c Hf). unfold python_kind.
  destruct (p_scopes c) as [|[[|] filler] r].
  - reflexivity.
  - change (str_eqb (s "class_def_raw") (s "class_def_raw")) with true.
    change (str_eqb (s "class_def_raw") (s "function_def_raw")) with false.
    cbn [andb].
    destruct (existsb (str_eqb (s "classmethod")) (p_decos c)); [reflexivity|].
    change (str_eqb (s "Constructor") (s "ClassMethod")) with false. cbv iota.
    change (str_eqb (s "Constructor") (s "Constructor")) with true. cbv iota.
    destruct (str_eqb (p_name c) (s "__init__")); [reflexivity|].
    change (str_eqb (s "Method") (s "ClassMethod")) with false.
    change (str_eqb (s "Method") (s "Constructor")) with false.
    change (str_eqb (s "Method") (s "Method")) with true. cbv iota. cbn [negb andb].
    destruct (p_first c) as [p|]; [destruct (str_eqb p (s "self")); reflexivity|reflexivity].
  - change (str_eqb (s "function_def_raw") (s "class_def_raw")) with false.
    change (str_eqb (s "function_def_raw") (s "function_def_raw")) with true.
    reflexivity.
Qed.
