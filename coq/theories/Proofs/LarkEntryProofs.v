From Tranp Require Import Model.LarkEntry.
Local Open Scope Z_scope.

Section LarkInd.
  Variable P : lark -> Prop.
  Hypothesis Ht : forall d ks m, Forall P ks -> P (LTree d ks m).
  Hypothesis Hk : forall t v l c el ec, P (LToken t v l c el ec).
  Hypothesis Hn : P LNone.
  Fixpoint lark_ind' (e : lark) : P e :=
    match e with
    | LTree d ks m => Ht d ks m ((fix go (l : list lark) : Forall P l :=
                        match l with [] => Forall_nil P | x :: r => Forall_cons x (lark_ind' x) (go r) end) ks)
    | LToken t v l c el ec => Hk t v l c el ec
    | LNone => Hn
    end.
End LarkInd.

Lemma truthy_zval x : truthy x = true -> truthy (Some (zval x)) = true.
Proof. destruct x; simpl; auto. Qed.

(* a token restored from a map that came from source_map has the same source_map *)
Lemma token_map_roundtrip t v l c el ec :
  let m := source_map (LToken t v l c el ec) in
  source_map (LToken t v (Some (sm1 m)) (Some (sm2 m)) (Some (sm3 m)) (Some (sm4 m))) = m.
Proof.
  cbn [source_map].
  destruct (truthy l && truthy c && truthy el && truthy ec) eqn:E.
  - apply andb_true_iff in E as [E E4]. apply andb_true_iff in E as [E E3]. apply andb_true_iff in E as [E1 E2].
    cbn [sm1 sm2 sm3 sm4 zval]. rewrite (truthy_zval _ E1), (truthy_zval _ E2), (truthy_zval _ E3), (truthy_zval _ E4). reflexivity.
  - reflexivity.
Qed.

(* the restored tree shows exactly the view of the original tree: names, child order, empty
   placeholders, token values and source maps, at every depth *)
Theorem view_roundtrip : forall e, view_of (loads (dumps e)) = view_of e.
Proof.
  induction e as [d ks m IH|t v l c el ec|] using lark_ind'.
  - cbn [dumps loads view_of]. f_equal.
    rewrite !map_map. apply map_ext_in. intros x Hx. rewrite Forall_forall in IH. apply IH. exact Hx.
  - cbn [dumps loads view_of]. f_equal. apply token_map_roundtrip.
  - reflexivity.
Qed.

(* the stored form is a fixed point: dumping the restored tree gives the same stored form *)
Theorem dumps_loads_dumps : forall e, dumps (loads (dumps e)) = dumps e.
Proof.
  induction e as [d ks m IH|t v l c el ec|] using lark_ind'.
  - cbn [dumps loads]. f_equal. rewrite !map_map. apply map_ext_in. intros x Hx. rewrite Forall_forall in IH. apply IH. exact Hx.
  - cbn [dumps loads]. f_equal. apply token_map_roundtrip.
  - reflexivity.
Qed.

(* anything computed from the view (paths, node classes, token text, quotations) agrees *)
Corollary derived_agree {A} (f : view -> A) e : f (view_of (loads (dumps e))) = f (view_of e).
Proof. rewrite view_roundtrip. reflexivity. Qed.
