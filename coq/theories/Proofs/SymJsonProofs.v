(* C14: the flattened attrs of a symbol are rebuilt to the same forest, for every forest. *)
From Coq Require Import List Arith Bool Lia.
Import ListNotations.
From Tranp Require Import Model.SymJson.

(* the forest cut below depth d *)
Fixpoint trunc (d : nat) (f : forest) : forest :=
  match d with 0 => [] | S d' => map (fun t => Nd (tkey t) (trunc d' (tkids t))) f end.

(* items of depth d in document order, computed structurally *)
Fixpoint lv_from (d i : nat) (f : forest) {struct d} : list item :=
  match d with
  | 0 => []
  | S d' => (fix go (i : nat) (l : forest) : list item :=
               match l with
               | [] => []
               | t :: r => (match d' with 0 => [([i], tkey t)] | S _ => map (push i) (lv_from d' 0 (tkids t)) end) ++ go (S i) r
               end) i f
  end.

Lemma lv_from_nil d i : lv_from d i [] = [].
Proof. destruct d; reflexivity. Qed.
Lemma lv_from_cons d i t r :
  lv_from (S d) i (t :: r) = (match d with 0 => [([i], tkey t)] | S _ => map (push i) (lv_from d 0 (tkids t)) end) ++ lv_from (S d) (S i) r.
Proof. reflexivity. Qed.

Lemma fl_tree_eq t : fl_tree t = ([], tkey t) :: flatten_from 0 (tkids t).
Proof.
  destruct t as [k cs]. reflexivity.
Qed.

Lemma tree_eta t : Nd (tkey t) (tkids t) = t.
Proof. destruct t; reflexivity. Qed.

(* ---- insertion ---- *)
Lemma ins_all_app f a b : ins_all f (a ++ b) = ins_all (ins_all f a) b.
Proof. unfold ins_all. apply fold_left_app. Qed.

Lemma upd_nth_id i f : upd_nth i (fun t => Nd (tkey t) (tkids t)) f = f.
Proof. revert i. induction f as [|t r IH]; intros i; [destruct i; reflexivity|]. destruct i; simpl; [rewrite tree_eta|rewrite IH]; reflexivity. Qed.

Lemma upd_nth_comp i g1 g2 f : upd_nth i g2 (upd_nth i g1 f) = upd_nth i (fun t => g2 (g1 t)) f.
Proof. revert i. induction f as [|t r IH]; intros i; [destruct i; reflexivity|]. destruct i; simpl; [reflexivity|rewrite IH; reflexivity]. Qed.

Lemma upd_nth_ext i g1 g2 f : (forall t, g1 t = g2 t) -> upd_nth i g1 f = upd_nth i g2 f.
Proof. intros H. revert i. induction f as [|t r IH]; intros i; [destruct i; reflexivity|]. destruct i; simpl; [rewrite H|rewrite IH]; reflexivity. Qed.

Lemma upd_nth_mid pre t post g : upd_nth (length pre) g (pre ++ t :: post) = pre ++ g t :: post.
Proof. induction pre as [|x pre IH]; simpl; [reflexivity|rewrite IH; reflexivity]. Qed.

Lemma ins_push f i p k : p <> [] -> ins f (i :: p) k = upd_nth i (fun t => Nd (tkey t) (ins (tkids t) p k)) f.
Proof. destruct p; [congruence|reflexivity]. Qed.

(* inserting a batch of items that all go below tree i only changes the attrs of tree i *)
Lemma ins_all_push i items : Forall (fun it => fst it <> []) items -> forall f,
  ins_all f (map (push i) items) = upd_nth i (fun t => Nd (tkey t) (ins_all (tkids t) items)) f.
Proof.
  induction 1 as [|it r Hit _ IH]; intros f.
  - simpl. symmetry. apply upd_nth_id.
  - cbn [map]. unfold ins_all at 1. cbn [fold_left]. fold (ins_all (ins f (fst (push i it)) (snd (push i it))) (map (push i) r)).
    unfold push at 1 2. cbn [fst snd]. rewrite ins_push by exact Hit. rewrite IH, upd_nth_comp.
    apply upd_nth_ext. intros t. cbn [tkey tkids]. reflexivity.
Qed.

Lemma lv_nonempty d i f : Forall (fun it => fst it <> []) (lv_from (S d) i f).
Proof.
  revert i. induction f as [|t r IH]; intros i; [rewrite lv_from_nil; constructor|].
  rewrite lv_from_cons. apply Forall_app. split; [|apply IH].
  destruct d; [constructor; [discriminate|constructor]|].
  apply Forall_forall. intros x Hx. apply in_map_iff in Hx as [y [<- _]]. discriminate.
Qed.

(* level 1: one fresh leaf per tree, appended in order *)
Lemma ins_level1 f : forall g i, ins_all g (lv_from 1 i f) = g ++ map (fun t => Nd (tkey t) []) f.
Proof.
  induction f as [|t r IH]; intros g i; [rewrite lv_from_nil, app_nil_r; reflexivity|].
  rewrite lv_from_cons. cbn [app]. unfold ins_all. cbn [fold_left fst snd ins]. fold (ins_all (g ++ [Nd (tkey t) []]) (lv_from 1 (S i) r)).
  rewrite IH, <- app_assoc. reflexivity.
Qed.

(* adding level d+1 to the forest cut at depth d gives the forest cut at depth d+1 *)
Lemma add_level d : forall f, ins_all (trunc d f) (lv_from (S d) 0 f) = trunc (S d) f.
Proof.
  induction d as [|d IH]; intros f.
  - rewrite ins_level1. reflexivity.
  - set (T := fun t => Nd (tkey t) (trunc d (tkids t))). set (T' := fun t => Nd (tkey t) (trunc (S d) (tkids t))).
    assert (forall todo done, ins_all (map T' done ++ map T todo) (lv_from (S (S d)) (length done) todo) = map T' (done ++ todo)) as H.
    { induction todo as [|t r IHr]; intros done.
      - rewrite lv_from_nil, !app_nil_r. reflexivity.
      - rewrite lv_from_cons, ins_all_app. rewrite ins_all_push by apply lv_nonempty.
        cbn [map]. replace (length done) with (length (map T' done)) by apply map_length.
        rewrite upd_nth_mid. change (tkids (T t)) with (trunc d (tkids t)). change (tkey (T t)) with (tkey t). rewrite IH.
        fold (T' t). specialize (IHr (done ++ [t])). rewrite app_length, map_app in IHr. cbn [length map] in IHr.
        rewrite Nat.add_1_r, <- !app_assoc in IHr. cbn [app] in IHr. rewrite map_length. exact IHr. }
    specialize (H f []). cbn [map app length] in H. exact H.
Qed.

Lemma rebuild_levels f D : fold_left (fun g d => ins_all g (lv_from d 0 f)) (seq 1 D) [] = trunc D f.
Proof.
  induction D as [|D IH]; [reflexivity|].
  rewrite seq_S, fold_left_app, IH. cbn [fold_left Nat.add]. apply add_level.
Qed.

(* ---- the stable sort by depth is the listing level by level ---- *)
Lemma depth_push i it : depth_of (push i it) = S (depth_of it).
Proof. reflexivity. Qed.

Lemma filter_map_push d i l :
  filter (fun it => Nat.eqb (depth_of it) (S d)) (map (push i) l) = map (push i) (filter (fun it => Nat.eqb (depth_of it) d) l).
Proof. induction l as [|x l IH]; [reflexivity|]. cbn [map filter]. rewrite depth_push. cbn [Nat.eqb]. destruct (Nat.eqb (depth_of x) d); cbn [map]; rewrite IH; reflexivity. Qed.

Lemma flatten_depth_pos i f : Forall (fun it => depth_of it <> 0) (flatten_from i f).
Proof.
  revert i. induction f as [|t r IH]; intros i; [constructor|]. cbn [flatten_from]. apply Forall_app. split; [|apply IH].
  apply Forall_forall. intros x Hx. apply in_map_iff in Hx as [y [<- _]]. rewrite depth_push. discriminate.
Qed.

Lemma filter_depth0 i f : filter (fun it => Nat.eqb (depth_of it) 0) (flatten_from i f) = [].
Proof.
  pose proof (flatten_depth_pos i f) as H. induction H as [|x l Hx _ IH]; [reflexivity|]. cbn [filter].
  destruct (Nat.eqb (depth_of x) 0) eqn:E; [apply Nat.eqb_eq in E; contradiction|exact IH].
Qed.

Lemma filter_level d : forall f i, filter (fun it => Nat.eqb (depth_of it) (S d)) (flatten_from i f) = lv_from (S d) i f.
Proof.
  induction d as [|d IH]; intros f; induction f as [|t r IHf]; intros i; try (rewrite lv_from_nil; reflexivity);
    cbn [flatten_from]; rewrite filter_app, lv_from_cons, IHf; f_equal; rewrite fl_tree_eq; cbn [map filter]; unfold push at 1; cbn [fst snd depth_of length Nat.eqb].
  - rewrite filter_map_push, filter_depth0. reflexivity.
  - rewrite filter_map_push, IH. reflexivity.
Qed.

Lemma by_depth_levels f : by_depth (flatten f) = flat_map (fun d => lv_from d 0 f) (seq 1 (max_depth (flatten f))).
Proof.
  unfold by_depth. generalize (max_depth (flatten f)) as D. intros D.
  assert (forall a, flat_map (fun d => filter (fun it => Nat.eqb (depth_of it) d) (flatten f)) (seq (S a) D) = flat_map (fun d => lv_from d 0 f) (seq (S a) D)) as H.
  { induction D as [|D IHD]; intros a; [reflexivity|]. cbn [seq flat_map]. rewrite IHD. f_equal. apply filter_level. }
  apply H.
Qed.

Lemma ins_all_flat_map f ds : forall g, ins_all g (flat_map (fun d => lv_from d 0 f) ds) = fold_left (fun g d => ins_all g (lv_from d 0 f)) ds g.
Proof. induction ds as [|d ds IH]; intros g; [reflexivity|]. cbn [flat_map fold_left]. rewrite ins_all_app. apply IH. Qed.

(* ---- cutting at the maximal depth changes nothing ---- *)
Lemma max_depth_ge l it : In it l -> depth_of it <= max_depth l.
Proof. induction l as [|x l IH]; [contradiction|]. intros [->|H]; simpl; [lia|specialize (IH H); lia]. Qed.

Lemma in_flatten_kids t f : In t f -> forall i, exists j, forall it, In it (flatten_from 0 (tkids t)) -> In (push j it) (flatten_from i f).
Proof.
  induction f as [|x r IH]; [contradiction|]. intros [->|H] i.
  - exists i. intros it Hit. cbn [flatten_from]. apply in_or_app. left. rewrite fl_tree_eq. cbn [map]. right. apply in_map. exact Hit.
  - destruct (IH H (S i)) as [j Hj]. exists j. intros it Hit. cbn [flatten_from]. apply in_or_app. right. apply Hj. exact Hit.
Qed.

Lemma trunc_full D : forall f i, (forall it, In it (flatten_from i f) -> depth_of it <= D) -> trunc D f = f.
Proof.
  induction D as [|D IH]; intros f i H.
  - destruct f as [|t r]; [reflexivity|]. exfalso. cbn [flatten_from] in H. rewrite fl_tree_eq in H. cbn [map] in H.
    specialize (H (push i ([], tkey t)) (or_introl eq_refl)). rewrite depth_push in H. lia.
  - cbn [trunc]. rewrite <- (map_id f) at 2. apply map_ext_in. intros t Ht.
    rewrite (IH (tkids t) 0); [apply tree_eta|]. intros it Hit.
    destruct (in_flatten_kids t f Ht i) as [j Hj]. specialize (H _ (Hj _ Hit)). rewrite depth_push in H. lia.
Qed.

(* ---- the theorem ---- *)
Theorem attrs_roundtrip : forall f, rebuild (flatten f) = f.
Proof.
  intros f. unfold rebuild. rewrite by_depth_levels, ins_all_flat_map, rebuild_levels.
  apply (trunc_full _ f 0). intros it Hit. apply max_depth_ge. exact Hit.
Qed.


(* ---- export order ---- *)
Section TreeInd.
  Variable P : tree -> Prop.
  Hypothesis H : forall k cs, Forall P cs -> P (Nd k cs).
  Fixpoint tree_ind' (t : tree) : P t :=
    match t with
    | Nd k cs => H k cs ((fix go (l : forest) : Forall P l :=
                   match l with [] => Forall_nil P | x :: r => Forall_cons x (tree_ind' x) (go r) end) cs)
    end.
End TreeInd.

Fixpoint tree_keys (t : tree) : list nat :=
  match t with Nd k cs => k :: (fix go (l : forest) : list nat := match l with [] => [] | c :: r => tree_keys c ++ go r end) cs end.
Definition forest_keys (f : forest) : list nat := flat_map tree_keys f.
Lemma tree_keys_eq k cs : tree_keys (Nd k cs) = k :: forest_keys cs.
Proof. reflexivity. Qed.

Section OrderFacts.
  Variable tmod : nat -> nat.
  Variable m : nat.

  Lemma mem_nat_in x l : mem_nat x l = true <-> In x l.
  Proof.
    induction l as [|y l IH]; simpl; [split; [discriminate|tauto]|].
    rewrite orb_true_iff, IH, Nat.eqb_eq. split; intros [H|H]; auto.
  Qed.

  Lemma order_attr_eq k cs o :
    order_attr tmod m (Nd k cs) o =
    let o1 := fold_left (fun o c => order_attr tmod m c o) cs o in
    if Nat.eqb m (tmod k) && negb (mem_nat k o1) then o1 ++ [k] else o1.
  Proof.
    cbn [order_attr].
    assert (forall l o0, (fix go (l : forest) (o : list nat) : list nat := match l with [] => o | c :: r => go r (order_attr tmod m c o) end) l o0
                         = fold_left (fun o c => order_attr tmod m c o) l o0) as E
      by (induction l as [|c r IH]; intros o0; [reflexivity|apply IH]).
    rewrite E. reflexivity.
  Qed.

  Definition grows_and_covers (t : tree) : Prop := forall o,
    (exists e, order_attr tmod m t o = o ++ e) /\
    (forall k, In k (tree_keys t) -> tmod k = m -> In k (order_attr tmod m t o)).

  Lemma fold_attrs cs : Forall grows_and_covers cs -> forall o,
    (exists e, fold_left (fun o c => order_attr tmod m c o) cs o = o ++ e) /\
    (forall k, In k (forest_keys cs) -> tmod k = m -> In k (fold_left (fun o c => order_attr tmod m c o) cs o)).
  Proof.
    induction 1 as [|c r Hc _ IH]; intros o.
    - split; [exists []; rewrite app_nil_r; reflexivity|intros k []].
    - cbn [fold_left]. destruct (Hc o) as [[e1 E1] C1]. destruct (IH (order_attr tmod m c o)) as [[e2 E2] C2]. split.
      + exists (e1 ++ e2). rewrite E2, E1, app_assoc. reflexivity.
      + intros k Hk Hm. cbn [forest_keys flat_map] in Hk. apply in_app_or in Hk as [Hk|Hk].
        * rewrite E2. apply in_or_app. left. apply C1; assumption.
        * apply C2; assumption.
  Qed.

  Lemma attr_ok t : grows_and_covers t.
  Proof.
    induction t as [k cs IH] using tree_ind'. intros o. rewrite order_attr_eq. cbn zeta.
    destruct (fold_attrs cs IH o) as [[e E] C]. rewrite tree_keys_eq.
    destruct (Nat.eqb m (tmod k) && negb (mem_nat k (fold_left (fun o c => order_attr tmod m c o) cs o))) eqn:B.
    - split; [exists (e ++ [k]); rewrite E, app_assoc; reflexivity|].
      intros x [->|Hx] Hm; apply in_or_app; [right; left; reflexivity|left; apply C; assumption].
    - split; [exists e; exact E|]. intros x [->|Hx] Hm; [|apply C; assumption].
      apply andb_false_iff in B as [B|B].
      + apply Nat.eqb_neq in B. congruence.
      + apply negb_false_iff in B. apply mem_nat_in. exact B.
  Qed.

  (* a row whose key is appended at its own turn comes after every in-module type key of its attrs
     (all depths) and after its own in-module type key *)
  Lemma order_row_spec r o : mem_nat (rkey r) (fold_left (fun o c => order_attr tmod m c o) (rattrs r) o) = false ->
    rkey r <> rtype r ->
    exists a, order_row tmod m r o = a ++ [rkey r] /\ (exists e, a = o ++ e) /\
      (forall k, In k (forest_keys (rattrs r)) -> tmod k = m -> In k a) /\ (rtmod r = m -> In (rtype r) a).
  Proof.
    intros Hk Hne. unfold order_row.
    assert (Forall grows_and_covers (rattrs r)) as HA by (apply Forall_forall; intros; apply attr_ok).
    destruct (fold_attrs (rattrs r) HA o) as [[e E] C].
    set (o1 := fold_left (fun o c => order_attr tmod m c o) (rattrs r) o) in *.
    destruct (Nat.eqb m (rtmod r) && negb (mem_nat (rtype r) o1)) eqn:B.
    - assert (mem_nat (rkey r) (o1 ++ [rtype r]) = false) as Hk2.
      { destruct (mem_nat (rkey r) (o1 ++ [rtype r])) eqn:X; [|reflexivity]. apply mem_nat_in in X. apply in_app_or in X as [X|[X|[]]].
        - apply mem_nat_in in X. congruence.
        - congruence. }
      rewrite Hk2. exists (o1 ++ [rtype r]). repeat split.
      + exists (e ++ [rtype r]). rewrite E, app_assoc. reflexivity.
      + intros k Hin Hm. apply in_or_app. left. apply C; assumption.
      + intros _. apply in_or_app. right. left. reflexivity.
    - rewrite Hk. exists o1. repeat split.
      + exists e. exact E.
      + intros k Hin Hm. apply C; assumption.
      + intros Hm. apply andb_false_iff in B as [B|B].
        * apply Nat.eqb_neq in B. congruence.
        * apply negb_false_iff in B. apply mem_nat_in. exact B.
  Qed.

  Lemma order_row_grows r o : exists e, order_row tmod m r o = o ++ e.
  Proof.
    unfold order_row.
    assert (Forall grows_and_covers (rattrs r)) as HA by (apply Forall_forall; intros; apply attr_ok).
    destruct (fold_attrs (rattrs r) HA o) as [[e E] _].
    set (o1 := fold_left (fun o c => order_attr tmod m c o) (rattrs r) o) in *.
    set (o2 := if Nat.eqb m (rtmod r) && negb (mem_nat (rtype r) o1) then o1 ++ [rtype r] else o1).
    assert (exists e2, o2 = o ++ e2) as [e2 E2].
    { unfold o2. destruct (Nat.eqb m (rtmod r) && negb (mem_nat (rtype r) o1)); [exists (e ++ [rtype r]); rewrite E, app_assoc; reflexivity|exists e; exact E]. }
    destruct (mem_nat (rkey r) o2); [exists e2; exact E2|exists (e2 ++ [rkey r]); rewrite E2, app_assoc; reflexivity].
  Qed.

  Lemma order_keys_grows rows : forall o, exists e, fold_left (fun o r => if Nat.eqb (rmod r) m then order_row tmod m r o else o) rows o = o ++ e.
  Proof.
    induction rows as [|r rows IH]; intros o; [exists []; rewrite app_nil_r; reflexivity|]. cbn [fold_left].
    destruct (Nat.eqb (rmod r) m); [|apply IH].
    destruct (order_row_grows r o) as [e1 E1]. rewrite E1. destruct (IH (o ++ e1)) as [e2 E2]. rewrite E2.
    exists (e1 ++ e2). rewrite app_assoc. reflexivity.
  Qed.

  Theorem export_order_partial pre r post :
    rmod r = m -> rkey r <> rtype r ->
    mem_nat (rkey r) (fold_left (fun o c => order_attr tmod m c o) (rattrs r) (order_keys tmod m pre)) = false ->
    exists a b, order_keys tmod m (pre ++ r :: post) = a ++ rkey r :: b /\
      (forall k, In k (forest_keys (rattrs r)) -> tmod k = m -> In k a) /\ (rtmod r = m -> In (rtype r) a).
  Proof.
    intros Hm Hne Hk. unfold order_keys in *. rewrite fold_left_app. cbn [fold_left]. rewrite Hm, Nat.eqb_refl.
    destruct (order_row_spec r _ Hk Hne) as [a [Ea [_ [Ca Ct]]]]. rewrite Ea.
    destruct (order_keys_grows post (a ++ [rkey r])) as [e E]. rewrite E.
    exists a, e. rewrite <- app_assoc. split; [reflexivity|]. split; assumption.
  Qed.
End OrderFacts.
