(* C14: the flattened attrs of a symbol are rebuilt to the same forest, for every forest. *)
From Coq Require Import List Arith Bool Lia.
Import ListNotations.
From Tranp Require Import Model.SymJson.

(* the forest cut below depth d *)
Fixpoint trunc (d : nat) (f : forest) : forest :=
  match d with 0 => [] | S d' => map (fun t => Nd (tkey t) (trunc d' (tkids t))) f end.

(* items of depth d in document order, computed structurally *)
Fixpoint lv_from (d i : nat) (f : forest) {struct d} : list item :=
  match d with
  | 0 => []
  | S d' => (fix go (i : nat) (l : forest) : list item :=
               match l with
               | [] => []
               | t :: r => (match d' with 0 => [([i], tkey t)] | S _ => map (push i) (lv_from d' 0 (tkids t)) end) ++ go (S i) r
               end) i f
  end.

Lemma lv_from_nil d i : lv_from d i [] = [].
Proof. destruct d; reflexivity. Qed.
Lemma lv_from_cons d i t r :
  lv_from (S d) i (t :: r) = (match d with 0 => [([i], tkey t)] | S _ => map (push i) (lv_from d 0 (tkids t)) end) ++ lv_from (S d) (S i) r.
Proof. reflexivity. Qed.

Lemma fl_tree_eq t : fl_tree t = ([], tkey t) :: flatten_from 0 (tkids t).
Proof.
  destruct t as [k cs]. reflexivity.
Qed.

Lemma tree_eta t : Nd (tkey t) (tkids t) = t.
Proof. destruct t; reflexivity. Qed.

(* ---- insertion ---- *)
Lemma ins_all_app f a b : ins_all f (a ++ b) = ins_all (ins_all f a) b.
Proof. unfold ins_all. apply fold_left_app. Qed.

Lemma upd_nth_id i f : upd_nth i (fun t => Nd (tkey t) (tkids t)) f = f.
Proof. revert i. induction f as [|t r IH]; intros i; [destruct i; reflexivity|]. destruct i; simpl; [rewrite tree_eta|rewrite IH]; reflexivity. Qed.

Lemma upd_nth_comp i g1 g2 f : upd_nth i g2 (upd_nth i g1 f) = upd_nth i (fun t => g2 (g1 t)) f.
Proof. revert i. induction f as [|t r IH]; intros i; [destruct i; reflexivity|]. destruct i; simpl; [reflexivity|rewrite IH; reflexivity]. Qed.

Lemma upd_nth_ext i g1 g2 f : (forall t, g1 t = g2 t) -> upd_nth i g1 f = upd_nth i g2 f.
Proof. intros H. revert i. induction f as [|t r IH]; intros i; [destruct i; reflexivity|]. destruct i; simpl; [rewrite H|rewrite IH]; reflexivity. Qed.

Lemma upd_nth_mid pre t post g : upd_nth (length pre) g (pre ++ t :: post) = pre ++ g t :: post.
Proof. induction pre as [|x pre IH]; simpl; [reflexivity|rewrite IH; reflexivity]. Qed.

Lemma ins_push f i p k : p <> [] -> ins f (i :: p) k = upd_nth i (fun t => Nd (tkey t) (ins (tkids t) p k)) f.
Proof. destruct p; [congruence|reflexivity]. Qed.

(* inserting a batch of items that all go below tree i only changes the attrs of tree i *)
Lemma ins_all_push i items : Forall (fun it => fst it <> []) items -> forall f,
  ins_all f (map (push i) items) = upd_nth i (fun t => Nd (tkey t) (ins_all (tkids t) items)) f.
Proof.
  induction 1 as [|it r Hit _ IH]; intros f.
  - simpl. symmetry. apply upd_nth_id.
  - cbn [map]. unfold ins_all at 1. cbn [fold_left]. fold (ins_all (ins f (fst (push i it)) (snd (push i it))) (map (push i) r)).
    unfold push at 1 2. cbn [fst snd]. rewrite ins_push by exact Hit. rewrite IH, upd_nth_comp.
    apply upd_nth_ext. intros t. cbn [tkey tkids]. reflexivity.
Qed.

Lemma lv_nonempty d i f : Forall (fun it => fst it <> []) (lv_from (S d) i f).
Proof.
  revert i. induction f as [|t r IH]; intros i; [rewrite lv_from_nil; constructor|].
  rewrite lv_from_cons. apply Forall_app. split; [|apply IH].
  destruct d; [constructor; [discriminate|constructor]|].
  apply Forall_forall. intros x Hx. apply in_map_iff in Hx as [y [<- _]]. discriminate.
Qed.

(* level 1: one fresh leaf per tree, appended in order *)
Lemma ins_level1 f : forall g i, ins_all g (lv_from 1 i f) = g ++ map (fun t => Nd (tkey t) []) f.
Proof.
  induction f as [|t r IH]; intros g i; [rewrite lv_from_nil, app_nil_r; reflexivity|].
  rewrite lv_from_cons. cbn [app]. unfold ins_all. cbn [fold_left fst snd ins]. fold (ins_all (g ++ [Nd (tkey t) []]) (lv_from 1 (S i) r)).
  rewrite IH, <- app_assoc. reflexivity.
Qed.

(* adding level d+1 to the forest cut at depth d gives the forest cut at depth d+1 *)
Lemma add_level d : forall f, ins_all (trunc d f) (lv_from (S d) 0 f) = trunc (S d) f.
Proof.
  induction d as [|d IH]; intros f.
  - rewrite ins_level1. reflexivity.
  - set (T := fun t => Nd (tkey t) (trunc d (tkids t))). set (T' := fun t => Nd (tkey t) (trunc (S d) (tkids t))).
    assert (forall todo done, ins_all (map T' done ++ map T todo) (lv_from (S (S d)) (length done) todo) = map T' (done ++ todo)) as H.
    { induction todo as [|t r IHr]; intros done.
      - rewrite lv_from_nil, !app_nil_r. reflexivity.
      - rewrite lv_from_cons, ins_all_app. rewrite ins_all_push by apply lv_nonempty.
        cbn [map]. replace (length done) with (length (map T' done)) by apply map_length.
        rewrite upd_nth_mid. change (tkids (T t)) with (trunc d (tkids t)). change (tkey (T t)) with (tkey t). rewrite IH.
        fold (T' t). specialize (IHr (done ++ [t])). rewrite app_length, map_app in IHr. cbn [length map] in IHr.
        rewrite Nat.add_1_r, <- !app_assoc in IHr. cbn [app] in IHr. rewrite map_length. exact IHr. }
    specialize (H f []). cbn [map app length] in H. exact H.
Qed.

Lemma rebuild_levels f D : fold_left (fun g d => ins_all g (lv_from d 0 f)) (seq 1 D) [] = trunc D f.
Proof.
  induction D as [|D IH]; [reflexivity|].
  rewrite seq_S, fold_left_app, IH. cbn [fold_left Nat.add]. apply add_level.
Qed.

(* ---- the stable sort by depth is the listing level by level ---- *)
Lemma depth_push i it : depth_of (push i it) = S (depth_of it).
Proof. reflexivity. Qed.

Lemma filter_map_push d i l :
  filter (fun it => Nat.eqb (depth_of it) (S d)) (map (push i) l) = map (push i) (filter (fun it => Nat.eqb (depth_of it) d) l).
Proof. induction l as [|x l IH]; [reflexivity|]. cbn [map filter]. rewrite depth_push. cbn [Nat.eqb]. destruct (Nat.eqb (depth_of x) d); cbn [map]; rewrite IH; reflexivity. Qed.

Lemma flatten_depth_pos i f : Forall (fun it => depth_of it <> 0) (flatten_from i f).
Proof.
  revert i. induction f as [|t r IH]; intros i; [constructor|]. cbn [flatten_from]. apply Forall_app. split; [|apply IH].
  apply Forall_forall. intros x Hx. apply in_map_iff in Hx as [y [<- _]]. rewrite depth_push. discriminate.
Qed.

Lemma filter_depth0 i f : filter (fun it => Nat.eqb (depth_of it) 0) (flatten_from i f) = [].
Proof.
  pose proof (flatten_depth_pos i f) as H. induction H as [|x l Hx _ IH]; [reflexivity|]. cbn [filter].
  destruct (Nat.eqb (depth_of x) 0) eqn:E; [apply Nat.eqb_eq in E; contradiction|exact IH].
Qed.

Lemma filter_level d : forall f i, filter (fun it => Nat.eqb (depth_of it) (S d)) (flatten_from i f) = lv_from (S d) i f.
Proof.
  induction d as [|d IH]; intros f; induction f as [|t r IHf]; intros i; try (rewrite lv_from_nil; reflexivity);
    cbn [flatten_from]; rewrite filter_app, lv_from_cons, IHf; f_equal; rewrite fl_tree_eq; cbn [map filter]; unfold push at 1; cbn [fst snd depth_of length Nat.eqb].
  - rewrite filter_map_push, filter_depth0. reflexivity.
  - rewrite filter_map_push, IH. reflexivity.
Qed.

Lemma by_depth_levels f : by_depth (flatten f) = flat_map (fun d => lv_from d 0 f) (seq 1 (max_depth (flatten f))).
Proof.
  unfold by_depth. generalize (max_depth (flatten f)) as D. intros D.
  assert (forall a, flat_map (fun d => filter (fun it => Nat.eqb (depth_of it) d) (flatten f)) (seq (S a) D) = flat_map (fun d => lv_from d 0 f) (seq (S a) D)) as H.
  { induction D as [|D IHD]; intros a; [reflexivity|]. cbn [seq flat_map]. rewrite IHD. f_equal. apply filter_level. }
  apply H.
Qed.

Lemma ins_all_flat_map f ds : forall g, ins_all g (flat_map (fun d => lv_from d 0 f) ds) = fold_left (fun g d => ins_all g (lv_from d 0 f)) ds g.
Proof. induction ds as [|d ds IH]; intros g; [reflexivity|]. cbn [flat_map fold_left]. rewrite ins_all_app. apply IH. Qed.

(* ---- cutting at the maximal depth changes nothing ---- *)
Lemma max_depth_ge l it : In it l -> depth_of it <= max_depth l.
Proof. induction l as [|x l IH]; [contradiction|]. intros [->|H]; simpl; [lia|specialize (IH H); lia]. Qed.

Lemma in_flatten_kids t f : In t f -> forall i, exists j, forall it, In it (flatten_from 0 (tkids t)) -> In (push j it) (flatten_from i f).
Proof.
  induction f as [|x r IH]; [contradiction|]. intros [->|H] i.
  - exists i. intros it Hit. cbn [flatten_from]. apply in_or_app. left. rewrite fl_tree_eq. cbn [map]. right. apply in_map. exact Hit.
  - destruct (IH H (S i)) as [j Hj]. exists j. intros it Hit. cbn [flatten_from]. apply in_or_app. right. apply Hj. exact Hit.
Qed.

Lemma trunc_full D : forall f i, (forall it, In it (flatten_from i f) -> depth_of it <= D) -> trunc D f = f.
Proof.
  induction D as [|D IH]; intros f i H.
  - destruct f as [|t r]; [reflexivity|]. exfalso. cbn [flatten_from] in H. rewrite fl_tree_eq in H. cbn [map] in H.
    specialize (H (push i ([], tkey t)) (or_introl eq_refl)). rewrite depth_push in H. lia.
  - cbn [trunc]. rewrite <- (map_id f) at 2. apply map_ext_in. intros t Ht.
    rewrite (IH (tkids t) 0); [apply tree_eta|]. intros it Hit.
    destruct (in_flatten_kids t f Ht i) as [j Hj]. specialize (H _ (Hj _ Hit)). rewrite depth_push in H. lia.
Qed.

(* ---- the theorem ---- *)
Theorem attrs_roundtrip : forall f, rebuild (flatten f) = f.
Proof.
  intros f. unfold rebuild. rewrite by_depth_levels, ins_all_flat_map, rebuild_levels.
  apply (trunc_full _ f 0). intros it Hit. apply max_depth_ge. exact Hit.
Qed.


(* ---- export order ---- *)
Section XTreeInd.
  Variable P : xtree -> Prop.
  Hypothesis H : forall k cs ds, Forall P cs -> Forall P ds -> P (XNd k cs ds).
  Fixpoint xtree_ind' (t : xtree) : P t :=
    match t with
    | XNd k cs ds =>
        H k cs ds
          ((fix go (l : xforest) : Forall P l :=
              match l with [] => Forall_nil P | x :: r => Forall_cons x (xtree_ind' x) (go r) end) cs)
          ((fix go (l : xforest) : Forall P l :=
              match l with [] => Forall_nil P | x :: r => Forall_cons x (xtree_ind' x) (go r) end) ds)
    end.
End XTreeInd.

(* the keys a symbol uses: its type and, recursively, its attrs (not the declarations looked up on the way) *)
Fixpoint ukeys (t : xtree) : list nat :=
  match t with
  | XNd k cs _ => k :: (fix go (l : xforest) : list nat := match l with [] => [] | c :: r => ukeys c ++ go r end) cs
  end.
Definition uforest_keys (f : xforest) : list nat := flat_map ukeys f.
Lemma ukeys_eq k cs ds : ukeys (XNd k cs ds) = k :: uforest_keys cs.
Proof. reflexivity. Qed.

Section OrderFacts.
  Variable tmod : nat -> nat.
  Variable m : nat.

  Lemma mem_nat_in x l : mem_nat x l = true <-> In x l.
  Proof.
    induction l as [|y l IH]; simpl; [split; [discriminate|tauto]|].
    rewrite orb_true_iff, IH, Nat.eqb_eq. split; intros [H|H]; auto.
  Qed.

  Lemma order_x_eq k cs ds bl o :
    order_x tmod m (XNd k cs ds) bl o =
    let o1 := order_forest tmod m bl cs o in
    if Nat.eqb m (tmod k) && negb (mem_nat k o1) && negb (mem_nat k bl)
    then order_forest tmod m (k :: bl) ds o1 ++ [k]
    else o1.
  Proof.
    cbn [order_x]. unfold order_forest.
    assert (forall b l o0, (fix go (l : xforest) (o : list nat) : list nat := match l with [] => o | c :: r => go r (order_x tmod m c b o) end) l o0
                           = fold_left (fun o c => order_x tmod m c b o) l o0) as E
      by (intros b l; induction l as [|c r IH]; intros o0; [reflexivity|apply IH]).
    rewrite !E. reflexivity.
  Qed.

  (* the result extends the list it was given, and lists every key of the exported module that the symbol uses and that is not
     in the middle of being listed (blocked) *)
  Definition grows_and_covers (t : xtree) : Prop := forall bl o,
    (exists e, order_x tmod m t bl o = o ++ e) /\
    (forall k, In k (ukeys t) -> tmod k = m -> ~ In k bl -> In k (order_x tmod m t bl o)).

  Lemma fold_attrs cs : Forall grows_and_covers cs -> forall bl o,
    (exists e, order_forest tmod m bl cs o = o ++ e) /\
    (forall k, In k (uforest_keys cs) -> tmod k = m -> ~ In k bl -> In k (order_forest tmod m bl cs o)).
  Proof.
    unfold order_forest. induction 1 as [|c r Hc _ IH]; intros bl o.
    - split; [exists []; rewrite app_nil_r; reflexivity|intros k []].
    - cbn [fold_left]. destruct (Hc bl o) as [[e1 E1] C1]. destruct (IH bl (order_x tmod m c bl o)) as [[e2 E2] C2]. split.
      + exists (e1 ++ e2). rewrite E2, E1, app_assoc. reflexivity.
      + intros k Hk Hm Hb. cbn [uforest_keys flat_map] in Hk. apply in_app_or in Hk as [Hk|Hk].
        * rewrite E2. apply in_or_app. left. apply C1; assumption.
        * apply C2; assumption.
  Qed.

  Lemma attr_ok t : grows_and_covers t.
  Proof.
    induction t as [k cs ds IHc IHd] using xtree_ind'. intros bl o. rewrite order_x_eq. cbn zeta.
    destruct (fold_attrs cs IHc bl o) as [[e E] C]. rewrite ukeys_eq.
    set (o1 := order_forest tmod m bl cs o) in *.
    destruct (Nat.eqb m (tmod k) && negb (mem_nat k o1) && negb (mem_nat k bl)) eqn:B.
    - destruct (fold_attrs ds IHd (k :: bl) o1) as [[e2 E2] _].
      split; [exists (e ++ e2 ++ [k]); rewrite E2, E, <- !app_assoc; reflexivity|].
      intros x [->|Hx] Hm Hb; apply in_or_app; [right; left; reflexivity|].
      left. rewrite E2. apply in_or_app. left. apply C; assumption.
    - split; [exists e; exact E|]. intros x [->|Hx] Hm Hb; [|apply C; assumption].
      apply andb_false_iff in B as [B|B]; [apply andb_false_iff in B as [B|B]|].
      + apply Nat.eqb_neq in B. congruence.
      + apply negb_false_iff in B. apply mem_nat_in. exact B.
      + apply negb_false_iff in B. apply mem_nat_in in B. contradiction.
  Qed.

  Lemma all_ok f : Forall grows_and_covers f.
  Proof. apply Forall_forall. intros; apply attr_ok. Qed.

  (* the repaired behaviour: a type key that is listed now comes after the keys its declaration uses (the type variables of a
     generic class, for one) *)
  Theorem declaration_first k cs d bl o :
    Nat.eqb m (tmod k) && negb (mem_nat k (order_forest tmod m bl cs o)) && negb (mem_nat k bl) = true ->
    exists a, order_x tmod m (XNd k cs d) bl o = a ++ [k] /\
      (forall x, In x (uforest_keys d) -> tmod x = m -> ~ In x (k :: bl) -> In x a).
  Proof.
    intros B. rewrite order_x_eq. cbn zeta. rewrite B.
    exists (order_forest tmod m (k :: bl) d (order_forest tmod m bl cs o)). split; [reflexivity|].
    intros x Hx Hm Hb. apply (fold_attrs d (all_ok d) (k :: bl)); assumption.
  Qed.

  (* a row whose key is appended at its own turn comes after every in-module type key its attrs use (all depths), after its own
     in-module type key, and - when that type is listed at this point - after the keys the declaration of that type uses *)
  Lemma order_row_pre_spec r o :
    (exists e, order_row_pre tmod m r o = o ++ e) /\
    (forall k, In k (uforest_keys (rattrs r)) -> tmod k = m -> In k (order_row_pre tmod m r o)) /\
    (rtmod r = m -> In (rtype r) (order_row_pre tmod m r o)) /\
    (rtmod r = m -> mem_nat (rtype r) (order_forest tmod m [] (rattrs r) o) = false ->
     exists a, order_row_pre tmod m r o = a ++ [rtype r] /\
       forall k, In k (uforest_keys (rdecl r)) -> tmod k = m -> k <> rtype r -> In k a).
  Proof.
    unfold order_row_pre.
    destruct (fold_attrs (rattrs r) (all_ok _) [] o) as [[e E] C].
    set (o1 := order_forest tmod m [] (rattrs r) o) in *.
    destruct (Nat.eqb m (rtmod r) && negb (mem_nat (rtype r) o1)) eqn:B.
    - set (o2 := order_forest tmod m [rtype r] (rdecl r) o1).
      destruct (fold_attrs (rdecl r) (all_ok _) [rtype r] o1) as [[e2 E2] _]. fold o2 in E2.
      repeat split.
      + exists (e ++ e2 ++ [rtype r]). rewrite E2, E, <- !app_assoc. reflexivity.
      + intros k Hin Hm. apply in_or_app. left. rewrite E2. apply in_or_app. left. apply C; [assumption|assumption|intros []].
      + intros _. apply in_or_app. right. left. reflexivity.
      + intros _ _. exists o2. split; [reflexivity|]. intros k Hin Hm Hne. unfold o2.
        apply (fold_attrs (rdecl r) (all_ok _) [rtype r]); [assumption|assumption|]. intros [Hx|[]]. congruence.
    - repeat split.
      + exists e. exact E.
      + intros k Hin Hm. apply C; [assumption|assumption|intros []].
      + intros Hm. apply andb_false_iff in B as [B|B].
        * apply Nat.eqb_neq in B. congruence.
        * apply negb_false_iff in B. apply mem_nat_in. exact B.
      + intros Hm Hnot. rewrite Hnot in B. apply andb_false_iff in B as [B|B]; [apply Nat.eqb_neq in B; congruence|discriminate].
  Qed.

  Lemma order_row_grows r o : exists e, order_row tmod m r o = o ++ e.
  Proof.
    unfold order_row. destruct (order_row_pre_spec r o) as [[e E] _].
    destruct (mem_nat (rkey r) (order_row_pre tmod m r o)); [exists e; exact E|exists (e ++ [rkey r]); rewrite E, app_assoc; reflexivity].
  Qed.

  Lemma order_keys_grows rows : forall o, exists e, fold_left (fun o r => if Nat.eqb (rmod r) m then order_row tmod m r o else o) rows o = o ++ e.
  Proof.
    induction rows as [|r rows IH]; intros o; [exists []; rewrite app_nil_r; reflexivity|]. cbn [fold_left].
    destruct (Nat.eqb (rmod r) m); [|apply IH].
    destruct (order_row_grows r o) as [e1 E1]. rewrite E1. destruct (IH (o ++ e1)) as [e2 E2]. rewrite E2.
    exists (e1 ++ e2). rewrite app_assoc. reflexivity.
  Qed.

  Theorem export_order_partial pre r post :
    rmod r = m ->
    mem_nat (rkey r) (order_row_pre tmod m r (order_keys tmod m pre)) = false ->
    exists a b, order_keys tmod m (pre ++ r :: post) = a ++ rkey r :: b /\
      (forall k, In k (uforest_keys (rattrs r)) -> tmod k = m -> In k a) /\ (rtmod r = m -> In (rtype r) a).
  Proof.
    intros Hm Hk. unfold order_keys in *. rewrite fold_left_app. cbn [fold_left]. rewrite Hm, Nat.eqb_refl.
    set (o0 := fold_left (fun o r0 => if Nat.eqb (rmod r0) m then order_row tmod m r0 o else o) pre []) in *.
    assert (order_row tmod m r o0 = order_row_pre tmod m r o0 ++ [rkey r]) as Er by (unfold order_row; cbv zeta; rewrite Hk; reflexivity).
    rewrite Er.
    destruct (order_row_pre_spec r o0) as [_ [Ca [Ct _]]].
    set (a := order_row_pre tmod m r o0) in *.
    destruct (order_keys_grows post (a ++ [rkey r])) as [e E]. rewrite E.
    exists a, e. rewrite <- app_assoc. split; [reflexivity|]. split; assumption.
  Qed.

  (* the declaration of the row's own type: when the type is listed by this row, the keys its declaration uses come first *)
  Theorem export_order_declaration pre r post :
    rmod r = m -> rtmod r = m ->
    mem_nat (rtype r) (order_forest tmod m [] (rattrs r) (order_keys tmod m pre)) = false ->
    exists a b, order_keys tmod m (pre ++ r :: post) = a ++ rtype r :: b /\
      forall k, In k (uforest_keys (rdecl r)) -> tmod k = m -> k <> rtype r -> In k a.
  Proof.
    intros Hm Ht Hnot. unfold order_keys in *. rewrite fold_left_app. cbn [fold_left]. rewrite Hm, Nat.eqb_refl.
    set (o0 := fold_left (fun o r0 => if Nat.eqb (rmod r0) m then order_row tmod m r0 o else o) pre []) in *.
    destruct (order_row_pre_spec r o0) as [_ [_ [_ Cd]]].
    destruct (Cd Ht Hnot) as [a [Ea Ca]].
    assert (order_row tmod m r o0 = if mem_nat (rkey r) (a ++ [rtype r]) then a ++ [rtype r] else (a ++ [rtype r]) ++ [rkey r]) as Er
      by (unfold order_row; cbv zeta; rewrite Ea; reflexivity).
    rewrite Er.
    set (o3 := if mem_nat (rkey r) (a ++ [rtype r]) then a ++ [rtype r] else (a ++ [rtype r]) ++ [rkey r]).
    assert (exists e3, o3 = (a ++ [rtype r]) ++ e3) as [e3 E3]
      by (unfold o3; destruct (mem_nat (rkey r) (a ++ [rtype r])); [exists []; rewrite app_nil_r; reflexivity|exists [rkey r]; reflexivity]).
    destruct (order_keys_grows post o3) as [e E]. rewrite E, E3.
    exists a, (e3 ++ e). rewrite <- !app_assoc. split; [reflexivity|exact Ca].
  Qed.
End OrderFacts.
