From Coq Require Import List Arith NArith Lia Bool.
Import ListNotations.
From Tranp Require Import Model.Procedure.

(* the side condition on trees (checked on every real node by the C09 oracle, and at class level on the
   generated node schema): terminals declare no expandable property; a single-valued property yields one
   node; a node whose properties yield no node has no expandable under-node *)
Inductive WF : node -> Prop :=
| WF_N i term ps un :
    (term = true -> ps = []) ->
    (flat_map (@snd bool (list node)) ps = [] -> un = []) ->
    Forall (fun p => (fst p = false -> length (snd p) = 1) /\ Forall WF (snd p)) ps ->
    WF (Nd i term ps un).

Section P.
Variable R : Type.
Variable h : N -> list (ev R) -> R.
Notation eval := (eval R h).
Notation run := (run R h).
Notation step := (step R h).

Lemma run_app ns1 ns2 s : run (ns1 ++ ns2) s = match run ns1 s with Some s' => run ns2 s' | None => None end.
Proof.
  unfold Procedure.run. rewrite fold_left_app.
  destruct (fold_left step ns1 (Some s)) eqn:E; [reflexivity|].
  clear E. induction ns2 as [|n ns IH]; simpl; auto.
Qed.

Lemma popn_app rs st : popn R (length rs) (rev rs ++ st) = Some (rs, st).
Proof.
  revert st. induction rs as [|r rs IH] using rev_ind; intros st; simpl; [reflexivity|].
  rewrite app_length, rev_app_distr. simpl. rewrite Nat.add_1_r. simpl.
  rewrite IH. reflexivity.
Qed.

Definition results_of (ps : list (bool * list node)) : list R :=
  flat_map (fun p => map eval (snd p)) ps.

Lemma mk_events_ok ps :
  Forall (fun p => fst p = false -> length (snd p) = 1) ps ->
  forall st acc,
  mk_events R (rev ps) (rev (results_of ps) ++ st) acc
  = Some (map (fun p => mk_ev R (fst p) (map eval (snd p))) ps ++ acc, st).
Proof.
  induction ps as [|p ps IH] using rev_ind; intros Hwf st acc; simpl; [reflexivity|].
  rewrite rev_app_distr. simpl.
  unfold results_of in *. rewrite flat_map_app. simpl. rewrite app_nil_r.
  rewrite rev_app_distr, <- app_assoc.
  apply Forall_app in Hwf. destruct Hwf as [Hps Hp]. inversion Hp as [|? ? Hp1 _]; subst.
  assert (Hk : (if fst p then length (snd p) else 1) = length (map eval (snd p))).
  { rewrite map_length. destruct (fst p); auto. symmetry; auto. }
  rewrite Hk, popn_app.
  rewrite IH by assumption. rewrite map_app. simpl. rewrite <- app_assoc. reflexivity.
Qed.

Lemma node_ind2 (P : node -> Prop) :
  (forall i term ps un, Forall (fun p => Forall P (snd p)) ps -> P (Nd i term ps un)) -> forall n, P n.
Proof.
  intros H. fix IH 1. intros [i term ps un]. apply H.
  induction ps as [|p ps IHps]; constructor; [|exact IHps].
  destruct p as [b ns]. simpl. induction ns as [|x xs IHxs]; constructor; [apply IH | exact IHxs].
Qed.

(* processing the flattened children of t and then t itself pushes exactly eval t *)
Theorem run_flat : forall t, WF t -> forall s, run (flat t ++ [t]) s = Some (eval t :: s).
Proof.
  induction t as [i term ps un IH] using node_ind2. intros Hwf s.
  inversion Hwf as [i' term' ps' un' Hterm Hun Hps]; subst.
  rewrite run_app.
  assert (Hchildren : forall s0, run (flat_map (fun p => flat_map (fun c => flat c ++ [c]) (snd p)) ps) s0 = Some (rev (results_of ps) ++ s0)).
  { clear Hwf Hterm Hun. induction ps as [|p ps IHps]; intros s0; [reflexivity|].
    inversion IH as [|? ? IHp IHrest]; subst. inversion Hps as [|? ? [Hp1 Hp2] Hrest]; subst.
    cbn [flat_map]. rewrite run_app.
    assert (Hp : forall s1, run (flat_map (fun c => flat c ++ [c]) (snd p)) s1 = Some (rev (map eval (snd p)) ++ s1)).
    { clear Hp1. induction (snd p) as [|x xs IHxs]; intros s1; [reflexivity|].
      inversion IHp as [|? ? Hx Hxs]; subst. inversion Hp2 as [|? ? Wx Wxs]; subst.
      cbn [flat_map]. rewrite run_app. rewrite (Hx Wx). rewrite (IHxs Hxs Wxs).
      simpl. rewrite <- app_assoc. reflexivity. }
    rewrite Hp. rewrite IHps by assumption.
    unfold results_of. cbn [flat_map]. rewrite rev_app_distr, <- app_assoc. reflexivity. }
  assert (Hflat : run (flat (Nd i term ps un)) s = Some (rev (results_of ps) ++ s)).
  { cbn [flat]. destruct term.
    - rewrite (Hterm eq_refl). reflexivity.
    - destruct (flat_map (@snd bool (list node)) ps) eqn:E.
      + rewrite (Hun eq_refl). simpl.
        assert (results_of ps = []) as ->; [|reflexivity].
        unfold results_of. clear -E. induction ps as [|p ps IHp]; [reflexivity|].
        simpl in E. apply app_eq_nil in E as [E1 E2]. simpl. rewrite E1. simpl. auto.
      + apply Hchildren. }
  rewrite Hflat. unfold Procedure.run. cbn [fold_left step Procedure.step].
  rewrite mk_events_ok.
  - rewrite app_nil_r. reflexivity.
  - eapply Forall_impl; [|exact Hps]. intros a [Ha _]. exact Ha.
Qed.

Theorem exec_correct : forall t, WF t -> exec R h t = Some (eval t).
Proof. intros t H. unfold exec, exec_on. rewrite run_flat by assumption. reflexivity. Qed.

(* nested processing started from inside a handler runs on its own stack: the outer stacks are returned
   unchanged, and the result does not depend on them *)
Theorem nested_exec_preserves_outer : forall t stacks, WF t -> exec_on R h stacks t = Some (eval t, stacks).
Proof. intros t stacks H. unfold exec_on. rewrite run_flat by assumption. reflexivity. Qed.

(* processing a tree on top of any stack leaves everything below untouched and adds exactly one result:
   results of one subtree never leak into a sibling *)
Theorem no_sibling_leak : forall t s, WF t -> run (flat t ++ [t]) s = Some (eval t :: s).
Proof. intros; apply run_flat; assumption. Qed.
End P.
