From Coq Require Import List Bool.
Import ListNotations.
From Tranp Require Import Model.ExnFlow.

(* whatever a handler raises leaves Procedure as an application error *)
Theorem handler_total h : match emit h with Some e => e = EApp | None => h = None end.
Proof. destruct h as [[]|]; reflexivity. Qed.

Lemma first_raise_in l e : first_raise l = Some e -> In (Some e) l.
Proof. induction l as [|[x|] l IH]; simpl; [discriminate| |]; intros H; [injection H as ->; auto|right; auto]. Qed.

(* if building the events and flattening raise nothing but AssertionError / application errors, every
   outcome of Procedure.exec is a result or an application error - whatever the handlers raise *)
Theorem exec_total fl nodes ok :
  (fl = None \/ fl = Some EAssertion \/ fl = Some EApp) ->
  Forall (fun n => event_raises n = None \/ event_raises n = Some EAssertion \/ event_raises n = Some EApp) nodes ->
  match exec fl nodes ok with Some e => e = EApp | None => True end.
Proof.
  intros Hf Hn. unfold exec.
  destruct Hf as [Hf|[Hf|Hf]]; subst fl; cbn [make_event]; try reflexivity.
  destruct (first_raise (map process nodes)) as [e|] eqn:E.
  - apply first_raise_in in E. apply in_map_iff in E as [n [Hp Hin]]. rewrite Forall_forall in Hn. specialize (Hn n Hin).
    unfold process in Hp. destruct (has_handler n); cbn [negb] in Hp; [|congruence].
    destruct Hn as [Hn|[Hn|Hn]]; rewrite Hn in Hp; cbn [make_event] in Hp; try congruence.
    pose proof (handler_total (handler_raises n)) as T. rewrite Hp in T. exact T.
  - destruct ok; [exact I|reflexivity].
Qed.

(* a request ends in a result or an application error whenever every stage outside a wrapper raises
   application errors only *)
Theorem pipeline_total stages :
  Forall (fun s => wrapped s = true \/ raises s = None \/ raises s = Some EApp) stages -> pipeline stages <> Leak.
Proof.
  intros H. unfold pipeline. destruct (first_raise (map stage_raise stages)) as [e|] eqn:E; [|discriminate].
  apply first_raise_in in E. apply in_map_iff in E as [s [Hs Hin]]. rewrite Forall_forall in H. specialize (H s Hin).
  unfold stage_raise in Hs. destruct (raises s) as [r|] eqn:R; [|discriminate].
  destruct H as [W|[N|A]]; [rewrite W in Hs; injection Hs as <-; discriminate|discriminate|].
  injection A as ->. destruct (wrapped s); injection Hs as <-; discriminate.
Qed.

(* and that condition is necessary: an unwrapped stage raising anything else leaks (this is what the
   in-memory parse did before the fix: commit) *)
Theorem unwrapped_stage_leaks : pipeline [{| wrapped := false; raises := Some EOther |}] = Leak /\
                                loop_survives [{| wrapped := false; raises := Some EOther |}] = false /\
                                pipeline [{| wrapped := true; raises := Some EOther |}] = App.
Proof. repeat split. Qed.
