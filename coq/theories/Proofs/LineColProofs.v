From Tranp Require Import Base.LineCol.
From Coq Require Import Lia.
Local Open Scope nat_scope.

Lemma off_0 t c : off t 0 c = c.
Proof. destruct t; reflexivity. Qed.

(* the (line, column) of an offset addresses that very offset *)
Theorem off_lc : forall t p, p <= length t -> off t (fst (lc t p)) (snd (lc t p)) = p.
Proof.
  induction t as [|x r IH]; intros p Hp.
  - destruct p; [reflexivity|simpl in Hp; lia].
  - destruct p as [|p']; [reflexivity|]. simpl in Hp. specialize (IH p' ltac:(lia)).
    cbn [lc]. destruct (lc r p') as [l c] eqn:E. cbn [fst snd] in IH.
    destruct (Ascii.eqb x nl) eqn:X.
    + cbn [fst snd off]. rewrite X, IH. reflexivity.
    + destruct l as [|l'].
      * cbn [fst snd]. rewrite off_0 in *. lia.
      * cbn [fst snd off]. rewrite X, IH. reflexivity.
Qed.

(* a span given by the (line, column) pairs of two offsets delimits exactly text[b:e] *)
Theorem span_addresses_text : forall t b e, b <= e -> e <= length t ->
  sub t (off t (fst (lc t b)) (snd (lc t b))) (off t (fst (lc t e)) (snd (lc t e))) = sub t b e.
Proof. intros t b e Hbe He. rewrite !off_lc by lia. reflexivity. Qed.

(* lines never decrease and, on one line, columns grow with the offset *)
Lemma lc_line_le t : forall p, p <= length t -> fst (lc t p) <= p.
Proof.
  induction t as [|x r IH]; intros p Hp; [destruct p; simpl; lia|].
  destruct p as [|p']; [simpl; lia|]. simpl in Hp. specialize (IH p' ltac:(lia)). cbn [lc].
  destruct (lc r p') as [l c]. cbn [fst] in IH. destruct (Ascii.eqb x nl); [simpl; lia|]. destruct l; simpl; lia.
Qed.
