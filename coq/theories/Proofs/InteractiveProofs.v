(* C07 proofs, second part: the interactive loop reads every key up to the first `exit`, answers every program - the empty
   one included - with a result or a rendered application error, and ends by returning, provided no request leaks. *)
From Coq Require Import List Bool Arith.
Import ListNotations.
From Tranp Require Import Model.ExnFlow Model.Interactive.

Lemma run_spec oc : (forall p, oc p <> Leak) -> forall keys acc out,
  run oc keys acc out = (Returned, rev out ++ map (event_of oc) (programs keys acc), after_exit keys).
Proof.
  intros Hno keys. induction keys as [|k r IH]; intros acc out; cbn [run programs after_exit map].
  - rewrite app_nil_r. reflexivity.
  - destruct k as [| |n].
    + specialize (Hno (rev acc)). unfold event_of. cbn [map].
      destruct (oc (rev acc)) eqn:E; [| |congruence]; rewrite IH; cbn [rev]; rewrite <- app_assoc; reflexivity.
    + rewrite app_nil_r. reflexivity.
    + apply IH.
Qed.

Theorem session_survives oc keys : (forall p, oc p <> Leak) ->
  session oc keys = (Returned, map (event_of oc) (programs keys []), after_exit keys).
Proof. intros H. unfold session. rewrite run_spec by exact H. reflexivity. Qed.

(* a request that leaks ends the loop there: the programs before it were answered, the rest of the script is not read *)
Lemma run_leak oc : forall keys acc out ps1 p ps2,
  programs keys acc = ps1 ++ p :: ps2 -> (forall q, In q ps1 -> oc q <> Leak) -> oc p = Leak ->
  exists r, run oc keys acc out = (Escaped, rev out ++ map (event_of oc) ps1, r).
Proof.
  intros keys. induction keys as [|k r IH]; intros acc out ps1 p ps2 Hp H1 Hl; cbn [programs] in Hp.
  - destruct ps1; discriminate.
  - destruct k as [| |n]; cbn [run].
    + destruct ps1 as [|q ps1]; cbn [app] in Hp; injection Hp as Hq Hr.
      * subst p. rewrite Hl. exists r. cbn [map]. rewrite app_nil_r. reflexivity.
      * assert (oc q <> Leak) as Hq' by (apply H1; left; reflexivity). subst q.
        assert (forall q', In q' ps1 -> oc q' <> Leak) as H1' by (intros q' Hin; apply H1; right; exact Hin).
        cbn [map]. unfold event_of at 1.
        destruct (oc (rev acc)) eqn:E; [| |congruence].
        -- destruct (IH [] (EvResult (rev acc) :: out) ps1 p ps2 Hr H1' Hl) as [r' Hrun]. rewrite Hrun. exists r'.
           cbn [rev]. rewrite <- app_assoc. reflexivity.
        -- destruct (IH [] (EvError (rev acc) :: out) ps1 p ps2 Hr H1' Hl) as [r' Hrun]. rewrite Hrun. exists r'.
           cbn [rev]. rewrite <- app_assoc. reflexivity.
    + destruct ps1; discriminate.
    + exact (IH (n :: acc) out ps1 p ps2 Hp H1 Hl).
Qed.

Theorem session_leak oc keys ps1 p ps2 :
  programs keys [] = ps1 ++ p :: ps2 -> (forall q, In q ps1 -> oc q <> Leak) -> oc p = Leak ->
  exists r, session oc keys = (Escaped, map (event_of oc) ps1, r).
Proof. intros. unfold session. apply (run_leak oc keys [] [] ps1 p ps2); assumption. Qed.
