From Tranp Require Import Model.Quotation.
From Coq Require Import Lia.
Local Open Scope nat_scope.

Lemma marked_spaces n i rest : marked_cols (spaces n ++ rest) i = marked_cols rest (i + n).
Proof.
  revert i. induction n as [|n IH]; intros i; simpl; [f_equal; lia|]. rewrite IH. f_equal. lia.
Qed.
Lemma marked_carets n i : marked_cols (carets n) i = seq i n.
Proof. revert i. induction n as [|n IH]; intros i; simpl; [reflexivity|]. rewrite IH. reflexivity. Qed.

(* the caret line marks exactly the columns [begin, end) of the reported line for a span on one line,
   [begin, end of line) for a span over several lines, and one column for an empty range *)
Theorem line_mark_columns line bl bc el ec :
  marked_cols (line_mark line (bl, bc, el, ec)) 0 =
  seq bc (Nat.max 1 ((if Nat.eqb bl el then bc + (ec - bc) else length line) - bc)).
Proof. unfold line_mark, cause_range. rewrite marked_spaces, marked_carets. reflexivity. Qed.

Corollary single_line_marks line l bc ec : bc < ec -> marked_cols (line_mark line (l, bc, l, ec)) 0 = seq bc (ec - bc).
Proof. intros H. rewrite line_mark_columns, Nat.eqb_refl. f_equal. lia. Qed.

(* replacing tabs keeps every column where it was *)
Theorem tab_to_space_length l : length (tab_to_space l) = length l.
Proof. apply map_length. Qed.
Theorem tab_to_space_nth l i : nth i (tab_to_space l) " "%char = (let c := nth i l " "%char in if Ascii.eqb c (ascii_of_nat 9) then " "%char else c).
Proof.
  unfold tab_to_space. revert i. induction l as [|x l IH]; intros i; [destruct i; reflexivity|].
  destruct i; simpl; [reflexivity|apply IH].
Qed.

(* the line printed for a 1-based span is the span's begin line, and the number printed is that line *)
Theorem quotation_line src bl bc el ec : 1 <= bl ->
  let '(no, line, mark) := quotation src (bl, bc, el, ec) in
  no = bl /\ line = tab_to_space (nth_line src (bl - 1) []) /\
  marked_cols mark 0 = seq (bc - 1) (Nat.max 1 ((if Nat.eqb (bl - 1) (el - 1) then (bc - 1) + ((ec - 1) - (bc - 1)) else length line) - (bc - 1))).
Proof. intros H. unfold quotation. repeat split; [lia|]. apply line_mark_columns. Qed.
