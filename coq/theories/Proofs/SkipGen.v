(* C18 proofs: _skip_other_block over an arbitrary bracket / quote table that passes the table check
   (BlockParser._analyze_entry runs it with the table minus the bracket pair being parsed).  Same lemmas as
   the first part of BlockProofs.v, stated for a table variable. *)
From Tranp Require Import Model.BlockParse Proofs.BlockProofs.
Local Open Scope nat_scope.

Section Tab.
Variable tab : list (ascii * ascii).

Inductive wf_t : item -> Prop :=
| wft_ch c : mem c (toks_of tab) = false -> wf_t (Ch c)
| wft_q q b : In (q, q) tab -> ~ In q b -> wf_t (Q q b)
| wft_g o c b : In (o, c) tab -> o <> c -> Forall wf_t b -> wf_t (G o c b).

(* ---- facts about the generated pair table, checked by computation on every run ---- *)
Definition table_ok : bool :=
  forallb (fun p => match index_of (fst p) (toks_of tab) with
                    | Some i => Nat.even i && Ascii.eqb (nth_c (toks_of tab) (S i)) (snd p)
                    | None => false end) tab
  && forallb (fun p => Ascii.eqb (fst p) (snd p)
                       || (negb (is_quote (snd p)) && negb (is_quote (fst p))
                           && forallb (fun p' => Ascii.eqb (fst p') (snd p') || negb (Ascii.eqb (snd p') (fst p))) tab)) tab
  && forallb (fun p => negb (Ascii.eqb (fst p) (snd p)) || is_quote (fst p)) tab.

Hypothesis table_ok_true : table_ok = true.

(* proper closer *)
Definition PC (c : ascii) : Prop := exists o, In (o, c) tab /\ o <> c.

Lemma tab_open o c : In (o, c) tab ->
  exists i, index_of o (toks_of tab) = Some i /\ Nat.even i = true /\ nth_c (toks_of tab) (S i) = c.
Proof.
  intros H. pose proof table_ok_true as T. unfold table_ok in T.
  apply andb_true_iff in T as [T _]. apply andb_true_iff in T as [T _].
  rewrite forallb_forall in T. specialize (T _ H). cbn [fst snd] in T.
  destruct (index_of o (toks_of tab)) as [i|]; [|discriminate].
  apply andb_true_iff in T as [T1 T2]. apply Ascii.eqb_eq in T2. eauto.
Qed.

Lemma tab_proper o c : In (o, c) tab -> o <> c ->
  is_quote c = false /\ is_quote o = false /\ forall c', PC c' -> c' <> o.
Proof.
  intros H Hne. pose proof table_ok_true as T. unfold table_ok in T.
  apply andb_true_iff in T as [T _]. apply andb_true_iff in T as [_ T].
  rewrite forallb_forall in T. specialize (T _ H). cbn [fst snd] in T.
  apply orb_true_iff in T as [T|T]; [apply Ascii.eqb_eq in T; contradiction|].
  apply andb_true_iff in T as [T T3]. apply andb_true_iff in T as [T1 T2].
  apply negb_true_iff in T1, T2. repeat split; auto.
  intros c' [o' [Hin Hne']] ->. rewrite forallb_forall in T3. specialize (T3 _ Hin). cbn [fst snd] in T3.
  apply orb_true_iff in T3 as [T3|T3]; [apply Ascii.eqb_eq in T3; contradiction|].
  apply negb_true_iff in T3. rewrite Ascii.eqb_refl in T3. discriminate.
Qed.

Lemma tab_quote q : In (q, q) tab -> is_quote q = true.
Proof.
  intros H. pose proof table_ok_true as T. unfold table_ok in T.
  apply andb_true_iff in T as [_ T]. rewrite forallb_forall in T. specialize (T _ H). cbn [fst snd] in T.
  rewrite Ascii.eqb_refl in T. exact T.
Qed.

Lemma PC_not_quote c : PC c -> is_quote c = false.
Proof. intros [o [H Hne]]. apply (tab_proper o c H Hne). Qed.

(* ---- skip ---- *)


Lemma skip_cons c r st n :
  skip (toks_of tab) (c :: r) st n = match skip_step (toks_of tab) c st with [] => S n | cl => skip (toks_of tab) r cl (S n) end.
Proof. reflexivity. Qed.

Lemma step_plain x st : mem x (toks_of tab) = false -> skip_step (toks_of tab) x st = st.
Proof. unfold mem, skip_step. destruct (index_of x (toks_of tab)); [discriminate|reflexivity]. Qed.

Lemma step_open_proper o c st : In (o, c) tab -> o <> c -> Forall PC st -> skip_step (toks_of tab) o st = c :: st.
Proof.
  intros H Hne Hst. destruct (tab_open _ _ H) as [i [Hi [He Hn]]]. unfold skip_step. rewrite Hi.
  destruct st as [|top rest]; [rewrite He, Hn; reflexivity|].
  pose proof (Forall_inv Hst) as Htop.
  destruct (tab_proper _ _ H Hne) as [_ [_ Hd]].
  destruct (Ascii.eqb top o) eqn:E; [apply Ascii.eqb_eq in E; exfalso; exact (Hd top Htop E)|].
  rewrite (PC_not_quote _ Htop), He, Hn. reflexivity.
Qed.

Lemma step_close c st : skip_step (toks_of tab) c (c :: st) = st \/ index_of c (toks_of tab) = None.
Proof. unfold skip_step. destruct (index_of c (toks_of tab)); [left; rewrite Ascii.eqb_refl; reflexivity | right; reflexivity]. Qed.

Lemma step_close_pair o c st : In (o, c) tab -> o <> c -> skip_step (toks_of tab) c (c :: st) = st.
Proof.
  intros H Hne. unfold skip_step.
  assert (In c (toks_of tab)) as Hin.
  { unfold toks_of. apply in_flat_map. exists (o, c). split; [exact H|simpl; auto]. }
  apply mem_true_iff in Hin. unfold mem in Hin. destruct (index_of c (toks_of tab)); [|discriminate].
  rewrite Ascii.eqb_refl. reflexivity.
Qed.

Lemma step_open_quote q st : In (q, q) tab -> Forall PC st -> skip_step (toks_of tab) q st = q :: st.
Proof.
  intros H Hst. destruct (tab_open _ _ H) as [i [Hi [He Hn]]]. unfold skip_step. rewrite Hi.
  destruct st as [|top rest]; [rewrite He, Hn; reflexivity|].
  pose proof (Forall_inv Hst) as Htop.
  destruct (Ascii.eqb top q) eqn:E.
  - apply Ascii.eqb_eq in E. subst top. pose proof (PC_not_quote _ Htop) as F.
    rewrite (tab_quote _ H) in F. discriminate.
  - rewrite (PC_not_quote _ Htop), He, Hn. reflexivity.
Qed.

Lemma step_close_quote q st : In (q, q) tab -> skip_step (toks_of tab) q (q :: st) = st.
Proof.
  intros H. destruct (tab_open _ _ H) as [i [Hi _]]. unfold skip_step. rewrite Hi, Ascii.eqb_refl. reflexivity.
Qed.

Lemma step_in_quote q x st : In (q, q) tab -> x <> q -> skip_step (toks_of tab) x (q :: st) = q :: st.
Proof.
  intros H Hne. unfold skip_step. destruct (index_of x (toks_of tab)); [|reflexivity].
  destruct (Ascii.eqb q x) eqn:E; [apply Ascii.eqb_eq in E; congruence|].
  rewrite (tab_quote _ H). reflexivity.
Qed.

Lemma skip_quote_body q b rest st n : In (q, q) tab -> ~ In q b ->
  skip (toks_of tab) (b ++ rest) (q :: st) n = skip (toks_of tab) rest (q :: st) (n + length b).
Proof.
  intros H. revert n. induction b as [|x b IH]; intros n Hb; simpl app.
  - f_equal. simpl. lia.
  - rewrite skip_cons, step_in_quote; [|exact H|intros ->; apply Hb; left; reflexivity].
    rewrite IH; [f_equal; simpl; lia|]. intros Hin. apply Hb. right. exact Hin.
Qed.

Definition skips_through (it : item) : Prop :=
  wf_t it -> forall rest c0 st0 n, Forall PC (c0 :: st0) ->
  skip (toks_of tab) (flat_item it ++ rest) (c0 :: st0) n = skip (toks_of tab) rest (c0 :: st0) (n + length (flat_item it)).

Lemma skips_through_list b : Forall skips_through b -> Forall wf_t b ->
  forall rest c0 st0 n, Forall PC (c0 :: st0) ->
  skip (toks_of tab) (flat b ++ rest) (c0 :: st0) n = skip (toks_of tab) rest (c0 :: st0) (n + length (flat b)).
Proof.
  induction 1 as [|it b Hit _ IH]; intros Hwf rest c0 st0 n Hst.
  - simpl. f_equal. lia.
  - inversion Hwf as [|? ? Hw1 Hw2]; subst. unfold flat. simpl flat_map. rewrite <- app_assoc.
    rewrite (Hit Hw1 _ _ _ _ Hst). fold (flat b). rewrite (IH Hw2 _ _ _ _ Hst). f_equal. rewrite app_length. lia.
Qed.

Lemma skips_through_all it : skips_through it.
Proof.
  induction it as [c|q b|o c b IH] using item_ind'; intros Hwf rest c0 st0 n Hst; inversion Hwf; subst.
  - simpl. rewrite step_plain by assumption. f_equal. lia.
  - simpl flat_item. simpl app. rewrite skip_cons, step_open_quote by assumption.
    rewrite <- app_assoc, skip_quote_body by assumption. simpl app. rewrite skip_cons, step_close_quote by assumption.
    f_equal. simpl. rewrite app_length. simpl. lia.
  - simpl flat_item. simpl app. rewrite skip_cons, (step_open_proper o c) by assumption.
    rewrite <- app_assoc. fold (flat b).
    assert (Forall PC (c :: c0 :: st0)) as Hst' by (constructor; [exists o; auto|exact Hst]).
    rewrite (skips_through_list b IH) by assumption.
    simpl app. rewrite skip_cons, (step_close_pair o c) by assumption.
    f_equal. simpl. rewrite app_length. simpl. lia.
Qed.

Definition is_block (it : item) : bool := match it with Ch _ => false | _ => true end.

(* _skip_other_block started on a group or a quoted string consumes exactly that item *)
Theorem skip_block_exact it rest : wf_t it -> is_block it = true ->
  skip (toks_of tab) (flat_item it ++ rest) [] 0 = length (flat_item it).
Proof.
  intros Hwf Hb. destruct it as [c|q b|o c b]; [discriminate| |]; inversion Hwf; subst.
  - simpl flat_item. simpl app. rewrite skip_cons, step_open_quote by (auto; constructor).
    rewrite <- app_assoc, skip_quote_body by assumption. simpl app. rewrite skip_cons, step_close_quote by assumption.
    simpl. rewrite app_length. simpl. lia.
  - simpl flat_item. simpl app. rewrite skip_cons, (step_open_proper o c) by (auto; constructor).
    rewrite <- app_assoc. fold (flat b).
    assert (Forall PC [c]) as Hst' by (constructor; [exists o; auto|constructor]).
    assert (Forall skips_through b) as Hall by (apply Forall_forall; intros; apply skips_through_all).
    rewrite (skips_through_list b Hall) by assumption.
    simpl app. rewrite skip_cons, (step_close_pair o c) by assumption.
    simpl. rewrite app_length. simpl. lia.
Qed.
End Tab.
