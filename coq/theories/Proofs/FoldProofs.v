(* C17: whenever the evaluator produces a value for an expression whose Python meaning is specified, that
   value (decoded) is Python's value, with the same type; Python does not raise there. *)
From Tranp Require Import Model.Fold Model.Finder Proofs.PathStrProofs.
From Coq Require Import PrimFloat.
Local Open Scope Z_scope.

Section ExprInd.
  Variable P : expr -> Prop.
  Hypothesis Hl : forall v, P (ELit v).
  Hypothesis Hc : forall f rest, P f -> Forall (fun p => P (snd p)) rest -> P (EChain f rest).
  Hypothesis Hf : forall n e, P e -> P (EFactor n e).
  Hypothesis Hg : forall e, P e -> P (EGroup e).
  Hypothesis Hk : forall c args, Forall P args -> P (ECast c args).
  Fixpoint expr_ind' (e : expr) : P e :=
    match e with
    | ELit v => Hl v
    | EChain f rest => Hc f rest (expr_ind' f)
        ((fix go (l : list (bop * expr)) : Forall (fun p => P (snd p)) l :=
            match l with [] => Forall_nil _ | x :: r => Forall_cons x (expr_ind' (snd x)) (go r) end) rest)
    | EFactor n x => Hf n x (expr_ind' x)
    | EGroup x => Hg x (expr_ind' x)
    | ECast c args => Hk c args ((fix go (l : list expr) : Forall P l :=
            match l with [] => Forall_nil _ | x :: r => Forall_cons x (expr_ind' x) (go r) end) args)
    end.
End ExprInd.

Fixpoint go_f (acc : value) (l : list (bop * expr)) : outcome :=
  match l with
  | [] => Val acc
  | (o, x) :: r => match fold x with
                   | Val b => match fold_bin acc o b with Val c => go_f c r | other => other end
                   | other => other
                   end
  end.
Fixpoint go_p (acc : pvalue) (l : list (bop * expr)) : presult :=
  match l with
  | [] => PVal acc
  | (o, x) :: r => match py_eval x with
                   | PVal b => match py_bin acc o b with PVal c => go_p c r | other => other end
                   | other => other
                   end
  end.

Lemma fold_chain f rest : fold (EChain f rest) = match fold f with Val a => go_f a rest | other => other end.
Proof.
  cbn [fold]. destruct (fold f) as [a| |]; reflexivity.
Qed.
Lemma py_chain f rest : py_eval (EChain f rest) = match py_eval f with PVal a => go_p a rest | other => other end.
Proof.
  cbn [py_eval]. destruct (py_eval f) as [a| |]; reflexivity.
Qed.

Lemma decode_not_raise v : decode v <> PRaise.
Proof.
  destruct v as [z|f|t]; simpl; try discriminate. unfold decode_str. destruct t as [|q r]; [discriminate|].
  destruct (is_q q && _ && _ && _); discriminate.
Qed.

(* ---- string literals ---- *)
Lemma decode_str_inv t sb : decode_str t = PVal (PStr sb) ->
  exists q, t = q :: sb ++ [q] /\ is_q q = true /\ forallb simple_char sb = true.
Proof.
  unfold decode_str. destruct t as [|q r]; [discriminate|].
  destruct (is_q q) eqn:Eq; [|discriminate]. destruct r as [|x r0] eqn:Er; [discriminate|]. simpl negb. cbn [andb].
  destruct (Ascii.eqb (lastc (q :: x :: r0)) q) eqn:El; [|discriminate]. cbn [andb].
  destruct (forallb simple_char (removelast (x :: r0))) eqn:Ef; [|discriminate].
  intros H. injection H as <-. exists q. repeat split; auto.
  apply Ascii.eqb_eq in El. unfold lastc in El. f_equal.
  assert (x :: r0 <> []) as Hne by discriminate.
  rewrite (app_removelast_last "000"%char Hne) at 1. f_equal. f_equal.
  change (last (q :: x :: r0) "000"%char) with (last (x :: r0) "000"%char) in El. exact El.
Qed.

Lemma last_snoc {A} (l : list A) (x d : A) : last (l ++ [x]) d = x.
Proof. induction l as [|a l IH]; [reflexivity|]. simpl. destruct (l ++ [x]) eqn:E; [destruct l; discriminate|exact IH]. Qed.

Lemma decode_str_mk q sb : is_q q = true -> forallb simple_char sb = true -> decode_str (q :: sb ++ [q]) = PVal (PStr sb).
Proof.
  intros Hq Hs. unfold decode_str. rewrite Hq.
  assert (sb ++ [q] <> []) as Hne by (destruct sb; discriminate).
  destruct (sb ++ [q]) as [|x r0] eqn:E; [congruence|]. simpl negb. cbn [andb]. rewrite <- E.
  assert (lastc (q :: sb ++ [q]) = q) as L by (unfold lastc; apply (last_snoc (q :: sb) q)).
  rewrite L, Ascii.eqb_refl, removelast_last, Hs. reflexivity.
Qed.

Lemma body_mk q sb : body (q :: sb ++ [q]) = sb.
Proof. unfold body. simpl. apply removelast_last. Qed.

Lemma cat_sound a b sa sb c : decode_str a = PVal (PStr sa) -> decode_str b = PVal (PStr sb) ->
  cat a b = Val (VStr c) -> decode_str c = PVal (PStr (sa ++ sb)).
Proof.
  intros Ha Hb Hc. destruct (decode_str_inv _ _ Ha) as [qa [Ea [Qa Sa]]]. destruct (decode_str_inv _ _ Hb) as [qb [Eb [Qb Sb]]].
  subst a b. unfold cat in Hc. rewrite !body_mk in Hc. unfold Fold.head in Hc. cbn [hd] in Hc.
  destruct (Ascii.eqb qb qa || negb (mem qa sb)); [|discriminate]. injection Hc as <-.
  replace (qa :: sa ++ sb ++ [qa]) with (qa :: (sa ++ sb) ++ [qa]) by (rewrite <- app_assoc; reflexivity).
  apply decode_str_mk; [exact Qa|]. rewrite forallb_app, Sa, Sb. reflexivity.
Qed.

(* ---- one step of the fold ---- *)
Lemma bin_sound l o r v pl pr : fold_bin l o r = Val v -> decode l = PVal pl -> decode r = PVal pr ->
  py_bin pl o pr <> PUnspec -> py_bin pl o pr = decode v.
Proof.
  intros Hf Hl Hr Hn.
  destruct l as [a|x|ta], r as [b|y|tb]; simpl in Hl, Hr; try injection Hl as <-; try injection Hr as <-; simpl in *; try discriminate.
  - rewrite Hf. reflexivity.
  - destruct (Z2F a); [|discriminate]. rewrite Hf. reflexivity.
  - destruct (Z2F b); [|discriminate]. rewrite Hf. reflexivity.
  - rewrite Hf. reflexivity.
  - destruct pl as [?|?|sa]; try (unfold decode_str in Hl; destruct ta; [discriminate|]; destruct (is_q _ && _ && _ && _); discriminate).
    destruct pr as [?|?|sb]; try (unfold decode_str in Hr; destruct tb; [discriminate|]; destruct (is_q _ && _ && _ && _); discriminate).
    destruct o; try discriminate. destruct (allow ta && allow tb); [|discriminate].
    destruct v as [?|?|c]; try (unfold cat in Hf; destruct (_ || _); discriminate).
    simpl. symmetry. eapply cat_sound; eassumption.
Qed.

(* decimal numerals: digits and a sign contain no quote or backslash, so str(int) decodes to itself *)
Lemma simple_digit c : is_digit c = true -> simple_char c = true.
Proof.
  destruct c as [[] [] [] [] [] [] [] []]; vm_compute; intros H; try discriminate; reflexivity.
Qed.
Lemma digits_simple l : Forall (fun c => is_digit c = true) l -> forallb simple_char l = true.
Proof. induction 1 as [|c l Hc _ IH]; [reflexivity|]. simpl. rewrite (simple_digit c Hc), IH. reflexivity. Qed.

Lemma z_str_simple z : forallb simple_char (z_str z) = true.
Proof.
  unfold z_str. destruct (z <? 0).
  - simpl. apply digits_simple. apply (proj2 (nat_str_spec _)).
  - apply digits_simple. apply (proj2 (nat_str_spec _)).
Qed.

Lemma cast_sound c v w pv : fold_cast c v = Val w -> decode v = PVal pv -> py_cast c pv <> PUnspec -> py_cast c pv = decode w.
Proof.
  intros Hf Hd Hn. destruct c, v as [z|f|t]; simpl in Hd; try injection Hd as <-; simpl in *; try discriminate.
  - injection Hf as <-. reflexivity.
  - destruct pv as [?|?|s0]; try (unfold decode_str in Hd; destruct t; [discriminate|]; destruct (is_q _ && _ && _ && _); discriminate).
    destruct (decode_str_inv _ _ Hd) as [q [Et _]]. subst t. rewrite body_mk in Hf. simpl.
    destruct (parse_z s0); [|discriminate]. injection Hf as <-. reflexivity.
  - destruct (Z2F z); [|discriminate]. injection Hf as <-. reflexivity.
  - injection Hf as <-. reflexivity.
  - destruct (small_z z); [|discriminate]. injection Hf as <-. simpl. symmetry. apply (decode_str_mk """"%char (z_str z)); [reflexivity|apply z_str_simple].
  - injection Hf as <-. destruct pv as [?|?|s0]; try (unfold decode_str in Hd; destruct t; [discriminate|]; destruct (is_q _ && _ && _ && _); discriminate).
    simpl. symmetry. exact Hd.
Qed.

Lemma factor_sound n v w pv : fold_factor n v = Val w -> decode v = PVal pv -> py_factor n pv = decode w.
Proof.
  intros Hf Hd. destruct v as [z|f|t]; simpl in *; try discriminate; injection Hd as <-; injection Hf as <-; reflexivity.
Qed.

Definition sound_at (e : expr) : Prop := forall v, fold e = Val v -> py_eval e <> PUnspec -> py_eval e = decode v.

Lemma go_sound rest : Forall (fun p => sound_at (snd p)) rest ->
  forall acc pacc v, decode acc = PVal pacc -> go_f acc rest = Val v -> go_p pacc rest <> PUnspec -> go_p pacc rest = decode v.
Proof.
  induction 1 as [|[o x] r Hx _ IH]; intros acc pacc v Hd Hf Hn.
  - simpl in *. injection Hf as <-. symmetry. exact Hd.
  - cbn [go_f go_p snd] in *. destruct (fold x) as [b| |] eqn:Fx; try discriminate.
    specialize (Hx b Fx).
    destruct (py_eval x) as [pb| |] eqn:Px.
    + assert (decode b = PVal pb) as Db by (symmetry; apply Hx; discriminate).
      destruct (fold_bin acc o b) as [c| |] eqn:Fb; try discriminate.
      destruct (py_bin pacc o pb) as [pc| |] eqn:Pb.
      * assert (decode c = PVal pc) as Dc by (symmetry; rewrite <- Pb; apply (bin_sound acc o b c pacc pb); auto; congruence).
        apply (IH c pc v Dc Hf Hn).
      * exfalso. apply (decode_not_raise c). rewrite <- Pb. symmetry. apply (bin_sound acc o b c pacc pb); auto; congruence.
      * congruence.
    + exfalso. apply (decode_not_raise b). symmetry. apply Hx. discriminate.
    + congruence.
Qed.

Theorem fold_sound : forall e, sound_at e.
Proof.
  induction e as [v0|f rest IHf IHr|n e IH|e IH|c args IH] using expr_ind'; intros v Hf Hn.
  - simpl in *. injection Hf as <-. reflexivity.
  - rewrite fold_chain in Hf. rewrite py_chain in Hn |- *.
    destruct (fold f) as [a| |] eqn:Ff; try discriminate. specialize (IHf a Ff).
    destruct (py_eval f) as [pa| |] eqn:Pf.
    + assert (decode a = PVal pa) as Da by (symmetry; apply IHf; discriminate).
      apply (go_sound rest IHr a pa v Da Hf Hn).
    + exfalso. apply (decode_not_raise a). symmetry. apply IHf. discriminate.
    + congruence.
  - cbn [fold py_eval] in *. destruct (fold e) as [a| |] eqn:Fe; try discriminate. specialize (IH a Fe).
    destruct (py_eval e) as [pa| |] eqn:Pe.
    + assert (decode a = PVal pa) as Da by (symmetry; apply IH; discriminate).
      apply (factor_sound n a v pa Hf Da).
    + exfalso. apply (decode_not_raise a). symmetry. apply IH. discriminate.
    + congruence.
  - cbn [fold py_eval] in *. apply IH; assumption.
  - destruct args as [|x [|y r]]; cbn [fold py_eval] in *; try discriminate; try congruence.
    inversion IH as [|? ? Hx _]; subst.
    destruct (fold x) as [a| |] eqn:Fx; try discriminate. specialize (Hx a Fx).
    destruct (py_eval x) as [pa| |] eqn:Px.
    + assert (decode a = PVal pa) as Da by (symmetry; apply Hx; discriminate).
      apply (cast_sound c a v pa Hf Da Hn).
    + exfalso. apply (decode_not_raise a). symmetry. apply Hx. discriminate.
    + congruence.
Qed.
