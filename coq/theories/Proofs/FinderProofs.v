From Tranp Require Import Model.Finder.
Local Open Scope nat_scope.

Section EntryInd.
  Variable P : entry -> Prop.
  Hypothesis Ht : forall t ks, Forall P ks -> P (T t ks).
  Hypothesis Hl : forall t, P (L t).
  Fixpoint entry_ind' (e : entry) : P e :=
    match e with
    | T t ks => Ht t ks ((fix go (l : list entry) : Forall P l :=
                   match l with [] => Forall_nil P | x :: r => Forall_cons x (entry_ind' x) (go r) end) ks)
    | L t => Hl t
    end.
End EntryInd.

(* the inner loop of full_pathfy, named *)
Fixpoint go_fp (ks_all : list entry) (p : path) (pos : list nat) (i : nat) (l : list entry) : list (path * list nat) :=
  match l with
  | [] => []
  | k :: r => fp k (p ++ [child_elem ks_all i k]) (pos ++ [i]) ++ go_fp ks_all p pos (S i) r
  end.

Lemma fp_T t ks p pos : fp (T t ks) p pos = (p, pos) :: go_fp ks p pos 0 ks.
Proof.
  cbn [fp]. f_equal.
  match goal with |- ?f 0 ks = _ => assert (forall l i, f i l = go_fp ks p pos i l) as H; [|apply H] end.
  induction l as [|k r IH]; intros i; [reflexivity|]. cbn [go_fp]. rewrite <- IH. reflexivity.
Qed.

(* ---- last child with a tag ---- *)
Lemma lwt_skip tag pre : Forall (fun x => str_eqb (name x) tag = false) pre ->
  forall j rest found, last_with_tag tag j (pre ++ rest) found = last_with_tag tag (j + length pre) rest found.
Proof.
  induction 1 as [|x pre Hx _ IH]; intros j rest found; simpl.
  - f_equal. lia.
  - rewrite Hx, IH. f_equal. lia.
Qed.

Lemma count_tag_app t a b : count_tag t (a ++ b) = count_tag t a + count_tag t b.
Proof. unfold count_tag. rewrite filter_app, app_length. reflexivity. Qed.

Lemma count_zero_forall t l : count_tag t l = 0 -> Forall (fun x => str_eqb (name x) t = false) l.
Proof.
  unfold count_tag. induction l as [|x l IH]; simpl; intros H; constructor.
  - destruct (str_eqb (name x) t); [discriminate|reflexivity].
  - apply IH. destruct (str_eqb (name x) t); [discriminate|exact H].
Qed.

Lemma lwt_unique pre k post :
  count_tag (name k) (pre ++ k :: post) = 1 ->
  last_with_tag (name k) 0 (pre ++ k :: post) None = Some (length pre, k).
Proof.
  intros H. rewrite count_tag_app in H. change (k :: post) with ([k] ++ post) in H. rewrite count_tag_app in H.
  assert (count_tag (name k) [k] = 1) as Hk.
  { unfold count_tag. simpl. replace (str_eqb (name k) (name k)) with true; [reflexivity|]. symmetry. apply str_eqb_eq. reflexivity. }
  rewrite Hk in H.
  assert (count_tag (name k) pre = 0) as H1 by lia. assert (count_tag (name k) post = 0) as H2 by lia.
  rewrite (lwt_skip _ pre (count_zero_forall _ _ H1)). simpl.
  replace (str_eqb (name k) (name k)) with true by (symmetry; apply str_eqb_eq; reflexivity).
  pose proof (lwt_skip (name k) post (count_zero_forall _ _ H2) (S (length pre)) [] (Some (length pre, k))) as E.
  rewrite app_nil_r in E. rewrite E. reflexivity.
Qed.

Lemma nth_error_mid {A} (pre : list A) k post : nth_error (pre ++ k :: post) (length pre) = Some k.
Proof. induction pre; simpl; auto. Qed.

(* ---- every generated path looks up the position it was generated for ---- *)
Definition good (e : entry) (p0 : path) (pos0 : list nat) (x : path * list nat) : Prop :=
  exists q r, fst x = p0 ++ q /\ snd x = pos0 ++ r /\ pluck_rel e q = Some r /\ at_pos e r <> None.

Lemma lookup_child t pre k post (q : path) (r : list nat) :
  pluck_rel k q = Some r ->
  pluck_rel (T t (pre ++ k :: post)) (child_elem (pre ++ k :: post) (length pre) k :: q) = Some (length pre :: r).
Proof.
  intros H. unfold child_elem. cbn [pluck_rel].
  destruct (Nat.eqb (count_tag (name k) (pre ++ k :: post)) 1) eqn:E.
  - apply Nat.eqb_eq in E. rewrite (lwt_unique pre k post E). rewrite H. reflexivity.
  - rewrite nth_error_mid. rewrite H. reflexivity.
Qed.

Lemma fp_good e : forall p0 pos0, Forall (good e p0 pos0) (fp e p0 pos0).
Proof.
  induction e as [t ks IH|t] using entry_ind'; intros p0 pos0.
  - rewrite fp_T. constructor.
    + exists [], []. rewrite !app_nil_r. simpl. repeat split; congruence.
    + assert (forall pre l, ks = pre ++ l -> Forall (fun k => forall p0 pos0, Forall (good k p0 pos0) (fp k p0 pos0)) l ->
                Forall (good (T t ks) p0 pos0) (go_fp ks p0 pos0 (length pre) l)) as Hgo.
      { intros pre l. revert pre. induction l as [|k r IHr]; intros pre Hks Hall; [constructor|].
        cbn [go_fp]. apply Forall_app. split.
        - inversion Hall as [|? ? Hk _]; subst. specialize (Hk (p0 ++ [child_elem (pre ++ k :: r) (length pre) k]) (pos0 ++ [length pre])).
          eapply Forall_impl; [|exact Hk]. intros x [q [rr [Hf [Hs [Hp Ha]]]]].
          exists (child_elem (pre ++ k :: r) (length pre) k :: q), (length pre :: rr).
          rewrite Hf, Hs, <- !app_assoc. repeat split; try reflexivity.
          + apply lookup_child. exact Hp.
          + cbn [at_pos]. rewrite nth_error_mid. exact Ha.
        - replace (S (length pre)) with (length (pre ++ [k])) by (rewrite app_length; simpl; lia).
          apply IHr; [rewrite <- app_assoc; exact Hks|]. inversion Hall; assumption. }
      apply (Hgo [] ks eq_refl). exact IH.
  - simpl. constructor; [|constructor]. exists [], []. rewrite !app_nil_r. simpl. repeat split; congruence.
Qed.

Theorem pluck_full_pathfy root p pos : In (p, pos) (full_pathfy root) ->
  pluck root p = Some pos /\ exists e, at_pos root pos = Some e.
Proof.
  intros H. unfold full_pathfy in H.
  pose proof (fp_good root [(name root, None)] []) as G. rewrite Forall_forall in G.
  destruct (G _ H) as [q [r [Hf [Hs [Hp Ha]]]]]. simpl in Hf, Hs. subst.
  unfold pluck. simpl. split; [exact Hp|]. destruct (at_pos root r); [eauto|congruence].
Qed.

(* ---- positions are pairwise distinct, hence so are paths ---- *)
Lemma fp_positions e : forall p pos x, In x (fp e p pos) -> exists r, snd x = pos ++ r.
Proof.
  intros p pos x H. pose proof (fp_good e p pos) as G. rewrite Forall_forall in G.
  destruct (G _ H) as [_ [r [_ [Hs _]]]]. eauto.
Qed.

Lemma go_positions ks p pos : forall l i x, In x (go_fp ks p pos i l) -> exists j r, i <= j /\ snd x = pos ++ j :: r.
Proof.
  induction l as [|k l IH]; intros i x H; [contradiction|].
  cbn [go_fp] in H. apply in_app_or in H as [H|H].
  - destruct (fp_positions _ _ _ _ H) as [r Hr]. exists i, r. rewrite Hr, <- app_assoc. split; [lia|reflexivity].
  - destruct (IH _ _ H) as [j [r [Hj Hr]]]. exists j, r. split; [lia|exact Hr].
Qed.

Lemma nodup_app {A} (a b : list A) : NoDup a -> NoDup b -> (forall y, In y a -> In y b -> False) -> NoDup (a ++ b).
Proof.
  induction a as [|x a IH]; intros Ha Hb Hd; [exact Hb|]. simpl. inversion Ha as [|? ? Hx Ha']; subst. constructor.
  - rewrite in_app_iff. intros [H|H]; [contradiction|]. apply (Hd x); [left; reflexivity|exact H].
  - apply IH; [exact Ha'|exact Hb|]. intros y H1 H2. apply (Hd y); [right; exact H1|exact H2].
Qed.

Lemma fp_nodup_pos e : forall p pos, NoDup (map snd (fp e p pos)).
Proof.
  induction e as [t ks IH|t] using entry_ind'; intros p pos.
  - rewrite fp_T. cbn [map snd]. constructor.
    + intros Hin. apply in_map_iff in Hin as [x [Hx Hin]]. destruct (go_positions _ _ _ _ _ _ Hin) as [j [r [_ Hr]]].
      rewrite Hr in Hx. rewrite <- (app_nil_r pos) in Hx at 2. apply app_inv_head in Hx. discriminate.
    + generalize 0 as i. generalize ks at 1 as ks0. induction IH as [|k l Hk _ IHl]; intros ks0 i; [constructor|].
      cbn [go_fp]. rewrite map_app. apply nodup_app.
      * apply Hk.
      * apply IHl.
      * intros y Hy1 Hy2. apply in_map_iff in Hy1 as [x1 [E1 H1]]. apply in_map_iff in Hy2 as [x2 [E2 H2]].
        destruct (fp_positions _ _ _ _ H1) as [r1 Hr1]. destruct (go_positions _ _ _ _ _ _ H2) as [j [r2 [Hj Hr2]]].
        rewrite <- E2, Hr2 in E1. rewrite Hr1, <- app_assoc in E1. apply app_inv_head in E1. simpl in E1. injection E1 as E _. lia.
  - simpl. constructor; [intros []|constructor].
Qed.

Theorem full_pathfy_nodup_positions root : NoDup (map snd (full_pathfy root)).
Proof. apply fp_nodup_pos. Qed.

Lemma nodup_fst_of_functional {A B} (l : list (A * B)) :
  NoDup (map snd l) -> (forall x y, In x l -> In y l -> fst x = fst y -> snd x = snd y) -> NoDup (map fst l).
Proof.
  induction l as [|x l IH]; intros Hn Hf; [constructor|]. simpl in *. inversion Hn as [|? ? Hnot Hn']; subst.
  constructor.
  - intros Hin. apply in_map_iff in Hin as [y [Ey Hy]]. apply Hnot. apply in_map_iff. exists y. split; [|exact Hy].
    symmetry. apply Hf; auto.
  - apply IH; [exact Hn'|]. intros a b Ha Hb. apply Hf; auto.
Qed.

Theorem full_pathfy_nodup_paths root : NoDup (map fst (full_pathfy root)).
Proof.
  apply nodup_fst_of_functional; [apply full_pathfy_nodup_positions|].
  intros [p1 pos1] [p2 pos2] H1 H2 E. simpl in *. subst p2.
  destruct (pluck_full_pathfy _ _ _ H1) as [A _]. destruct (pluck_full_pathfy _ _ _ H2) as [B _]. congruence.
Qed.

(* ---- EntryCache: ids are the indices in document order ---- *)
Lemma path_eqb_eq a b : path_eqb a b = true <-> a = b.
Proof. unfold path_eqb. destruct (list_eq_dec _ a b); split; congruence. Qed.

Lemma assoc_none {V} k (l : list (path * V)) : ~ In k (map fst l) -> assoc k l = None.
Proof.
  induction l as [|[k' v] l IH]; intros H; [reflexivity|]. simpl in *.
  destruct (path_eqb k' k) eqn:E; [apply path_eqb_eq in E; subst; exfalso; apply H; auto|]. apply IH. tauto.
Qed.

Lemma build_entries_gen l : NoDup (map fst l) -> forall c, (forall k, In k (map fst l) -> ~ In k (map fst (entries c))) ->
  entries (fold_left (fun c x => add c (fst x) (snd x)) l c) = entries c ++ l.
Proof.
  induction l as [|[p pos] l IH]; intros Hn c Hd; [rewrite app_nil_r; reflexivity|].
  simpl in Hn. inversion Hn as [|? ? Hnot Hn']; subst. cbn [fold_left fst snd].
  assert (assoc p (entries c) = None) as Hnone by (apply assoc_none; apply Hd; left; reflexivity).
  rewrite IH; [| exact Hn' |].
  - unfold add. rewrite Hnone. cbn [entries]. rewrite <- app_assoc. reflexivity.
  - intros k Hk. unfold add. rewrite Hnone. cbn [entries]. rewrite map_app, in_app_iff. intros [H|H].
    + exact (Hd k (or_intror Hk) H).
    + simpl in H. destruct H as [H|[]]. subst. contradiction.
Qed.

Theorem build_entries root : entries (build root) = full_pathfy root.
Proof.
  unfold build. rewrite build_entries_gen; [reflexivity|apply full_pathfy_nodup_paths|]. intros k _ [].
Qed.

(* the id of a path is its index in the document-order listing *)
Theorem ids_document_order root p : index_of (build root) p = index_in p (full_pathfy root) 0.
Proof. unfold index_of. rewrite build_entries. reflexivity. Qed.

(* ---- resolution does not depend on the query history ---- *)
Section Res.
  Variable cls : Type.
  Variable candidates : str -> list cls.
  Variable accepts : cls -> path -> bool.
  Variable tagf : path -> str.                      (* the tag of the entry at a path *)
  Notation resolve := (resolve cls candidates accepts).
  Notation fresh := (resolve_fresh cls candidates accepts).

  Definition run_queries (qs : list path) : rstate cls :=
    fold_left (fun st q => snd (resolve st (tagf q) q)) qs [].

  Definition st_ok (st : rstate cls) : Prop := forall p c, assoc p st = Some c -> fresh (tagf p) p = Some c.

  Lemma assoc_app_single {V} (st : list (path * V)) p c q :
    assoc q (st ++ [(p, c)]) = match assoc q st with Some v => Some v | None => if path_eqb p q then Some c else None end.
  Proof. induction st as [|[k v] st IH]; simpl; [reflexivity|]. destruct (path_eqb k q); [reflexivity|exact IH]. Qed.

  Lemma step_ok st q : st_ok st -> st_ok (snd (resolve st (tagf q) q)).
  Proof.
    intros H. unfold Finder.resolve. destruct (assoc q st) eqn:E; [exact H|].
    destruct (fresh (tagf q) q) eqn:F; [|exact H]. simpl.
    intros p c0. rewrite assoc_app_single. destruct (assoc p st) eqn:G.
    - intros X; injection X as <-. apply H. exact G.
    - destruct (path_eqb q p) eqn:P; [|discriminate]. apply path_eqb_eq in P. subst. congruence.
  Qed.

  Lemma run_ok qs : forall st, st_ok st -> st_ok (fold_left (fun st q => snd (resolve st (tagf q) q)) qs st).
  Proof. induction qs as [|q qs IH]; intros st H; [exact H|]. simpl. apply IH. apply step_ok. exact H. Qed.

  Theorem resolve_order_independent qs p :
    fst (resolve (run_queries qs) (tagf p) p) = fresh (tagf p) p.
  Proof.
    assert (st_ok (run_queries qs)) as H by (apply run_ok; intros ? ? X; discriminate).
    unfold Finder.resolve. destruct (assoc p (run_queries qs)) eqn:E.
    - simpl. symmetry. apply H. exact E.
    - destruct (fresh (tagf p) p); reflexivity.
  Qed.
End Res.

Lemma ancestor_rev_spec rp tag : match ancestor_rev rp tag with
  | Some q => exists s e r, rp = s ++ e :: r /\ q = rev (e :: r) /\ fst e = tag /\ Forall (fun x => fst x <> tag) s
  | None => Forall (fun x => fst x <> tag) rp
  end.
Proof.
  induction rp as [|e r IH]; simpl; [constructor|].
  destruct (str_eqb (fst e) tag) eqn:E.
  - apply str_eqb_eq in E. exists [], e, r. repeat split; auto.
  - assert (Hne : fst e <> tag) by (intros H; apply str_eqb_eq in H; congruence).
    destruct (ancestor_rev r tag) as [q|].
    + destruct IH as [s [e0 [r0 [H1 [H2 [H3 H4]]]]]]. exists (e :: s), e0, r0. subst. repeat split; auto.
    + constructor; auto.
Qed.

(* the answer is a prefix of the path that ends in the tag, and nothing after it on the path has the tag *)
Theorem ancestor_nearest p tag q : ancestor p tag = Some q ->
  exists rest, p = q ++ rest /\ (exists e, last q e = e /\ q <> [] /\ fst (last q e) = tag) /\ Forall (fun x => fst x <> tag) rest.
Proof.
  unfold ancestor. intros H. pose proof (ancestor_rev_spec (rev p) tag) as S. rewrite H in S.
  destruct S as [s [e [r [H1 [H2 [H3 H4]]]]]]. exists (rev s). split; [|split].
  - rewrite <- (rev_involutive p), H1, rev_app_distr. subst q. reflexivity.
  - exists e. subst q. simpl. rewrite last_last. repeat split; auto. intros Hn. apply app_eq_nil in Hn. destruct Hn; discriminate.
  - apply Forall_rev. exact H4.
Qed.
Theorem ancestor_none p tag : ancestor p tag = None <-> Forall (fun x => fst x <> tag) p.
Proof.
  unfold ancestor. pose proof (ancestor_rev_spec (rev p) tag) as S. split.
  - intros H. rewrite H in S. rewrite <- (rev_involutive p). apply Forall_rev. exact S.
  - intros H. destruct (ancestor_rev (rev p) tag) as [q|]; auto.
    destruct S as [s [e [r [H1 [_ [H3 _]]]]]]. pose proof (Forall_rev H) as H'.
    assert (H2 : Forall (fun x : elem => fst x <> tag) (s ++ e :: r)) by (rewrite <- H1; exact H').
    apply Forall_app in H2. destruct H2 as [_ H2]. inversion H2; subst. congruence.
Qed.
