From Tranp Require Import Model.Runner.
From Coq Require Import Lia.
Local Open Scope nat_scope.

Section P.
  Variable src : Type.
  Variable hash : src -> nat.
  Variable nmods : nat.
  Variable imports : nat -> list nat.
  Variable render : nat -> (nat -> src) -> nat.
  Notation state := (state src).
  Notation run := (run src hash nmods render).
  Notation step := (step src hash nmods render).
  Notation exec := (exec src hash nmods render).
  Notation can_transpile := (can_transpile src hash).

  (* every output that exists was written by a run from some sources *)
  Definition Inv (st : state) : Prop :=
    forall m f, outs src st m = Some f -> exists srcs0, fhash f = hash (srcs0 m) /\ fbody f = render m srcs0.

  Lemma upd_eq {V} (f : nat -> V) k v : upd f k v k = v.
  Proof. unfold upd. rewrite Nat.eqb_refl. reflexivity. Qed.
  Lemma upd_neq {V} (f : nat -> V) k v x : x <> k -> upd f k v x = f x.
  Proof. intros H. unfold upd. destruct (Nat.eqb x k) eqn:E; [apply Nat.eqb_eq in E; contradiction|reflexivity]. Qed.

  (* what a run leaves at module m *)
  Lemma run_outs force st : forall m,
    outs src (run force st) m =
    if Nat.ltb m nmods && (force || can_transpile st m)
    then Some {| fhash := hash (sources src st m); fbody := render m (sources src st) |}
    else outs src st m.
  Proof.
    unfold Runner.run. intros m.
    assert (forall l s0, sources src s0 = sources src st -> NoDup l ->
              let s1 := fold_left (fun s k => if force || can_transpile st k then write src hash render s k else s) l s0 in
              sources src s1 = sources src st /\
              outs src s1 m = if existsb (Nat.eqb m) l && (force || can_transpile st m)
                              then Some {| fhash := hash (sources src st m); fbody := render m (sources src st) |} else outs src s0 m) as G.
    { induction l as [|k l IH]; intros s0 Hs Hn; [split; [exact Hs|reflexivity]|].
      inversion Hn as [|? ? Hk Hn']; subst. cbn [fold_left existsb].
      set (s0' := if force || can_transpile st k then write src hash render s0 k else s0).
      assert (sources src s0' = sources src st) as Hs' by (unfold s0'; destruct (force || can_transpile st k); [exact Hs|exact Hs]).
      destruct (IH s0' Hs' Hn') as [A B]. split; [exact A|]. rewrite B.
      destruct (Nat.eqb m k) eqn:Emk.
      - apply Nat.eqb_eq in Emk. subst k.
        assert (existsb (Nat.eqb m) l = false) as Ex.
        { destruct (existsb (Nat.eqb m) l) eqn:X; [|reflexivity]. apply existsb_exists in X as [x [Hx E]]. apply Nat.eqb_eq in E. subst x. contradiction. }
        rewrite Ex. cbn [orb andb]. unfold s0'. destruct (force || can_transpile st m); [|reflexivity].
        unfold write. cbn [outs]. rewrite upd_eq, Hs. reflexivity.
      - cbn [orb]. destruct (existsb (Nat.eqb m) l && (force || can_transpile st m)); [reflexivity|].
        unfold s0'. destruct (force || can_transpile st k); [|reflexivity]. unfold write. cbn [outs]. apply upd_neq.
        intros ->. rewrite Nat.eqb_refl in Emk. discriminate. }
    destruct (G (seq 0 nmods) st eq_refl (seq_NoDup nmods 0)) as [_ B]. rewrite B.
    replace (existsb (Nat.eqb m) (seq 0 nmods)) with (Nat.ltb m nmods); [reflexivity|].
    destruct (Nat.ltb m nmods) eqn:L.
    - symmetry. apply existsb_exists. exists m. split; [apply in_seq; apply Nat.ltb_lt in L; lia|apply Nat.eqb_refl].
    - symmetry. destruct (existsb (Nat.eqb m) (seq 0 nmods)) eqn:X; [|reflexivity].
      apply existsb_exists in X as [x [Hx E]]. apply Nat.eqb_eq in E. subst x. apply in_seq in Hx. apply Nat.ltb_ge in L. lia.
  Qed.

  Lemma run_sources force st : sources src (run force st) = sources src st.
  Proof.
    unfold Runner.run. generalize (seq 0 nmods) as l. intros l.
    assert (forall s0, sources src s0 = sources src st ->
              sources src (fold_left (fun s k => if force || can_transpile st k then write src hash render s k else s) l s0) = sources src st) as G.
    { induction l as [|k l IH]; intros s0 Hs; [exact Hs|]. cbn [fold_left]. apply IH. destruct (force || can_transpile st k); exact Hs. }
    apply G. reflexivity.
  Qed.

  Lemma step_inv st o : Inv st -> Inv (step st o).
  Proof.
    intros H. destruct o as [m v| | |m]; unfold Inv in *; intros k f Hf; cbn [Runner.step] in Hf.
    - exact (H k f Hf).
    - rewrite run_outs in Hf. destruct (Nat.ltb k nmods && _); [injection Hf as <-; eexists; split; reflexivity|exact (H k f Hf)].
    - rewrite run_outs in Hf. destruct (Nat.ltb k nmods && _); [injection Hf as <-; eexists; split; reflexivity|exact (H k f Hf)].
    - cbn [outs] in Hf. unfold upd in Hf. destruct (Nat.eqb k m); [discriminate|exact (H k f Hf)].
  Qed.

  Lemma exec_inv h : forall st, Inv st -> Inv (exec st h).
  Proof. induction h as [|o h IH]; intros st H; [exact H|]. cbn [Runner.exec fold_left]. apply IH. apply step_inv. exact H. Qed.

  (* when hashes identify sources and the text of a module depends on its own source only, a non-forced
     run leaves exactly the files a forced run would write, after any history *)
  Theorem run_eq_force_partial :
    (forall a b, hash a = hash b -> a = b) ->
    (forall m s1 s2, s1 m = s2 m -> render m s1 = render m s2) ->
    forall h st0, Inv st0 -> forall m,
    outs src (run false (exec st0 h)) m = outs src (run true (exec st0 h)) m.
  Proof.
    intros Hinj Hown h st0 H0 m. pose proof (exec_inv h st0 H0) as HI. set (st := exec st0 h) in *.
    rewrite !run_outs. cbn [orb]. destruct (Nat.ltb m nmods); [|reflexivity]. cbn [andb].
    unfold Runner.can_transpile. destruct (outs src st m) as [f|] eqn:Ef; [|reflexivity].
    destruct (Nat.eqb (fhash f) (hash (sources src st m))) eqn:E; [|reflexivity]. cbn [negb].
    apply Nat.eqb_eq in E. destruct (HI m f Ef) as [s0 [A B]].
    f_equal. destruct f as [fh fb]. cbn [fhash fbody] in *. f_equal; [congruence|].
    rewrite B. apply Hown. apply Hinj. congruence.
  Qed.

  (* files that need no regeneration are left untouched by a non-forced run *)
  Theorem untouched st m f : outs src st m = Some f -> fhash f = hash (sources src st m) -> outs src (run false st) m = Some f.
  Proof.
    intros Hf Hh. rewrite run_outs. cbn [orb]. unfold Runner.can_transpile. rewrite Hf, Hh, Nat.eqb_refl. cbn [negb].
    rewrite andb_false_r. reflexivity.
  Qed.
End P.

(* with imports the statement is false: a dependent keeps its stale text *)
Definition demo_render (m : nat) (s : nat -> nat) : nat := match m with 0 => s 0 | _ => 10 * s 1 + s 0 end.   (* module 1 imports module 0 *)
Definition demo_init : state nat := {| sources := fun _ => 1; outs := fun _ => None |}.
Definition demo_hist : list (op nat) := [Run nat; Edit nat 0 2].
Theorem run_eq_force_refuted :
  exists m, outs nat (run nat (fun x => x) 2 demo_render false (exec nat (fun x => x) 2 demo_render demo_init demo_hist)) m
         <> outs nat (run nat (fun x => x) 2 demo_render true (exec nat (fun x => x) 2 demo_render demo_init demo_hist)) m.
Proof. exists 1. vm_compute. discriminate. Qed.
