From Tranp Require Import Model.Dsn Proofs.PathStrProofs.
From Coq Require Import Lia.
Local Open Scope nat_scope.

(* an identifier-like element: not empty, no separator characters *)
Definition elem_ok (x : str) : Prop := x <> [] /\ ~ In "."%char x /\ ~ In "#"%char x.

Lemma filter_nonempty_id l : Forall elem_ok l -> filter nonempty l = l.
Proof.
  induction 1 as [|x l [Hx _] _ IH]; [reflexivity|]. simpl. unfold nonempty at 1.
  destruct (str_eqb x []) eqn:E; [apply str_eqb_eq in E; contradiction|]. simpl. rewrite IH. reflexivity.
Qed.

(* joining identifier-like elements and splitting again gives the elements back *)
Theorem elements_join xs : Forall elem_ok xs -> dsn_elements (dsn_join xs) = xs.
Proof.
  intros H. unfold dsn_elements, dsn_join. rewrite (filter_nonempty_id xs H).
  destruct xs as [|x r]; [reflexivity|]. rewrite split_join.
  - apply filter_nonempty_id. exact H.
  - discriminate.
  - eapply Forall_impl; [|exact H]. intros a [_ [Ha _]]. exact Ha.
Qed.

Corollary join_injective xs ys : Forall elem_ok xs -> Forall elem_ok ys -> dsn_join xs = dsn_join ys -> xs = ys.
Proof. intros Hx Hy E. rewrite <- (elements_join xs Hx), <- (elements_join ys Hy), E. reflexivity. Qed.

Lemma join_no_hash xs : Forall elem_ok xs -> ~ In "#"%char (dsn_join xs).
Proof.
  intros H. unfold dsn_join. rewrite (filter_nonempty_id xs H). induction H as [|x l [_ [_ Hx]] Hl IH]; [simpl; tauto|].
  destruct l as [|y l']; [exact Hx|]. change (join ["."%char] (x :: y :: l')) with (x ++ "."%char :: join ["."%char] (y :: l')).
  rewrite in_app_iff. intros [A|[A|A]]; [contradiction|discriminate|contradiction].
Qed.

(* a module path and local elements are recovered from the full name *)
Theorem parsed_full_joined m xs : m <> [] -> ~ In "#"%char m -> Forall elem_ok xs -> xs <> [] ->
  parsed (full_joined m xs) = (m, dsn_join xs).
Proof.
  intros Hm Hh Hx Hne. unfold full_joined. apply mem_false_iff in Hh as Hmem. rewrite Hmem.
  assert (dsn_join xs <> []) as Hj.
  { unfold dsn_join. rewrite (filter_nonempty_id xs Hx). destruct xs as [|x r]; [congruence|]. inversion Hx as [|? ? [Hx0 _] _]; subst.
    destruct r; simpl; [exact Hx0|]. destruct x; [congruence|discriminate]. }
  simpl filter. unfold nonempty.
  destruct (str_eqb m []) eqn:E1; [apply str_eqb_eq in E1; contradiction|].
  destruct (str_eqb (dsn_join xs) []) eqn:E2; [apply str_eqb_eq in E2; contradiction|]. simpl.
  change (m ++ "#"%char :: dsn_join xs) with (join ["#"%char] [m; dsn_join xs]).
  unfold parsed. rewrite (split_join "#"%char [m; dsn_join xs]).
  - reflexivity.
  - discriminate.
  - constructor; [apply mem_false_iff; exact Hmem|constructor; [apply join_no_hash; exact Hx|constructor]].
Qed.

(* ---- lookup only compares identifiers: it commutes with any injective renaming ---- *)
Section Equivariance.
  Variable ident : Type.
  Variable eqb : ident -> ident -> bool.
  Hypothesis eqb_spec : forall a b, eqb a b = true <-> a = b.
  Variable r : ident -> ident.
  Hypothesis r_inj : forall a b, r a = r b -> a = b.

  Lemma name_eqb_map a b : name_eqb ident eqb (map r a) (map r b) = name_eqb ident eqb a b.
  Proof.
    revert b. induction a as [|x a IH]; intros [|y b]; try reflexivity. simpl. rewrite IH. f_equal.
    destruct (eqb x y) eqn:E.
    - apply eqb_spec in E. subst. apply eqb_spec. reflexivity.
    - destruct (eqb (r x) (r y)) eqn:F; [|reflexivity]. apply eqb_spec in F. apply r_inj in F. subst.
      assert (eqb y y = true) by (apply eqb_spec; reflexivity). congruence.
  Qed.

  Lemma has_map d k : has ident eqb (map (map r) d) (map r k) = has ident eqb d k.
  Proof. unfold has. induction d as [|x d IH]; [reflexivity|]. simpl. rewrite name_eqb_map, IH. reflexivity. Qed.

  Lemma prefixes_map l : prefixes ident (map r l) = map (map r) (prefixes ident l).
  Proof. induction l as [|x l IH]; [reflexivity|]. simpl. rewrite IH, !map_map. reflexivity. Qed.

  Lemma find_map_gen d name l :
    List.find (fun sc => has ident eqb (map (map r) d) (sc ++ map r name)) (map (map r) l)
    = option_map (map r) (List.find (fun sc => has ident eqb d (sc ++ name)) l).
  Proof.
    induction l as [|sc l IH]; [reflexivity|]. simpl. rewrite <- map_app, has_map.
    destruct (has ident eqb d (sc ++ name)); [reflexivity|exact IH].
  Qed.

  (* renaming every identifier of the table, of the scope and of the looked-up name renames the answer *)
  Theorem lookup_equivariant d scope name :
    find ident eqb (map (map r) d) (map r scope) (map r name) = option_map (map r) (find ident eqb d scope name).
  Proof.
    unfold find, make_scopes. rewrite prefixes_map, <- map_rev, find_map_gen.
    destruct (List.find _ (rev (prefixes ident scope))); simpl; [rewrite map_app|]; reflexivity.
  Qed.
End Equivariance.

(* on joined strings, a prefix test is not the image of the element-wise prefix relation *)
Theorem string_prefix_is_not_scope_prefix :
  starts (s "m#foo") (s "m#foobar") = true /\ dsn_elements (s "foobar") <> dsn_elements (s "foo") ++ [s "bar"].
Proof. split; vm_compute; [reflexivity|discriminate]. Qed.
