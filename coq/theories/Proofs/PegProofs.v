(* C11 / C12: the escape fix-ups followed by Python's reading of the literal only lose the backslash of \' ;
   the engine never consumes more tokens than remain before the cursor. *)
From Tranp Require Import Model.Peg.
From Coq Require Import Lia.
Local Open Scope nat_scope.

(* what the rule file stores for a token value: a backslash directly before a single quote disappears *)
Fixpoint drop_bs_sq (t : str) : str :=
  match t with
  | "\"%char :: "'"%char :: r => "'"%char :: drop_bs_sq r
  | c :: r => c :: drop_bs_sq r
  | [] => []
  end.

Lemma through_file_cons_other c r : c <> "\"%char -> through_file (c :: r) = c :: through_file r.
Proof.
  intros H. unfold through_file. cbn [fix1]. destruct (Ascii.eqb c "\"%char) eqn:E; [apply Ascii.eqb_eq in E; contradiction|].
  assert (forall X, fix2 (c :: X) = c :: fix2 X) as F.
  { intros X. destruct c as [[] [] [] [] [] [] [] []]; try reflexivity. exfalso. apply H. reflexivity. }
  rewrite F. destruct c as [[] [] [] [] [] [] [] []]; try reflexivity. exfalso. apply H. reflexivity.
Qed.

Lemma fix1_bs r : fix1 ("\"%char :: r) = "\"%char :: "\"%char :: fix1 r.
Proof. reflexivity. Qed.

Lemma fixups_law_n : forall n v, length v <= n -> through_file v = drop_bs_sq v.
Proof.
  induction n as [|n IHn]; intros v Hn; [destruct v; [reflexivity|simpl in Hn; lia]|].
  assert (forall w, length w < length v -> through_file w = drop_bs_sq w) as IH by (intros w Hw; apply IHn; lia).
  clear IHn Hn. destruct v as [|c r]; [reflexivity|].
  destruct (Ascii.ascii_dec c "\"%char) as [->|Hc].
  - destruct r as [|d r'].
    + reflexivity.
    + destruct (Ascii.ascii_dec d "'"%char) as [->|Hd].
      * unfold through_file. cbn [fix1 Ascii.eqb]. simpl. f_equal. apply IH. simpl. lia.
      * destruct (Ascii.ascii_dec d "\"%char) as [->|Hd2].
        -- (* backslash backslash ... *)
           change (drop_bs_sq ("\"%char :: "\"%char :: r')) with ("\"%char :: drop_bs_sq ("\"%char :: r')).
           rewrite <- (IH ("\"%char :: r')) by (simpl; lia). unfold through_file. rewrite !fix1_bs. reflexivity.
        -- destruct d as [[] [] [] [] [] [] [] []];
             try (exfalso; apply Hd; reflexivity); try (exfalso; apply Hd2; reflexivity);
             (unfold through_file; simpl; do 2 f_equal; apply IH; simpl; lia).
  - rewrite through_file_cons_other by exact Hc. rewrite IH by (simpl; lia).
    destruct c as [[] [] [] [] [] [] [] []]; try reflexivity. exfalso. apply Hc. reflexivity.
Qed.

Theorem fixups_law : forall v, through_file v = drop_bs_sq v.
Proof. intros v. apply (fixups_law_n (length v)). lia. Qed.

(* ---- the engine never reads before the first token: consumed steps stay within the tokens left ---- *)
Section Bound.
Variable rs : rules.
Variable regex_of : str -> option re.
Variable kws : list str.
Notation msym := (m_symbol rs regex_of kws).
Notation ment := (m_entry rs regex_of kws).
Notation mor := (m_or rs regex_of kws).
Notation mand := (m_and rs regex_of kws).
Notation mrep := (m_repeat rs regex_of kws).


Lemma msym_S f toks cur sym : msym (S f) toks cur sym =
  match get_rule rs sym with
  | None => MKey
  | Some p => if is_term p then match m_terminal regex_of kws toks cur p with Some tk => MOk (1, TTok sym tk) | None => MNg end
              else match ment f toks cur p true with
                   | MOk (n, kids) => MOk (n, TTree sym (unwrap_children rs kids))
                   | MNg => MNg | MFuel => MFuel | MKey => MKey end
  end.
Proof. reflexivity. Qed.
Lemma ment_S f toks cur p allow : ment (S f) toks cur p allow =
  match p with
  | PGroup es is_or r =>
      match r, allow with
      | NoRep, _ | _, false => if is_or then mor f toks cur es else mand f toks cur (rev es) 0 []
      | _, true => mrep f toks cur p r false 0 []
      end
  | PSym name => match msym f toks cur name with MOk (n, e) => MOk (n, [e]) | MNg => MNg | MFuel => MFuel | MKey => MKey end
  | _ => match m_terminal regex_of kws toks cur p with Some _ => MOk (1, []) | None => MNg end
  end.
Proof. reflexivity. Qed.
Lemma mor_S f toks cur es : mor (S f) toks cur es =
  match es with
  | [] => MNg
  | p :: r => match ment f toks cur p true with MOk x => MOk x | MNg => mor f toks cur r | MFuel => MFuel | MKey => MKey end
  end.
Proof. reflexivity. Qed.
Lemma mand_S f toks cur res steps kids : mand (S f) toks cur res steps kids =
  match res with
  | [] => MOk (steps, kids)
  | p :: r => match ment f toks (cur + steps) p true with
              | MOk (n, ks) => mand f toks cur r (steps + n) (ks ++ kids)
              | MNg => MNg | MFuel => MFuel | MKey => MKey end
  end.
Proof. reflexivity. Qed.
Lemma mrep_S f toks cur p r found steps kids : mrep (S f) toks cur p r found steps kids =
  let finish := if found then MOk (steps, kids)
                else match r with Star0 | Opt => MOk (0, []) | OptEmpty => MOk (0, [empty_tok]) | _ => MNg end in
  if Nat.ltb (cur + steps) (length toks) then
    match ment f toks (cur + steps) p false with
    | MOk (n, ks) => match r with Opt | OptEmpty => MOk (steps + n, ks ++ kids) | _ => mrep f toks cur p r true (steps + n) (ks ++ kids) end
    | MNg => finish
    | MFuel => MFuel | MKey => MKey
    end
  else finish.
Proof. reflexivity. Qed.

Lemma terminal_bound toks cur p tk : m_terminal regex_of kws toks cur p = Some tk -> cur + 1 <= length toks.
Proof. unfold m_terminal. destruct (Nat.leb (length toks) cur) eqn:E; [discriminate|]. apply Nat.leb_gt in E. intros _. lia. Qed.

Definition bounded (fuel : nat) : Prop := forall toks,
  (forall cur sym n t, cur <= length toks -> msym fuel toks cur sym = MOk (n, t) -> cur + n <= length toks) /\
  (forall cur p allow n ks, cur <= length toks -> ment fuel toks cur p allow = MOk (n, ks) -> cur + n <= length toks) /\
  (forall cur es n ks, cur <= length toks -> mor fuel toks cur es = MOk (n, ks) -> cur + n <= length toks) /\
  (forall cur res steps kids n ks, cur + steps <= length toks -> mand fuel toks cur res steps kids = MOk (n, ks) -> cur + n <= length toks) /\
  (forall cur p r found steps kids n ks, cur + steps <= length toks -> mrep fuel toks cur p r found steps kids = MOk (n, ks) -> cur + n <= length toks).

Theorem engine_bounded : forall fuel, bounded fuel.
Proof.
  induction fuel as [|f IH]; intros toks.
  - repeat split; intros; discriminate.
  - destruct (IH toks) as [Hs [He [Ho [Ha Hr]]]]. repeat split.
    + intros cur sym n t Hc H. rewrite msym_S in H. destruct (get_rule rs sym) as [p|]; [|discriminate].
      destruct (is_term p).
      * destruct (m_terminal regex_of kws toks cur p) eqn:T; [|discriminate]. injection H as <- _. eapply terminal_bound; eassumption.
      * destruct (ment f toks cur p true) as [[n0 ks]| | |] eqn:E; try discriminate. injection H as <- _. eapply He; eassumption.
    + intros cur p allow n ks Hc H. rewrite ment_S in H. destruct p as [t|e|name|es is_or r].
      * destruct (m_terminal regex_of kws toks cur (PEq t)) eqn:T; [|discriminate]. injection H as <- _. eapply terminal_bound; eassumption.
      * destruct (m_terminal regex_of kws toks cur (PRe e)) eqn:T; [|discriminate]. injection H as <- _. eapply terminal_bound; eassumption.
      * destruct (msym f toks cur name) as [[n0 e0]| | |] eqn:E; try discriminate. injection H as <- _. eapply Hs; eassumption.
      * destruct r, allow; try (destruct is_or; [eapply Ho; eassumption|eapply (Ha cur (rev es) 0 []); [lia|eassumption]]);
          try (eapply (Hr cur _ _ false 0 []); [lia|eassumption]).
    + intros cur es n ks Hc H. rewrite mor_S in H. destruct es as [|p r]; [discriminate|].
      destruct (ment f toks cur p true) as [[n0 k0]| | |] eqn:E; try discriminate.
      * injection H as <- <-. eapply He; eassumption.
      * eapply Ho; eassumption.
    + intros cur res steps kids n ks Hc H. rewrite mand_S in H. destruct res as [|p r]; [injection H as <- _; exact Hc|].
      destruct (ment f toks (cur + steps) p true) as [[n0 k0]| | |] eqn:E; try discriminate.
      pose proof (He _ _ _ _ _ Hc E) as B. eapply (Ha cur r (steps + n0)); [lia|eassumption].
    + intros cur p r found steps kids n ks Hc H. rewrite mrep_S in H. cbn zeta in H.
      assert (forall n1 k1, (if found then MOk (steps, kids) else match r with Star0 | Opt => MOk (0, []) | OptEmpty => MOk (0, [empty_tok]) | _ => MNg end) = MOk (n1, k1) -> cur + n1 <= length toks) as Fin.
      { intros n1 k1 X. destruct found; [injection X as <- _; exact Hc|]. destruct r; try discriminate; injection X as <- _; lia. }
      destruct (Nat.ltb (cur + steps) (length toks)); [|eapply Fin; eassumption].
      destruct (ment f toks (cur + steps) p false) as [[n0 k0]| | |] eqn:E; try discriminate; [|eapply Fin; eassumption].
      pose proof (He _ _ _ _ _ Hc E) as B.
      destruct r; try (injection H as <- _; lia); try (eapply (Hr cur p _ true (steps + n0)); [lia|eassumption]).
Qed.

(* a parse that is accepted consumed exactly the whole token list, no more *)
Corollary accepted_consumes_all toks entry t : parse_tokens rs regex_of kws toks entry = POk t ->
  exists n, m_symbol rs regex_of kws (200 * (length toks + 2)) toks 0 entry = MOk (n, t) /\ n = length toks.
Proof.
  unfold parse_tokens. destruct (m_symbol _ _ _ _ toks 0 entry) as [[n t0]| | |]; try discriminate.
  destruct (Nat.eqb n (length toks)) eqn:E; [|discriminate]. intros H. injection H as <-. apply Nat.eqb_eq in E. eauto.
Qed.
End Bound.
