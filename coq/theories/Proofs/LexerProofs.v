(* C13 proofs: progress and partition of the lexer, the post filter never lets a filtered kind through,
   block markers balance, and the block structure only depends on the order of indentation widths. *)
From Tranp Require Import Model.Lexer.
From Coq Require Import ZArith Lia.
Local Open Scope nat_scope.

(* ================= rebuild: indents and dedents ================= *)
Section Rebuild.
Variable D : tokdef.

Definition is_ty (ty : nat) (k : tok) : bool := Nat.eqb (ttype k) ty.
Definition cnt (ty : nat) (l : list tok) : nat := length (filter (is_ty ty) l).
Lemma cnt_app ty a b : cnt ty (a ++ b) = cnt ty a + cnt ty b.
Proof. unfold cnt. rewrite filter_app, app_length. reflexivity. Qed.
Lemma cnt_repeat_mk ty ty' txt k n : cnt ty (repeat (mk ty' txt k) n) = if Nat.eqb ty' ty then n else 0.
Proof.
  induction n as [|n IH]; simpl; [destruct (Nat.eqb ty' ty); reflexivity|].
  unfold cnt in *. simpl. unfold is_ty at 1. simpl. destruct (Nat.eqb ty' ty); simpl; rewrite IH; reflexivity.
Qed.

(* the three marker kinds are distinct numbers in the generated numbering *)
Definition markers_ok : bool :=
  negb (Nat.eqb T_Indent T_Dedent) && negb (Nat.eqb T_NewLine T_Indent) && negb (Nat.eqb T_NewLine T_Dedent)
  && negb (Nat.eqb T_EOF T_WhiteSpace) && negb (Nat.eqb T_EOF T_LineBreak).
Lemma markers_ok_true : markers_ok = true. Proof. vm_compute. reflexivity. Qed.

Lemma pop_deeper_le st w : length (pop_deeper st w) <= length st.
Proof. induction st as [|top r IH]; simpl; [lia|]. destruct (Nat.ltb w top); simpl; lia. Qed.
Lemma to_nest_le st w : length (to_nest st w) <= S (length st).
Proof. unfold to_nest. pose proof (pop_deeper_le st w). destruct (_ && _); simpl; lia. Qed.

(* an input token that is not itself a marker *)
Definition plain (k : tok) : Prop := ttype k <> T_Indent /\ ttype k <> T_Dedent /\ ttype k <> T_EOF.

Definition inv (c : ctxt) : Prop := nest c = length (indents c).

Lemma step_balance c k : inv c -> plain k ->
  let '(c', out) := rebuild_step c k in
  inv c' /\ cnt T_Indent out + nest c = cnt T_Dedent out + nest c'.
Proof.
  intros Hi [P1 [P2 P3]]. unfold rebuild_step.
  pose proof markers_ok_true as M. unfold markers_ok in M.
  repeat (apply andb_true_iff in M as [M ?]). repeat match goal with H : negb _ = true |- _ => apply negb_true_iff in H end.
  destruct (Nat.eqb (domain_of (ttype k)) 0) eqn:Ed.
  - destruct (Z.ltb 0 (enclosure c)); [split; [exact Hi|reflexivity]|].
    destruct (Nat.eqb (ttype k) T_WhiteSpace); [split; [exact Hi|reflexivity]|].
    destruct (Nat.eqb (ttype k) T_EOF) eqn:Ee; [apply Nat.eqb_eq in Ee; contradiction|].
    set (st := to_nest (indents c) (last_line_len (ttext k) 0)).
    pose proof (to_nest_le (indents c) (last_line_len (ttext k) 0)) as Hle. fold st in Hle.
    destruct (Nat.ltb (nest c) (length st)) eqn:E1.
    + apply Nat.ltb_lt in E1. split; [reflexivity|]. cbn [nest].
      unfold cnt, is_ty, inv in *. cbn. lia.
    + destruct (Nat.ltb (length st) (nest c)) eqn:E2.
      * apply Nat.ltb_lt in E2. split; [reflexivity|]. cbn [nest].
        change (mk T_NewLine [ascii_of_nat 10] k :: repeat (mk T_Dedent S_Dedent k) (nest c - length st))
          with ([mk T_NewLine [ascii_of_nat 10] k] ++ repeat (mk T_Dedent S_Dedent k) (nest c - length st)).
        rewrite !cnt_app, !cnt_repeat_mk. unfold cnt, is_ty, inv in *. cbn. lia.
      * apply Nat.ltb_ge in E1, E2. split; [unfold inv in *; simpl; lia|]. cbn [nest].
        unfold cnt, is_ty, inv in *. cbn. lia.
  - destruct (Nat.eqb (domain_of (ttype k)) 5).
    + split; [exact Hi|]. cbn [nest]. unfold cnt. simpl. unfold is_ty.
      destruct (Nat.eqb (ttype k) T_Indent) eqn:A; [apply Nat.eqb_eq in A; contradiction|].
      destruct (Nat.eqb (ttype k) T_Dedent) eqn:B; [apply Nat.eqb_eq in B; contradiction|]. reflexivity.
    + split; [exact Hi|]. unfold cnt. simpl. unfold is_ty.
      destruct (Nat.eqb (ttype k) T_Indent) eqn:A; [apply Nat.eqb_eq in A; contradiction|].
      destruct (Nat.eqb (ttype k) T_Dedent) eqn:B; [apply Nat.eqb_eq in B; contradiction|]. reflexivity.
Qed.

Fixpoint final_ctxt (c : ctxt) (ts : list tok) : ctxt :=
  match ts with [] => c | k :: r => final_ctxt (fst (rebuild_step c k)) r end.

Lemma loop_balance ts : Forall plain ts -> forall c, inv c ->
  inv (final_ctxt c ts) /\ cnt T_Indent (rebuild_loop c ts) + nest c = cnt T_Dedent (rebuild_loop c ts) + nest (final_ctxt c ts).
Proof.
  induction 1 as [|k r Hk _ IH]; intros c Hi; [split; [exact Hi|reflexivity]|].
  cbn [rebuild_loop final_ctxt]. pose proof (step_balance c k Hi Hk) as S.
  destruct (rebuild_step c k) as [c' out]. destruct S as [Hi' Hb]. cbn [fst].
  destruct (IH c' Hi') as [Hf Hr]. split; [exact Hf|]. rewrite !cnt_app. lia.
Qed.

(* every block that is opened is closed: on the token list of a source (no marker tokens in the
   input, EOF last, brackets not left open) the rebuilt stream has as many Indent as Dedent tokens *)
Theorem indent_balance ts : Forall plain ts ->
  (enclosure (final_ctxt {| nest := 0; enclosure := 0%Z; indents := [] |} ts) <= 0)%Z ->
  cnt T_Indent (rebuild (ts ++ [eof_tok])) = cnt T_Dedent (rebuild (ts ++ [eof_tok])).
Proof.
  intros Hp He. unfold rebuild. set (c0 := {| nest := 0; enclosure := 0%Z; indents := [] |}) in *.
  assert (forall c l, rebuild_loop c (l ++ [eof_tok]) = rebuild_loop c l ++ snd (rebuild_step (final_ctxt c l) eof_tok)) as Happ.
  { intros c l. revert c. induction l as [|k r IHl]; intros c.
    - simpl. destruct (rebuild_step c eof_tok). simpl. rewrite app_nil_r. reflexivity.
    - cbn [app rebuild_loop final_ctxt]. destruct (rebuild_step c k) as [c' out]. cbn [fst]. rewrite IHl, app_assoc. reflexivity. }
  rewrite Happ, !cnt_app. destruct (loop_balance ts Hp c0 eq_refl) as [_ Hb]. cbn [nest c0] in Hb.
  set (cf := final_ctxt c0 ts) in *.
  assert (snd (rebuild_step cf eof_tok) = mk T_NewLine [ascii_of_nat 10] eof_tok :: repeat (mk T_Dedent S_Dedent eof_tok) (nest cf)) as Ee.
  { unfold rebuild_step. change (domain_of (ttype eof_tok)) with (domain_of T_EOF).
    replace (Nat.eqb (domain_of T_EOF) 0) with true by (vm_compute; reflexivity).
    destruct (Z.ltb 0 (enclosure cf)) eqn:Z; [apply Z.ltb_lt in Z; lia|].
    replace (Nat.eqb (ttype eof_tok) T_WhiteSpace) with false by (vm_compute; reflexivity).
    replace (Nat.eqb (ttype eof_tok) T_EOF) with true by (vm_compute; reflexivity). reflexivity. }
  rewrite Ee.
  change (mk T_NewLine [ascii_of_nat 10] eof_tok :: repeat (mk T_Dedent S_Dedent eof_tok) (nest cf))
    with ([mk T_NewLine [ascii_of_nat 10] eof_tok] ++ repeat (mk T_Dedent S_Dedent eof_tok) (nest cf)).
  rewrite !cnt_app, !cnt_repeat_mk, Nat.eqb_refl.
  replace (Nat.eqb T_Dedent T_Indent) with false by (vm_compute; reflexivity).
  replace (cnt T_Indent [mk T_NewLine [ascii_of_nat 10] eof_tok]) with 0 by (vm_compute; reflexivity).
  replace (cnt T_Dedent [mk T_NewLine [ascii_of_nat 10] eof_tok]) with 0 by (vm_compute; reflexivity).
  lia.
Qed.

(* ---- the block structure depends only on how indentation widths compare ---- *)
Lemma pop_deeper_scale m st w : 0 < m -> pop_deeper (map (Nat.mul m) st) (m * w) = map (Nat.mul m) (pop_deeper st w).
Proof.
  intros Hm. induction st as [|top r IH]; [reflexivity|]. simpl.
  assert (Nat.ltb (m * w) (m * top) = Nat.ltb w top) as E.
  { destruct (Nat.ltb w top) eqn:X; [apply Nat.ltb_lt in X; apply Nat.ltb_lt; nia|apply Nat.ltb_ge in X; apply Nat.ltb_ge; nia]. }
  rewrite E. destruct (Nat.ltb w top); [exact IH|reflexivity].
Qed.
Lemma to_nest_scale m st w : 0 < m -> to_nest (map (Nat.mul m) st) (m * w) = map (Nat.mul m) (to_nest st w).
Proof.
  intros Hm. unfold to_nest. rewrite pop_deeper_scale by exact Hm.
  assert (Nat.ltb 0 (m * w) = Nat.ltb 0 w) as E0.
  { destruct (Nat.ltb 0 w) eqn:X; [apply Nat.ltb_lt in X; apply Nat.ltb_lt; nia|apply Nat.ltb_ge in X; apply Nat.ltb_ge; nia]. }
  rewrite E0. destruct (pop_deeper st w) as [|top r]; simpl.
  - destruct (Nat.ltb 0 w); reflexivity.
  - assert (Nat.ltb (m * top) (m * w) = Nat.ltb top w) as E.
    { destruct (Nat.ltb top w) eqn:X; [apply Nat.ltb_lt in X; apply Nat.ltb_lt; nia|apply Nat.ltb_ge in X; apply Nat.ltb_ge; nia]. }
    rewrite E. destruct (Nat.ltb 0 w && Nat.ltb top w); reflexivity.
Qed.

(* two token lists that differ only in the width of the last line of their line breaks, by a constant
   positive factor m (2 spaces <-> 4 spaces, tab <-> m spaces) *)
Definition same_but_width (m : nat) (a b : tok) : Prop :=
  ttype a = ttype b /\ tb a = tb b /\ te a = te b /\
  (Nat.eqb (domain_of (ttype a)) 0 = false -> a = b) /\
  last_line_len (ttext b) 0 = m * last_line_len (ttext a) 0.

Definition ctx_scaled (m : nat) (c c' : ctxt) : Prop :=
  nest c' = nest c /\ enclosure c' = enclosure c /\ indents c' = map (Nat.mul m) (indents c).

Lemma mk_same ty txt a b : tb a = tb b -> te a = te b -> mk ty txt a = mk ty txt b.
Proof. intros H1 H2. unfold mk. rewrite H1, H2. reflexivity. Qed.

Lemma step_scaled m c c' a b : 0 < m -> ctx_scaled m c c' -> same_but_width m a b ->
  snd (rebuild_step c' b) = snd (rebuild_step c a) /\ ctx_scaled m (fst (rebuild_step c a)) (fst (rebuild_step c' b)).
Proof.
  intros Hm [Cn [Ce Ci]] [St [Sb [Se [Sd Sl]]]]. unfold rebuild_step. rewrite <- St, Ce, Cn, Ci.
  destruct (Nat.eqb (domain_of (ttype a)) 0) eqn:Ed.
  - destruct (Z.ltb 0 (enclosure c)); [split; [reflexivity|repeat split; assumption]|].
    destruct (Nat.eqb (ttype a) T_WhiteSpace); [split; [reflexivity|repeat split; assumption]|].
    rewrite (mk_same _ _ b a) by congruence. rewrite (mk_same T_Dedent _ b a) by congruence.
    destruct (Nat.eqb (ttype a) T_EOF); [split; [reflexivity|repeat split; simpl; assumption]|].
    rewrite Sl, to_nest_scale by exact Hm. rewrite map_length. rewrite (mk_same T_Indent _ b a) by congruence.
    destruct (Nat.ltb (nest c) (length (to_nest (indents c) (last_line_len (ttext a) 0)))); [split; [reflexivity|repeat split; simpl; auto]|].
    destruct (Nat.ltb (length (to_nest (indents c) (last_line_len (ttext a) 0))) (nest c)); split; try reflexivity; repeat split; simpl; auto.
  - rewrite <- (Sd eq_refl). destruct (Nat.eqb (domain_of (ttype a)) 5); split; try reflexivity; repeat split; simpl; auto.
Qed.

Theorem rebuild_width_invariant m ts ts' : 0 < m -> Forall2 (same_but_width m) ts ts' -> rebuild ts' = rebuild ts.
Proof.
  intros Hm H. unfold rebuild.
  assert (forall c c', ctx_scaled m c c' -> rebuild_loop c' ts' = rebuild_loop c ts) as G.
  { induction H as [|a b r r' Hab _ IH]; intros c c' Hc; [reflexivity|].
    cbn [rebuild_loop]. destruct (step_scaled m c c' a b Hm Hc Hab) as [Eo Ec].
    destruct (rebuild_step c a) as [c1 o1]. destruct (rebuild_step c' b) as [c1' o1']. cbn [fst snd] in *. subst o1'.
    f_equal. apply IH. exact Ec. }
  apply G. repeat split.
Qed.
End Rebuild.

(* ================= lexer: progress and partition ================= *)
Section Lex.
Variable D : tokdef.

Definition defs_ok : bool :=
  forallb (fun p => negb (str_eqb (fst p) [])) (comment D) && forallb (fun p => negb (str_eqb (fst p) [])) (quote D).

Lemma take_while_pos cls c r : mem c cls = true -> 1 <= take_while cls (c :: r).
Proof. intros H. simpl. rewrite H. lia. Qed.

Lemma find_from_ge fuel sub : forall t from e, find_from fuel sub t from = Some e -> from <= e.
Proof.
  intros t from. revert t. induction from as [|k IH]; intros t e H; [lia|].
  destruct t as [|x r]; simpl in H; [discriminate|]. destruct (find_from fuel sub r k) eqn:E; [|discriminate].
  injection H as <-. apply IH in E. lia.
Qed.

Lemma quote_loop_ge fuel c t : forall e, e <= quote_loop fuel c t e.
Proof.
  induction fuel as [|f IH]; intros e; [simpl; lia|]. simpl.
  destruct (Nat.ltb e (length t)); [|lia]. destruct (findf c t e) as [idx|] eqn:F; [|lia].
  apply find_from_ge in F. destruct (Nat.even _); [lia|]. specialize (IH (idx + length c)). lia.
Qed.

Lemma first_pair_in pairs t p : first_pair pairs t = Some p -> In p pairs.
Proof. unfold first_pair. intros H. apply find_some in H. tauto. Qed.

(* every token consumes at least one character and is exactly the slice it was read from *)
Lemma lex_one_progress x r off n k : defs_ok = true -> lex_one D (x :: r) off = Some (Some (n, k)) ->
  1 <= n /\ n <= length (x :: r) /\ traw k = firstn n (x :: r) /\ tb k = off /\ te k = off + n.
Proof.
  intros Hd H. unfold lex_one in H. set (t := x :: r) in *.
  assert (1 <= length t) as Lt by (unfold t; simpl; lia).
  apply andb_true_iff in Hd as [Hc Hq]. rewrite forallb_forall in Hc, Hq.
  destruct (analyze D t) as [d|] eqn:A; [|discriminate].
  unfold analyze in A. apply find_some in A as [_ Acc].
  assert (forall n0 ty text, 1 <= n0 ->
            Some (Some (Nat.min n0 (length t), {| ttype := ty; ttext := text; traw := firstn (Nat.min n0 (length t)) t; tb := off; te := off + Nat.min n0 (length t) |})) = Some (Some (n, k)) ->
            1 <= n /\ n <= length t /\ traw k = firstn n t /\ tb k = off /\ te k = off + n) as Fin.
  { intros n0 ty text Hn E. injection E as <- <-. simpl. repeat split; try lia. }
  destruct d as [|[|[|[|[|[|d]]]]]]; cbn [accepts t] in Acc.
  - eapply Fin; [|exact H]. apply take_while_pos. exact Acc.
  - eapply Fin; [|exact H]. unfold comment_len. destruct (first_pair (comment D) t) as [[o c]|] eqn:P; [|lia].
    pose proof (Hc _ (first_pair_in _ _ _ P)) as Ho. simpl in Ho. apply negb_true_iff in Ho.
    assert (1 <= length o) as Lo by (destruct o; [vm_compute in Ho; discriminate|simpl; lia]).
    destruct (findf c t (length o)) as [e|] eqn:F; [|lia].
    apply find_from_ge in F. destruct (str_eqb c [ascii_of_nat 10]); lia.
  - eapply Fin; [|exact H]. unfold quote_len. destruct (first_pair (quote D) t) as [[o c]|] eqn:P; [|lia].
    pose proof (Hq _ (first_pair_in _ _ _ P)) as Ho. simpl in Ho. apply negb_true_iff in Ho.
    assert (1 <= length o) as Lo by (destruct o; [vm_compute in Ho; discriminate|simpl; lia]).
    pose proof (quote_loop_ge (S (length t)) c t (length o)). lia.
  - eapply Fin; [|exact H]. apply take_while_pos. exact Acc.
  - eapply Fin; [|exact H]. apply take_while_pos. exact Acc.
  - destruct (symbol_tok D t) as [[[n0 ty] u]|] eqn:S; [|discriminate].
    eapply Fin; [|exact H]. unfold symbol_tok in S.
    repeat match type of S with
           | match ?e with _ => _ end = _ => destruct e eqn:?; try discriminate
           | (if ?e then _ else _) = _ => destruct e eqn:?; try discriminate
           end; injection S as <- _ _; lia.
  - discriminate.
Qed.

Fixpoint spans_ok (off : nat) (ts : list tok) : Prop :=
  match ts with [] => True | k :: r => tb k = off /\ te k = off + length (traw k) /\ spans_ok (te k) r end.

Lemma drop_firstn {A} n (l : list A) : firstn n l ++ drop n l = l.
Proof. revert l. induction n as [|n IH]; intros l; [reflexivity|]. destruct l; [reflexivity|]. simpl. rewrite IH. reflexivity. Qed.
Lemma drop_length {A} n (l : list A) : length (drop n l) = length l - n.
Proof. revert l. induction n as [|n IH]; intros l; [simpl; lia|]. destruct l; [reflexivity|]. simpl. apply IH. Qed.

Lemma lex_loop_spec : defs_ok = true -> forall fuel t off acc, length t <= fuel ->
  lex_loop D fuel t off acc <> LFuel /\
  (forall ts, lex_loop D fuel t off acc = LOk ts ->
     exists ts2, ts = rev acc ++ ts2 /\ concat (map traw ts2) = t /\ spans_ok off ts2).
Proof.
  intros Hd. induction fuel as [|f IH]; intros t off acc Hf.
  - destruct t; [|simpl in Hf; lia]. simpl. split; [discriminate|]. intros ts E. injection E as <-.
    exists []. rewrite app_nil_r. repeat split.
  - destruct t as [|x r]; [simpl; split; [discriminate|]; intros ts E; injection E as <-; exists []; rewrite app_nil_r; repeat split|].
    cbn [lex_loop]. destruct (lex_one D (x :: r) off) as [[[n k]|]|] eqn:L; try (split; [discriminate|intros ts E; discriminate]).
    destruct (lex_one_progress _ _ _ _ _ Hd L) as [Hn [Hle [Hraw [Hb He]]]].
    assert (length (drop n (x :: r)) <= f) as Hf' by (rewrite drop_length; change (length (x :: r)) with (S (length r)) in *; lia).
    destruct (IH (drop n (x :: r)) (off + n) (k :: acc) Hf') as [NF Sp]. split; [exact NF|].
    intros ts E. destruct (Sp ts E) as [ts2 [E1 [E2 E3]]]. exists (k :: ts2). repeat split.
    + rewrite E1. simpl. rewrite <- app_assoc. reflexivity.
    + simpl. rewrite Hraw, E2. apply drop_firstn.
    + exact Hb.
    + rewrite He, Hraw, firstn_length_le by exact Hle. reflexivity.
    + rewrite He. exact E3.
Qed.

(* Lexer.parse_impl terminates on every source, and when it returns tokens their slices concatenate to
   the source and their offsets are contiguous from 0 *)
Theorem lex_partition src : defs_ok = true ->
  lex D src <> LFuel /\ (forall ts, lex D src = LOk ts -> concat (map traw ts) = src /\ spans_ok 0 ts).
Proof.
  intros Hd. unfold lex. destruct (lex_loop_spec Hd (length src) src 0 [] (le_n _)) as [NF Sp]. split; [exact NF|].
  intros ts E. destruct (Sp ts E) as [ts2 [E1 [E2 E3]]]. simpl in E1. subst ts2. split; assumption.
Qed.
End Lex.

(* ================= post filter ================= *)
Section PostFilter.
Variable D : tokdef.

Lemma filter_loop_keeps (P : tok -> Prop) ty pat : (forall a b, P a -> P (joined a b)) ->
  forall fuel done rest, Forall P done -> Forall P rest -> Forall P (filter_loop fuel ty pat done rest).
Proof.
  intros HJ. induction fuel as [|f IH]; intros done rest Hd Hr.
  - simpl. apply Forall_app. split; [apply Forall_rev; exact Hd|exact Hr].
  - destruct rest as [|k after]; [simpl; apply Forall_rev; exact Hd|].
    cbn [filter_loop]. inversion Hr as [|? ? Hk Ha]; subst.
    assert (Forall P (tl after)) as Hta by (destruct after; [constructor|inversion Ha; assumption]).
    assert (Forall P (tl done)) as Htd by (destruct done; [constructor|inversion Hd; assumption]).
    destruct (negb (Nat.eqb (ttype k) ty) || negb (to_empty pat (length done) (length done + length (k :: after)))).
    + apply IH; [constructor; assumption|exact Ha].
    + destruct (Nat.eqb (length done) 0 && _); [apply IH; assumption|].
      destruct (Nat.eqb (length done) _ && _); [apply IH; assumption|].
      destruct (is_lb _ && is_lb _); [|apply IH; assumption].
      destruct done as [|p done']; [apply IH; assumption|]. destruct after as [|n after']; [apply IH; assumption|].
      inversion Hd; subst. inversion Ha; subst. apply IH; [constructor; [apply HJ; assumption|assumption]|assumption].
Qed.

Lemma filter_loop_star ty : forall fuel done rest, length rest < fuel ->
  Forall (fun k => ttype k <> ty) done -> Forall (fun k => ttype k <> ty) (filter_loop fuel ty ["*"%char] done rest).
Proof.
  induction fuel as [|f IH]; intros done rest Hf Hd; [lia|].
  destruct rest as [|k after]; [simpl; apply Forall_rev; exact Hd|].
  cbn [filter_loop]. simpl in Hf.
  assert (Forall (fun k => ttype k <> ty) (tl done)) as Htd by (destruct done; [constructor|inversion Hd; assumption]).
  assert (to_empty ["*"%char] (length done) (length done + length (k :: after)) = true) as Te by reflexivity.
  rewrite Te. cbn [negb]. rewrite orb_false_r.
  destruct (Nat.eqb (ttype k) ty) eqn:Ek; cbn [negb].
  - assert (length (tl after) < f) as L1 by (destruct after; simpl in *; lia).
    destruct (Nat.eqb (length done) 0 && _); [apply IH; assumption|].
    destruct (Nat.eqb (length done) _ && _); [apply IH; [lia|assumption]|].
    destruct (is_lb _ && is_lb _); [|apply IH; [lia|assumption]].
    destruct done as [|p done']; [apply IH; [lia|assumption]|]. destruct after as [|n after']; [apply IH; [simpl; lia|assumption]|].
    inversion Hd; subst. apply IH; [simpl in *; lia|]. constructor; [simpl; assumption|assumption].
  - apply Nat.eqb_neq in Ek. apply IH; [lia|constructor; assumption].
Qed.

(* a kind filtered with '*' (comments, plain white space) never survives Lexer.post_filter *)
Theorem post_filter_removes ty ts : In (ty, ["*"%char]) (post_filters D) ->
  Forall (fun k => ttype k <> ty) (post_filter D ts).
Proof.
  unfold post_filter. generalize (post_filters D) as fs. intros fs. revert ts.
  induction fs as [|[ty' pat] fs IH]; intros ts Hin; [contradiction|].
  cbn [fold_left fst snd]. destruct Hin as [E|Hin].
  - injection E as -> ->.
    assert (Forall (fun k => ttype k <> ty) (filter_loop (S (2 * length ts)) ty ["*"%char] [] ts)) as H0
      by (apply filter_loop_star; [lia|constructor]).
    revert H0. generalize (filter_loop (S (2 * length ts)) ty ["*"%char] [] ts) as cur. clear IH.
    induction fs as [|[ty2 pat2] fs IH2]; intros cur H0; [exact H0|]. cbn [fold_left fst snd]. apply IH2.
    apply filter_loop_keeps; [intros a b Ha; exact Ha|constructor|exact H0].
  - apply IH. exact Hin.
Qed.
End PostFilter.
