From Coq Require Import List Arith Bool Lia.
Import ListNotations.
From Tranp Require Import Model.Cache.

Section P.
  Variable src : Type.
  Variable hash : src -> nat.
  Variable nmods : nat.
  Variable imports : nat -> list nat.
  Variable symbols_of : nat -> (nat -> src) -> nat.
  Variable parse : src -> nat.
  Hypothesis Hinj : forall a b, hash a = hash b -> a = b.
  (* the symbol table of a module is determined by its own source and the sources it imports directly *)
  Hypothesis Hlocal : forall m s1 s2, (forall j, In j (imports m ++ [m]) -> s1 j = s2 j) -> symbols_of m s1 = symbols_of m s2.

  Notation state := (state src).
  Notation sym_key := (sym_key src hash imports).
  Notation load_symbols := (load_symbols src hash imports symbols_of).
  Notation load_ast := (load_ast src parse).
  Notation run_all := (run_all src hash nmods imports symbols_of parse).
  Notation step := (step src hash nmods imports symbols_of parse).
  Notation cold := (cold src nmods symbols_of parse).

  Definition SInv (st : state) : Prop :=
    forall k v, In (k, v) (symcache src st) ->
    exists srcs0, snd k = map (fun j => hash (srcs0 j)) (imports (fst k) ++ [fst k]) /\ v = symbols_of (fst k) srcs0.
  Definition AInv (st : state) : Prop :=
    (forall m, mtime src st m <= clock src st) /\
    forall m t v, In ((m, t), v) (astcache src st) -> t <= clock src st /\ (t = mtime src st m -> v = parse (sources src st m)).
  Definition Inv (st : state) : Prop := SInv st /\ AInv st.

  Lemma key_eqb_eq a b : key_eqb a b = true -> a = b.
  Proof.
    unfold key_eqb. destruct a as [a1 a2], b as [b1 b2]. simpl. intros H. apply andb_true_iff in H as [H1 H2].
    apply Nat.eqb_eq in H1. destruct (list_eq_dec Nat.eq_dec a2 b2); [subst; reflexivity|discriminate].
  Qed.
  Lemma assoc_k_in k l v : assoc_k k l = Some v -> In (k, v) l.
  Proof.
    induction l as [|[k' v'] l IH]; [discriminate|]. simpl. destruct (key_eqb k' k) eqn:E.
    - intros H. injection H as <-. apply key_eqb_eq in E. subst. left. reflexivity.
    - intros H. right. apply IH. exact H.
  Qed.
  Lemma assoc_a_in m t l v : assoc_a (m, t) l = Some v -> In ((m, t), v) l.
  Proof.
    induction l as [|[[m' t'] v'] l IH]; [discriminate|]. simpl. destruct (Nat.eqb m' m && Nat.eqb t' t) eqn:E.
    - intros H. injection H as <-. apply andb_true_iff in E as [E1 E2]. apply Nat.eqb_eq in E1, E2. subst. left. reflexivity.
    - intros H. right. apply IH. exact H.
  Qed.

  Lemma map_hash_eq (s1 s2 : nat -> src) l : map (fun j => hash (s1 j)) l = map (fun j => hash (s2 j)) l -> forall j, In j l -> s1 j = s2 j.
  Proof.
    induction l as [|x l IH]; intros H j Hj; [contradiction|]. simpl in H. injection H as H1 H2.
    destruct Hj as [->|Hj]; [apply Hinj; exact H1|apply IH; assumption].
  Qed.

  Lemma load_symbols_ok st m : Inv st ->
    fst (load_symbols true st m) = symbols_of m (sources src st) /\ Inv (snd (load_symbols true st m)) /\
    sources src (snd (load_symbols true st m)) = sources src st.
  Proof.
    intros [HS HA]. unfold Cache.load_symbols. destruct (assoc_k (sym_key st m) (symcache src st)) as [v|] eqn:E.
    - cbn [fst snd]. split; [|split; [split; assumption|reflexivity]].
      apply assoc_k_in in E. destruct (HS _ _ E) as [s0 [Hk Hv]]. cbn [Cache.sym_key fst snd] in Hk. subst v.
      apply Hlocal. intros j Hj. symmetry. apply (map_hash_eq _ _ _ Hk j Hj).
    - cbn [fst snd]. split; [reflexivity|]. split; [|reflexivity]. split.
      + intros k v [H|H].
        * injection H as <- <-. exists (sources src st). split; reflexivity.
        * cbn [symcache] in H. apply filter_In in H as [H _]. exact (HS _ _ H).
      + exact HA.
  Qed.

  Lemma load_ast_ok st m : Inv st ->
    fst (load_ast true st m) = parse (sources src st m) /\ Inv (snd (load_ast true st m)) /\
    sources src (snd (load_ast true st m)) = sources src st.
  Proof.
    intros [HS [HM HA]]. unfold Cache.load_ast. destruct (assoc_a (m, mtime src st m) (astcache src st)) as [v|] eqn:E.
    - cbn [fst snd]. split; [|split; [split; [assumption|split; assumption]|reflexivity]].
      apply assoc_a_in in E. destruct (HA _ _ _ E) as [_ H]. apply H. reflexivity.
    - cbn [fst snd]. split; [reflexivity|]. split; [|reflexivity]. split; [exact HS|]. split; [exact HM|].
      intros m' t v [H|H].
      + injection H as <- <- <-. split; [apply HM|reflexivity].
      + cbn [astcache] in H. apply filter_In in H as [H _]. exact (HA _ _ _ H).
  Qed.

  Lemma run_all_ok st : Inv st -> fst (run_all true st) = cold st /\ Inv (snd (run_all true st)) /\ sources src (snd (run_all true st)) = sources src st.
  Proof.
    intros HI. unfold Cache.run_all, Cache.cold.
    assert (forall l res s, Inv s -> sources src s = sources src st ->
              let r := fold_left (fun acc m => let '(res, s) := acc in let '(a, s1) := load_ast true s m in let '(y, s2) := load_symbols true s1 m in (res ++ [(a, y)], s2)) l (res, s) in
              fst r = res ++ map (fun m => (parse (sources src st m), symbols_of m (sources src st))) l /\ Inv (snd r) /\ sources src (snd r) = sources src st) as G.
    { induction l as [|m l IH]; intros res s Hs Es; [cbn; rewrite app_nil_r; auto|].
      cbn [fold_left].
      destruct (load_ast_ok s m Hs) as [A1 [A2 A3]]. destruct (load_ast true s m) as [a s1]. cbn [fst snd] in *.
      destruct (load_symbols_ok s1 m A2) as [B1 [B2 B3]]. destruct (load_symbols true s1 m) as [y s2]. cbn [fst snd] in *.
      destruct (IH (res ++ [(a, y)]) s2 B2 ltac:(congruence)) as [C1 [C2 C3]].
      split; [|split; assumption]. rewrite C1, <- app_assoc. cbn [map app]. subst a y. rewrite A3, Es. reflexivity. }
    destruct (G (seq 0 nmods) [] st HI eq_refl) as [A [B C]]. split; [exact A|split; assumption].
  Qed.

  Lemma step_inv st o : Inv st -> Inv (snd (step st o)).
  Proof.
    intros HI. destruct o as [m v|e|].
    - destruct HI as [HS [HM HA]]. cbn [Cache.step snd]. split; [exact HS|]. split.
      + intros x. cbn [mtime clock]. unfold upd. destruct (Nat.eqb x m); [lia|specialize (HM x); lia].
      + intros m' t w H. cbn [astcache] in H. destruct (HA _ _ _ H) as [H1 H2]. cbn [clock mtime sources]. split; [lia|].
        unfold upd. destruct (Nat.eqb m' m); [intros ->; lia|exact H2].
    - cbn [Cache.step]. destruct e; [apply run_all_ok; exact HI|].
      (* caching disabled: nothing is stored *)
      unfold Cache.run_all.
      assert (forall l res s, Inv s -> Inv (snd (fold_left (fun acc m => let '(res, s) := acc in let '(a, s1) := Cache.load_ast src parse false s m in let '(y, s2) := Cache.load_symbols src hash imports symbols_of false s1 m in (res ++ [(a, y)], s2)) l (res, s)))) as G
        by (induction l as [|m l IH]; intros res s Hs; [exact Hs|cbn [fold_left]; apply IH; exact Hs]).
      apply G. exact HI.
    - cbn [Cache.step snd]. split; [intros k v []|]. destruct HI as [_ [HM _]]. split; [exact HM|intros m t v []].
  Qed.

  Lemma exec_inv h : forall st, Inv st -> Inv (exec src hash nmods imports symbols_of parse st h).
  Proof. induction h as [|o h IH]; intros st HI; [exact HI|]. cbn [Cache.exec]. apply IH. apply step_inv. exact HI. Qed.

  (* after any history of edits, runs (caching on or off) and cache clears, a run with whatever the cache
     holds obtains exactly what a run with an empty cache directory obtains *)
  Theorem warm_eq_cold_partial h st0 : Inv st0 ->
    fst (run_all true (exec src hash nmods imports symbols_of parse st0 h)) = cold (exec src hash nmods imports symbols_of parse st0 h).
  Proof. intros H. apply run_all_ok. apply exec_inv. exact H. Qed.

  (* with caching disabled a run leaves the cache tables as they were *)
  Theorem disabled_no_write st : symcache src (snd (run_all false st)) = symcache src st /\ astcache src (snd (run_all false st)) = astcache src st.
  Proof.
    unfold Cache.run_all.
    assert (forall l res s, symcache src (snd (fold_left (fun acc m => let '(res, s) := acc in let '(a, s1) := Cache.load_ast src parse false s m in let '(y, s2) := Cache.load_symbols src hash imports symbols_of false s1 m in (res ++ [(a, y)], s2)) l (res, s))) = symcache src s
                         /\ astcache src (snd (fold_left (fun acc m => let '(res, s) := acc in let '(a, s1) := Cache.load_ast src parse false s m in let '(y, s2) := Cache.load_symbols src hash imports symbols_of false s1 m in (res ++ [(a, y)], s2)) l (res, s))) = astcache src s) as G
      by (induction l as [|m l IH]; intros res s; [split; reflexivity|cbn [fold_left]; apply IH]).
    apply G.
  Qed.
End P.

(* without locality the statement is false: chain 2 -> 1 -> 0, the table of module 2 depends on source 0 *)
Definition demo_imports (m : nat) : list nat := match m with 0 => [] | S k => [k] end.
Definition demo_symbols (m : nat) (s : nat -> nat) : nat := match m with 2 => 100 * s 0 + 10 * s 1 + s 2 | 1 => 10 * s 0 + s 1 | _ => s 0 end.
Definition demo_st0 : state nat := {| sources := fun _ => 1; mtime := fun _ => 0; clock := 0; symcache := []; astcache := [] |}.
Definition demo_hist : list (op nat) := [Run nat true; Edit nat 0 2].
Theorem warm_eq_cold_refuted :
  fst (run_all nat (fun x => x) 3 demo_imports demo_symbols (fun x => x) true (exec nat (fun x => x) 3 demo_imports demo_symbols (fun x => x) demo_st0 demo_hist))
  <> cold nat 3 demo_symbols (fun x => x) (exec nat (fun x => x) 3 demo_imports demo_symbols (fun x => x) demo_st0 demo_hist).
Proof. vm_compute. discriminate. Qed.
