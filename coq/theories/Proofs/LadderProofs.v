(* Every well-parenthesised expression is parsed back to itself by the ladder parser, for every ladder;
   printing a parenthesis-free tree with the parentheses the ladder requires and parsing it gives the tree back. *)
From Coq Require Import List Arith Lia Bool.
Import ListNotations.
From Tranp Require Import Model.Ladder.

Section P.
Variable op : Type.
Variable K : nat.
Variable lvl plvl : op -> nat.
Variable isbin : nat -> bool.
Hypothesis lvl_bin : forall o, lvl o < K -> isbin (lvl o) = true.
Hypothesis plvl_pre : forall o, plvl o < K -> isbin (plvl o) = false.

Notation tok := (tok op).
Notation expr := (expr op).
Notation parse := (parse op K lvl plvl isbin).
Notation loop := (loop op K lvl plvl isbin).
Notation toks := (toks op).
Notation wf := (wf op K lvl plvl).
Notation level := (level op K lvl plvl).

Definition follow (k : nat) (rest : list tok) : Prop :=
  match rest with TOp _ o :: _ => lvl o < k | _ => True end.

Definition parse_body (f k : nat) (ts : list tok) : option (expr * list tok) :=
    if K <=? k then
      match ts with
      | TId _ n :: r => Some (Atom op n, r)
      | TL _ :: r => match parse f 0 r with
                   | Some (e, TR _ :: r') => Some (Par op e, r')
                   | _ => None
                   end
      | _ => None
      end
    else if isbin k then
      match parse f (S k) ts with
      | Some (e, r) => loop f k e r
      | None => None
      end
    else
      match ts with
      | TOp _ o :: r =>
          if plvl o =? k then
            match parse f k r with
            | Some (e, r') => Some (Un op o e, r')
            | None => None
            end
          else parse f (S k) ts
      | _ => parse f (S k) ts
      end.
Definition loop_body (f k : nat) (e : expr) (ts : list tok) : option (expr * list tok) :=
    match ts with
    | TOp _ o :: r =>
        if lvl o =? k then
          match parse f (S k) r with
          | Some (e2, r2) => loop f k (Bin op o e e2) r2
          | None => None
          end
        else Some (e, ts)
    | _ => Some (e, ts)
    end.
Lemma parse_S f k ts : parse (S f) k ts = parse_body f k ts.
Proof. reflexivity. Qed.
Lemma loop_S f k e ts : loop (S f) k e ts = loop_body f k e ts.
Proof. reflexivity. Qed.

Lemma parse_mono : forall f, (forall k ts r, parse f k ts = Some r -> parse (S f) k ts = Some r)
                          /\ (forall k e ts r, loop f k e ts = Some r -> loop (S f) k e ts = Some r).
Proof.
  induction f as [|f [IHp IHl]]; split; intros; try discriminate.
  - rewrite parse_S in H. rewrite parse_S. unfold parse_body in *.
    destruct (K <=? k).
    + destruct ts as [|[n|o| |] r0]; try discriminate; auto.
      destruct (parse f 0 r0) as [[e [|t r']]|] eqn:E; try discriminate.
      destruct t; try discriminate. rewrite (IHp _ _ _ E). exact H.
    + destruct (isbin k).
      * destruct (parse f (S k) ts) as [[e r0]|] eqn:E; try discriminate.
        rewrite (IHp _ _ _ E). apply IHl. exact H.
      * destruct ts as [|[n|o| |] r0]; try (apply IHp; exact H).
        destruct (plvl o =? k).
        -- destruct (parse f k r0) as [[e r']|] eqn:E; try discriminate.
           rewrite (IHp _ _ _ E). exact H.
        -- apply IHp; exact H.
  - rewrite loop_S in H. rewrite loop_S. unfold loop_body in *.
    destruct ts as [|[n|o| |] r0]; auto.
    destruct (lvl o =? k); auto.
    destruct (parse f (S k) r0) as [[e2 r2]|] eqn:E; try discriminate.
    rewrite (IHp _ _ _ E). apply IHl. exact H.
Qed.

Lemma parse_mono_le f g k ts r : f <= g -> parse f k ts = Some r -> parse g k ts = Some r.
Proof. induction 1; auto. intros. apply (proj1 (parse_mono m)). auto. Qed.
Lemma loop_mono_le f g k e ts r : f <= g -> loop f k e ts = Some r -> loop g k e ts = Some r.
Proof. induction 1; auto. intros. apply (proj2 (parse_mono m)). auto. Qed.

Lemma loop_stop f k e rest : follow k rest -> loop (S f) k e rest = Some (e, rest).
Proof.
  intros H. rewrite loop_S. unfold loop_body. destruct rest as [|[n|o| |] r]; auto.
  simpl in H. destruct (lvl o =? k) eqn:E; auto. apply Nat.eqb_eq in E. lia.
Qed.

Lemma follow_weaken j k R : j <= k -> follow j R -> follow k R.
Proof. destruct R as [|[ |o| |] r]; simpl; auto. lia. Qed.

Lemma wf_weaken e : forall j k, j <= k -> wf k e -> wf j e.
Proof. destruct e; simpl; intros j k Hjk [Hl Hr]; split; auto; lia. Qed.

Lemma wf_level e k : wf k e -> wf (level e) e.
Proof. destruct e; simpl; intros [Hl Hr]; split; auto. Qed.

(* the first token of an operand of level > k is not a prefix operator of level k *)
Definition hd_ok (k : nat) (ts : list tok) : Prop :=
  match ts with TOp _ o :: _ => plvl o <> k | _ => True end.
Lemma wf_head e : forall k R, wf (S k) e -> hd_ok k (toks e ++ R).
Proof.
  induction e as [n|o a IHa b IHb|o e IHe|e IHe]; intros k R Hwf; simpl.
  - exact I.
  - destruct Hwf as [Hl [_ [Ha _]]]. simpl in Hl. rewrite <- app_assoc.
    apply IHa. eapply wf_weaken; [|exact Ha]. exact Hl.
  - destruct Hwf as [Hl _]. simpl in Hl. lia.
  - exact I.
Qed.

Definition cont (g k : nat) (e : expr) (R : list tok) : option (expr * list tok) :=
  if (k <? K) && isbin k then loop g k e R else Some (e, R).

Lemma cont_stop k e R : follow k R -> cont 1 k e R = Some (e, R).
Proof. intros H. unfold cont. destruct ((k <? K) && isbin k); auto. apply loop_stop. exact H. Qed.

(* one level down *)
Lemma descend e k R res g f1 : k < K -> wf (S k) e ->
  parse f1 (S k) (toks e ++ R) = Some (e, R) -> cont g k e R = Some res ->
  exists f, parse f k (toks e ++ R) = Some res.
Proof.
  intros Hk Hwf Hp Hc. unfold cont in Hc.
  assert (HkK : k <? K = true) by (apply Nat.ltb_lt; lia). rewrite HkK in Hc. simpl in Hc.
  assert (HKk : K <=? k = false) by (apply Nat.leb_gt; lia).
  destruct (isbin k) eqn:Eb.
  - exists (S (Nat.max f1 g)). rewrite parse_S. unfold parse_body. rewrite HKk, Eb.
    rewrite (parse_mono_le f1 (Nat.max f1 g) _ _ _ (Nat.le_max_l _ _) Hp).
    apply (loop_mono_le g); [apply Nat.le_max_r | exact Hc].
  - inversion Hc; subst res. exists (S f1). rewrite parse_S. unfold parse_body. rewrite HKk, Eb.
    pose proof (wf_head e k R Hwf) as Hh.
    destruct (toks e ++ R) as [|[n|o| |] r] eqn:Et; try exact Hp.
    simpl in Hh. destruct (plvl o =? k) eqn:Ep; [apply Nat.eqb_eq in Ep; contradiction|]. exact Hp.
Qed.

Definition H (e : expr) : Prop :=
  forall k R res g, k <= K -> wf k e -> follow (S k) R -> cont g k e R = Some res ->
    exists f, parse f k (toks e ++ R) = Some res.

Lemma climb e h :
  h <= K -> wf h e ->
  (forall R res g, follow (S h) R -> cont g h e R = Some res -> exists f, parse f h (toks e ++ R) = Some res) ->
  forall d k R res g, h - k = d -> k <= h -> follow (S k) R -> cont g k e R = Some res ->
    exists f, parse f k (toks e ++ R) = Some res.
Proof.
  intros HhK Hwfh Hhome. induction d as [|d IHd]; intros k R res g Hd Hkh Hfol Hc.
  - assert (k = h) by lia. subst k. eapply Hhome; eauto.
  - assert (HkK : k < K) by lia.
    destruct (IHd (S k) R (e, R) 1) as [f1 Hf1]; try lia.
    + eapply follow_weaken; [|exact Hfol]. lia.
    + apply cont_stop. exact Hfol.
    + eapply descend; eauto. eapply wf_weaken; [|exact Hwfh]. lia.
Qed.

Theorem H_all : forall e, H e.
Proof.
  induction e as [n|o a IHa b IHb|o e1 IHe|e1 IHe]; intros k R res g HkK Hwf Hfol Hc.
  - (* Atom *)
    eapply (climb (Atom op n) K (le_n K)) with (d := K - k); eauto.
    { simpl. split; auto. }
    intros R0 res0 g0 _ Hc0. unfold cont in Hc0. rewrite Nat.ltb_irrefl in Hc0. simpl in Hc0. inversion Hc0; subst.
    exists 1. rewrite parse_S. unfold parse_body. rewrite Nat.leb_refl. reflexivity.
  - (* Bin *)
    pose proof (wf_level _ _ Hwf) as Hwfl.
    destruct Hwf as [Hlev [Hm [Ha Hb]]]. simpl in Hlev.
    eapply (climb (Bin op o a b) (lvl o)) with (d := lvl o - k); eauto; try lia.
    intros R0 res0 g0 Hfol0 Hc0.
    unfold cont in Hc0. assert (Hlt : lvl o <? K = true) by (apply Nat.ltb_lt; lia).
    rewrite Hlt, (lvl_bin o Hm) in Hc0. simpl in Hc0.
    destruct (IHb (S (lvl o)) R0 (b, R0) 1) as [fb Hfb]; try lia; auto.
    { eapply follow_weaken; [|exact Hfol0]. lia. }
    { apply cont_stop. exact Hfol0. }
    simpl. rewrite <- app_assoc. simpl.
    eapply (IHa (lvl o) (TOp op o :: toks b ++ R0) res0 (S (Nat.max fb g0))); try lia; auto.
    { simpl. lia. }
    unfold cont. rewrite Hlt, (lvl_bin o Hm). simpl. rewrite loop_S. unfold loop_body. rewrite Nat.eqb_refl.
    rewrite (parse_mono_le fb (Nat.max fb g0) _ _ _ (Nat.le_max_l _ _) Hfb).
    apply (loop_mono_le g0); [apply Nat.le_max_r | exact Hc0].
  - (* Un *)
    pose proof (wf_level _ _ Hwf) as Hwfl.
    destruct Hwf as [Hlev [Hm He]]. simpl in Hlev.
    eapply (climb (Un op o e1) (plvl o)) with (d := plvl o - k); eauto; try lia.
    intros R0 res0 g0 Hfol0 Hc0.
    unfold cont in Hc0. rewrite (plvl_pre o Hm), andb_false_r in Hc0. inversion Hc0; subst res0.
    destruct (IHe (plvl o) R0 (e1, R0) 1) as [f1 Hf1]; try lia; auto.
    { unfold cont. rewrite (plvl_pre o Hm), andb_false_r. reflexivity. }
    exists (S f1). rewrite parse_S. unfold parse_body.
    assert (HKk : K <=? plvl o = false) by (apply Nat.leb_gt; lia).
    rewrite HKk, (plvl_pre o Hm). simpl. rewrite Nat.eqb_refl. rewrite Hf1. reflexivity.
  - (* Par *)
    destruct Hwf as [_ Hwf1].
    eapply (climb (Par op e1) K (le_n K)) with (d := K - k); eauto.
    { simpl. split; auto. }
    intros R0 res0 g0 _ Hc0. unfold cont in Hc0. rewrite Nat.ltb_irrefl in Hc0. simpl in Hc0. inversion Hc0; subst.
    destruct (IHe 0 (TR op :: R0) (e1, TR op :: R0) 1) as [f1 Hf1]; try lia; auto.
    { simpl. exact I. }
    { apply cont_stop. simpl. exact I. }
    exists (S f1). rewrite parse_S. unfold parse_body. rewrite Nat.leb_refl. simpl. rewrite <- app_assoc. simpl.
    rewrite Hf1. reflexivity.
Qed.

Theorem parse_toks : forall e rest, wf 0 e -> follow 0 rest -> exists f, parse f 0 (toks e ++ rest) = Some (e, rest).
Proof.
  intros e rest Hwf Hfol. eapply (H_all e 0 rest (e, rest) 1); try lia; auto.
  - eapply follow_weaken; [|exact Hfol]. lia.
  - apply cont_stop. exact Hfol.
Qed.
End P.

Section Q.
Variable op : Type.
Variable K : nat.
Variable lvl plvl : op -> nat.
Notation expr := (expr op).
Notation wf := (wf op K lvl plvl).
Notation level := (level op K lvl plvl).
Notation paren := (paren op K lvl plvl).
Notation strip := (strip op).
Notation ops_ok := (ops_ok op K lvl plvl).

Lemma strip_par_if b (e : expr) : strip (par_if op b e) = strip e.
Proof. destruct b; reflexivity. Qed.
Lemma strip_paren e : strip (paren e) = strip e.
Proof.
  induction e as [n|o a IHa b IHb|o e IHe|e IHe]; simpl; auto.
  - rewrite !strip_par_if, IHa, IHb. reflexivity.
  - rewrite strip_par_if, IHe. reflexivity.
Qed.
Lemma strip_no_par e : no_par op e -> strip e = e.
Proof.
  induction e as [n|o a IHa b IHb|o e IHe|e IHe]; simpl; intros Hn; auto.
  - destruct Hn as [Ha Hb]. rewrite IHa, IHb; auto.
  - rewrite IHe; auto.
  - contradiction.
Qed.

Lemma level_le_K e : ops_ok e -> level (paren e) <= K.
Proof.
  induction e as [n|o a IHa b IHb|o e IHe|e IHe]; simpl; intros Ho; auto.
  - destruct Ho as [Hm _]. lia.
  - destruct Ho as [Hm _]. lia.
Qed.

Lemma paren_wf_level e : ops_ok e -> wf (level (paren e)) (paren e).
Proof.
  induction e as [n|o a IHa b IHb|o e IHe|e IHe]; simpl; intros Ho.
  - split; auto.
  - destruct Ho as [Hm [Hoa Hob]]. split; [lia|]. split; [exact Hm|]. split.
    + destruct (level (paren a) <? lvl o) eqn:E; simpl.
      * split; [lia|]. eapply wf_weaken; [|apply IHa; exact Hoa]. lia.
      * apply Nat.ltb_ge in E. eapply wf_weaken; [|apply IHa; exact Hoa]. exact E.
    + destruct (level (paren b) <=? lvl o) eqn:E; simpl.
      * split; [lia|]. eapply wf_weaken; [|apply IHb; exact Hob]. lia.
      * apply Nat.leb_gt in E. eapply wf_weaken; [|apply IHb; exact Hob]. lia.
  - destruct Ho as [Hm Hoe]. split; [lia|]. split; [exact Hm|].
    destruct (level (paren e) <? plvl o) eqn:E; simpl.
    + split; [lia|]. eapply wf_weaken; [|apply IHe; exact Hoe]. lia.
    + apply Nat.ltb_ge in E. eapply wf_weaken; [|apply IHe; exact Hoe]. exact E.
  - apply IHe. exact Ho.
Qed.
Lemma paren_wf e : ops_ok e -> wf 0 (paren e).
Proof. intros Ho. eapply wf_weaken; [|apply paren_wf_level; exact Ho]. lia. Qed.

Notation reparen := (reparen op K lvl plvl).
Lemma strip_reparen x e : strip (reparen x e) = strip e.
Proof.
  induction e as [n|o a IHa b IHb|o e IHe|e IHe]; simpl; auto.
  - rewrite !strip_par_if, IHa, IHb. reflexivity.
  - rewrite strip_par_if, IHe. reflexivity.
Qed.
Lemma reparen_wf_level x e : ops_ok e -> wf (level (reparen x e)) (reparen x e).
Proof.
  induction e as [n|o a IHa b IHb|o e IHe|e IHe]; simpl; intros Ho.
  - split; auto.
  - destruct Ho as [Hm [Hoa Hob]]. split; [lia|]. split; [exact Hm|]. split.
    + destruct (level (reparen x a) <? lvl o) eqn:E; simpl.
      * split; [lia|]. eapply wf_weaken; [|apply IHa; exact Hoa]. lia.
      * apply Nat.ltb_ge in E. eapply wf_weaken; [|apply IHa; exact Hoa]. exact E.
    + destruct (level (reparen x b) <=? lvl o) eqn:E; simpl.
      * split; [lia|]. eapply wf_weaken; [|apply IHb; exact Hob]. lia.
      * apply Nat.leb_gt in E. eapply wf_weaken; [|apply IHb; exact Hob]. lia.
  - destruct Ho as [Hm Hoe]. split; [lia|]. split; [exact Hm|].
    destruct (level (reparen x e) <? plvl o) eqn:E; simpl.
    + split; [lia|]. eapply wf_weaken; [|apply IHe; exact Hoe]. lia.
    + apply Nat.ltb_ge in E. destruct (x (reparen x e)); simpl.
      * split; [lia|]. eapply wf_weaken; [|apply IHe; exact Hoe]. lia.
      * eapply wf_weaken; [|apply IHe; exact Hoe]. exact E.
  - split; [lia|]. eapply wf_weaken; [|apply IHe; exact Ho]. lia.
Qed.
Lemma reparen_wf x e : ops_ok e -> wf 0 (reparen x e).
Proof. intros Ho. eapply wf_weaken; [|apply reparen_wf_level; exact Ho]. lia. Qed.

Lemma unflatten_flatten (e : expr) : unflatten op (flatten op lvl e) = e.
Proof.
  induction e as [n|o a IHa b IHb|o e IHe|e IHe]; simpl; auto.
  - destruct (flatten op lvl a) as [n|k f r|o' e'|e'] eqn:Ea; simpl in *; try (rewrite IHa, IHb; reflexivity).
    destruct (k =? lvl o); simpl.
    + rewrite fold_left_app. simpl. rewrite IHa, IHb. reflexivity.
    + rewrite IHa, IHb. reflexivity.
  - rewrite IHe. reflexivity.
  - rewrite IHe. reflexivity.
Qed.
End Q.

(* ---- instantiation from ladder data ---- *)
From Tranp Require Import Base.Str.
Lemma find_level_spec p L : find_level p L < length L -> exists l, nth_error L (find_level p L) = Some l /\ p l = true.
Proof.
  induction L as [|x r IH]; simpl; intros Hlt; [lia|].
  destruct (p x) eqn:E; simpl.
  - exists x. split; auto.
  - apply IH. lia.
Qed.
Lemma lvl_of_bin L o : lvl_of L o < length L -> isbin_of L (lvl_of L o) = true.
Proof.
  intros Hlt. destruct (find_level_spec _ _ Hlt) as [l [Hn Hp]]. unfold isbin_of, lvl_of. rewrite Hn.
  apply andb_true_iff in Hp. tauto.
Qed.
Lemma plvl_of_pre L o : plvl_of L o < length L -> isbin_of L (plvl_of L o) = false.
Proof.
  intros Hlt. destruct (find_level_spec _ _ Hlt) as [l [Hn Hp]]. unfold isbin_of, plvl_of. rewrite Hn.
  apply andb_true_iff in Hp. destruct Hp as [Hb _]. apply negb_true_iff in Hb. exact Hb.
Qed.

Theorem roundtrip_with (L : list lv) (e : expr str) :
  no_par str e -> ops_ok str (length L) (lvl_of L) (plvl_of L) e ->
  (exists f, parse_with L f 0 (toks str (paren_with L e)) = Some (paren_with L e, []))
  /\ Ladder.strip str (paren_with L e) = e
  /\ unflatten str (flatten_with L (paren_with L e)) = paren_with L e.
Proof.
  intros Hn Ho. split; [|split].
  - destruct (parse_toks str (length L) (lvl_of L) (plvl_of L) (isbin_of L) (lvl_of_bin L) (plvl_of_pre L)
                (paren_with L e) [] (paren_wf _ _ _ _ e Ho) I) as [f Hf].
    exists f. rewrite app_nil_r in Hf. exact Hf.
  - unfold paren_with. rewrite strip_paren. apply strip_no_par. exact Hn.
  - apply unflatten_flatten.
Qed.

Theorem rerender_with (L : list lv) (x : expr str -> bool) (e : expr str) :
  ops_ok str (length L) (lvl_of L) (plvl_of L) e ->
  (exists f, parse_with L f 0 (toks str (reparen_with L x e)) = Some (reparen_with L x e, []))
  /\ Ladder.strip str (reparen_with L x e) = Ladder.strip str e.
Proof.
  intros Ho. split.
  - destruct (parse_toks str (length L) (lvl_of L) (plvl_of L) (isbin_of L) (lvl_of_bin L) (plvl_of_pre L)
                (reparen_with L x e) [] (reparen_wf _ _ _ _ x e Ho) I) as [f Hf].
    exists f. rewrite app_nil_r in Hf. exact Hf.
  - apply strip_reparen.
Qed.
