(* Type soundness of the expression core: whatever type the model of tranp's inference gives, every value the
   expression can have under CPython has that type - on the guarded part of the input space. *)
From Coq Require Import String Ascii List Bool Arith Lia.
Import ListNotations.
From Tranp Require Import Base.Str Model.MiniTy.
From TranpGen Require Import GenOpTable.

Notation infer' := (infer op_table operator_dunder arithmetical_ops).
Notation binop' := (binop op_table operator_dunder arithmetical_ops).
Notation guard' := (guard op_table operator_dunder arithmetical_ops).

(* induction principles for the nested types *)
Section ExprInd.
Variable P : expr -> Prop.
Hypothesis HLit : forall b, P (ELit b).
Hypothesis HVar : forall n, P (EVar n).
Hypothesis HUn : forall o e, P e -> P (EUn o e).
Hypothesis HBin : forall o a b, P a -> P b -> P (EBin o a b).
Hypothesis HCmp : forall a b, P a -> P b -> P (ECmp a b).
Hypothesis HNot : forall e, P e -> P (ENot e).
Hypothesis HAnd : forall a b, P a -> P b -> P (EAnd a b).
Hypothesis HOr : forall a b, P a -> P b -> P (EOr a b).
Hypothesis HIf : forall c a b, P c -> P a -> P b -> P (EIf c a b).
Hypothesis HList : forall es, Forall P es -> P (EList es).
Hypothesis HTuple : forall es, Forall P es -> P (ETuple es).
Hypothesis HDict : forall kvs, Forall (fun kv => P (fst kv) /\ P (snd kv)) kvs -> P (EDict kvs).
Hypothesis HIndex : forall a i, P a -> P i -> P (EIndex a i).
Hypothesis HTupleAt : forall a n, P a -> P (ETupleAt a n).
Hypothesis HCast : forall b e, P e -> P (ECast b e).
Definition opt_P (o : option expr) : Prop := match o with Some c => P c | None => True end.
Hypothesis HComp : forall v proj iter cond, P proj -> P iter -> opt_P cond -> P (EComp v proj iter cond).
Fixpoint expr_ind' (e : expr) : P e :=
  match e with
  | ELit b => HLit b | EVar n => HVar n
  | EUn o a => HUn o a (expr_ind' a)
  | EBin o a b => HBin o a b (expr_ind' a) (expr_ind' b)
  | ECmp a b => HCmp a b (expr_ind' a) (expr_ind' b)
  | ENot a => HNot a (expr_ind' a)
  | EAnd a b => HAnd a b (expr_ind' a) (expr_ind' b)
  | EOr a b => HOr a b (expr_ind' a) (expr_ind' b)
  | EIf c a b => HIf c a b (expr_ind' c) (expr_ind' a) (expr_ind' b)
  | EList es => HList es ((fix go (l : list expr) : Forall P l := match l with [] => Forall_nil _ | x :: r => Forall_cons _ (expr_ind' x) (go r) end) es)
  | ETuple es => HTuple es ((fix go (l : list expr) : Forall P l := match l with [] => Forall_nil _ | x :: r => Forall_cons _ (expr_ind' x) (go r) end) es)
  | EDict kvs => HDict kvs ((fix go (l : list (expr * expr)) : Forall (fun kv => P (fst kv) /\ P (snd kv)) l :=
                               match l with [] => Forall_nil _ | (k, v) :: r => Forall_cons (k, v) (conj (expr_ind' k) (expr_ind' v)) (go r) end) kvs)
  | EIndex a i => HIndex a i (expr_ind' a) (expr_ind' i)
  | ETupleAt a n => HTupleAt a n (expr_ind' a)
  | ECast b a => HCast b a (expr_ind' a)
  | EComp v proj iter cond => HComp v proj iter cond (expr_ind' proj) (expr_ind' iter) (match cond as c0 return opt_P c0 with Some c => expr_ind' c | None => I end)
  end.
End ExprInd.

Section TyInd.
Variable P : ty -> Prop.
Hypothesis HB : forall b, P (TB b).
Hypothesis HL : forall t, P t -> P (TList t).
Hypothesis HD : forall k v, P k -> P v -> P (TDict k v).
Hypothesis HT : forall ts, Forall P ts -> P (TTuple ts).
Hypothesis HU : forall ts, Forall P ts -> P (TUnion ts).
Hypothesis HK : P TUnknown.
Fixpoint ty_ind' (t : ty) : P t :=
  match t with
  | TB b => HB b | TList t1 => HL t1 (ty_ind' t1) | TDict k v => HD k v (ty_ind' k) (ty_ind' v)
  | TTuple ts => HT ts ((fix go (l : list ty) : Forall P l := match l with [] => Forall_nil _ | x :: r => Forall_cons _ (ty_ind' x) (go r) end) ts)
  | TUnion ts => HU ts ((fix go (l : list ty) : Forall P l := match l with [] => Forall_nil _ | x :: r => Forall_cons _ (ty_ind' x) (go r) end) ts)
  | TUnknown => HK
  end.
End TyInd.

Lemma base_eqb_eq a b : base_eqb a b = true -> a = b.
Proof. destruct a, b; simpl; intros; congruence. Qed.
Lemma base_eqb_refl a : base_eqb a a = true.
Proof. destruct a; reflexivity. Qed.

Lemma ty_eqb_eq : forall a b, ty_eqb a b = true -> a = b.
Proof.
  induction a as [x|x IH|k v IHk IHv|xs IH|xs IH|] using ty_ind'; intros b Hb; destruct b as [y|y|k2 v2|ys|ys|]; simpl in Hb; try discriminate.
  - apply base_eqb_eq in Hb. congruence.
  - f_equal. apply IH. exact Hb.
  - apply andb_true_iff in Hb. destruct Hb as [H1 H2]. f_equal; auto.
  - f_equal. revert ys Hb. induction IH as [|x xs Hx _ IHxs]; intros [|y ys] Hb; try discriminate; auto.
    apply andb_true_iff in Hb. destruct Hb as [H1 H2]. f_equal; auto.
  - f_equal. revert ys Hb. induction IH as [|x xs Hx _ IHxs]; intros [|y ys] Hb; try discriminate; auto.
    apply andb_true_iff in Hb. destruct Hb as [H1 H2]. f_equal; auto.
  - reflexivity.
Qed.

(* ---- operators over the generated table ---- *)
Lemma binop_sound l o r t x y z :
  binop' l o r = Some t -> excluded l o r = false ->
  has_type x l = true -> has_type y r = true -> dyn_bin o x y = Some z -> has_type z t = true.
Proof.
  intros Hb He Hx Hy Hd.
  destruct l as [[]|[bl|tl1|kl1 vl1|tsl1|tsl1|]|kl vl|tsl|tsl|]; destruct r as [[]|[br|tr1|kr1 vr1|tsr1|tsr1|]|kr vr|tsr|tsr|]; destruct o;
    vm_compute in He; try discriminate He;
    vm_compute in Hb; try discriminate Hb; injection Hb as <-;
    destruct x as [[]|xs|xks xvs|xts]; try discriminate Hx; destruct y as [[]|ys|yks yvs|yts]; try discriminate Hy;
    simpl in Hd; try discriminate Hd; injection Hd as <-; try reflexivity; try exact Hx; try exact Hy.
Qed.

Lemma in_somes {A} (l : list (option A)) x : In x (somes l) <-> In (Some x) l.
Proof.
  unfold somes. rewrite in_flat_map. split.
  - intros [[y|] [Hin Hx]]; simpl in Hx; try contradiction. destruct Hx as [<-|[]]. exact Hin.
  - intros Hin. exists (Some x). split; auto. simpl. auto.
Qed.

Definition env_ok (G : nat -> option ty) (R : nat -> rty) : Prop := forall n t, G n = Some t -> has_type (R n) t = true.

Lemma has_type_unknown r : has_type r TUnknown = false.
Proof. destruct r; reflexivity. Qed.

Lemma classes_ok_spec ts : classes_ok ts = true -> forall a b, In a ts -> In b ts -> same_class a b = true -> a = b.
Proof.
  unfold classes_ok. intros H a b Ha Hb Hs. rewrite forallb_forall in H. specialize (H a Ha). rewrite forallb_forall in H. specialize (H b Hb).
  rewrite Hs in H. cbn [negb orb] in H. apply ty_eqb_eq. exact H.
Qed.

Lemma last_of_class_same t r : (forall u, In u r -> same_class t u = true -> u = t) -> last_of_class t r = t.
Proof.
  revert t. induction r as [|u r IH]; intros t H; [reflexivity|]. cbn [last_of_class].
  destruct (same_class t u) eqn:E.
  - rewrite (H u (or_introl eq_refl) E). apply IH. intros v Hv. apply H. right. exact Hv.
  - apply IH. intros v Hv. apply H. right. exact Hv.
Qed.

(* under the guard of list literals every element type is kept *)
Lemma in_dedupe ts t : classes_ok ts = true -> In t ts -> In t (dedupe ts).
Proof.
  intros Hok. pose proof (classes_ok_spec ts Hok) as Hs. clear Hok.
  induction ts as [|x r IH]; [intros []|]. intros Hin. cbn [dedupe].
  assert (last_of_class x r = x) as El.
  { apply last_of_class_same. intros u Hu Hc. symmetry. apply (Hs x u); [left; reflexivity|right; exact Hu|exact Hc]. }
  rewrite El. destruct Hin as [<-|Hin]; [left; reflexivity|].
  destruct (same_class x t) eqn:E.
  - left. apply (Hs x t); [left; reflexivity|right; exact Hin|exact E].
  - right. apply filter_In. split; [|rewrite E; reflexivity].
    apply IH; [|exact Hin]. intros a b Ha Hb. apply Hs; right; assumption.
Qed.

Lemma tuple_has_type ts : forall rs, has_type (RTuple rs) (TTuple ts) = true <-> Forall2 (fun r t => has_type r t = true) rs ts.
Proof.
  induction ts as [|t ts IH]; intros [|r rs]; simpl; split; intros H; try discriminate; try constructor; try (inversion H; fail); auto.
  - apply andb_true_iff in H. tauto.
  - apply andb_true_iff in H. apply IH. tauto.
  - inversion H; subst. apply andb_true_iff. split; auto. apply IH. auto.
Qed.

Lemma in_cart ls : forall l, In l (cart ls) <-> Forall2 (fun x xs => In x xs) l ls.
Proof.
  induction ls as [|xs ls IH]; intros l; simpl.
  - split; [intros [<-|[]]; constructor | intros H; inversion H; auto].
  - rewrite in_flat_map. split.
    + intros [x [Hx Hl]]. apply in_map_iff in Hl. destruct Hl as [l2 [<- Hl2]]. constructor; auto. apply IH. auto.
    + intros H. inversion H; subst. exists x. split; auto. apply in_map_iff. exists l0. split; auto. apply IH. auto.
Qed.

Lemma env_ok_upd G R v te re : env_ok G R -> has_type re te = true -> env_ok (upd G v (Some te)) (upd R v re).
Proof.
  intros He Hh n t. unfold upd. destruct (Nat.eqb n v); [intros H; injection H as <-; exact Hh | apply He].
Qed.
Lemma iter_sound ri ti te re : has_type ri ti = true -> iter_ty ti = Some te -> In re (iter_rty ri) -> has_type re te = true.
Proof.
  intros Hh Hi Hin. destruct ti as [[]|t1|k v| | |]; simpl in Hi; try discriminate; injection Hi as <-.
  - destruct ri as [|es| |]; simpl in Hh; try discriminate. rewrite forallb_forall in Hh. auto.
  - destruct ri as [| |ks vs|]; simpl in Hh; try discriminate. apply andb_true_iff in Hh. destruct Hh as [Hk _]. rewrite forallb_forall in Hk. auto.
Qed.

Theorem soundness : forall e G R t, env_ok G R -> infer' G e = Some t -> guard' G e = true ->
  forall r, In r (dyn R e) -> has_type r t = true.
Proof.
  induction e as [b|n|o e IH|o a b IHa IHb|a b IHa IHb|e IH|a b IHa IHb|a b IHa IHb|c a b IHc IHa IHb|es IH|es IH|kvs IH|a i IHa IHi|a n IHa|b e IH|v proj iter cond IHp IHi IHc] using expr_ind';
    intros G R t Henv Hinf Hg r Hr.
  - simpl in *. destruct Hr as [<-|[]]. injection Hinf as <-. simpl. apply base_eqb_refl.
  - simpl in *. destruct Hr as [<-|[]]. apply Henv. exact Hinf.
  - (* EUn *)
    cbn [infer guard dyn] in *. apply andb_true_iff in Hg. destruct Hg as [Hg Hb].
    apply in_somes in Hr. apply in_map_iff in Hr. destruct Hr as [x [Hx Hin]].
    destruct (infer' G e) as [te|] eqn:Ee; try discriminate.
    pose proof (IH G R te Henv Ee Hg x Hin) as Hxt.
    destruct te as [[]| | | | |]; simpl in Hb; try discriminate; injection Hinf as <-;
      destruct x as [[]| | |]; simpl in Hxt; try discriminate; destruct o; simpl in Hx; try discriminate; injection Hx as <-; reflexivity.
  - (* EBin *)
    cbn [infer guard dyn] in *. apply andb_true_iff in Hg. destruct Hg as [Hg He]. apply andb_true_iff in Hg. destruct Hg as [Hga Hgb].
    destruct (infer' G a) as [l|] eqn:Ea; try discriminate. destruct (infer' G b) as [r0|] eqn:Eb; try discriminate.
    apply in_somes in Hr. apply in_flat_map in Hr. destruct Hr as [x [Hx Hy]]. apply in_map_iff in Hy. destruct Hy as [y [Hd Hy]].
    apply negb_true_iff in He.
    eapply binop_sound; eauto.
  - (* ECmp *)
    cbn [infer dyn] in *. destruct (infer' G a); try discriminate. destruct (infer' G b); try discriminate. injection Hinf as <-.
    destruct (dyn R a); [destruct Hr|]. destruct (dyn R b); [destruct Hr|]. destruct Hr as [<-|[]]. reflexivity.
  - cbn [infer dyn] in *. destruct (infer' G e); try discriminate. injection Hinf as <-. destruct (dyn R e); [destruct Hr|]. destruct Hr as [<-|[]]. reflexivity.
  - (* EAnd *)
    cbn [infer guard dyn] in *. apply andb_true_iff in Hg. destruct Hg as [Hg Hib]. apply andb_true_iff in Hg. destruct Hg as [Hg Hia].
    apply andb_true_iff in Hg. destruct Hg as [Hga Hgb].
    destruct (infer' G a) as [ta|] eqn:Ea; try discriminate. destruct (infer' G b) as [tb|] eqn:Eb; try discriminate. injection Hinf as <-.
    destruct ta as [[]| | | | |]; try discriminate. destruct tb as [[]| | | | |]; try discriminate.
    apply in_app_or in Hr. destruct Hr as [Hr|Hr]; [eapply IHa | eapply IHb]; eauto.
  - (* EOr *)
    cbn [infer guard dyn] in *. apply andb_true_iff in Hg. destruct Hg as [Hg Hib]. apply andb_true_iff in Hg. destruct Hg as [Hg Hia].
    apply andb_true_iff in Hg. destruct Hg as [Hga Hgb].
    destruct (infer' G a) as [ta|] eqn:Ea; try discriminate. destruct (infer' G b) as [tb|] eqn:Eb; try discriminate. injection Hinf as <-.
    destruct ta as [[]| | | | |]; try discriminate. destruct tb as [[]| | | | |]; try discriminate.
    apply in_app_or in Hr. destruct Hr as [Hr|Hr]; [eapply IHa | eapply IHb]; eauto.
  - (* EIf *)
    cbn [infer guard dyn] in *. apply andb_true_iff in Hg. destruct Hg as [Hg Hgb]. apply andb_true_iff in Hg. destruct Hg as [Hgc Hga].
    destruct (infer' G c); try discriminate. destruct (infer' G a) as [t1|] eqn:Ea; try discriminate. destruct (infer' G b) as [t2|] eqn:Eb; try discriminate.
    destruct (dyn R c); [destruct Hr|]. apply in_app_or in Hr.
    destruct (ty_eqb t1 t2) eqn:Et; injection Hinf as <-.
    + apply ty_eqb_eq in Et. subst t2. destruct Hr as [Hr|Hr]; [eapply IHa | eapply IHb]; eauto.
    + simpl. destruct Hr as [Hr|Hr].
      * rewrite (IHa G R t1 Henv Ea Hga r Hr). reflexivity.
      * rewrite (IHb G R t2 Henv Eb Hgb r Hr). rewrite orb_true_r. reflexivity.
  - (* EList *)
    cbn [infer guard dyn] in *. destruct Hr as [<-|[]].
    set (go := fix go (l : list expr) : option (list ty) := match l with [] => Some [] | x :: r => match infer' G x, go r with Some t, Some ts => Some (t :: ts) | _, _ => None end end) in Hinf, Hg.
    set (gg := fix go (l : list expr) : bool := match l with [] => true | x :: r => guard' G x && go r end) in Hg.
    apply andb_true_iff in Hg as [Hg Hcls].
    destruct (go es) as [ts|] eqn:Ego; try discriminate.
    assert (Hall : forall t0, (forall u, In u ts -> u = t0 \/ u = TUnknown) -> forallb (fun e => has_type e t0) (flat_map (dyn R) es) = true).
    { intros t0 Hts. apply forallb_forall. intros x Hx. apply in_flat_map in Hx. destruct Hx as [e [He Hx]].
      clear Hinf Hcls. revert ts Ego Hts Hg. induction IH as [|e0 es0 He0 _ IHes]; intros ts Ego Hts Hg; [destruct He|].
      simpl in Ego, Hg. apply andb_true_iff in Hg. destruct Hg as [Hg0 Hgr].
      destruct (infer' G e0) as [u|] eqn:Eu; try discriminate. destruct (go es0) as [us|] eqn:Eus; try discriminate. injection Ego as <-.
      destruct He as [<-|He].
      - pose proof (He0 G R u Henv Eu Hg0 x Hx) as Hxu. destruct (Hts u (or_introl eq_refl)) as [-> | ->]; auto.
        rewrite has_type_unknown in Hxu. discriminate.
      - eapply IHes; eauto. intros u0 Hu0. apply Hts. right. exact Hu0. }
    assert (Hunion : forall us, (forall u, In u ts -> In u us \/ u = TUnknown) -> forallb (fun e => has_type e (TUnion us)) (flat_map (dyn R) es) = true).
    { intros us Hts. apply forallb_forall. intros x Hx. apply in_flat_map in Hx. destruct Hx as [e [He Hx]].
      clear Hinf Hall Hcls. revert ts Ego Hts Hg. induction IH as [|e0 es0 He0 _ IHes]; intros ts Ego Hts Hg; [destruct He|].
      simpl in Ego, Hg. apply andb_true_iff in Hg. destruct Hg as [Hg0 Hgr].
      destruct (infer' G e0) as [u|] eqn:Eu; try discriminate. destruct (go es0) as [us0|] eqn:Eus; try discriminate. injection Ego as <-.
      destruct He as [<-|He].
      - pose proof (He0 G R u Henv Eu Hg0 x Hx) as Hxu. destruct (Hts u (or_introl eq_refl)) as [Hin | ->].
        + clear - Hin Hxu. induction us as [|u0 us IHus]; [destruct Hin|]. simpl. destruct Hin as [->|Hin]; [rewrite Hxu; reflexivity|].
          apply orb_true_iff. right. apply IHus. exact Hin.
        + rewrite has_type_unknown in Hxu. discriminate.
      - eapply IHes; eauto. intros u0 Hu0. apply Hts. right. exact Hu0. }
    destruct (dedupe (filter (fun t => negb (ty_eqb t TUnknown)) ts)) as [|t1 [|t2 rest]] eqn:Ed; try discriminate; injection Hinf as <-.
    + apply (Hall TUnknown). intros u Hu. right.
      destruct (ty_eqb u TUnknown) eqn:Eu; [apply ty_eqb_eq; exact Eu|].
      assert (In u (dedupe (filter (fun t => negb (ty_eqb t TUnknown)) ts))) by (apply in_dedupe; [exact Hcls|apply filter_In; rewrite Eu; auto]).
      rewrite Ed in H. destruct H.
    + apply (Hall t1). intros u Hu.
      destruct (ty_eqb u TUnknown) eqn:Eu; [right; apply ty_eqb_eq; exact Eu|]. left.
      assert (In u (dedupe (filter (fun t => negb (ty_eqb t TUnknown)) ts))) by (apply in_dedupe; [exact Hcls|apply filter_In; rewrite Eu; auto]).
      rewrite Ed in H. destruct H as [<-|[]]. reflexivity.
    + apply (Hunion (t1 :: t2 :: rest)). intros u Hu.
      destruct (ty_eqb u TUnknown) eqn:Eu; [right; apply ty_eqb_eq; exact Eu|]. left.
      rewrite <- Ed. apply in_dedupe; [exact Hcls|]. apply filter_In. rewrite Eu. auto.
  - (* ETuple *)
    cbn [infer guard dyn] in *.
    set (go := fix go (l : list expr) : option (list ty) := match l with [] => Some [] | x :: r => match infer' G x, go r with Some t, Some ts => Some (t :: ts) | _, _ => None end end) in Hinf.
    set (gg := fix go (l : list expr) : bool := match l with [] => true | x :: r => guard' G x && go r end) in Hg.
    destruct (go es) as [ts|] eqn:Ego; try discriminate. injection Hinf as <-.
    apply in_map_iff in Hr. destruct Hr as [rs [<- Hrs]]. apply in_cart in Hrs. apply tuple_has_type.
    revert ts Ego rs Hrs Hg. induction IH as [|e0 es0 He0 _ IHes]; intros ts Ego rs Hrs Hg.
    + simpl in Ego. injection Ego as <-. inversion Hrs. constructor.
    + simpl in Ego, Hg, Hrs. apply andb_true_iff in Hg. destruct Hg as [Hg0 Hgr].
      destruct (infer' G e0) as [u|] eqn:Eu; try discriminate. destruct (go es0) as [us|] eqn:Eus; try discriminate. injection Ego as <-.
      inversion Hrs; subst. constructor; eauto.
  - (* EDict *)
    cbn [infer guard dyn] in *. destruct Hr as [<-|[]]. apply andb_true_iff in Hg. destruct Hg as [Hg Hsame].
    set (go := fix go (l : list (expr * expr)) : option (list (ty * ty)) := match l with [] => Some [] | (k, v) :: r => match infer' G k, infer' G v, go r with Some tk, Some tv, Some ts => Some ((tk, tv) :: ts) | _, _, _ => None end end) in Hinf.
    set (gg := fix go (l : list (expr * expr)) : bool := match l with [] => true | (k, v) :: r => guard' G k && guard' G v && go r end) in Hg.
    destruct (go kvs) as [ts|] eqn:Ego; try discriminate.
    destruct kvs as [|[k0 v0] rest].
    { simpl in Ego. injection Ego as <-. injection Hinf as <-. reflexivity. }
    (* every item has the types of the first one *)
    simpl in Ego. destruct (infer' G k0) as [tk|] eqn:Ek0; try discriminate. destruct (infer' G v0) as [tv|] eqn:Ev0; try discriminate.
    destruct (go rest) as [ts0|] eqn:Erest; try discriminate. injection Ego as <-.
    assert (Ht : t = TDict tk tv).
    { assert (Hallsame : forall p, In p ts0 -> p = (tk, tv)).
      { clear Hinf Hg IH. revert ts0 Erest. induction rest as [|[k1 v1] rest IHr]; intros ts0 Erest; simpl in Erest.
        - injection Erest as <-. intros p [].
        - simpl in Hsame. apply andb_true_iff in Hsame. destruct Hsame as [H1 Hsame].
          destruct (infer' G k1) as [a1|]; try discriminate. destruct (infer' G v1) as [c1|]; try discriminate.
          destruct (go rest) as [ts1|] eqn:E1; try discriminate. injection Erest as <-.
          apply andb_true_iff in H1. destruct H1 as [Ha Hc]. apply ty_eqb_eq in Ha, Hc. subst a1 c1.
          intros p [<-|Hp]; [reflexivity | exact (IHr Hsame ts1 eq_refl p Hp)]. }
      remember (filter (fun kv => negb (ty_eqb (snd kv) TUnknown)) ((tk, tv) :: ts0)) as fl eqn:Efl.
      destruct fl as [|[k2 v2] fl']; injection Hinf as <-; auto.
      assert (Hin : In (k2, v2) ((tk, tv) :: ts0)).
      { assert (In (k2, v2) ((k2, v2) :: fl')) by (left; reflexivity). rewrite Efl in H. apply filter_In in H. tauto. }
      destruct Hin as [Heq|Hin]; [injection Heq as <- <-; reflexivity|]. pose proof (Hallsame _ Hin) as Heq. injection Heq as -> ->. reflexivity. }
    subst t. cbn [has_type].
    assert (Hkv : forall kv, In kv ((k0, v0) :: rest) -> infer' G (fst kv) = Some tk /\ infer' G (snd kv) = Some tv /\ guard' G (fst kv) = true /\ guard' G (snd kv) = true).
    { intros kv [<-|Hin]; simpl.
      - simpl in Hg. apply andb_true_iff in Hg. destruct Hg as [Hg _]. apply andb_true_iff in Hg. tauto.
      - simpl in Hg. apply andb_true_iff in Hg. destruct Hg as [_ Hg]. clear Hinf IH Erest.
        revert Hg Hsame. induction rest as [|[k1 v1] rest IHr]; intros Hg Hsame; [destruct Hin|].
        simpl in Hg, Hsame. apply andb_true_iff in Hg. destruct Hg as [Hg1 Hgr]. apply andb_true_iff in Hg1. destruct Hg1 as [Hgk Hgv].
        apply andb_true_iff in Hsame. destruct Hsame as [H1 Hsame].
        destruct Hin as [<-|Hin]; simpl.
        + destruct (infer' G k1) as [a1|]; try discriminate. destruct (infer' G v1) as [c1|]; try discriminate.
          apply andb_true_iff in H1. destruct H1 as [Ha Hc]. apply ty_eqb_eq in Ha, Hc. subst. auto.
        + apply IHr; auto. }
    apply andb_true_iff. split; apply forallb_forall; intros x Hx; apply in_flat_map in Hx; destruct Hx as [kv [Hkvin Hx]];
      destruct (Hkv kv Hkvin) as [Hk [Hv [Hgk Hgv]]]; rewrite Forall_forall in IH; destruct (IH kv Hkvin) as [IHk IHv]; eauto.
  - (* EIndex *)
    cbn [infer guard dyn] in *. apply andb_true_iff in Hg. destruct Hg as [Hga Hgi].
    destruct (infer' G a) as [ta|] eqn:Ea; try discriminate. destruct (dyn R i); [destruct Hr|].
    apply in_flat_map in Hr. destruct Hr as [x [Hx Hrx]]. pose proof (IHa G R ta Henv Ea Hga x Hx) as Hxt.
    destruct ta as [[]|t1|k v| | |]; try discriminate; destruct (infer' G i); try discriminate; injection Hinf as <-.
    + destruct x as [[]| | |]; simpl in Hxt; try discriminate. destruct Hrx as [<-|[]]. reflexivity.
    + destruct x as [|es0| |]; simpl in Hxt; try discriminate. rewrite forallb_forall in Hxt. auto.
    + destruct x as [| |ks vs|]; simpl in Hxt; try discriminate. apply andb_true_iff in Hxt. destruct Hxt as [_ Hv]. rewrite forallb_forall in Hv. auto.
  - (* ETupleAt *)
    cbn [infer guard dyn] in *. destruct (infer' G a) as [ta|] eqn:Ea; try discriminate. destruct ta as [| | |ts| |]; try discriminate.
    apply in_somes in Hr. apply in_map_iff in Hr. destruct Hr as [x [Hx Hin]]. pose proof (IHa G R _ Henv Ea Hg x Hin) as Hxt.
    destruct x as [| | |rs]; try discriminate. apply tuple_has_type in Hxt.
    clear Hin Ea Hg IHa. revert n Hx Hinf. induction Hxt as [|r0 t0 rs ts H0 _ IHf]; intros [|n] Hx Hinf; simpl in *; try discriminate.
    + injection Hx as <-. injection Hinf as <-. exact H0.
    + eauto.
  - (* ECast *)
    cbn [infer dyn] in *. destruct (infer' G e); try discriminate. destruct (dyn R e); [destruct Hr|]. destruct Hr as [<-|[]].
    destruct b; try discriminate; injection Hinf as <-; reflexivity.
  - (* EComp *)
    cbn [infer guard dyn] in *. destruct Hr as [<-|[]]. apply andb_true_iff in Hg. destruct Hg as [Hgi Hg].
    destruct (infer' G iter) as [ti|] eqn:Ei; try discriminate. destruct (iter_ty ti) as [te|] eqn:Et; try discriminate.
    apply andb_true_iff in Hg. destruct Hg as [Hgp _].
    destruct (match cond with Some c => infer' (upd G v (Some te)) c | None => Some (TB BBool) end); try discriminate.
    destruct (infer' (upd G v (Some te)) proj) as [tp|] eqn:Ep; try discriminate. injection Hinf as <-.
    cbn [has_type]. apply forallb_forall. intros x Hx.
    apply in_flat_map in Hx. destruct Hx as [ri [Hri Hx]]. apply in_flat_map in Hx. destruct Hx as [re [Hre Hx]].
    pose proof (IHi G R ti Henv Ei Hgi ri Hri) as Hti.
    pose proof (iter_sound ri ti te re Hti Et Hre) as Hte.
    exact (IHp (upd G v (Some te)) (upd R v re) tp (env_ok_upd G R v te re Henv Hte) Ep Hgp x Hx).
Qed.
