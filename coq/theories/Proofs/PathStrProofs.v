(* C10: the string form of a path ("tag.tag[3].tag") parses back to the structural path, for tags without
   '.', '[' and ']' (checked on the generated grammar tags in Properties/C10.v). *)
From Tranp Require Import Model.Finder.
From Coq Require Import ZArith Lia.
Local Open Scope nat_scope.
Ltac Zify.zify_post_hook ::= Z.to_euclidean_division_equations.

Definition tag_ok (t : str) : bool :=
  negb (str_eqb t []) && negb (mem "."%char t) && negb (mem "["%char t) && negb (mem "]"%char t).

(* ---- split / join ---- *)
Lemma split_on_nochar c a cur : ~ In c a -> split_on c a cur = [rev cur ++ a].
Proof.
  revert cur. induction a as [|x a IH]; intros cur H; simpl.
  - rewrite app_nil_r. reflexivity.
  - destruct (Ascii.eqb x c) eqn:E; [apply Ascii.eqb_eq in E; subst; exfalso; apply H; left; reflexivity|].
    rewrite IH by (intros X; apply H; right; exact X). simpl. rewrite <- app_assoc. reflexivity.
Qed.

Lemma split_on_app c a rest cur : ~ In c a -> split_on c (a ++ c :: rest) cur = (rev cur ++ a) :: split_on c rest [].
Proof.
  revert cur. induction a as [|x a IH]; intros cur H; simpl.
  - rewrite Ascii.eqb_refl, app_nil_r. reflexivity.
  - destruct (Ascii.eqb x c) eqn:E; [apply Ascii.eqb_eq in E; subst; exfalso; apply H; left; reflexivity|].
    rewrite IH by (intros X; apply H; right; exact X). simpl. rewrite <- app_assoc. reflexivity.
Qed.

Lemma split_join c parts : parts <> [] -> Forall (fun p => ~ In c p) parts -> split c (join [c] parts) = parts.
Proof.
  intros Hne H. unfold split. induction H as [|p ps Hp Hps IH]; [congruence|].
  destruct ps as [|q ps].
  - simpl. rewrite split_on_nochar by exact Hp. reflexivity.
  - change (join [c] (p :: q :: ps)) with (p ++ c :: join [c] (q :: ps)).
    rewrite split_on_app by exact Hp. simpl rev. simpl app. f_equal. apply IH. discriminate.
Qed.

(* ---- decimal numerals ---- *)
Lemma parse_nat_app l1 l2 a :
  parse_nat (l1 ++ l2) a = match parse_nat l1 a with Some b => parse_nat l2 b | None => None end.
Proof.
  revert a. induction l1 as [|c l1 IH]; intros a; simpl; [reflexivity|].
  destruct (is_digit c); [apply IH|reflexivity].
Qed.

Lemma digit_ok d : d < 10 -> is_digit (digit_of d) = true /\ nat_of_ascii (digit_of d) - 48 = d.
Proof.
  intros H. unfold is_digit, digit_of.
  assert (nat_of_ascii (ascii_of_nat (48 + d)) = 48 + d) as E by (apply nat_ascii_embedding; lia).
  rewrite E. split.
  - apply andb_true_iff. split; apply Nat.leb_le; lia.
  - lia.
Qed.

Lemma nat_str_aux_spec fuel : forall n acc, n < fuel ->
  exists ds, nat_str_aux fuel n acc = ds ++ acc /\ parse_nat ds 0 = Some n /\ Forall (fun c => is_digit c = true) ds.
Proof.
  induction fuel as [|f IH]; intros n acc Hn; [lia|]. cbn [nat_str_aux].
  assert (n mod 10 < 10) as Hm by (apply Nat.mod_upper_bound; lia).
  pose proof (Nat.div_mod n 10 ltac:(lia)) as Hdm.
  destruct (digit_ok _ Hm) as [Hd1 Hd2].
  destruct (n / 10) as [|q'] eqn:Eq.
  - exists [digit_of (n mod 10)]. split; [reflexivity|]. split.
    + cbn [parse_nat]. rewrite Hd1, Hd2. f_equal. lia.
    + constructor; [exact Hd1|constructor].
  - assert (S q' < f) as Hq by lia.
    destruct (IH (S q') (digit_of (n mod 10) :: acc) Hq) as [ds [E [P D]]].
    exists (ds ++ [digit_of (n mod 10)]). split; [rewrite E, <- app_assoc; reflexivity|]. split.
    + rewrite parse_nat_app, P. cbn [parse_nat]. rewrite Hd1, Hd2. f_equal. lia.
    + apply Forall_app. split; [exact D|constructor; [exact Hd1|constructor]].
Qed.

Lemma nat_str_spec n : parse_nat (nat_str n) 0 = Some n /\ Forall (fun c => is_digit c = true) (nat_str n).
Proof.
  unfold nat_str. destruct (nat_str_aux_spec (S n) n [] (Nat.lt_succ_diag_r n)) as [ds [E [P D]]].
  rewrite app_nil_r in E. rewrite E. split; assumption.
Qed.

Lemma digit_not c x : is_digit c = true -> is_digit x = false -> c <> x.
Proof. intros H1 H2 ->. congruence. Qed.

(* ---- one element ---- *)
Lemma break_render_elem e : tag_ok (fst e) = true -> break_tag (render_elem e) = Some e.
Proof.
  destruct e as [t [i|]]; unfold tag_ok; cbn [fst]; intros H;
    apply andb_true_iff in H as [H H4]; apply andb_true_iff in H as [H H3]; apply andb_true_iff in H as [H1 H2];
    apply negb_true_iff in H1, H2, H3, H4; apply mem_false_iff in H2, H3, H4.
  - cbn [render_elem]. unfold break_tag.
    destruct (nat_str_spec i) as [P D].
    replace (rev (t ++ "["%char :: nat_str i ++ ["]"%char])) with ("]"%char :: rev (t ++ "["%char :: nat_str i)).
    2:{ replace (t ++ "["%char :: nat_str i ++ ["]"%char]) with ((t ++ "["%char :: nat_str i) ++ ["]"%char]) by (rewrite <- app_assoc; reflexivity).
        symmetry. apply rev_unit. }
    unfold split. rewrite split_on_app by exact H3. rewrite split_on_nochar.
    + simpl. rewrite removelast_last, P. reflexivity.
    + rewrite in_app_iff. intros [X|[X|[]]]; [|discriminate].
      rewrite Forall_forall in D. specialize (D _ X). vm_compute in D. discriminate.
  - cbn [render_elem]. unfold break_tag. destruct (rev t) as [|c r] eqn:E; [reflexivity|].
    destruct (Ascii.ascii_dec c "]"%char) as [->|Hne].
    + exfalso. apply H4. apply in_rev. rewrite E. left. reflexivity.
    + destruct c as [[] [] [] [] [] [] [] []]; try reflexivity. congruence.
Qed.

Lemma render_elem_nodot e : tag_ok (fst e) = true -> ~ In "."%char (render_elem e) /\ render_elem e <> [].
Proof.
  destruct e as [t [i|]]; unfold tag_ok; cbn [fst]; intros H;
    apply andb_true_iff in H as [H H4]; apply andb_true_iff in H as [H H3]; apply andb_true_iff in H as [H1 H2];
    apply negb_true_iff in H1, H2, H3, H4; apply mem_false_iff in H2, H3, H4; cbn [render_elem].
  - split; [|destruct t; discriminate]. rewrite in_app_iff. intros [X|[X|X]]; [contradiction|discriminate|].
    rewrite in_app_iff in X. destruct X as [X|[X|[]]]; [|discriminate].
    destruct (nat_str_spec i) as [_ D]. rewrite Forall_forall in D. specialize (D _ X). vm_compute in D. discriminate.
  - split; [exact H2|]. intros ->. vm_compute in H1. discriminate.
Qed.

Lemma all_some_map_id {A B} (f : A -> B) (g : B -> option A) l : Forall (fun x => g (f x) = Some x) l ->
  all_some (map g (map f l)) = Some l.
Proof. induction 1 as [|x l Hx _ IH]; simpl; [reflexivity|]. rewrite Hx, IH. reflexivity. Qed.

Theorem path_string_roundtrip p : Forall (fun e => tag_ok (fst e) = true) p -> parse (render p) = Some p.
Proof.
  intros H. unfold parse, render.
  assert (filter (fun x => negb (str_eqb x [])) (map render_elem p) = map render_elem p) as F.
  { induction H as [|e p He _ IH]; [reflexivity|]. simpl. destruct (render_elem_nodot e He) as [_ Hn].
    destruct (str_eqb (render_elem e) []) eqn:E; [apply str_eqb_eq in E; contradiction|]. simpl. rewrite IH. reflexivity. }
  rewrite F. destruct p as [|e0 p0].
  - reflexivity.
  - rewrite split_join.
    + rewrite F. apply all_some_map_id. eapply Forall_impl; [|exact H]. intros e He. apply break_render_elem. exact He.
    + discriminate.
    + apply Forall_forall. intros x Hx. apply in_map_iff in Hx as [e [<- He]]. rewrite Forall_forall in H.
      apply (render_elem_nodot e (H _ He)).
Qed.

(* consequently the string form identifies the path: distinct paths never share a string *)
Theorem render_injective p q : Forall (fun e => tag_ok (fst e) = true) p -> Forall (fun e => tag_ok (fst e) = true) q ->
  render p = render q -> p = q.
Proof.
  intros Hp Hq E. apply path_string_roundtrip in Hp, Hq. rewrite E in Hp. congruence.
Qed.
