(* py2cpp's operand wrapping is re-parenthesising over the C++ ladder, hence the C++ parser recovers exactly
   the (renamed) Python tree from the rendered tokens. *)
From Coq Require Import String Ascii List Bool Arith Lia.
Import ListNotations.
From Tranp Require Import Base.Str Model.Ladder Model.CppExpr Proofs.LadderProofs.
From TranpGen Require Import GenCppPrec.
Local Open Scope string_scope.
Local Open Scope nat_scope.

Notation impl' := (impl tranp_cpp_binary_prec tranp_cpp_unary_prec tranp_cpp_primary_prec tranp_cpp_renames).
Notation rename' := (rename tranp_cpp_renames).
Notation rename_op' := (rename_op tranp_cpp_renames).
Notation prec_of' := (prec_of tranp_cpp_binary_prec tranp_cpp_unary_prec tranp_cpp_primary_prec).
Notation prec_bin' := (prec_bin tranp_cpp_binary_prec).
Notation K := (length cpp_ladder).
Notation clvl := (lvl_of cpp_ladder).
Notation cplvl := (plvl_of cpp_ladder).
Notation clevel := (level str K clvl cplvl).
Notation creparen := (reparen_with cpp_ladder extra_unary).

(* a binary operator whose generated precedence is its level in the C++ ladder (shifted by the two levels above) *)
Definition bin_ok (o : str) : bool :=
  match CppExpr.assoc o tranp_cpp_binary_prec with Some p => Nat.eqb (clvl (rename_op' o) + 2) p && (clvl (rename_op' o) <? K) | None => false end.
Definition un_ok (o : str) : bool := str_eqb o (s "not") || str_eqb o (s "-") || str_eqb o (s "+") || str_eqb o (s "~").
Fixpoint known (e : expr str) : Prop :=
  match e with
  | Atom _ _ => True
  | Par _ a => known a
  | Un _ o a => un_ok o = true /\ known a
  | Bin _ o a b => bin_ok o = true /\ known a /\ known b
  end.

Lemma level_reparen (e : expr str) : clevel (creparen e) = clevel e.
Proof. destruct e; reflexivity. Qed.

Lemma un_ok_cases o : un_ok o = true -> o = s "not" \/ o = s "-" \/ o = s "+" \/ o = s "~".
Proof.
  unfold un_ok. intros H. repeat (apply orb_true_iff in H; destruct H as [H|H]); apply str_eqb_eq in H; auto.
Qed.

Lemma prec_level e : known e -> prec_of' e = clevel (rename' e) + 2.
Proof.
  destruct e as [n|o a b|o a|a]; cbn [prec_of rename level known]; intros Hk; try reflexivity.
  - destruct Hk as [Ho _]. unfold bin_ok in Ho. destruct (CppExpr.assoc o tranp_cpp_binary_prec) as [p|]; try discriminate.
    apply andb_true_iff in Ho. destruct Ho as [Ho _]. apply Nat.eqb_eq in Ho. symmetry. exact Ho.
  - destruct Hk as [Ho _]. destruct (un_ok_cases o Ho) as [->|[->|[->| ->]]]; reflexivity.
Qed.

Lemma factor_extra e : known e -> is_factor e = extra_unary (creparen (rename' e)).
Proof.
  destruct e as [n|o a b|o a|a]; simpl; intros Hk; try reflexivity.
  destruct Hk as [Ho _]. destruct (un_ok_cases o Ho) as [->|[->|[->| ->]]]; reflexivity.
Qed.

Theorem impl_is_reparen : forall e, known e -> impl' e = creparen (rename' e).
Proof.
  induction e as [n|o a IHa b IHb|o a IHa|a IHa]; simpl; intros Hk.
  - reflexivity.
  - destruct Hk as [Ho [Ha Hb]]. rewrite IHa, IHb by assumption.
    unfold reparen_with. cbn [reparen]. fold (creparen (rename' a)). fold (creparen (rename' b)).
    rewrite !level_reparen.
    rewrite (prec_level a Ha), (prec_level b Hb).
    unfold bin_ok in Ho. unfold prec_bin. destruct (CppExpr.assoc o tranp_cpp_binary_prec) as [p|]; try discriminate.
    apply andb_true_iff in Ho. destruct Ho as [Ho _]. apply Nat.eqb_eq in Ho. subst p.
    replace (clevel (rename' a) + 2 <? clvl (rename_op' o) + 2) with (clevel (rename' a) <? clvl (rename_op' o))
      by (destruct (clevel (rename' a) <? clvl (rename_op' o)) eqn:E1; symmetry; [apply Nat.ltb_lt; apply Nat.ltb_lt in E1; lia | apply Nat.ltb_ge; apply Nat.ltb_ge in E1; lia]).
    replace (clevel (rename' b) + 2 <=? clvl (rename_op' o) + 2) with (clevel (rename' b) <=? clvl (rename_op' o))
      by (destruct (clevel (rename' b) <=? clvl (rename_op' o)) eqn:E1; symmetry; [apply Nat.leb_le; apply Nat.leb_le in E1; lia | apply Nat.leb_gt; apply Nat.leb_gt in E1; lia]).
    reflexivity.
  - destruct Hk as [Ho Ha]. rewrite IHa by assumption.
    unfold reparen_with. cbn [reparen]. fold (creparen (rename' a)).
    rewrite level_reparen.
    rewrite (prec_level a Ha), (factor_extra a Ha).
    assert (Hp : cplvl (rename_op' o) + 2 = tranp_cpp_unary_prec) by (destruct (un_ok_cases o Ho) as [->|[->|[->| ->]]]; reflexivity).
    rewrite <- Hp.
    replace (clevel (rename' a) + 2 <? cplvl (rename_op' o) + 2) with (clevel (rename' a) <? cplvl (rename_op' o))
      by (destruct (clevel (rename' a) <? cplvl (rename_op' o)) eqn:E1; symmetry; [apply Nat.ltb_lt; apply Nat.ltb_lt in E1; lia | apply Nat.ltb_ge; apply Nat.ltb_ge in E1; lia]).
    reflexivity.
  - rewrite IHa by assumption. reflexivity.
Qed.

Lemma known_ops_ok e : known e -> ops_ok str K clvl cplvl (rename' e).
Proof.
  induction e as [n|o a IHa b IHb|o a IHa|a IHa]; simpl; intros Hk; auto.
  - destruct Hk as [Ho [Ha Hb]]. split; [|split; auto]. unfold bin_ok in Ho.
    destruct (CppExpr.assoc o tranp_cpp_binary_prec) as [p|]; try discriminate.
    apply andb_true_iff in Ho. destruct Ho as [_ Ho]. apply Nat.ltb_lt in Ho. exact Ho.
  - destruct Hk as [Ho Ha]. split; auto. destruct (un_ok_cases o Ho) as [->|[->|[->| ->]]]; vm_compute; lia.
Qed.

Lemma strip_rename e : Ladder.strip str (rename' e) = rename' (Ladder.strip str e).
Proof. induction e as [n|o a IHa b IHb|o a IHa|a IHa]; simpl; congruence. Qed.

Theorem grouping : forall e, known e ->
  (exists f, parse_with cpp_ladder f 0 (toks str (impl' e)) = Some (impl' e, []))
  /\ Ladder.strip str (impl' e) = rename' (Ladder.strip str e).
Proof.
  intros e Hk. rewrite (impl_is_reparen e Hk).
  destruct (rerender_with cpp_ladder extra_unary (rename' e) (known_ops_ok e Hk)) as [Hp Hs].
  split; [exact Hp|]. rewrite Hs. apply strip_rename.
Qed.
