(* C19: the three-table container of di.py refines the single-map reference model, for every operation
   sequence over a pool of containers (bind / unbind / rebind / resolve / can_resolve / invoke / clone /
   combine / lazy instantiation), observation by observation. *)
From Coq Require Import List Arith Bool Lia.
Import ListNotations.
From Tranp Require Import Model.DI.

Definition absf (c : cont) (s : sym) : option entry :=
  match defs c s with
  | None => None
  | Some f0 => Some {| efac := match inj c s with Some f => f | None => f0 end;
                       ebound := is_some (inj c s); einst := ins c s |}
  end.

(* simulation relation: two invariants of the concrete container + pointwise abstraction *)
Definition R (c : cont) (m : smap) : Prop :=
  (forall s, inj c s <> None -> defs c s <> None) /\
  (forall s, ins c s <> None -> inj c s <> None) /\
  (forall s, absf c s = m s).

Definition mono (c c' : cont) : Prop := forall x, inj c x <> None -> inj c' x <> None.
Lemma mono_refl c : mono c c. Proof. intros x H; exact H. Qed.
Lemma mono_trans a b c : mono a b -> mono b c -> mono a c. Proof. intros H1 H2 x H. apply H2, H1, H. Qed.

(* pointwise goals over the three tables: split on the tables at the points involved, then close by
   computation, congruence, or one of the two invariants *)
Ltac kill :=
  simpl in *; try congruence; try tauto;
  try solve [exfalso; match goal with J : _ <> None -> _ <> None |- _ => apply J; [discriminate|reflexivity] end];
  try solve [intros; discriminate];
  try solve [intros; unfold upd; rewrite ?Nat.eqb_refl; simpl; congruence].
Ltac split_tables c x :=
  destruct (defs c x) eqn:?, (inj c x) eqn:?, (ins c x) eqn:?.
Ltac pt c s x I1 I2 H :=
  pose proof (I1 x); pose proof (I2 x); pose proof (H x); pose proof (I1 s); pose proof (I2 s); pose proof (H s);
  unfold absf, upd in *; simpl in *;
  destruct (Nat.eqb x s) eqn:?E; [apply Nat.eqb_eq in E; subst x|];
  try rewrite Nat.eqb_refl in *; simpl in *;
  split_tables c s; kill; try (split_tables c x; kill).

Lemma P_known c m s : R c m -> known cont conc c s = known smap spec m s.
Proof. intros [_ [_ H]]. simpl. rewrite <- H. unfold absf. destruct (defs c s); reflexivity. Qed.

Lemma P_get c m s : R c m -> get_inst cont conc c s = get_inst smap spec m s.
Proof.
  intros [I1 [I2 H]]. simpl. rewrite <- H. pose proof (I1 s); pose proof (I2 s). unfold absf. split_tables c s; kill.
Qed.

Lemma P_injector c m s : R c m ->
  fst (injector cont conc c s) = fst (injector smap spec m s) /\
  R (snd (injector cont conc c s)) (snd (injector smap spec m s)) /\
  mono c (snd (injector cont conc c s)) /\
  (fst (injector cont conc c s) <> None -> inj (snd (injector cont conc c s)) s <> None).
Proof.
  intros [I1 [I2 H]]. simpl. unfold c_injector, mono, R. rewrite <- (H s).
  pose proof (I1 s) as K1; pose proof (I2 s) as K2. unfold absf at 1 2 3.
  destruct (defs c s) eqn:Ed, (inj c s) eqn:Ei; simpl; repeat split; kill; try (intros x; pt c s x I1 I2 H).
Qed.

Lemma P_set c m s v : R c m -> inj c s <> None -> R (set_inst cont conc c s v) (set_inst smap spec m s v).
Proof.
  intros [I1 [I2 H]] Hb. simpl. unfold R. pose proof (I1 s) as K1. pose proof (H s) as Hs. unfold absf in Hs.
  destruct (defs c s) eqn:Ed; [|exfalso; apply K1; [assumption|reflexivity]].
  rewrite <- Hs. simpl; repeat split; kill; try (intros x; pt c s x I1 I2 H).
Qed.

Definition ostR (a : option cont) (b : option smap) : Prop :=
  match a, b with Some c, Some m => R c m | None, None => True | _, _ => False end.

Lemma P_bind c m s f : R c m -> ostR (bind cont conc c s f) (bind smap spec m s f).
Proof.
  intros [I1 [I2 H]]. simpl. unfold c_bind, ostR, R.
  pose proof (I1 s) as K1; pose proof (I2 s) as K2; pose proof (H s) as Hs; unfold absf in Hs.
  destruct (defs c s) eqn:Ed, (inj c s) eqn:Ei; simpl in Hs; rewrite <- Hs; simpl; kill; repeat split; kill; try (intros x; pt c s x I1 I2 H).
Qed.

Lemma P_unbind c m s : R c m -> R (unbind cont conc c s) (unbind smap spec m s).
Proof.
  intros [I1 [I2 H]]. simpl. unfold c_unbind, R.
  pose proof (I1 s) as K1; pose proof (I2 s) as K2.
  destruct (defs c s) eqn:Ed, (inj c s) eqn:Ei; simpl; kill; repeat split; kill; try (intros x; pt c s x I1 I2 H).
Qed.

Lemma P_rebind c m s f : R c m -> ostR (rebind cont conc c s f) (rebind smap spec m s f).
Proof.
  intros [I1 [I2 H]]. simpl. unfold c_rebind, c_bind, c_unbind, ostR, R.
  pose proof (I1 s) as K1; pose proof (I2 s) as K2.
  destruct (defs c s) eqn:Ed, (inj c s) eqn:Ei; simpl; unfold upd; rewrite ?Nat.eqb_refl; simpl; rewrite ?Ed, ?Ei; simpl; kill; repeat split; kill; try (intros x; pt c s x I1 I2 H).
Qed.

Lemma P_combine a ma b mb : R a ma -> R b mb -> R (combine cont conc a b) (combine smap spec ma mb).
Proof.
  intros [A1 [A2 HA]] [B1 [B2 HB]]. simpl. unfold c_combine, R. repeat split; simpl; intros x;
    pose proof (A1 x); pose proof (A2 x); pose proof (B1 x); pose proof (B2 x);
    try (rewrite <- (HA x), <- (HB x)); unfold absf; simpl;
    split_tables b x; kill; split_tables a x; kill.
Qed.

Lemma P_new l : R (lazy_new cont conc l) (lazy_new smap spec l).
Proof. simpl. repeat split; simpl; try congruence; try (intros s; unfold absf; simpl; destruct (of_list (rev l) s); reflexivity). Qed.

(* ---- resolve / invoke ---- *)
Ltac done3 := split; [first [reflexivity|eassumption]| split; [solve [eauto] | solve [eauto using mono_refl, mono_trans]]].
Definition Sim2 (rs1 : st cont -> sym -> res val * st cont) (rs2 : st smap -> sym -> res val * st smap) : Prop :=
  forall c m n s r c' n', R c m -> rs1 (c, n) s = (r, (c', n')) ->
  exists m', rs2 (m, n) s = (r, (m', n')) /\ R c' m' /\ mono c c'.

Lemma curry_sim rs1 rs2 : Sim2 rs1 rs2 -> forall ps c m n acc r c' n', R c m ->
  curry cont conc rs1 ps (c, n) acc = (r, (c', n')) ->
  exists m', curry smap spec rs2 ps (m, n) acc = (r, (m', n')) /\ R c' m' /\ mono c c'.
Proof.
  intros HS. induction ps as [|p ps IH]; intros c m n acc r c' n' HR Hc.
  - simpl in *. injection Hc as <- <- <-. exists m. done3.
  - destruct p as [s| |]; cbn [curry fst] in *;
      try (injection Hc as <- <- <-; exists m; done3).
    rewrite <- (P_known c m s HR).
    destruct (known cont conc c s).
    + destruct (rs1 (c, n) s) as [r1 [c1 n1]] eqn:E1.
      destruct (HS _ _ _ _ _ _ _ HR E1) as [m1 [E2 [HR1 M1]]]. rewrite E2.
      destruct r1 as [v| |].
      * destruct (IH _ _ _ _ _ _ _ HR1 Hc) as [m' [E3 [HR' M']]]. exists m'. done3.
      * injection Hc as <- <- <-. exists m1. done3.
      * injection Hc as <- <- <-. exists m1. done3.
    + injection Hc as <- <- <-. exists m. done3.
Qed.

Lemma invoke_with_sim rs1 rs2 : Sim2 rs1 rs2 -> forall f args c m n r c' n', R c m ->
  invoke_with cont conc rs1 (c, n) f args = (r, (c', n')) ->
  exists m', invoke_with smap spec rs2 (m, n) f args = (r, (m', n')) /\ R c' m' /\ mono c c'.
Proof.
  intros HS f args c m n r c' n' HR Hi. unfold invoke_with in *.
  destruct (curry cont conc rs1 (fparams f) (c, n) []) as [rc [c1 n1]] eqn:E1.
  destruct (curry_sim _ _ HS _ _ _ _ _ _ _ _ HR E1) as [m1 [E2 [HR1 M1]]]. rewrite E2.
  destruct rc as [[cur rest]| |].
  - destruct (check rest args); injection Hi as <- <- <-; exists m1; done3.
  - injection Hi as <- <- <-. exists m1. done3.
  - injection Hi as <- <- <-. exists m1. done3.
Qed.

Lemma resolve_sim fuel : Sim2 (resolve cont conc fuel) (resolve smap spec fuel).
Proof.
  induction fuel as [|k IH]; intros c m n s r c' n' HR Hr.
  - simpl in *. injection Hr as <- <- <-. exists m. done3.
  - cbn [resolve fst snd] in *.
    destruct (P_injector c m s HR) as [Ef [HR1 [M1 Hb]]].
    destruct (injector cont conc c s) as [of1 c1]. destruct (injector smap spec m s) as [of2 m1].
    cbn [fst snd] in *. subst of2.
    destruct of1 as [f|].
    + rewrite <- (P_get c1 m1 s HR1).
      destruct (get_inst cont conc c1 s) as [v|].
      * injection Hr as <- <- <-. exists m1. done3.
      * destruct (invoke_with cont conc (resolve cont conc k) (c1, n) f []) as [ri [c2 n2]] eqn:Ei.
        destruct (invoke_with_sim _ _ IH _ _ _ _ _ _ _ _ HR1 Ei) as [m2 [E2 [HR2 M2]]]. rewrite E2.
        destruct ri as [[v a]| |].
        -- injection Hr as <- <- <-. exists (set_inst smap spec m2 s v). split; [reflexivity|]. split.
           ++ apply P_set; [exact HR2|]. apply M2. apply Hb. discriminate.
           ++ intros x Hx. simpl. apply M2, M1, Hx.
        -- injection Hr as <- <- <-. exists m2. done3.
        -- injection Hr as <- <- <-. exists m2. done3.
    + injection Hr as <- <- <-. exists m1. done3.
Qed.

(* ---- pools and operation sequences ---- *)
Definition PR (p : pool cont) (q : pool smap) : Prop := Forall2 R (fst p) (fst q) /\ snd p = snd q.

Lemma set_nth_R cs ms i c m : Forall2 R cs ms -> R c m -> Forall2 R (set_nth cont cs i c) (set_nth smap ms i m).
Proof.
  intros H. revert i. induction H as [|x y xs ys Hxy Hrest IH]; intros i Hcm; [constructor|].
  destruct i; simpl; constructor; auto.
Qed.

Lemma nth_R cs ms i : Forall2 R cs ms ->
  match nth_error cs i, nth_error ms i with Some c, Some m => R c m | None, None => True | _, _ => False end.
Proof.
  intros H. revert i. induction H as [|x y xs ys Hxy _ IH]; intros i; destruct i; simpl; auto. apply IH.
Qed.

Lemma step_sim p q o : PR p q ->
  snd (step cont conc p o) = snd (step smap spec q o) /\ PR (fst (step cont conc p o)) (fst (step smap spec q o)).
Proof.
  destruct p as [cs n], q as [ms n0]. intros [HF Hn]. simpl in Hn. subst n0.
  assert (forall i, match nth_error cs i, nth_error ms i with Some c, Some m => R c m | None, None => True | _, _ => False end) as HN
    by (intros i; apply nth_R; exact HF).
  destruct o as [l|i s f|i s|i s f|i s|i s|i f args|i|a b]; cbn [step].
  - split; [reflexivity|]. split; [|reflexivity]. simpl. apply Forall2_app; [exact HF|]. constructor; [apply P_new|constructor].
  - specialize (HN i). destruct (nth_error cs i) as [c|], (nth_error ms i) as [m|]; try contradiction; [|split; [reflexivity|split; auto]].
    pose proof (P_bind c m s f HN) as Hb. unfold ostR in Hb.
    destruct (bind cont conc c s f), (bind smap spec m s f); try contradiction; simpl; (split; [reflexivity|split; [|reflexivity]]); simpl; auto.
    apply set_nth_R; auto.
  - specialize (HN i). destruct (nth_error cs i) as [c|], (nth_error ms i) as [m|]; try contradiction; simpl; (split; [reflexivity|split; [|reflexivity]]); simpl; auto.
    apply set_nth_R; auto. apply P_unbind. exact HN.
  - specialize (HN i). destruct (nth_error cs i) as [c|], (nth_error ms i) as [m|]; try contradiction; [|split; [reflexivity|split; auto]].
    pose proof (P_rebind c m s f HN) as Hb. unfold ostR in Hb.
    destruct (rebind cont conc c s f), (rebind smap spec m s f); try contradiction; simpl; (split; [reflexivity|split; [|reflexivity]]); simpl; auto.
    apply set_nth_R; auto.
  - specialize (HN i). destruct (nth_error cs i) as [c|], (nth_error ms i) as [m|]; try contradiction; [|split; [reflexivity|split; auto]].
    destruct (resolve cont conc FUEL (c, n) s) as [r [c' n']] eqn:E1.
    destruct (resolve_sim FUEL _ _ _ _ _ _ _ HN E1) as [m' [E2 [HR' _]]]. rewrite E2.
    destruct r; simpl; (split; [reflexivity|split; [|reflexivity]]); simpl; apply set_nth_R; auto.
  - specialize (HN i). destruct (nth_error cs i) as [c|], (nth_error ms i) as [m|]; try contradiction; simpl; [|split; [reflexivity|split; auto]].
    pose proof (P_known c m s HN) as K. simpl in K. rewrite K. split; [reflexivity|split; auto].
  - specialize (HN i). destruct (nth_error cs i) as [c|], (nth_error ms i) as [m|]; try contradiction; [|split; [reflexivity|split; auto]].
    unfold invoke.
    destruct (invoke_with cont conc (resolve cont conc FUEL) (c, n) f args) as [r [c' n']] eqn:E1.
    destruct (invoke_with_sim _ _ (resolve_sim FUEL) _ _ _ _ _ _ _ _ HN E1) as [m' [E2 [HR' _]]]. rewrite E2.
    destruct r as [[v a]| |]; simpl; (split; [reflexivity|split; [|reflexivity]]); simpl; apply set_nth_R; auto.
  - specialize (HN i). destruct (nth_error cs i) as [c|], (nth_error ms i) as [m|]; try contradiction; simpl; (split; [reflexivity|split; [|reflexivity]]); simpl; auto.
    apply Forall2_app; auto.
  - pose proof (HN a) as Ha. pose proof (HN b) as Hb.
    destruct (nth_error cs a) as [x|], (nth_error ms a) as [mx|]; try contradiction;
    destruct (nth_error cs b) as [y|], (nth_error ms b) as [my|]; try contradiction; simpl; (split; [reflexivity|split; [|reflexivity]]); simpl; auto.
    apply Forall2_app; auto. constructor; [apply P_combine; assumption|constructor].
Qed.

Theorem refines_pool p q ops : PR p q -> run cont conc p ops = run smap spec q ops.
Proof.
  revert p q. induction ops as [|o ops IH]; intros p q H; [reflexivity|].
  cbn [run]. destruct (step_sim p q o H) as [Ho Hp].
  destruct (step cont conc p o) as [p' b1]. destruct (step smap spec q o) as [q' b2]. simpl in *. subst b2.
  f_equal. apply IH. exact Hp.
Qed.

Theorem refines : forall ops, run cont conc ([], 0) ops = run smap spec ([], 0) ops.
Proof. intros ops. apply refines_pool. split; [constructor|reflexivity]. Qed.

(* ---- corollaries, read off the reference model ---- *)
(* combine: the right operand wins, symbol by symbol, and the operands are values (unchanged) *)
Lemma spec_combine_right a b s : combine smap spec a b s = match b s with Some e => Some e | None => a s end.
Proof. reflexivity. Qed.


(* one instance per binding generation: resolving again, with nothing in between, returns the same
   instance, creates nothing and changes nothing *)
Theorem resolve_idempotent c m n s v c' n' k k' : R c m ->
  resolve cont conc (S k) (c, n) s = (Ok v, (c', n')) ->
  resolve cont conc (S k') (c', n') s = (Ok v, (c', n')).
Proof.
  intros HR Hr. cbn [resolve fst snd] in Hr.
  destruct (P_injector c m s HR) as [_ [HR1 [M1 Hb]]].
  destruct (injector cont conc c s) as [of1 c1] eqn:Einj. cbn [fst snd] in *.
  destruct of1 as [f|]; [|discriminate].
  assert (inj c1 s <> None) as B1 by (apply Hb; discriminate).
  assert (forall c2, inj c2 s <> None -> ins c2 s = Some v ->
            resolve cont conc (S k') (c2, n') s = (Ok v, (c2, n'))) as Fin.
  { intros c2 B2 I2. cbn [resolve fst snd]. simpl. unfold c_injector.
    destruct (inj c2 s) eqn:E; [|congruence]. simpl. rewrite I2. reflexivity. }
  destruct (get_inst cont conc c1 s) as [v0|] eqn:Eg.
  - injection Hr as <- <- <-. apply Fin; [exact B1|exact Eg].
  - destruct (invoke_with cont conc (resolve cont conc k) (c1, n) f []) as [ri [c2 n2]] eqn:Ei.
    destruct (invoke_with_sim _ _ (resolve_sim k) _ _ _ _ _ _ _ _ HR1 Ei) as [m2 [_ [_ M2]]].
    destruct ri as [[v1 a]| |]; try discriminate. injection Hr as <- <- <-.
    apply Fin; simpl.
    + apply M2. exact B1.
    + unfold upd. rewrite Nat.eqb_refl. reflexivity.
Qed.

(* an unknown symbol is a ValueError and leaves the container as it was *)
Theorem resolve_unknown c n s k : defs c s = None -> inj c s = None ->
  resolve cont conc (S k) (c, n) s = (VErr, (c, n)).
Proof. intros D J. cbn [resolve fst snd]. simpl. unfold c_injector. rewrite J, D. reflexivity. Qed.

(* re-binding discards the old instance and installs the new factory *)
Theorem rebind_discards c m s f c' : R c m -> c_rebind c s f = Some c' -> inj c' s = Some f /\ ins c' s = None.
Proof.
  intros [I1 [I2 H]] Hc. unfold c_rebind, c_bind, c_unbind in Hc. pose proof (I2 s) as K2.
  destruct (inj c s) eqn:Ei; simpl in Hc.
  - destruct (defs c s) eqn:Ed; simpl in Hc; unfold upd in Hc; rewrite ?Nat.eqb_refl in Hc; simpl in Hc;
      injection Hc as <-; simpl; unfold upd; rewrite Nat.eqb_refl; auto.
  - rewrite Ei in Hc. simpl in Hc. injection Hc as <-. simpl. unfold upd. rewrite Nat.eqb_refl. split; [reflexivity|].
    destruct (ins c s) eqn:En; [exfalso; apply K2; congruence|reflexivity].
Qed.

(* combining: the right operand wins symbol by symbol (operands are values: they are not changed) *)
Theorem combine_right_wins a ma b mb s : R a ma -> R b mb ->
  absf (c_combine a b) s = match absf b s with Some e => Some e | None => absf a s end.
Proof.
  intros Ha Hb. destruct (P_combine a ma b mb Ha Hb) as [_ [_ H]]. simpl in H. rewrite (H s).
  destruct Ha as [_ [_ HA]], Hb as [_ [_ HB]]. rewrite HA, HB. reflexivity.
Qed.

(* invoke fills exactly a leading block of symbol-annotated parameters and passes the rest through *)
Theorem curry_prefix C (I : impl C) rs : forall ps s0 acc cur rest s1,
  curry C I rs ps s0 acc = (Ok (cur, rest), s1) ->
  exists pre, ps = pre ++ rest /\ length cur = length acc + length pre /\ Forall (fun p => exists s, p = PSym s) pre.
Proof.
  induction ps as [|p ps IH]; intros s0 acc cur rest s1 H.
  - simpl in H. injection H as <- <- <-. exists []. simpl. repeat split; auto.
  - destruct p as [s| |]; cbn [curry] in H;
      try (injection H as <- <- <-; exists []; simpl; repeat split; auto).
    destruct (known C I (fst s0) s).
    + destruct (rs s0 s) as [[v| |] s2]; try discriminate.
      destruct (IH _ _ _ _ _ H) as [pre [E [L F]]]. exists (PSym s :: pre). simpl. subst ps. repeat split.
      * rewrite L, app_length. simpl. lia.
      * constructor; [eauto|exact F].
    + injection H as <- <- <-. exists []. simpl. repeat split; auto.
Qed.
