(* Strings as lists of characters, with the handful of Python str operations tranp uses. *)
From Coq Require Export String Ascii List Arith Bool Lia.
Export ListNotations.
Open Scope char_scope.

Definition str := list ascii.
Definition s (x : string) : str := list_ascii_of_string x.

Definition str_eqb (a b : str) : bool := if list_eq_dec Ascii.ascii_dec a b then true else false.
Lemma str_eqb_eq a b : str_eqb a b = true <-> a = b.
Proof. unfold str_eqb; destruct (list_eq_dec _ a b); split; congruence. Qed.

Fixpoint index_of (c : ascii) (l : str) : option nat :=
  match l with [] => None | x :: r => if Ascii.eqb x c then Some 0 else option_map S (index_of c r) end.
Definition mem (c : ascii) (l : str) : bool := match index_of c l with Some _ => true | None => false end.
Definition nth_c (l : str) (i : nat) : ascii := nth i l "000".

Fixpoint drop {A} (n : nat) (l : list A) : list A :=
  match n with 0 => l | S k => match l with [] => [] | _ :: r => drop k r end end.
Fixpoint starts (p t : str) : bool :=
  match p, t with [], _ => true | a :: p', b :: t' => Ascii.eqb a b && starts p' t' | _, _ => false end.

(* str.strip(' ') *)
Fixpoint strip_l (l : str) : str := match l with " " :: r => strip_l r | _ => l end.
Definition strip (l : str) : str := rev (strip_l (rev (strip_l l))).

(* str.find(sub) from the start: offset of the first occurrence *)
Fixpoint find_sub (fuel : nat) (sub t : str) : option nat :=
  if starts sub t then Some 0 else
  match fuel, t with
  | S f, _ :: r => option_map S (find_sub f sub r)
  | _, _ => None
  end.
Definition find (sub t : str) : option nat := find_sub (length t) sub t.

Fixpoint count_char (c : ascii) (l : str) : nat :=
  match l with [] => 0 | x :: r => (if Ascii.eqb x c then 1 else 0) + count_char c r end.

(* split on a single character: Python's str.split(c) *)
Fixpoint split_on (c : ascii) (l : str) (cur : str) : list str :=
  match l with
  | [] => [rev cur]
  | x :: r => if Ascii.eqb x c then rev cur :: split_on c r [] else split_on c r (x :: cur)
  end.
Definition split (c : ascii) (l : str) : list str := split_on c l [].

Fixpoint join (sep : str) (ps : list str) : str :=
  match ps with [] => [] | [p] => p | p :: r => p ++ sep ++ join sep r end.

Lemma mem_true_iff c l : mem c l = true <-> In c l.
Proof.
  unfold mem. induction l as [|x r IH]; simpl; [split; [discriminate|tauto]|].
  destruct (Ascii.eqb x c) eqn:E.
  - apply Ascii.eqb_eq in E. subst. tauto.
  - destruct (index_of c r) eqn:F; simpl.
    + split; [intros _; right; apply IH; reflexivity | reflexivity].
    + split; [discriminate|]. intros [H|H]; [subst; rewrite Ascii.eqb_refl in E; discriminate | apply IH in H; discriminate].
Qed.

Lemma mem_false_iff c l : mem c l = false <-> ~ In c l.
Proof. rewrite <- mem_true_iff. destruct (mem c l); split; congruence. Qed.

Lemma drop_app_length {A} (a b : list A) : drop (length a) (a ++ b) = b.
Proof. induction a; simpl; auto. Qed.

Lemma firstn_app_length {A} (a b : list A) : firstn (length a) (a ++ b) = a.
Proof. induction a; simpl; congruence. Qed.
