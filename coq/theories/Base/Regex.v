(* Regular expressions over ascii with Brzozowski derivatives: the fragment of Python's re used by the
   terminals of the shipped grammars (literals, classes with ranges / negation, any, alternation,
   concatenation, bounded and unbounded repetition). re.fullmatch(r, s) is [matches r s]. *)
From Tranp Require Export Base.Str.
Local Open Scope nat_scope.

Inductive re :=
| Emp                                          (* matches nothing *)
| Eps                                          (* the empty string *)
| Cls (neg : bool) (ranges : list (nat * nat)) (* one character in / not in the union of code ranges *)
| Cat (a b : re) | Alt (a b : re) | Star (a : re).

Definition in_ranges (c : ascii) (rs : list (nat * nat)) : bool :=
  let n := nat_of_ascii c in existsb (fun r => Nat.leb (fst r) n && Nat.leb n (snd r)) rs.
Definition cls_match (neg : bool) (rs : list (nat * nat)) (c : ascii) : bool := xorb neg (in_ranges c rs).

Fixpoint nullable (r : re) : bool :=
  match r with
  | Emp => false | Eps => true | Cls _ _ => false
  | Cat a b => nullable a && nullable b | Alt a b => nullable a || nullable b | Star _ => true
  end.
(* smart constructors keep derivatives small *)
Definition cat (a b : re) : re := match a, b with Emp, _ | _, Emp => Emp | Eps, _ => b | _, Eps => a | _, _ => Cat a b end.
Definition alt (a b : re) : re := match a, b with Emp, _ => b | _, Emp => a | _, _ => Alt a b end.
Fixpoint deriv (c : ascii) (r : re) : re :=
  match r with
  | Emp | Eps => Emp
  | Cls n rs => if cls_match n rs c then Eps else Emp
  | Cat a b => if nullable a then alt (cat (deriv c a) b) (deriv c b) else cat (deriv c a) b
  | Alt a b => alt (deriv c a) (deriv c b)
  | Star a => cat (deriv c a) (Star a)
  end.
Fixpoint matches (r : re) (t : str) : bool :=
  match t with [] => nullable r | c :: rest => matches (deriv c r) rest end.

Fixpoint rep (n : nat) (a : re) : re := match n with 0 => Eps | S k => Cat a (rep k a) end.
Fixpoint opt_rep (n : nat) (a : re) : re := match n with 0 => Eps | S k => Alt Eps (Cat a (opt_rep k a)) end.
(* a{min,max}; max = None is unbounded *)
Definition repeat_re (min : nat) (max : option nat) (a : re) : re :=
  Cat (rep min a) (match max with None => Star a | Some m => opt_rep (m - min) a end).
