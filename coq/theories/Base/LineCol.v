(* Line/column arithmetic over a source text: the (line, column) of a character offset
   (what str.count('\n', 0, p) and p - (str.rfind('\n', 0, p) + 1) compute) and its inverse. *)
From Tranp Require Export Base.Str.
Local Open Scope nat_scope.

Definition nl : ascii := ascii_of_nat 10.

(* (line, column) of offset p in t, both 0-based *)
Fixpoint lc (t : str) (p : nat) : nat * nat :=
  match p, t with
  | S p', x :: r => let '(l, c) := lc r p' in
                    if Ascii.eqb x nl then (S l, c) else match l with 0 => (0, S c) | _ => (l, c) end
  | _, _ => (0, 0)
  end.

(* offset of (line, column) *)
Fixpoint off (t : str) (l c : nat) : nat :=
  match l with
  | 0 => c
  | S l' => match t with
            | [] => 0
            | x :: r => S (if Ascii.eqb x nl then off r l' c else off r l c)
            end
  end.

(* text[b:e] *)
Definition sub (t : str) (b e : nat) : str := firstn (e - b) (drop b t).

(* the n-th line of the text (split on '\n') *)
Fixpoint nth_line (t : str) (n : nat) (cur : str) : str :=
  match t with
  | [] => match n with 0 => rev cur | _ => [] end
  | x :: r => if Ascii.eqb x nl then match n with 0 => rev cur | S n' => nth_line r n' [] end
              else nth_line r n (match n with 0 => x :: cur | _ => cur end)
  end.
