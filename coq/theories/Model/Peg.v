(* C11 / C12 model: tranp's own parsing engine (implements/syntax/tranp/syntax.py: right-to-left
   matching, AND groups in reverse, repeat / optional handling with empty placeholders, unwrap rules,
   keyword exclusion for regexp terminals), the rule builder (rule.py ASTSerializer / Pattern.make) and the
   rule-file renderer's escape fix-ups (bin/gram_check.py) followed by Python's reading of the literal.
   Executable definitions only. *)
From Tranp Require Export Base.Regex Model.PegTypes.
Local Open Scope nat_scope.

(* ---- rule sets ---- *)
Inductive rep := NoRep | Star0 | Plus1 | Opt | OptEmpty.     (* off * + ? [] *)
Inductive pat :=
| PEq (text : str)            (* "..." terminal compared by equality *)
| PRe (expr : str)            (* /.../ terminal compared by re.fullmatch *)
| PSym (name : str)
| PGroup (entries : list pat) (is_or : bool) (r : rep).
Definition rules := list (str * pat).      (* original symbol (with [1] / [*] suffix) -> pattern, in file order *)

Fixpoint lookup_rule (rs : rules) (k : str) : option pat :=
  match rs with [] => None | (k', p) :: r => if str_eqb k' k then Some p else lookup_rule r k end.
Inductive unwrap := UOff | UOne | UAll.
Definition suffix1 : str := ["["%char; "1"%char; "]"%char].
Definition suffixA : str := ["["%char; "*"%char; "]"%char].
(* Rules.unwrap_by *)
Definition unwrap_by (rs : rules) (sym : str) : unwrap :=
  match lookup_rule rs sym with
  | Some _ => UOff
  | None => match lookup_rule rs (sym ++ suffix1) with Some _ => UOne | None => UAll end
  end.
(* Rules.__getitem__ ; None = KeyError *)
Definition get_rule (rs : rules) (sym : str) : option pat :=
  match unwrap_by rs sym with
  | UOff => lookup_rule rs sym
  | UOne => lookup_rule rs (sym ++ suffix1)
  | UAll => lookup_rule rs (sym ++ suffixA)
  end.

Fixpoint terminals_of (p : pat) : list str :=
  match p with
  | PEq t => [t] | PRe e => [e] | PSym _ => []
  | PGroup es _ _ => (fix go (l : list pat) : list str := match l with [] => [] | x :: r => terminals_of x ++ go r end) es
  end.
(* Rules.keywords: every terminal expression (string and regexp terminals alike) *)
Definition keywords (rs : rules) : list str := flat_map (fun kp => terminals_of (snd kp)) rs.
Definition mem_str (x : str) (l : list str) : bool := existsb (str_eqb x) l.

(* ---- the engine ---- *)
Inductive mres (A : Type) := MOk (a : A) | MNg | MFuel | MKey.
Arguments MOk {A} a. Arguments MNg {A}. Arguments MFuel {A}. Arguments MKey {A}.
Definition empty_tok : ttree := TTok (s "__empty__") [].

Section Engine.
Variable rs : rules.
Variable regex_of : str -> option re.     (* translated regexp terminals; None = not translated *)
Variable kws : list str.

(* _match_terminal + _compare_token at cursor cur (counted from the END of the token list) *)
Definition m_terminal (toks : list str) (cur : nat) (p : pat) : option str :=
  if Nat.leb (length toks) cur then None else
  let tk := nth (length toks - 1 - cur) toks [] in
  match p with
  | PEq t => if str_eqb t tk then Some tk else None
  | PRe e => if mem_str tk kws then None
             else match regex_of e with Some r => if matches r tk then Some tk else None | None => None end
  | _ => None
  end.

Definition tname (t : ttree) : str := match t with TTok n _ => n | TTree n _ => n end.
(* _unwrap_children *)
Definition unwrap_children (kids : list ttree) : list ttree :=
  flat_map (fun c => match c with
                     | TTok _ _ => [c]
                     | TTree n ks => match unwrap_by rs n with
                                     | UOne => match ks with [k] => [k] | _ => [c] end
                                     | UAll => ks
                                     | UOff => [c]
                                     end
                     end) kids.

Definition is_term (p : pat) : bool := match p with PEq _ | PRe _ => true | _ => false end.

Fixpoint m_symbol (fuel : nat) (toks : list str) (cur : nat) (sym : str) {struct fuel} : mres (nat * ttree) :=
  match fuel with
  | 0 => MFuel
  | S f =>
      match get_rule rs sym with
      | None => MKey
      | Some p =>
          if is_term p then
            match m_terminal toks cur p with Some tk => MOk (1, TTok sym tk) | None => MNg end
          else
            match m_entry f toks cur p true with
            | MOk (n, kids) => MOk (n, TTree sym (unwrap_children kids))
            | MNg => MNg | MFuel => MFuel | MKey => MKey
            end
      end
  end
with m_entry (fuel : nat) (toks : list str) (cur : nat) (p : pat) (allow_repeat : bool) {struct fuel} : mres (nat * list ttree) :=
  match fuel with
  | 0 => MFuel
  | S f =>
      match p with
      | PGroup es is_or r =>
          match r, allow_repeat with
          | NoRep, _ | _, false => if is_or then m_or f toks cur es else m_and f toks cur (rev es) 0 []
          | _, true => m_repeat f toks cur p r false 0 []
          end
      | PSym name =>
          match m_symbol f toks cur name with
          | MOk (n, e) => MOk (n, [e]) | MNg => MNg | MFuel => MFuel | MKey => MKey
          end
      | _ => match m_terminal toks cur p with Some _ => MOk (1, []) | None => MNg end
      end
  end
with m_or (fuel : nat) (toks : list str) (cur : nat) (es : list pat) {struct fuel} : mres (nat * list ttree) :=
  match fuel with
  | 0 => MFuel
  | S f =>
      match es with
      | [] => MNg
      | p :: r => match m_entry f toks cur p true with
                  | MOk x => MOk x
                  | MNg => m_or f toks cur r
                  | MFuel => MFuel | MKey => MKey
                  end
      end
  end
with m_and (fuel : nat) (toks : list str) (cur : nat) (res : list pat) (steps : nat) (kids : list ttree) {struct fuel} : mres (nat * list ttree) :=
  match fuel with
  | 0 => MFuel
  | S f =>
      match res with
      | [] => MOk (steps, kids)
      | p :: r => match m_entry f toks (cur + steps) p true with
                  | MOk (n, ks) => m_and f toks cur r (steps + n) (ks ++ kids)
                  | MNg => MNg | MFuel => MFuel | MKey => MKey
                  end
      end
  end
with m_repeat (fuel : nat) (toks : list str) (cur : nat) (p : pat) (r : rep) (found : bool) (steps : nat) (kids : list ttree) {struct fuel} : mres (nat * list ttree) :=
  match fuel with
  | 0 => MFuel
  | S f =>
      let finish := if found then MOk (steps, kids)
                    else match r with
                         | Star0 | Opt => MOk (0, [])
                         | OptEmpty => MOk (0, [empty_tok])
                         | _ => MNg
                         end in
      if Nat.ltb (cur + steps) (length toks) then
        match m_entry f toks (cur + steps) p false with
        | MOk (n, ks) =>
            match r with
            | Opt | OptEmpty => MOk (steps + n, ks ++ kids)
            | _ => m_repeat f toks cur p r true (steps + n) (ks ++ kids)
            end
        | MNg => finish
        | MFuel => MFuel | MKey => MKey
        end
      else finish
  end.

Inductive pres := POk (t : ttree) | PSyntax | PFuel | PKey.
(* SyntaxParser.parse on a token list: everything must be consumed *)
Definition parse_tokens (toks : list str) (entry : str) : pres :=
  match m_symbol (200 * (length toks + 2)) toks 0 entry with
  | MOk (n, t) => if Nat.eqb n (length toks) then POk t else PSyntax
  | MNg => PSyntax
  | MFuel => PFuel
  | MKey => PKey
  end.
End Engine.

(* ---- building a rule set from a tuple tree (ASTSerializer.restore, Pattern.make) ---- *)
Definition is_word (c : ascii) : bool := in_ranges c [(48, 57); (65, 90); (95, 95); (97, 122)].
Definition space_code (c : ascii) : option ascii :=
  if Ascii.eqb c "t" then Some (ascii_of_nat 9) else if Ascii.eqb c "f" then Some (ascii_of_nat 12)
  else if Ascii.eqb c "r" then Some (ascii_of_nat 13) else if Ascii.eqb c "n" then Some (ascii_of_nat 10) else None.
Definition lastc (t : str) : ascii := last t "000"%char.
Definition make_pattern (e : str) : option pat :=
  match e with
  | """"%char :: _ :: _ =>
      if Ascii.eqb (lastc e) """" then
        let cand := removelast (tl e) in
        match cand with
        | ["\"%char; c] => match space_code c with Some x => Some (PEq [x]) | None => Some (PEq cand) end
        | _ => Some (PEq cand)
        end
      else None
  | "/"%char :: _ :: _ => if Ascii.eqb (lastc e) "/" then Some (PRe (removelast (tl e))) else None
  | c :: _ => if forallb is_word e then Some (PSym e) else None
  | [] => None
  end.

Fixpoint all_some {A} (l : list (option A)) : option (list A) :=
  match l with [] => Some [] | Some x :: r => option_map (cons x) (all_some r) | None :: _ => None end.

Fixpoint for_expr (t : ttree) : option pat :=
  match t with
  | TTok n v =>
      if str_eqb n (s "symbol") || str_eqb n (s "string") || str_eqb n (s "regexp") then make_pattern v else None
  | TTree n ks =>
      let sub := (fix go (l : list ttree) : list (option pat) := match l with [] => [] | x :: r => for_expr x :: go r end) in
      if str_eqb n (s "terms") then option_map (fun es => PGroup es false NoRep) (all_some (sub ks))
      else if str_eqb n (s "terms_or") then option_map (fun es => PGroup es true NoRep) (all_some (sub ks))
      else if str_eqb n (s "expr_opt") then option_map (fun es => PGroup es false OptEmpty) (all_some (sub ks))
      else if str_eqb n (s "expr_rep") then
        match last ks (TTree [] []) with
        | TTok rn rv =>
            let r := if str_eqb rn (s "repeat") then
                       (if str_eqb rv ["*"%char] then Some Star0 else if str_eqb rv ["+"%char] then Some Plus1
                        else if str_eqb rv ["?"%char] then Some Opt else None)
                     else Some NoRep in
            match r with
            | Some r' => option_map (fun es => PGroup es false r') (all_some (removelast (sub ks)))
            | None => None
            end
        | _ => None
        end
      else None
  end.

Definition for_rule (t : ttree) : option (str * pat) :=
  match t with
  | TTree n [TTok sn sv; TTok un uv; e] =>
      if str_eqb n (s "rule") && str_eqb sn (s "symbol") then
        let name := if str_eqb un (s "unwrap") then sv ++ "["%char :: uv ++ ["]"%char] else sv in
        option_map (fun p => (name, p)) (for_expr e)
      else None
  | _ => None
  end.
(* Rules.from_ast ; None = an assertion fails *)
Definition from_ast (t : ttree) : option rules :=
  match t with
  | TTree n ks => if str_eqb n (s "entry") then all_some (map for_rule ks) else None
  | _ => None
  end.

(* ---- the rule file: escape fix-ups of render_rules, then Python reading the '...' literal ---- *)
(* rendered.split('\\') joined by '\\\\' : every backslash doubled *)
Fixpoint fix1 (t : str) : str := match t with [] => [] | c :: r => if Ascii.eqb c "\"%char then "\"%char :: "\"%char :: fix1 r else c :: fix1 r end.
(* split("\\\\'") joined by "\\'" : left to right, non overlapping *)
Fixpoint fix2 (t : str) : str :=
  match t with
  | "\"%char :: "\"%char :: "'"%char :: r => "\"%char :: "'"%char :: fix2 r
  | c :: r => c :: fix2 r
  | [] => []
  end.
(* Python reading the body of a single-quoted literal that only holds \\ and \' escapes *)
Fixpoint py_unescape (t : str) : str :=
  match t with
  | "\"%char :: "\"%char :: r => "\"%char :: py_unescape r
  | "\"%char :: "'"%char :: r => "'"%char :: py_unescape r
  | c :: r => c :: py_unescape r
  | [] => []
  end.
Definition through_file (v : str) : str := py_unescape (fix2 (fix1 v)).
Fixpoint compile_tree (t : ttree) : ttree :=
  match t with
  | TTok n v => TTok (through_file n) (through_file v)
  | TTree n ks => TTree (through_file n) ((fix go (l : list ttree) : list ttree := match l with [] => [] | x :: r => compile_tree x :: go r end) ks)
  end.

(* equalities for the correspondence and the closed obligations *)
Fixpoint ttree_eqb (a b : ttree) : bool :=
  match a, b with
  | TTok n v, TTok n' v' => str_eqb n n' && str_eqb v v'
  | TTree n ks, TTree n' ks' => str_eqb n n' && (fix go (x y : list ttree) : bool := match x, y with [], [] => true | u :: x', v :: y' => ttree_eqb u v && go x' y' | _, _ => false end) ks ks'
  | _, _ => false
  end.
Definition rep_eqb (a b : rep) : bool := match a, b with NoRep, NoRep | Star0, Star0 | Plus1, Plus1 | Opt, Opt | OptEmpty, OptEmpty => true | _, _ => false end.
Fixpoint pat_eqb (a b : pat) : bool :=
  match a, b with
  | PEq x, PEq y | PRe x, PRe y | PSym x, PSym y => str_eqb x y
  | PGroup es o r, PGroup es' o' r' => Bool.eqb o o' && rep_eqb r r' && (fix go (x y : list pat) : bool := match x, y with [], [] => true | u :: x', v :: y' => pat_eqb u v && go x' y' | _, _ => false end) es es'
  | _, _ => false
  end.
Fixpoint rules_eqb (a b : rules) : bool :=
  match a, b with [], [] => true | (k, p) :: a', (k', p') :: b' => str_eqb k k' && pat_eqb p p' && rules_eqb a' b' | _, _ => false end.
