(* C14 model: semantics/reflection/serializer.py (attrs flattened by lang/sequence.py expand, rebuilt
   shallow-to-deep by _deserialize_attrs), reflection/db.py (_order_keys). Executable definitions only. *)
From Coq Require Import List Arith Bool.
Import ListNotations.

(* attrs of a symbol: a forest labelled with type keys *)
Inductive tree := Nd (key : nat) (kids : list tree).
Definition forest := list tree.
Definition tkey (t : tree) : nat := match t with Nd k _ => k end.
Definition tkids (t : tree) : forest := match t with Nd _ cs => cs end.

Definition item := (list nat * nat)%type.          (* index path "0.2.1" , type key *)
Definition push (i : nat) (it : item) : item := (i :: fst it, snd it).

(* seqs.expand(symbol.attrs, iter_key='attrs'): document-order listing {index path: attr} *)
Fixpoint fl_tree (t : tree) : list item :=
  match t with
  | Nd k cs => ([], k) :: (fix go (i : nat) (l : forest) : list item :=
                             match l with [] => [] | c :: r => map (push i) (fl_tree c) ++ go (S i) r end) 0 cs
  end.
Fixpoint flatten_from (i : nat) (f : forest) : list item :=
  match f with
  | [] => []
  | c :: r => map (push i) (fl_tree c) ++ flatten_from (S i) r
  end.
Definition flatten (f : forest) : list item := flatten_from 0 f.

(* sorted(paths, key=depth): Python's sort is stable, so this is the listing level by level, each
   level in document order *)
Definition depth_of (it : item) : nat := length (fst it).
Fixpoint max_depth (l : list item) : nat := match l with [] => 0 | it :: r => Nat.max (depth_of it) (max_depth r) end.
Definition by_depth (l : list item) : list item :=
  flat_map (fun d => filter (fun it => Nat.eqb (depth_of it) d) l) (seq 1 (max_depth l)).

Fixpoint upd_nth (i : nat) (g : tree -> tree) (f : forest) : forest :=
  match f, i with
  | [], _ => []
  | t :: r, 0 => g t :: r
  | t :: r, S k => t :: upd_nth k g r
  end.

(* one attr placed at its index path: level 1 is appended to the list, deeper ones are appended to the
   attrs of the node reached through the leading indices (attr.extends); the last index is not used *)
Fixpoint ins (f : forest) (p : list nat) (k : nat) : forest :=
  match p with
  | [] => f
  | [_] => f ++ [Nd k []]
  | i :: rest => upd_nth i (fun t => Nd (tkey t) (ins (tkids t) rest k)) f
  end.
Definition ins_all (f : forest) (l : list item) : forest := fold_left (fun g it => ins g (fst it) (snd it)) l f.

(* _deserialize_attrs *)
Definition rebuild (l : list item) : forest := ins_all [] (by_depth l).

(* ---- export order (_order_keys / _order_keys_recursive) ----
   A symbol is a node XNd k cs ds: k the key of its type, cs its attrs, ds the attrs of the table's entry for k (the
   declaration of the type) - the lookup `self.__items.get(fullyname)` unfolded in advance, [] when the table has no such
   entry (or the entry has no attrs: the two cases give the same list). a table row: key, module of the key, type key of the symbol, module of that type, attrs, declaration attrs of the
   type; modules are numbers *)
Inductive xtree := XNd (key : nat) (kids : list xtree) (decl : list xtree).
Definition xforest := list xtree.
Record row := { rkey : nat; rmod : nat; rtype : nat; rtmod : nat; rattrs : xforest; rdecl : xforest }.
(* module of a type key, as recorded with the attr symbols: given by a function *)
Section Order.
  Variable tmod : nat -> nat.
  Fixpoint mem_nat (x : nat) (l : list nat) : bool := match l with [] => false | y :: r => Nat.eqb x y || mem_nat x r end.
  (* post-order over the attrs; a type key of the exported module is appended once, after the keys of its declaration's attrs.
     While those are visited the key already sits in `orders` (appended, later moved to the end): `blocked` holds the keys in
     that state - they count as listed, nothing else depends on where they sit *)
  Fixpoint order_x (m : nat) (t : xtree) (blocked orders : list nat) {struct t} : list nat :=
    match t with
    | XNd k cs ds =>
        let o1 := (fix go (l : xforest) (o : list nat) : list nat :=
                     match l with [] => o | c :: r => go r (order_x m c blocked o) end) cs orders in
        if Nat.eqb m (tmod k) && negb (mem_nat k o1) && negb (mem_nat k blocked) then
          (fix go (l : xforest) (o : list nat) : list nat :=
             match l with [] => o | c :: r => go r (order_x m c (k :: blocked) o) end) ds o1 ++ [k]
        else o1
    end.
  Definition order_forest (m : nat) (blocked : list nat) (f : xforest) (orders : list nat) : list nat :=
    fold_left (fun o c => order_x m c blocked o) f orders.
  (* _order_keys_recursive on the symbol of a table row: its attrs, then its own type *)
  Definition order_row_pre (m : nat) (r : row) (orders : list nat) : list nat :=
    let o1 := order_forest m [] (rattrs r) orders in
    if Nat.eqb m (rtmod r) && negb (mem_nat (rtype r) o1)
    then order_forest m [rtype r] (rdecl r) o1 ++ [rtype r]
    else o1.
  Definition order_row (m : nat) (r : row) (orders : list nat) : list nat :=
    let o2 := order_row_pre m r orders in
    if mem_nat (rkey r) o2 then o2 else o2 ++ [rkey r].
  Definition order_keys (m : nat) (rows : list row) : list nat :=
    fold_left (fun o r => if Nat.eqb (rmod r) m then order_row m r o else o) rows [].
End Order.

Fixpoint tree_eqb (a b : tree) : bool :=
  match a, b with
  | Nd k cs, Nd k' cs' =>
      Nat.eqb k k' && (fix go (x y : forest) : bool :=
                         match x, y with [], [] => true | u :: x', v :: y' => tree_eqb u v && go x' y' | _, _ => false end) cs cs'
  end.
Fixpoint forest_eqb (a b : forest) : bool :=
  match a, b with [], [] => true | u :: x, v :: y => tree_eqb u v && forest_eqb x y | _, _ => false end.
