(* C14 model: semantics/reflection/serializer.py (attrs flattened by lang/sequence.py expand, rebuilt
   shallow-to-deep by _deserialize_attrs), reflection/db.py (_order_keys). Executable definitions only. *)
From Coq Require Import List Arith Bool.
Import ListNotations.

(* attrs of a symbol: a forest labelled with type keys *)
Inductive tree := Nd (key : nat) (kids : list tree).
Definition forest := list tree.
Definition tkey (t : tree) : nat := match t with Nd k _ => k end.
Definition tkids (t : tree) : forest := match t with Nd _ cs => cs end.

Definition item := (list nat * nat)%type.          (* index path "0.2.1" , type key *)
Definition push (i : nat) (it : item) : item := (i :: fst it, snd it).

(* seqs.expand(symbol.attrs, iter_key='attrs'): document-order listing {index path: attr} *)
Fixpoint fl_tree (t : tree) : list item :=
  match t with
  | Nd k cs => ([], k) :: (fix go (i : nat) (l : forest) : list item :=
                             match l with [] => [] | c :: r => map (push i) (fl_tree c) ++ go (S i) r end) 0 cs
  end.
Fixpoint flatten_from (i : nat) (f : forest) : list item :=
  match f with
  | [] => []
  | c :: r => map (push i) (fl_tree c) ++ flatten_from (S i) r
  end.
Definition flatten (f : forest) : list item := flatten_from 0 f.

(* sorted(paths, key=depth): Python's sort is stable, so this is the listing level by level, each
   level in document order *)
Definition depth_of (it : item) : nat := length (fst it).
Fixpoint max_depth (l : list item) : nat := match l with [] => 0 | it :: r => Nat.max (depth_of it) (max_depth r) end.
Definition by_depth (l : list item) : list item :=
  flat_map (fun d => filter (fun it => Nat.eqb (depth_of it) d) l) (seq 1 (max_depth l)).

Fixpoint upd_nth (i : nat) (g : tree -> tree) (f : forest) : forest :=
  match f, i with
  | [], _ => []
  | t :: r, 0 => g t :: r
  | t :: r, S k => t :: upd_nth k g r
  end.

(* one attr placed at its index path: level 1 is appended to the list, deeper ones are appended to the
   attrs of the node reached through the leading indices (attr.extends); the last index is not used *)
Fixpoint ins (f : forest) (p : list nat) (k : nat) : forest :=
  match p with
  | [] => f
  | [_] => f ++ [Nd k []]
  | i :: rest => upd_nth i (fun t => Nd (tkey t) (ins (tkids t) rest k)) f
  end.
Definition ins_all (f : forest) (l : list item) : forest := fold_left (fun g it => ins g (fst it) (snd it)) l f.

(* _deserialize_attrs *)
Definition rebuild (l : list item) : forest := ins_all [] (by_depth l).

(* ---- export order (_order_keys / _order_keys_recursive) ----
   a table row: key, module of the key, type key of the symbol, module of that type, attrs as a forest
   of (type key); modules are numbers *)
Record row := { rkey : nat; rmod : nat; rtype : nat; rtmod : nat; rattrs : forest }.
(* module of a type key, as recorded with the attr symbols: given by a function *)
Section Order.
  Variable tmod : nat -> nat.
  Fixpoint mem_nat (x : nat) (l : list nat) : bool := match l with [] => false | y :: r => Nat.eqb x y || mem_nat x r end.
  (* post-order over the attrs; a type key of the exported module is appended once *)
  Fixpoint order_attr (m : nat) (t : tree) (orders : list nat) : list nat :=
    match t with
    | Nd k cs =>
        let o1 := (fix go (l : forest) (o : list nat) : list nat :=
                     match l with [] => o | c :: r => go r (order_attr m c o) end) cs orders in
        if Nat.eqb m (tmod k) && negb (mem_nat k o1) then o1 ++ [k] else o1
    end.
  Definition order_row (m : nat) (r : row) (orders : list nat) : list nat :=
    let o1 := fold_left (fun o c => order_attr m c o) (rattrs r) orders in
    let o2 := if Nat.eqb m (rtmod r) && negb (mem_nat (rtype r) o1) then o1 ++ [rtype r] else o1 in
    if mem_nat (rkey r) o2 then o2 else o2 ++ [rkey r].
  Definition order_keys (m : nat) (rows : list row) : list nat :=
    fold_left (fun o r => if Nat.eqb (rmod r) m then order_row m r o else o) rows [].
End Order.

Fixpoint tree_eqb (a b : tree) : bool :=
  match a, b with
  | Nd k cs, Nd k' cs' =>
      Nat.eqb k k' && (fix go (x y : forest) : bool :=
                         match x, y with [], [] => true | u :: x', v :: y' => tree_eqb u v && go x' y' | _, _ => false end) cs cs'
  end.
Fixpoint forest_eqb (a b : forest) : bool :=
  match a, b with [], [] => true | u :: x, v :: y => tree_eqb u v && forest_eqb x y | _, _ => false end.
