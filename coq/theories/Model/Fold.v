(* C17 model: implements/transpiler/evaluator.py (LiteralEvaluator after the fix: commits): the pairwise
   left fold with its promotion rules, unary sign, casts, string literals kept as quoted text; and the
   Python semantics of the same expressions as specification. Executable definitions only. *)
From Tranp Require Export Base.Str.
From Tranp Require Import Model.Finder.   (* nat_str / parse_nat: decimal numerals *)
From Coq Require Export ZArith.
From Coq Require Import PrimFloat Uint63.
Local Open Scope Z_scope.

(* values of the evaluator: int, float, or the *literal text* of a string (with its quotes) *)
Inductive value := VInt (z : Z) | VFloat (f : float) | VStr (text : str).
(* Python values *)
Inductive pvalue := PInt (z : Z) | PFloat (f : float) | PStr (s : str).

Inductive bop := Add | Sub | Div | Mul | Mod | BOr | BXor | BAnd | Shl | Shr.
Inductive castk := CInt | CFloat | CStr.
Inductive expr :=
| ELit (v : value)
| EChain (first : expr) (rest : list (bop * expr))     (* one precedence level: a op b op c, folded left *)
| EFactor (neg : bool) (e : expr)                      (* -e / +e *)
| EGroup (e : expr)
| ECast (c : castk) (args : list expr).

Inductive outcome := Val (v : value) | Refuse | Unmodelled.   (* Refuse = an application error is raised *)
Inductive presult := PVal (v : pvalue) | PRaise | PUnspec.     (* PUnspec = outside the specified fragment *)

(* ---- numbers ---- *)
Definition two53 : Z := 9007199254740992.
Definition exact (z : Z) : bool := (Z.abs z <=? two53).
(* int -> float, only where it is exact *)
Definition Z2F (z : Z) : option float :=
  if exact z then Some (if z <? 0 then PrimFloat.opp (PrimFloat.of_uint63 (Uint63.of_Z (- z))) else PrimFloat.of_uint63 (Uint63.of_Z z))
  else None.
Definition is_zero (f : float) : bool := PrimFloat.eqb f PrimFloat.zero.

Definition is_arith (o : bop) : bool := match o with Add | Sub | Div | Mul | Mod => true | _ => false end.

(* float (op) float, as Python computes it; None = ZeroDivisionError / TypeError; Unmodelled for % *)
Definition calc_f (a : float) (o : bop) (b : float) : outcome :=
  match o with
  | Add => Val (VFloat (PrimFloat.add a b))
  | Sub => Val (VFloat (PrimFloat.sub a b))
  | Mul => Val (VFloat (PrimFloat.mul a b))
  | Div => if is_zero b then Refuse else Val (VFloat (PrimFloat.div a b))
  | Mod => if is_zero b then Refuse else Unmodelled
  | _ => Refuse
  end.
Definition int_div (a b : Z) : outcome :=
  if b =? 0 then Refuse else
  match Z2F a, Z2F b with Some x, Some y => Val (VFloat (PrimFloat.div x y)) | _, _ => Unmodelled end.
Definition calc_z (a : Z) (o : bop) (b : Z) : outcome :=
  match o with
  | Add => Val (VInt (a + b))
  | Sub => Val (VInt (a - b))
  | Mul => Val (VInt (a * b))
  | Div => int_div a b
  | Mod => if b =? 0 then Refuse else Val (VInt (a mod b))
  | BOr => Val (VInt (Z.lor a b))
  | BXor => Val (VInt (Z.lxor a b))
  | BAnd => Val (VInt (Z.land a b))
  | Shl => if b <? 0 then Refuse else Val (VInt (Z.shiftl a b))
  | Shr => if b <? 0 then Refuse else Val (VInt (Z.shiftr a b))
  end.

(* ---- string literals ---- *)
Definition is_q (c : ascii) : bool := Ascii.eqb c """" || Ascii.eqb c "'".
Definition body (t : str) : str := removelast (tl t).          (* text[1:-1] *)
Definition head (t : str) : ascii := hd "000"%char t.
Definition lastc (t : str) : ascii := last t "000"%char.
Definition triple (t : str) : bool :=
  (6 <=? Z.of_nat (length t)) && match t with a :: b :: c :: _ => Ascii.eqb a b && Ascii.eqb a c | _ => false end.
(* _allow_string *)
Definition allow (t : str) : bool :=
  negb (triple t) && (2 <=? Z.of_nat (length t)) && is_q (head t) && Ascii.eqb (lastc t) (head t).
(* _cat, with its assertion *)
Definition cat (l r : str) : outcome :=
  if Ascii.eqb (head r) (head l) || negb (mem (head l) (body r))
  then Val (VStr (head l :: body l ++ body r ++ [head l])) else Refuse.

(* ---- the pairwise step of _op_bin_each ---- *)
Definition fold_bin (l : value) (o : bop) (r : value) : outcome :=
  match l, r with
  | VInt a, VInt b => calc_z a o b
  | VInt a, VFloat y => match Z2F a with Some x => calc_f x o y | None => Unmodelled end
  | VFloat x, VInt b => match Z2F b with Some y => calc_f x o y | None => Unmodelled end
  | VFloat x, VFloat y => calc_f x o y
  | VStr a, VStr b => match o with Add => if allow a && allow b then cat a b else Refuse | _ => Refuse end
  | _, _ => Refuse
  end.

(* decimal numerals *)
Definition z_str (z : Z) : str := if z <? 0 then "-"%char :: nat_str (Z.to_nat (- z)) else nat_str (Z.to_nat z).
(* numerals are handled through nat: keep them short (longer ones are outside the modelled fragment) *)
Definition small_z (z : Z) : bool := Z.abs z <? 100000.
Definition parse_z (t : str) : option Z :=
  if Nat.ltb 6 (length t) then None else
  match t with
  | "-"%char :: (_ :: _) as d => option_map (fun n => - Z.of_nat n) (parse_nat (tl t) 0)
  | "+"%char :: (_ :: _) as d => option_map Z.of_nat (parse_nat (tl t) 0)
  | _ :: _ => option_map Z.of_nat (parse_nat t 0)
  | [] => None
  end.

(* on_func_call *)
Definition fold_cast (c : castk) (v : value) : outcome :=
  match c, v with
  | CInt, VInt z => Val (VInt z)
  | CInt, VStr t => match parse_z (body t) with Some z => Val (VInt z) | None => Unmodelled end
  | CInt, VFloat _ => Unmodelled
  | CFloat, VInt z => match Z2F z with Some f => Val (VFloat f) | None => Unmodelled end
  | CFloat, VFloat f => Val (VFloat f)
  | CFloat, VStr _ => Unmodelled
  | CStr, VStr t => Val (VStr t)
  | CStr, VInt z => if small_z z then Val (VStr (""""%char :: z_str z ++ [""""%char])) else Unmodelled
  | CStr, VFloat _ => Unmodelled
  end.
(* on_factor *)
Definition fold_factor (neg : bool) (v : value) : outcome :=
  match v with
  | VInt z => Val (VInt (if neg then - z else z))
  | VFloat f => Val (VFloat (if neg then PrimFloat.opp f else f))
  | VStr _ => Refuse
  end.

Fixpoint fold (e : expr) : outcome :=
  match e with
  | ELit v => Val v
  | EChain f rest =>
      match fold f with
      | Val a => (fix go (acc : value) (l : list (bop * expr)) : outcome :=
                    match l with
                    | [] => Val acc
                    | (o, x) :: r =>
                        match fold x with
                        | Val b => match fold_bin acc o b with Val c => go c r | other => other end
                        | other => other
                        end
                    end) a rest
      | other => other
      end
  | EFactor neg x => match fold x with Val v => fold_factor neg v | other => other end
  | EGroup x => fold x
  | ECast c [x] => match fold x with Val v => fold_cast c v | other => other end
  | ECast _ _ => Refuse
  end.

(* ---- Python ---- *)
Definition simple_char (c : ascii) : bool := negb (is_q c) && negb (Ascii.eqb c "\"%char).
(* value of a string literal: only plain '...' / "..." without quotes or backslashes inside is specified *)
Definition decode_str (t : str) : presult :=
  match t with
  | q :: r => if is_q q && negb (match r with [] => true | _ => false end) && Ascii.eqb (lastc t) q && forallb simple_char (removelast r)
              then PVal (PStr (removelast r)) else PUnspec
  | [] => PUnspec
  end.
Definition decode (v : value) : presult :=
  match v with VInt z => PVal (PInt z) | VFloat f => PVal (PFloat f) | VStr t => decode_str t end.

Definition lift (o : outcome) : presult :=
  match o with Val v => decode v | Refuse => PRaise | Unmodelled => PUnspec end.

Definition py_bin (l : pvalue) (o : bop) (r : pvalue) : presult :=
  match l, r with
  | PInt a, PInt b => lift (calc_z a o b)
  | PInt a, PFloat y => match Z2F a with Some x => lift (calc_f x o y) | None => PUnspec end
  | PFloat x, PInt b => match Z2F b with Some y => lift (calc_f x o y) | None => PUnspec end
  | PFloat x, PFloat y => lift (calc_f x o y)
  | PStr a, PStr b => match o with Add => PVal (PStr (a ++ b)) | Mod => PUnspec | _ => PRaise end
  | PStr _, PInt _ | PInt _, PStr _ => match o with Mul | Mod => PUnspec | _ => PRaise end
  | _, _ => match o with Mod => PUnspec | _ => PRaise end
  end.
Definition py_cast (c : castk) (v : pvalue) : presult :=
  match c, v with
  | CInt, PInt z => PVal (PInt z)
  | CInt, PStr s => match parse_z s with Some z => PVal (PInt z) | None => PUnspec end
  | CInt, PFloat _ => PUnspec
  | CFloat, PInt z => match Z2F z with Some f => PVal (PFloat f) | None => PUnspec end
  | CFloat, PFloat f => PVal (PFloat f)
  | CFloat, PStr _ => PUnspec
  | CStr, PStr s => PVal (PStr s)
  | CStr, PInt z => if small_z z then PVal (PStr (z_str z)) else PUnspec
  | CStr, PFloat _ => PUnspec
  end.
Definition py_factor (neg : bool) (v : pvalue) : presult :=
  match v with
  | PInt z => PVal (PInt (if neg then - z else z))
  | PFloat f => PVal (PFloat (if neg then PrimFloat.opp f else f))
  | PStr _ => PRaise
  end.

Fixpoint py_eval (e : expr) : presult :=
  match e with
  | ELit v => decode v
  | EChain f rest =>
      match py_eval f with
      | PVal a => (fix go (acc : pvalue) (l : list (bop * expr)) : presult :=
                     match l with
                     | [] => PVal acc
                     | (o, x) :: r =>
                         match py_eval x with
                         | PVal b => match py_bin acc o b with PVal c => go c r | other => other end
                         | other => other
                         end
                     end) a rest
      | other => other
      end
  | EFactor neg x => match py_eval x with PVal v => py_factor neg v | other => other end
  | EGroup x => py_eval x
  | ECast c [x] => match py_eval x with PVal v => py_cast c v | other => other end
  | ECast _ _ => PUnspec
  end.

(* operator spellings, to tie the operator type to the tables generated from evaluator.py *)
Definition bop_text (o : bop) : str :=
  match o with
  | Add => ["+"%char] | Sub => ["-"%char] | Div => ["/"%char] | Mul => ["*"%char] | Mod => ["%"%char]
  | BOr => ["|"%char] | BXor => ["^"%char] | BAnd => ["&"%char] | Shl => ["<"%char; "<"%char] | Shr => [">"%char; ">"%char]
  end.
Definition all_bops : list bop := [Add; Sub; Div; Mul; Mod; BOr; BXor; BAnd; Shl; Shr].
Definition strs_eqb (a b : list str) : bool := if list_eq_dec (list_eq_dec Ascii.ascii_dec) a b then true else false.
