(* Operator-precedence ladder: the shape of the expression part of data/grammar.lark
   (?or_test: and_test (_or_op and_test)* ... ?factor: _unary_op factor | primary) as a parser that is
   parametric in the ladder: K levels, each either a left-associative chain of binary operators or a
   prefix-operator level. The concrete ladder is generated from the grammar file (gen/GenLadder.v). *)
From Coq Require Import List Arith Bool.
Import ListNotations.

Section L.
Variable op : Type.
Variable K : nat.
Variable lvl : op -> nat.      (* level at which o is a binary operator; >= K: not a binary operator *)
Variable plvl : op -> nat.     (* level at which o is a prefix operator; >= K: not a prefix operator *)
Variable isbin : nat -> bool.  (* true: level of binary chains; false: prefix level *)

Inductive tok := TId (n : nat) | TOp (o : op) | TL | TR.
Inductive expr := Atom (n : nat) | Bin (o : op) (a b : expr) | Un (o : op) (e : expr) | Par (e : expr).

Fixpoint toks (e : expr) : list tok :=
  match e with
  | Atom n => [TId n]
  | Bin o a b => toks a ++ TOp o :: toks b
  | Un o e => TOp o :: toks e
  | Par e => TL :: toks e ++ [TR]
  end.

Fixpoint parse (fuel : nat) (k : nat) (ts : list tok) {struct fuel} : option (expr * list tok) :=
  match fuel with
  | 0 => None
  | S f =>
    if K <=? k then
      match ts with
      | TId n :: r => Some (Atom n, r)
      | TL :: r => match parse f 0 r with
                   | Some (e, TR :: r') => Some (Par e, r')
                   | _ => None
                   end
      | _ => None
      end
    else if isbin k then
      match parse f (S k) ts with
      | Some (e, r) => loop f k e r
      | None => None
      end
    else
      match ts with
      | TOp o :: r =>
          if plvl o =? k then
            match parse f k r with
            | Some (e, r') => Some (Un o e, r')
            | None => None
            end
          else parse f (S k) ts
      | _ => parse f (S k) ts
      end
  end
with loop (fuel : nat) (k : nat) (e : expr) (ts : list tok) {struct fuel} : option (expr * list tok) :=
  match fuel with
  | 0 => None
  | S f =>
    match ts with
    | TOp o :: r =>
        if lvl o =? k then
          match parse f (S k) r with
          | Some (e2, r2) => loop f k (Bin o e e2) r2
          | None => None
          end
        else Some (e, ts)
    | _ => Some (e, ts)
    end
  end.

Definition level (e : expr) : nat := match e with Bin o _ _ => lvl o | Un o _ => plvl o | _ => K end.

(* e may stand where an operand of level >= k is required, without further parentheses *)
Fixpoint wf (k : nat) (e : expr) : Prop :=
  k <= level e /\
  match e with
  | Atom _ => True
  | Bin o a b => lvl o < K /\ wf (lvl o) a /\ wf (S (lvl o)) b
  | Un o e => plvl o < K /\ wf (plvl o) e
  | Par e => wf 0 e
  end.

(* the Python-shape tree: parentheses are not part of it *)
Fixpoint strip (e : expr) : expr :=
  match e with
  | Atom n => Atom n
  | Bin o a b => Bin o (strip a) (strip b)
  | Un o e => Un o (strip e)
  | Par e => strip e
  end.

(* printing with the parentheses the ladder requires, from a parenthesis-free tree *)
Definition par_if (b : bool) (e : expr) : expr := if b then Par e else e.
Fixpoint paren (e : expr) : expr :=
  match e with
  | Atom n => Atom n
  | Bin o a b => let a' := paren a in let b' := paren b in
                 Bin o (par_if (level a' <? lvl o) a') (par_if (level b' <=? lvl o) b')
  | Un o e => let e' := paren e in Un o (par_if (level e' <? plvl o) e')
  | Par e => paren e
  end.
(* re-parenthesising a tree that keeps its own groups (what a renderer does that wraps an operand when the
   operand's operator binds looser than its position requires); extra: operands wrapped although not needed *)
Fixpoint reparen (extra : expr -> bool) (e : expr) : expr :=
  match e with
  | Atom n => Atom n
  | Bin o a b => let a' := reparen extra a in let b' := reparen extra b in
                 Bin o (par_if (level a' <? lvl o) a') (par_if (level b' <=? lvl o) b')
  | Un o e => let e' := reparen extra e in Un o (par_if ((level e' <? plvl o) || extra e') e')
  | Par e => Par (reparen extra e)
  end.
Fixpoint no_par (e : expr) : Prop :=
  match e with Atom _ => True | Bin _ a b => no_par a /\ no_par b | Un _ e => no_par e | Par _ => False end.
Fixpoint ops_ok (e : expr) : Prop :=
  match e with Atom _ => True | Bin o a b => lvl o < K /\ ops_ok a /\ ops_ok b | Un o e => plvl o < K /\ ops_ok e | Par e => ops_ok e end.

(* lark keeps one tree per chain with alternating operands and operators (the ?-rules inline a level
   with a single operand); the node classes fold it back from the left *)
Inductive flat := FAtom (n : nat) | FChain (k : nat) (first : flat) (rest : list (op * flat)) | FUn (o : op) (e : flat) | FGroup (e : flat).

Fixpoint flatten (e : expr) : flat :=
  match e with
  | Atom n => FAtom n
  | Bin o a b =>
      match flatten a with
      | FChain k f r => if k =? lvl o then FChain k f (r ++ [(o, flatten b)]) else FChain (lvl o) (flatten a) [(o, flatten b)]
      | fa => FChain (lvl o) fa [(o, flatten b)]
      end
  | Un o e => FUn o (flatten e)
  | Par e => FGroup (flatten e)
  end.

Fixpoint unflatten (t : flat) : expr :=
  match t with
  | FAtom n => Atom n
  | FChain _ f r => fold_left (fun acc p => Bin (fst p) acc (unflatten (snd p))) r (unflatten f)
  | FUn o e => Un o (unflatten e)
  | FGroup e => Par (unflatten e)
  end.
End L.

(* ---- instantiation from ladder data: (tree name, is a binary chain level, operators), loosest level first ---- *)
From Coq Require Import Ascii.
From Tranp Require Import Base.Str.
Definition lv := (str * bool * list str)%type.
Definition lv_name (l : lv) : str := fst (fst l).
Definition lv_bin (l : lv) : bool := snd (fst l).
Definition lv_ops (l : lv) : list str := snd l.
Fixpoint find_level (p : lv -> bool) (l : list lv) : nat :=
  match l with [] => 0 | x :: r => if p x then 0 else S (find_level p r) end.
Definition mem_str (o : str) (ops : list str) : bool := existsb (str_eqb o) ops.
Definition lvl_of (L : list lv) (o : str) : nat := find_level (fun l => lv_bin l && mem_str o (lv_ops l)) L.
Definition plvl_of (L : list lv) (o : str) : nat := find_level (fun l => negb (lv_bin l) && mem_str o (lv_ops l)) L.
Definition isbin_of (L : list lv) (k : nat) : bool := match nth_error L k with Some l => lv_bin l | None => true end.
Definition parse_with (L : list lv) := parse str (length L) (lvl_of L) (plvl_of L) (isbin_of L).
Definition flatten_with (L : list lv) := flatten str (lvl_of L).
Definition paren_with (L : list lv) := paren str (length L) (lvl_of L) (plvl_of L).
Definition reparen_with (L : list lv) := reparen str (length L) (lvl_of L) (plvl_of L).
(* kinds and operators without the tree names: what decides the grouping *)
Definition ladder_ops (L : list lv) : list (bool * list str) := map (fun l => (lv_bin l, lv_ops l)) L.
