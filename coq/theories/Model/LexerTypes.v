(* record of a token definition (filled by the translator g_tokendef.py) *)
From Tranp Require Export Base.Str.
Record tokdef := {
  analyze_order : list nat;              (* TokenDomains values, in dispatch order *)
  white_space : str; number : str; identifier : str; symbol : str;
  comment : list (str * str); quote : list (str * str);
  combined_symbols : list str;
  post_filters : list (nat * str)        (* (TokenTypes value, pattern) *)
}.
