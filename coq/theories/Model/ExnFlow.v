(* C07 model: where exceptions are converted into application errors (errors.py hierarchy):
   implements/syntax/lark/parser.py (every parser exception -> Errors.Syntax, on disk and - after the fix -
   in memory), semantics/procedure.py (__emit: TypeError -> InvalidSchema, Errors.Error re-raised, anything
   else -> Fatal; __make_event / __exec_impl: AssertionError -> Logic; missing handler -> MustBeImplemented),
   bin/transpile.py Interactive.run (catches Errors.Error only). Executable definitions only. *)
From Coq Require Import List Bool.
Import ListNotations.

Inductive exn := EApp | ETypeError | EAssertion | EOther.   (* Errors.Error subclass / TypeError / AssertionError / any other Exception *)
Inductive outcome := Ok | App | Leak.
Definition escape (e : exn) : outcome := match e with EApp => App | _ => Leak end.

(* Procedure.__emit around a handler *)
Definition emit (handler : option exn) : option exn :=
  match handler with
  | None => None
  | Some ETypeError => Some EApp        (* Errors.InvalidSchema *)
  | Some EApp => Some EApp              (* re-raised, node attached *)
  | Some _ => Some EApp                 (* Errors.Fatal *)
  end.
(* Procedure.__make_event: only AssertionError (empty stack) is converted *)
Definition make_event (raised : option exn) : option exn :=
  match raised with Some EAssertion => Some EApp | other => other end.

(* processing one node: handler lookup, event construction, handler *)
Record node_run := { has_handler : bool; event_raises : option exn; handler_raises : option exn }.
Definition process (n : node_run) : option exn :=
  if negb (has_handler n) then Some EApp      (* Errors.MustBeImplemented *)
  else match make_event (event_raises n) with
       | Some e => Some e
       | None => emit (handler_raises n)
       end.
Fixpoint first_raise (l : list (option exn)) : option exn :=
  match l with [] => None | Some e :: _ => Some e | None :: r => first_raise r end.
(* Procedure.exec: flattening (may raise), the nodes in order, then the final stack check *)
Definition exec (flatten_raises : option exn) (nodes : list node_run) (final_stack_ok : bool) : option exn :=
  match make_event flatten_raises with          (* __exec_impl converts AssertionError the same way *)
  | Some e => Some e
  | None => match first_raise (map process nodes) with
            | Some e => Some e
            | None => if final_stack_ok then None else Some EApp   (* AssertionError -> Errors.Logic *)
            end
  end.

(* the pipeline of one transpile request: stages either convert everything (wrapped) or let exceptions through *)
Record stage := { wrapped : bool; raises : option exn }.
Definition stage_raise (s : stage) : option exn :=
  match raises s with None => None | Some e => if wrapped s then Some EApp else Some e end.
Definition pipeline (stages : list stage) : outcome :=
  match first_raise (map stage_raise stages) with None => Ok | Some e => escape e end.
(* the interactive loop survives a request iff nothing but an application error escapes *)
Definition loop_survives (stages : list stage) : bool := match pipeline stages with Leak => false | _ => true end.
