(* C03: the expression core of tranp's type inference (semantics/reflections.py ProceduralResolver: on_factor,
   on_*_compare, each_binary_operator + reflection/traits.py OperationTrait.try_operation over the stub classes
   of compatible/libralies/classes.py - generated table, on_ternary_operator, on_list / on_dict / on_tuple,
   on_indexer, casts) and, beside it, the types CPython's values have for the same expressions (dyn). *)
From Coq Require Import String Ascii List Bool Arith.
Import ListNotations.
From Tranp Require Import Base.Str.
Local Open Scope string_scope.

Inductive base := BInt | BFloat | BBool | BStr | BNone.
Inductive ty := TB (b : base) | TList (t : ty) | TDict (k v : ty) | TTuple (ts : list ty) | TUnion (ts : list ty) | TUnknown.
(* run-time types: a list / dict value is described by the set of types its elements have *)
Inductive rty := RB (b : base) | RList (es : list rty) | RDict (ks vs : list rty) | RTuple (ts : list rty).

Inductive uop := UNeg | UPos | UInv.
Inductive aop := OAdd | OSub | OMul | ODiv | OMod | OAnd | OOr | OXor | OShl | OShr.
Inductive expr :=
  | ELit (b : base) | EVar (n : nat)
  | EUn (o : uop) (e : expr) | EBin (o : aop) (a b : expr)
  | ECmp (a b : expr) | ENot (e : expr) | EAnd (a b : expr) | EOr (a b : expr)
  | EIf (c a b : expr)
  | EList (es : list expr) | ETuple (es : list expr) | EDict (kvs : list (expr * expr))
  | EIndex (a i : expr) | ETupleAt (a : expr) (n : nat)
  | ECast (b : base) (e : expr)
  | EComp (v : nat) (proj iter : expr) (cond : option expr).   (* [proj for v in iter if cond] *)

Definition base_eqb (a b : base) : bool :=
  match a, b with BInt, BInt | BFloat, BFloat | BBool, BBool | BStr, BStr | BNone, BNone => true | _, _ => false end.
Fixpoint ty_eqb (a b : ty) : bool :=
  match a, b with
  | TB x, TB y => base_eqb x y
  | TList x, TList y => ty_eqb x y
  | TDict k v, TDict k2 v2 => ty_eqb k k2 && ty_eqb v v2
  | TTuple xs, TTuple ys | TUnion xs, TUnion ys =>
      (fix go (l1 l2 : list ty) : bool := match l1, l2 with [] , [] => true | x :: r1, y :: r2 => ty_eqb x y && go r1 r2 | _, _ => false end) xs ys
  | TUnknown, TUnknown => true
  | _, _ => false
  end.

Definition base_name (b : base) : str :=
  match b with BInt => s "int" | BFloat => s "float" | BBool => s "bool" | BStr => s "str" | BNone => s "None" end.
Definition class_of (t : ty) : option str :=
  match t with TB BNone => None | TB b => Some (base_name b) | TList _ => Some (s "list") | _ => None end.
Definition ty_name (t : ty) : str := match t with TB b => base_name b | _ => [] end.
Definition op_token (o : aop) : str :=
  match o with OAdd => s "+" | OSub => s "-" | OMul => s "*" | ODiv => s "/" | OMod => s "%" | OAnd => s "&" | OOr => s "|" | OXor => s "^" | OShl => s "<<" | OShr => s ">>" end.

Definition upd {A} (f : nat -> A) (v : nat) (x : A) : nat -> A := fun n => if Nat.eqb n v then x else f n.
(* what iterating over a value of that type yields *)
Definition iter_ty (t : ty) : option ty :=
  match t with TList e => Some e | TDict k _ => Some k | _ => None end.     (* the str stub has no __iter__: nothing is inferred for `for c in s` *)
Definition iter_rty (r : rty) : list rty :=
  match r with RList es => es | RDict ks _ => ks | RB BStr => [RB BStr] | _ => [] end.

Section Infer.
(* generated: class -> [(dunder, parameter types, return type)], operator -> dunder, arithmetical operators *)
Variable op_table : list (str * list (str * list str * str)).
Variable operator_dunder : list (str * str).
Variable arithmetical_ops : list str.

Fixpoint assoc {A} (k : str) (l : list (str * A)) : option A :=
  match l with [] => None | (k2, v) :: r => if str_eqb k k2 then Some v else assoc k r end.
Definition find_method (cls dunder : str) : option (list str * str) :=
  match assoc cls op_table with
  | None => None
  | Some ms => (fix go (l : list (str * list str * str)) := match l with [] => None | (n, ps, r) :: l2 => if str_eqb n dunder then Some (ps, r) else go l2 end) ms
  end.
(* List.__mul__ -> list[T_Value]: the substitution of T_Value by a union keeps the first member only *)
Definition self_ty (self : ty) : ty := match self with TList (TUnion (t :: _)) => TList t | _ => self end.
Definition ret_ty (ret : str) (self : ty) : ty :=
  if str_eqb ret (s "Self") then self_ty self
  else if str_eqb ret (s "int") then TB BInt else if str_eqb ret (s "float") then TB BFloat
  else if str_eqb ret (s "bool") then TB BBool else if str_eqb ret (s "str") then TB BStr else TUnknown.
(* OperationTrait.try_operation *)
Definition try_op (l : ty) (o : aop) (r : ty) : option ty :=
  match class_of l, assoc (op_token o) operator_dunder with
  | Some cls, Some dunder =>
      match find_method cls dunder with
      | None => None
      | Some (ps, ret) =>
          if negb (existsb (str_eqb (op_token o)) arithmetical_ops) then Some (ret_ty ret l)
          else if existsb (str_eqb (ty_name r)) ps && negb (match ty_name r with [] => true | _ => false end) then Some (ret_ty ret l) else None
      end
  | _, _ => None
  end.
Definition binop (l : ty) (o : aop) (r : ty) : option ty :=
  match try_op l o r with Some t => Some t | None => try_op r o l end.

(* on_list: `{value.types: value for value in values}` - a dict keyed by the class of the type (list, Union, int ...), type
   arguments not looked at: one entry per class, at the position of its first occurrence, holding its last occurrence *)
Definition same_class (a b : ty) : bool :=
  match a, b with
  | TB x, TB y => base_eqb x y
  | TList _, TList _ | TDict _ _, TDict _ _ | TTuple _, TTuple _ | TUnion _, TUnion _ | TUnknown, TUnknown => true
  | _, _ => false
  end.
Fixpoint last_of_class (t : ty) (r : list ty) : ty :=
  match r with [] => t | u :: r' => last_of_class (if same_class t u then u else t) r' end.
Fixpoint dedupe (ts : list ty) : list ty :=
  match ts with [] => [] | t :: r => last_of_class t r :: filter (fun u => negb (same_class t u)) (dedupe r) end.
(* the element types of a list literal agree wherever they are of one class (then the dict above loses nothing) *)
Definition classes_ok (ts : list ty) : bool :=
  forallb (fun a => forallb (fun b => negb (same_class a b) || ty_eqb a b) ts) ts.

Fixpoint infer (G : nat -> option ty) (e : expr) : option ty :=
  match e with
  | ELit b => Some (TB b)
  | EVar n => G n
  | EUn _ e => match infer G e with Some (TB BBool) => Some (TB BInt) | t => t end   (* on_factor: bool operand -> int, else value.stack(node) *)
  | EBin o a b => match infer G a, infer G b with Some l, Some r => binop l o r | _, _ => None end
  | ECmp a b => match infer G a, infer G b with Some _, Some _ => Some (TB BBool) | _, _ => None end
  | ENot e => match infer G e with Some _ => Some (TB BBool) | None => None end
  | EAnd a b | EOr a b => match infer G a, infer G b with Some _, Some _ => Some (TB BBool) | _, _ => None end
  | EIf c a b =>
      match infer G c, infer G a, infer G b with
      | Some _, Some t1, Some t2 => if ty_eqb t1 t2 then Some t1 else Some (TUnion [t1; t2])
      | _, _, _ => None
      end
  | EList es =>
      match (fix go (l : list expr) : option (list ty) := match l with [] => Some [] | x :: r => match infer G x, go r with Some t, Some ts => Some (t :: ts) | _, _ => None end end) es with
      | None => None
      | Some ts => match dedupe (filter (fun t => negb (ty_eqb t TUnknown)) ts) with
                   | [] => Some (TList TUnknown)
                   | [t] => Some (TList t)
                   | ts2 => Some (TList (TUnion ts2))
                   end
      end
  | ETuple es =>
      match (fix go (l : list expr) : option (list ty) := match l with [] => Some [] | x :: r => match infer G x, go r with Some t, Some ts => Some (t :: ts) | _, _ => None end end) es with
      | None => None
      | Some ts => Some (TTuple ts)
      end
  | EDict kvs =>
      match (fix go (l : list (expr * expr)) : option (list (ty * ty)) := match l with [] => Some [] | (k, v) :: r => match infer G k, infer G v, go r with Some tk, Some tv, Some ts => Some ((tk, tv) :: ts) | _, _, _ => None end end) kvs with
      | None => None
      | Some [] => Some (TDict TUnknown TUnknown)
      | Some ((k, v) :: r) =>
          match filter (fun kv => negb (ty_eqb (snd kv) TUnknown)) ((k, v) :: r) with
          | (k2, v2) :: _ => Some (TDict k2 v2)
          | [] => Some (TDict k v)
          end
      end
  | EIndex a i =>
      match infer G a, infer G i with
      | Some (TList t), Some _ => Some t
      | Some (TDict _ v), Some _ => Some v
      | Some (TB BStr), Some _ => Some (TB BStr)
      | _, _ => None
      end
  | ETupleAt a n => match infer G a with Some (TTuple ts) => nth_error ts n | _ => None end
  | ECast b e => match infer G e with Some _ => match b with BNone => None | _ => Some (TB b) end | None => None end
  | EComp v proj iter cond =>
      match infer G iter with
      | Some ti =>
          match iter_ty ti with
          | Some te =>
              let G2 := upd G v (Some te) in
              match (match cond with Some c => infer G2 c | None => Some (TB BBool) end), infer G2 proj with
              | Some _, Some tp => Some (TList tp)          (* on_list_comp: list<projection> *)
              | _, _ => None
              end
          | None => None
          end
      | None => None
      end
  end.
End Infer.

(* ---- what CPython's values are ---- *)
Definition is_num (b : base) : bool := match b with BInt | BFloat | BBool => true | _ => false end.
Definition dyn_un (o : uop) (x : rty) : option rty :=
  match x with
  | RB BFloat => match o with UInv => None | _ => Some (RB BFloat) end
  | RB BInt | RB BBool => Some (RB BInt)
  | _ => None
  end.
Definition dyn_bin (o : aop) (x y : rty) : option rty :=
  match o with
  | OAdd | OSub | OMul | OMod | ODiv =>
      match x, y with
      | RB a, RB b =>
          if is_num a && is_num b then
            match o with
            | ODiv => Some (RB BFloat)
            | _ => match a, b with BFloat, _ | _, BFloat => Some (RB BFloat) | _, _ => Some (RB BInt) end
            end
          else match o, a, b with
               | OAdd, BStr, BStr => Some (RB BStr)
               | OMul, BStr, (BInt | BBool) | OMul, (BInt | BBool), BStr => Some (RB BStr)
               | _, _, _ => None
               end
      | RList es, RB (BInt | BBool) | RB (BInt | BBool), RList es => match o with OMul => Some (RList es) | _ => None end
      | RList es, RList fs => match o with OAdd => Some (RList (es ++ fs)) | _ => None end
      | _, _ => None
      end
  | OAnd | OOr | OXor =>
      match x, y with
      | RB a, RB b =>
          match a, b with
          | BBool, BBool => Some (RB BBool)
          | BInt, BInt | BInt, BBool | BBool, BInt => Some (RB BInt)
          | _, _ => None
          end
      | _, _ => None
      end
  | OShl | OShr =>
      match x, y with RB (BInt | BBool), RB (BInt | BBool) => Some (RB BInt) | _, _ => None end
  end.
Definition somes {A} (l : list (option A)) : list A := flat_map (fun o => match o with Some x => [x] | None => [] end) l.
Fixpoint cart (ls : list (list rty)) : list (list rty) :=
  match ls with [] => [[]] | l :: r => flat_map (fun x => map (cons x) (cart r)) l end.

(* all the types the value of e can have, over all executions in which variable n holds a value of type R n *)
Fixpoint dyn (R : nat -> rty) (e : expr) : list rty :=
  match e with
  | ELit b => [RB b]
  | EVar n => [R n]
  | EUn o e => somes (map (dyn_un o) (dyn R e))
  | EBin o a b => somes (flat_map (fun x => map (dyn_bin o x) (dyn R b)) (dyn R a))
  | ECmp a b => match dyn R a, dyn R b with [], _ | _, [] => [] | _, _ => [RB BBool] end
  | ENot e => match dyn R e with [] => [] | _ => [RB BBool] end
  | EAnd a b | EOr a b => dyn R a ++ dyn R b
  | EIf c a b => match dyn R c with [] => [] | _ => dyn R a ++ dyn R b end
  | EList es => [RList (flat_map (dyn R) es)]
  | ETuple es => map RTuple (cart (map (dyn R) es))
  | EDict kvs => [RDict (flat_map (fun kv => dyn R (fst kv)) kvs) (flat_map (fun kv => dyn R (snd kv)) kvs)]
  | EIndex a i =>
      match dyn R i with
      | [] => []
      | _ => flat_map (fun x => match x with RList es => es | RDict _ vs => vs | RB BStr => [RB BStr] | _ => [] end) (dyn R a)
      end
  | ETupleAt a n => somes (map (fun x => match x with RTuple ts => nth_error ts n | _ => None end) (dyn R a))
  | ECast b e => match dyn R e with [] => [] | _ => [RB b] end
  | EComp v proj iter cond =>
      [RList (flat_map (fun ri => flat_map (fun re => dyn (upd R v re) proj) (iter_rty ri)) (dyn R iter))]
  end.

Fixpoint has_type (r : rty) (t : ty) {struct t} : bool :=
  match t with
  | TB b => match r with RB b2 => base_eqb b b2 | _ => false end
  | TList t1 => match r with RList es => forallb (fun e => has_type e t1) es | _ => false end
  | TDict k v => match r with RDict ks vs => forallb (fun e => has_type e k) ks && forallb (fun e => has_type e v) vs | _ => false end
  | TTuple ts =>
      match r with
      | RTuple rs => (fix go (ts : list ty) (rs : list rty) {struct ts} : bool := match ts, rs with [], [] => true | t1 :: ts2, x :: rs2 => has_type x t1 && go ts2 rs2 | _, _ => false end) ts rs
      | _ => false
      end
  | TUnion ts => (fix ex (ts : list ty) : bool := match ts with [] => false | t1 :: ts2 => has_type r t1 || ex ts2 end) ts
  | TUnknown => false
  end.

(* ---- the part of the input space on which the inferred type is claimed to be the run-time type ---- *)
Definition is_b (b : base) (t : option ty) : bool := match t with Some (TB b2) => base_eqb b b2 | _ => false end.
Definition bit_andor (o : aop) : bool := match o with OAnd | OOr => true | _ => false end.
(* `&` / `|` answered by bool's method although the other operand is not a bool *)
Definition list_of_union (t : ty) : bool := match t with TList (TUnion _) => true | _ => false end.
Definition excluded (l : ty) (o : aop) (r : ty) : bool :=
  list_of_union l || list_of_union r || bit_andor o && ((is_b BBool (Some l) && negb (is_b BBool (Some r))) || (is_b BBool (Some r) && negb (is_b BBool (Some l)) && negb (is_b BInt (Some l)))).
Section Guard.
Variable op_table : list (str * list (str * list str * str)).
Variable operator_dunder : list (str * str).
Variable arithmetical_ops : list str.
Notation infer' := (infer op_table operator_dunder arithmetical_ops).
Fixpoint guard (G : nat -> option ty) (e : expr) : bool :=
  match e with
  | ELit _ | EVar _ => true
  | EUn _ a => guard G a && (is_b BInt (infer' G a) || is_b BFloat (infer' G a) || is_b BBool (infer' G a))
  | EBin o a b => guard G a && guard G b && match infer' G a, infer' G b with Some l, Some r => negb (excluded l o r) | _, _ => true end
  | ECmp a b => guard G a && guard G b
  | ENot a => guard G a
  | EAnd a b | EOr a b => guard G a && guard G b && is_b BBool (infer' G a) && is_b BBool (infer' G b)
  | EIf c a b => guard G c && guard G a && guard G b
  | EList es =>
      (fix go (l : list expr) : bool := match l with [] => true | x :: r => guard G x && go r end) es
      && match (fix go (l : list expr) : option (list ty) := match l with [] => Some [] | x :: r => match infer' G x, go r with Some t, Some ts => Some (t :: ts) | _, _ => None end end) es with
         | Some ts => classes_ok (filter (fun t => negb (ty_eqb t TUnknown)) ts)
         | None => true
         end
  | ETuple es => (fix go (l : list expr) : bool := match l with [] => true | x :: r => guard G x && go r end) es
  | EDict kvs =>
      (fix go (l : list (expr * expr)) : bool := match l with [] => true | (k, v) :: r => guard G k && guard G v && go r end) kvs
      && match kvs with
         | [] => true
         | (k0, v0) :: r => forallb (fun kv => match infer' G (fst kv), infer' G k0, infer' G (snd kv), infer' G v0 with
                                               | Some a, Some b, Some c, Some d => ty_eqb a b && ty_eqb c d | _, _, _, _ => false end) r
         end
  | EIndex a i => guard G a && guard G i
  | ETupleAt a _ => guard G a
  | ECast _ a => guard G a
  | EComp v proj iter cond =>
      guard G iter && match infer' G iter with
                      | Some ti => match iter_ty ti with
                                   | Some te => guard (upd G v (Some te)) proj && match cond with Some c => guard (upd G v (Some te)) c | None => true end
                                   | None => true
                                   end
                      | None => true
                      end
  end.
End Guard.
