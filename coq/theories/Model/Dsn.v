(* C08 model: dsn/dsn.py (join / elements / elem_counts / left / right / shift / relativefy) and
   dsn/module.py (full_joined / parsed / expanded) on strings, and the scope walk of semantics/finder.py
   (__make_scopes, __each_find_raw) over abstract symbol tables. Executable definitions only. *)
From Tranp Require Export Base.Str.
Local Open Scope nat_scope.

Definition nonempty (x : str) : bool := negb (str_eqb x []).
(* DSN.join *)
Definition dsn_join (parts : list str) : str := join ["."%char] (filter nonempty parts).
(* DSN.elements(origin) *)
Definition dsn_elements (origin : str) : list str := filter nonempty (split "."%char origin).
(* DSN.elem_counts(origin): counted on the string, as the code does *)
Definition dsn_elem_counts (origin : str) : nat :=
  match origin with [] => 0 | c :: _ => count_char "."%char origin + (if Ascii.eqb c "."%char then 0 else 1) end.
Definition dsn_left (origin : str) (n : nat) : str := dsn_join (firstn n (dsn_elements origin)).
Definition dsn_right (origin : str) (n : nat) : str := let es := dsn_elements origin in dsn_join (drop (length es - n) es).
Definition dsn_shift_pos (origin : str) (n : nat) : str := dsn_join (drop n (dsn_elements origin)).
Definition dsn_shift_neg (origin : str) (n : nat) : str := let es := dsn_elements origin in dsn_join (firstn (length es - n) es).

(* ModuleDSN.full_joined *)
Definition full_joined (dsn : str) (elems : list str) : str :=
  if mem "#"%char dsn then dsn_join (dsn :: elems)
  else join ["#"%char] (filter nonempty [dsn; dsn_join elems]).
(* ModuleDSN.parsed(dsn) *)
Definition parsed (dsn : str) : str * str :=
  match split "#"%char dsn with a :: b :: _ => (a, b) | [a] => (a, []) | [] => ([], []) end.
Definition expanded (dsn : str) : str * list str := (fst (parsed dsn), dsn_elements (snd (parsed dsn))).

(* ---- the scope walk ---- *)
Section Find.
  Variable ident : Type.
  Variable ident_eqb : ident -> ident -> bool.
  Definition name_eqb (a b : list ident) : bool :=
    (fix go (x y : list ident) : bool := match x, y with [], [] => true | u :: x', v :: y' => ident_eqb u v && go x' y' | _, _ => false end) a b.
  Definition db := list (list ident).                (* fully qualified local names present in the table *)
  Definition has (d : db) (k : list ident) : bool := existsb (name_eqb k) d.
  (* enclosing scopes from the innermost outwards: elems, elems[:-1], ..., [] = reversed prefixes *)
  Fixpoint prefixes (elems : list ident) : list (list ident) :=      (* outermost first *)
    match elems with [] => [[]] | x :: r => [] :: map (cons x) (prefixes r) end.
  Definition make_scopes (scope : list ident) : list (list ident) := rev (prefixes scope).
  (* first scope in which scope ++ name is declared *)
  Definition find (d : db) (scope : list ident) (name : list ident) : option (list ident) :=
    match List.find (fun sc => has d (sc ++ name)) (make_scopes scope) with Some sc => Some (sc ++ name) | None => None end.
End Find.
