(* C18 model: rogw/tranp/view/helper/block.py (_skip_other_block, break_separator, break_last_block),
   view/helper/decorator.py (DecoratorHelper._parse), cpp_view_helper.py (Param.parse),
   lang/string.py (is_quoted_literal).  Executable definitions only; proofs are in Proofs/BlockProofs.v. *)
From Tranp Require Export Base.Str.
From TranpGen Require Export GenBlock.

Definition other_tokens : str := flat_map (fun p => [fst p; snd p]) all_pair.
Definition open_tokens : str := map fst all_pair.

Definition is_quote (c : ascii) : bool := Ascii.eqb c """" || Ascii.eqb c "'".

(* one step of the closer stack of _skip_other_block on character c *)
Definition skip_step (toks : str) (c : ascii) (closes : list ascii) : list ascii :=
  match index_of c toks with
  | Some i =>
      match closes with
      | top :: rest => if Ascii.eqb top c then rest
                       else if is_quote top then closes
                       else if Nat.even i then nth_c toks (S i) :: closes else closes
      | [] => if Nat.even i then [nth_c toks (S i)] else []
      end
  | None => closes
  end.

(* _skip_other_block(text, toks, begin): [t] is text[begin:], result = number of characters consumed
   (n accumulates). The Python loop also stops at the end of the text. *)
Fixpoint skip (toks : str) (t : str) (closes : list ascii) (n : nat) : nat :=
  match t with
  | [] => n
  | c :: r =>
      match skip_step toks c closes with
      | [] => S n
      | cl => skip toks r cl (S n)
      end
  end.

(* break_separator(text, delimiter). cur = reversed current piece. The Python condition
   `index + len(delimiter) < len(text)` is `len(delimiter) < len(text[index:])`. *)
Fixpoint bsep (fuel : nat) (delim : str) (t : str) (cur : str) (acc : list str) : list str :=
  match fuel with
  | 0 => rev acc
  | S f =>
    match t with
    | [] => match cur with [] => rev acc | _ => rev (strip (rev cur) :: acc) end
    | c :: r =>
        if mem c open_tokens then
          let k := skip other_tokens t [] 0 in
          bsep f delim (drop k t) (rev (firstn k t) ++ cur) acc
        else if starts delim t && (Nat.ltb (List.length delim) (List.length t)) then
          bsep f delim (drop (List.length delim) t) [] (strip (rev cur) :: acc)
        else bsep f delim r (c :: cur) acc
    end
  end.
Definition break_separator (text delim : str) : list str := bsep (S (List.length text)) delim text [] [].

(* break_last_block(text, brackets): scan with (index, begin, stack); keep the last closed range. *)
Fixpoint blb (o c : ascii) (t : str) (idx begin stack : nat) (last : option (nat * nat)) : option (nat * nat) :=
  match t with
  | [] => last
  | x :: r =>
      if Ascii.eqb x o then
        match stack with
        | 0 => blb o c r (S idx) (S idx) 1 last
        | _ => blb o c r (S idx) begin (S stack) last
        end
      else if Ascii.eqb x c then
        match stack with
        | 1 => blb o c r (S idx) begin 0 (Some (begin, idx))
        | S (S k) => blb o c r (S idx) begin (S k) last
        | 0 => blb o c r (S idx) begin stack last
        end
      else blb o c r (S idx) begin stack last
  end.
Definition slice (b e : nat) (t : str) : str := firstn (e - b) (drop b t).
(* None models the IndexError of `ranges[-1]` on a text without a closed group *)
Definition break_last_block (text : str) (o c : ascii) : option (str * str) :=
  match blb o c text 0 0 0 None with
  | Some (b, e) => Some (firstn (b - 1) text, slice b e text)
  | None => None
  end.

(* decimal rendering of a nat (str(index)) *)
Definition digit (n : nat) : ascii := ascii_of_nat (48 + n).
Fixpoint nat_to_str_aux (fuel n : nat) (acc : str) : str :=
  match fuel with
  | 0 => acc
  | S f => let acc' := digit (n mod 10) :: acc in
           match n / 10 with 0 => acc' | q => nat_to_str_aux f q acc' end
  end.
Definition nat_to_str (n : nat) : str := nat_to_str_aux (S n) n [].

(* Python dict assignment d[k] = v on an insertion-ordered association list *)
Fixpoint dict_set (d : list (str * str)) (k v : str) : list (str * str) :=
  match d with
  | [] => [(k, v)]
  | (k', v') :: r => if str_eqb k' k then (k, v) :: r else (k', v') :: dict_set r k v
  end.

Fixpoint dec_args (i : nat) (args : list str) (d : list (str * str)) : list (str * str) :=
  match args with
  | [] => d
  | a :: r =>
      let d' := if Nat.ltb 0 (count_char "=" a)
                then match split "=" a with
                     | label :: remain => dict_set d label (join ["="] remain)
                     | [] => d
                     end
                else dict_set d (nat_to_str i) a in
      dec_args (S i) r d'
  end.

(* DecoratorHelper._parse *)
Definition decorator_parse (dec : str) : str * list (str * str) * str :=
  match find ["("] dec with
  | None => (dec, [], [])
  | Some b =>
      let path := firstn b dec in
      let join_args := slice (S b) (List.length dec - 1) dec in
      (path, dec_args 0 (break_separator join_args [","]) [], join_args)
  end.

(* CppViewHelper.Param.parse; None models the IndexError on an empty list *)
Definition param_parse (p : str) : option (str * str * str) :=
  let pd := break_separator p ["="] in
  match (match pd with [a; b] => Some (a, b) | a :: _ => Some (a, []) | [] => None end) with
  | None => None
  | Some (param, default) =>
      match rev (break_separator param [" "]) with
      | [] => None
      | symbol :: ts => Some (join [" "] (rev ts), symbol, default)
      end
  end.
