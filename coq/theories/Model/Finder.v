(* C10 model: syntax/ast/finder.py (full_pathfy, pluck), syntax/ast/path.py (identify / __break_tag / join),
   syntax/ast/cache.py (EntryCache: insertion-order ids, child map, group_by), the children / siblings
   queries of syntax/node/query.py and the resolver of syntax/node/resolver.py. Executable definitions only. *)
From Tranp Require Export Base.Str.
Local Open Scope nat_scope.

(* an entry: a tree (has_child, possibly zero children) or a leaf (token or empty placeholder) *)
Inductive entry := T (tag : str) (kids : list entry) | L (tag : str).
Definition name (e : entry) : str := match e with T t _ => t | L t => t end.

(* one path element: tag, or tag[index] when the tag repeats among the siblings *)
Definition elem := (str * option nat)%type.
Definition path := list elem.

Definition count_tag (t : str) (ks : list entry) : nat := length (filter (fun k => str_eqb (name k) t) ks).
Definition child_elem (ks : list entry) (i : nat) (k : entry) : elem :=
  (name k, if Nat.eqb (count_tag (name k) ks) 1 then None else Some i).

(* full_pathfy(entry, path): (full path, position) for every entry below, in document order.
   The position (child indices from the root) stands for the identity of the entry object. *)
Fixpoint fp (e : entry) (p : path) (pos : list nat) : list (path * list nat) :=
  (p, pos) ::
  match e with
  | T _ ks => (fix go (i : nat) (l : list entry) : list (path * list nat) :=
                 match l with
                 | [] => []
                 | k :: r => fp k (p ++ [child_elem ks i k]) (pos ++ [i]) ++ go (S i) r
                 end) 0 ks
  | L _ => []
  end.
Definition full_pathfy (root : entry) : list (path * list nat) := fp root [(name root, None)] [].

(* [in_entry for in_entry in children if tag == in_entry.name].pop(): the last child with the tag *)
Fixpoint last_with_tag (tag : str) (i : nat) (ks : list entry) (found : option (nat * entry)) : option (nat * entry) :=
  match ks with
  | [] => found
  | k :: r => last_with_tag tag (S i) r (if str_eqb (name k) tag then Some (i, k) else found)
  end.

(* __pluck(entry, relative path) -> position relative to entry; None = Errors.NodeNotFound *)
Fixpoint pluck_rel (e : entry) (p : path) : option (list nat) :=
  match p with
  | [] => Some []
  | (tag, idx) :: rest =>
      match e with
      | T _ ks =>
          match (match idx with
                 | Some i => match nth_error ks i with Some k => Some (i, k) | None => None end
                 | None => last_with_tag tag 0 ks None
                 end) with
          | Some (i, k) => option_map (cons i) (pluck_rel k rest)
          | None => None
          end
      | L _ => None
      end
  end.
(* pluck(root, full_path): the first element (the root's own) is shifted away unchecked *)
Definition pluck (root : entry) (p : path) : option (list nat) := pluck_rel root (tl p).

Fixpoint at_pos (e : entry) (pos : list nat) : option entry :=
  match pos with
  | [] => Some e
  | i :: r => match e with T _ ks => match nth_error ks i with Some k => at_pos k r | None => None end | L _ => None end
  end.

(* ---- string form of paths ---- *)
Definition digit_of (n : nat) : ascii := ascii_of_nat (48 + n).
Fixpoint nat_str_aux (fuel n : nat) (acc : str) : str :=
  match fuel with
  | 0 => acc
  | S f => let acc' := digit_of (n mod 10) :: acc in
           match n / 10 with 0 => acc' | q => nat_str_aux f q acc' end
  end.
Definition nat_str (n : nat) : str := nat_str_aux (S n) n [].

Definition render_elem (e : elem) : str :=
  match e with
  | (t, None) => t
  | (t, Some i) => t ++ "["%char :: nat_str i ++ ["]"%char]
  end.
(* DSN.join(origin, elem): '.'.join of the non-empty parts *)
Definition render (p : path) : str := join ["."%char] (filter (fun x => negb (str_eqb x [])) (map render_elem p)).

Definition is_digit (c : ascii) : bool := let n := nat_of_ascii c in (48 <=? n) && (n <=? 57).
Fixpoint parse_nat (l : str) (acc : nat) : option nat :=
  match l with
  | [] => Some acc
  | c :: r => if is_digit c then parse_nat r (acc * 10 + (nat_of_ascii c - 48)) else None
  end.
(* __break_tag: 'tag[3]' -> (tag, 3); no trailing ']' -> (elem, -1) *)
Definition break_tag (e : str) : option elem :=
  match rev e with
  | "]"%char :: _ =>
      match split "["%char e with
      | [before; after] => match parse_nat (removelast after) 0 with
                           | Some i => Some (before, Some i)
                           | None => None          (* int() raises *)
                           end
      | _ => None                                   (* unpacking raises *)
      end
  | _ => Some (e, None)
  end.
Fixpoint all_some {A} (l : list (option A)) : option (list A) :=
  match l with [] => Some [] | Some x :: r => option_map (cons x) (all_some r) | None :: _ => None end.
(* DSN.elements + __break_tag on each *)
Definition parse (s0 : str) : option path :=
  all_some (map break_tag (filter (fun x => negb (str_eqb x [])) (split "."%char s0))).

(* ---- EntryCache: insertion-ordered tables keyed by path ---- *)
Definition path_eqb (a b : path) : bool :=
  if list_eq_dec (fun x y : elem => (ltac:(decide equality; [decide equality; apply Nat.eq_dec | apply (list_eq_dec Ascii.ascii_dec)]) : {x = y} + {x <> y})) a b then true else false.

Record cache := { entries : list (path * list nat); kids : list (path * list elem) }.
Definition empty_cache : cache := {| entries := []; kids := [] |}.

Fixpoint assoc {V} (k : path) (l : list (path * V)) : option V :=
  match l with [] => None | (k', v) :: r => if path_eqb k' k then Some v else assoc k r end.
Fixpoint index_in {V} (k : path) (l : list (path * V)) (i : nat) : option nat :=
  match l with [] => None | (k', _) :: r => if path_eqb k' k then Some i else index_in k r (S i) end.

Definition elem_eqb (a b : elem) : bool := path_eqb [a] [b].
(* children[in_path][last] = True on an insertion-ordered dict of dicts *)
Fixpoint kids_set (m : list (path * list elem)) (k : path) (x : elem) : list (path * list elem) :=
  match m with
  | [] => [(k, [x])]
  | (k', xs) :: r => if path_eqb k' k then (k', if existsb (elem_eqb x) xs then xs else xs ++ [x]) :: r
                     else (k', xs) :: kids_set r k x
  end.
Definition kids_touch (m : list (path * list elem)) (k : path) : list (path * list elem) :=
  match assoc k m with Some _ => m | None => m ++ [(k, [])] end.

(* the while loop of add: for every proper prefix (longest first) record the next element *)
Fixpoint add_links (m : list (path * list elem)) (prefix_rev : list elem) (last : elem) : list (path * list elem) :=
  match prefix_rev with
  | [] => m
  | x :: r => add_links (kids_set m (rev prefix_rev) last) r x
  end.

Definition add (c : cache) (p : path) (pos : list nat) : cache :=
  match assoc p (entries c) with
  | Some _ => c
  | None =>
      {| entries := entries c ++ [(p, pos)];
         kids := match rev p with
                 | [] => kids_touch (kids c) p
                 | last :: pre => add_links (kids_touch (kids c) p) pre last
                 end |}
  end.
Definition build (root : entry) : cache := fold_left (fun c x => add c (fst x) (snd x)) (full_pathfy root) empty_cache.

(* Nodes.id(full_path) = EntryCache.index_of *)
Definition index_of (c : cache) (p : path) : option nat := index_in p (entries c) 0.

(* group_by(via, depth=1) filtered to one level below: Nodes.children(via) *)
Definition children_of (c : cache) (via : path) : option (list (path * list nat)) :=
  match assoc via (entries c) with
  | None => None
  | Some _ =>
      all_some (map (fun x => match assoc (via ++ [x]) (entries c) with Some pos => Some (via ++ [x], pos) | None => None end)
                    (match assoc via (kids c) with Some xs => xs | None => [] end))
  end.
(* Nodes.siblings(via): children of the path one level up *)
Definition siblings_of (c : cache) (via : path) : option (list (path * list nat)) :=
  match removelast via with
  | [] => None
  | up => children_of c up
  end.

(* ---- NodeResolver.resolve: first accepting class in registration order, instance cached by path ---- *)
Section Resolver.
  Variable cls : Type.
  Variable candidates : str -> list cls.            (* registration order per tag *)
  Variable accepts : cls -> path -> bool.           (* match_feature, a function of the tree and the path *)
  Definition resolve_fresh (tag : str) (p : path) : option cls := List.find (fun c => accepts c p) (candidates tag).
  Definition rstate := list (path * cls).
  Definition resolve (st : rstate) (tag : str) (p : path) : option cls * rstate :=
    match assoc p st with
    | Some c => (Some c, st)
    | None => match resolve_fresh tag p with
              | Some c => (Some c, st ++ [(p, c)])
              | None => (None, st)
              end
    end.
End Resolver.

(* Nodes.ancestor (syntax/node/query.py): the nearest entry on the path - the path's own last element included -
   whose tag is the requested one; a function of the path and the tag alone *)
Fixpoint ancestor_rev (rp : path) (tag : str) : option path :=
  match rp with
  | [] => None
  | e :: r => if str_eqb (fst e) tag then Some (rev rp) else ancestor_rev r tag
  end.
Definition ancestor (p : path) (tag : str) : option path := ancestor_rev (rev p) tag.

