(* C15 model: implements/syntax/lark/entry.py - the EntryOfLark view of a lark tree and the cache
   encoding Serialization.dumps / loads. Executable definitions only. *)
From Tranp Require Export Base.Str.
From Coq Require Export ZArith.
Local Open Scope Z_scope.

Definition smap := (Z * Z * Z * Z)%type.
Definition zero_map : smap := (0, 0, 0, 0).

(* a lark entry: Tree(data, children, meta) where meta = None stands for meta.empty (no positions);
   Token(type, value, line, column, end_line, end_column) where each position may be missing (None);
   None for an optional slot that matched nothing *)
Inductive lark :=
| LTree (data : str) (kids : list lark) (meta : option smap)
| LToken (type value : str) (line col eline ecol : option Z)
| LNone.

Definition truthy (x : option Z) : bool := match x with Some v => negb (Z.eqb v 0) | None => false end.
Definition zval (x : option Z) : Z := match x with Some v => v | None => 0 end.

(* EntryOfLark.source_map *)
Definition source_map (e : lark) : smap :=
  match e with
  | LTree _ _ (Some m) => m
  | LTree _ _ None => zero_map
  | LToken _ _ l c el ec =>
      if truthy l && truthy c && truthy el && truthy ec then (zval l, zval c, zval el, zval ec) else zero_map
  | LNone => zero_map
  end.

(* everything EntryOfLark exposes, recursively: name / has_child / children / value / is_empty / source_map *)
Inductive view :=
| VTree (name : str) (kids : list view) (sm : smap)
| VToken (name value : str) (sm : smap)
| VEmpty.

Fixpoint view_of (e : lark) : view :=
  match e with
  | LTree d ks _ => VTree d (map view_of ks) (source_map e)
  | LToken t v _ _ _ _ => VToken t v (source_map e)
  | LNone => VEmpty
  end.

(* the stored form: {'name','children','source_map'} | {'name','value','source_map'} | None *)
Inductive dump :=
| DTree (name : str) (kids : list dump) (sm : smap)
| DToken (name value : str) (sm : smap)
| DNone.

Fixpoint dumps (e : lark) : dump :=
  match e with
  | LTree d ks _ => DTree d (map dumps ks) (source_map e)
  | LToken t v _ _ _ _ => DToken t v (source_map e)
  | LNone => DNone
  end.

Definition sm1 (m : smap) : Z := match m with (a, _, _, _) => a end.
Definition sm2 (m : smap) : Z := match m with (_, b, _, _) => b end.
Definition sm3 (m : smap) : Z := match m with (_, _, c, _) => c end.
Definition sm4 (m : smap) : Z := match m with (_, _, _, d) => d end.

Fixpoint loads (d : dump) : lark :=
  match d with
  | DTree n ks m => LTree n (map loads ks) (Some m)        (* meta.empty = False, positions from the map *)
  | DToken n v m => LToken n v (Some (sm1 m)) (Some (sm2 m)) (Some (sm3 m)) (Some (sm4 m))
  | DNone => LNone
  end.

(* decidable equalities used by the correspondence *)
Definition smap_eqb (a b : smap) : bool :=
  match a, b with (a1, a2, a3, a4), (b1, b2, b3, b4) => Z.eqb a1 b1 && Z.eqb a2 b2 && Z.eqb a3 b3 && Z.eqb a4 b4 end.
Fixpoint dump_eqb (a b : dump) : bool :=
  match a, b with
  | DTree n ks m, DTree n' ks' m' =>
      str_eqb n n' && smap_eqb m m' &&
      (fix go (x y : list dump) : bool :=
         match x, y with [], [] => true | u :: x', v :: y' => dump_eqb u v && go x' y' | _, _ => false end) ks ks'
  | DToken n v m, DToken n' v' m' => str_eqb n n' && str_eqb v v' && smap_eqb m m'
  | DNone, DNone => true
  | _, _ => false
  end.
Fixpoint view_eqb (a b : view) : bool :=
  match a, b with
  | VTree n ks m, VTree n' ks' m' =>
      str_eqb n n' && smap_eqb m m' &&
      (fix go (x y : list view) : bool :=
         match x, y with [], [] => true | u :: x', v :: y' => view_eqb u v && go x' y' | _, _ => false end) ks ks'
  | VToken n v m, VToken n' v' m' => str_eqb n n' && str_eqb v v' && smap_eqb m m'
  | VEmpty, VEmpty => true
  | _, _ => false
  end.
