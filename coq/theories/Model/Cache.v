(* C05 model: the symbol-table cache (semantics/reflection/persistent.py + module/module.py identity) and
   the syntax-tree cache (cache/cache.py + implements/syntax/lark/parser.py) over an abstract file system.
   Hashing and the cached computations are Section variables. Executable definitions only. *)
From Coq Require Import List Arith Bool.
Import ListNotations.

Section C.
  Variable src : Type.
  Variable hash : src -> nat.                       (* md5 of a file's bytes *)
  Variable nmods : nat.
  Variable imports : nat -> list nat.               (* direct imports *)
  Variable symbols_of : nat -> (nat -> src) -> nat. (* the symbol table built for a module from the current sources *)
  Variable parse : src -> nat.                      (* the syntax tree of a source text *)

  (* module.identity(): md5 over the hashes of the directly imported files and of the file itself *)
  Definition key := (nat * list nat)%type.
  Definition key_eqb (a b : key) : bool := Nat.eqb (fst a) (fst b) && (if list_eq_dec Nat.eq_dec (snd a) (snd b) then true else false).
  Record state := {
    sources : nat -> src;
    mtime : nat -> nat;                              (* modification time of each source file *)
    clock : nat;
    symcache : list (key * nat);                     (* <module>-symbols-<identity>.json *)
    astcache : list ((nat * nat) * nat)              (* <module>-<md5(grammar mtime, source mtime)>.json *)
  }.
  Definition sym_key (st : state) (m : nat) : key := (m, map (fun j => hash (sources st j)) (imports m ++ [m])).

  Fixpoint assoc_k (k : key) (l : list (key * nat)) : option nat :=
    match l with [] => None | (k', v) :: r => if key_eqb k' k then Some v else assoc_k k r end.
  Fixpoint assoc_a (k : nat * nat) (l : list ((nat * nat) * nat)) : option nat :=
    match l with [] => None | ((m, t), v) :: r => if Nat.eqb m (fst k) && Nat.eqb t (snd k) then Some v else assoc_a k r end.

  (* restore or compute-and-store the symbols of m; siblings (same module, other identity) are removed *)
  Definition load_symbols (enabled : bool) (st : state) (m : nat) : nat * state :=
    if enabled then
      match assoc_k (sym_key st m) (symcache st) with
      | Some v => (v, st)
      | None => let v := symbols_of m (sources st) in
                (v, {| sources := sources st; mtime := mtime st; clock := clock st;
                       symcache := (sym_key st m, v) :: filter (fun e => negb (Nat.eqb (fst (fst e)) m)) (symcache st);
                       astcache := astcache st |})
      end
    else (symbols_of m (sources st), st).
  Definition load_ast (enabled : bool) (st : state) (m : nat) : nat * state :=
    if enabled then
      match assoc_a (m, mtime st m) (astcache st) with
      | Some v => (v, st)
      | None => let v := parse (sources st m) in
                (v, {| sources := sources st; mtime := mtime st; clock := clock st; symcache := symcache st;
                       astcache := ((m, mtime st m), v) :: filter (fun e => negb (Nat.eqb (fst (fst e)) m)) (astcache st) |})
      end
    else (parse (sources st m), st).

  Definition upd {V} (f : nat -> V) (k : nat) (v : V) : nat -> V := fun x => if Nat.eqb x k then v else f x.
  Inductive op := Edit (m : nat) (v : src) | Run (enabled : bool) | Clear.
  (* a run loads every module: its tree, then its symbols; the observable result is what was obtained *)
  Definition run_all (enabled : bool) (st : state) : list (nat * nat) * state :=
    fold_left (fun acc m => let '(res, s) := acc in
                            let '(a, s1) := load_ast enabled s m in
                            let '(y, s2) := load_symbols enabled s1 m in (res ++ [(a, y)], s2))
              (seq 0 nmods) ([], st).
  Definition step (st : state) (o : op) : list (nat * nat) * state :=
    match o with
    | Edit m v => ([], {| sources := upd (sources st) m v; mtime := upd (mtime st) m (S (clock st)); clock := S (clock st);
                          symcache := symcache st; astcache := astcache st |})
    | Run e => run_all e st
    | Clear => ([], {| sources := sources st; mtime := mtime st; clock := clock st; symcache := []; astcache := [] |})
    end.
  Fixpoint exec (st : state) (h : list op) : state := match h with [] => st | o :: r => exec (snd (step st o)) r end.
  (* what a run started with an empty cache directory obtains *)
  Definition cold (st : state) : list (nat * nat) := map (fun m => (parse (sources st m), symbols_of m (sources st))) (seq 0 nmods).
End C.
