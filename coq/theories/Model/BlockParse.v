(* C18 model, second part: rogw/tranp/view/helper/block.py BlockParser.parse / _parse / _analyze_entry /
   _parse_block, Entry.unders, parse_bracket, parse_pair.  Executable definitions only; proofs are in
   Proofs/BlockParseProofs.v.  Positions are absolute indices into the text; every function works on the
   suffix text[idx:] together with idx. *)
From Tranp Require Export Model.Block.
Local Open Scope nat_scope.

Definition toks_of (tab : list (ascii * ascii)) : str := flat_map (fun p => [fst p; snd p]) tab.
Definition pair_eqb (p q : ascii * ascii) : bool := Ascii.eqb (fst p) (fst q) && Ascii.eqb (snd p) (snd q).
(* other_tokens = ''.join([pair for pair in cls._all_pair if pair != brackets]) *)
Definition tab_without (o c : ascii) : list (ascii * ascii) := filter (fun p => negb (pair_eqb p (o, c))) all_pair.
Definition toks_without (o c : ascii) : str := toks_of (tab_without o c).

Definition is_blank (x : ascii) : bool := Ascii.eqb x " " || Ascii.eqb x "010" || Ascii.eqb x "009".

Inductive kind := KBlock | KElem | KEnd.
(* Entry(begin, end, depth, kind, entries) *)
Inductive entry := En (b e d : nat) (blk : bool) (subs : list entry).

(* the `while index < len(text)` loop of _analyze_entry. t = text[idx:]; eb = entry_begin.
   Result: (kind, entry_begin, index_for_kind, text[index_for_kind:]) *)
Fixpoint scan (fuel : nat) (otoks : str) (o c : ascii) (delim : str) (t : str) (idx eb : nat) : kind * nat * nat * str :=
  match fuel with
  | 0 => (KEnd, idx, 0, t)
  | S f =>
    match t with
    | [] => (KEnd, idx, 0, [])
    | x :: r =>
        if mem x otoks then
          let k := skip otoks t [] 0 in scan f otoks o c delim (drop k t) (idx + k) eb
        else if Ascii.eqb x o then (KBlock, eb, idx, t)
        else if Ascii.eqb x c || mem x delim then (KElem, eb, idx, t)
        else scan f otoks o c delim r (S idx) (if is_blank x then S idx else eb)
    end
  end.

(* _analyze_entry(text, brackets, delimiter, begin); only called with begin < len(text) *)
Definition analyze (otoks : str) (o c : ascii) (delim : str) (t : str) (idx : nat) : kind * nat * nat * str :=
  match t with
  | [] => (KEnd, idx, 0, [])
  | x :: r =>
      if Ascii.eqb x o then (KBlock, idx, idx, t)
      else if Ascii.eqb x c then (KEnd, idx, 0, t)
      else if mem x delim then scan (S (List.length r)) otoks o c delim r (S idx) (S idx)
      else scan (S (List.length t)) otoks o c delim t idx idx
  end.

(* _parse / _parse_block; result (text[index:], index, entries) *)
Fixpoint pparse (fuel : nat) (otoks : str) (o c : ascii) (delim : str) (t : str) (idx depth : nat) {struct fuel} : str * nat * list entry :=
  match fuel with
  | 0 => (t, idx, [])
  | S f =>
    match t with
    | [] => (t, idx, [])
    | _ :: _ =>
      match analyze otoks o c delim t idx with
      | (KBlock, eb, ifk, t1) =>
          let '(t2, e, subs) := pblock f otoks o c delim (tl t1) (S ifk) depth in
          let '(t3, i3, es) := pparse f otoks o c delim t2 e depth in
          (t3, i3, En eb e depth true subs :: es)
      | (KElem, eb, ifk, t1) =>
          let '(t3, i3, es) := pparse f otoks o c delim t1 ifk depth in
          (t3, i3, En eb ifk depth false [] :: es)
      | (KEnd, eb, _, t1) => (t1, eb, [])
      end
    end
  end
with pblock (fuel : nat) (otoks : str) (o c : ascii) (delim : str) (t : str) (idx depth : nat) {struct fuel} : str * nat * list entry :=
  match fuel with
  | 0 => (t, idx, [])
  | S f =>
    match t with
    | [] => (t, idx, [])
    | x :: r =>
        if Ascii.eqb x c then (r, S idx, [])
        else
          let '(t2, i2, es) := pparse f otoks o c delim t idx (S depth) in
          let '(t3, i3, es') := pblock f otoks o c delim t2 i2 depth in
          (t3, i3, es ++ es')
    end
  end.

(* enough for every call chain: each call either consumes a character or is followed by one that does *)
Definition parse_fuel (text : str) : nat := 3 * List.length text + 3.

(* BlockParser.parse: None models the IndexError of `[1][0]` on a text without entries *)
Definition parse (text : str) (o c : ascii) (delim : str) : option entry :=
  match pparse (parse_fuel text) (toks_without o c) o c delim text 0 0 with
  | (_, _, e :: _) => Some e
  | _ => None
  end.

(* Entry.unders: every entry below, in document order *)
Fixpoint unders (e : entry) : list entry :=
  match e with
  | En _ _ _ _ subs => (fix go (l : list entry) : list entry :=
                          match l with [] => [] | x :: r => x :: unders x ++ go r end) subs
  end.

Definition en_b (e : entry) := match e with En b _ _ _ _ => b end.
Definition en_e (e : entry) := match e with En _ e _ _ _ => e end.
Definition en_d (e : entry) := match e with En _ _ d _ _ => d end.
Definition en_blk (e : entry) := match e with En _ _ _ k _ => k end.

(* text.find(ch, begin) as a position; None models -1 *)
Fixpoint find_from (ch : ascii) (t : str) (idx : nat) (begin : nat) : option nat :=
  match t with
  | [] => None
  | x :: r => if Nat.leb begin idx && Ascii.eqb x ch then Some idx else find_from ch r (S idx) begin
  end.

(* parse_bracket(text, brackets): the block entries of root and root.unders(), each cut from its first
   opening bracket at or after the entry begin.  (-1 of find cannot arise for a block entry: modelled as
   position 0.) *)
Definition parse_bracket (text : str) (o c : ascii) : option (list str) :=
  match parse text o c [] with
  | None => None
  | Some root =>
      Some (flat_map (fun e => if en_blk e
                               then [slice (match find_from o text 0 (en_b e) with Some b => b | None => 0 end) (en_e e) text]
                               else []) (root :: unders root))
  end.

(* sorted(root.unders(), key=depth) is stable: insertion sort that keeps equal keys in order *)
Fixpoint ins_depth (e : entry) (l : list entry) : list entry :=
  match l with
  | [] => [e]
  | x :: r => if Nat.ltb (en_d e) (en_d x) then e :: l else x :: ins_depth e r
  end.
Definition sort_depth (l : list entry) : list entry := fold_left (fun acc e => ins_depth e acc) l [].

Fixpoint pair_up (l : list entry) : list (entry * entry) :=
  match l with
  | a :: b :: r => if Nat.eqb (en_d a) (en_d b) then (a, b) :: pair_up r else pair_up r
  | _ => []
  end.

Definition parse_pair (text : str) (o c : ascii) (delim : str) : option (list (str * str)) :=
  match parse text o c delim with
  | None => None
  | Some root =>
      Some (map (fun kv => (slice (en_b (fst kv)) (en_e (fst kv)) text, slice (en_b (snd kv)) (en_e (snd kv)) text))
                (pair_up (sort_depth (unders root))))
  end.
