(* C13 model: implements/syntax/tranp/tokenizer.py (Lexer.parse_impl with its six domain parsers,
   post_filter, Tokenizer._rebuild) and token.py (SourceMap.make), over a token definition regenerated
   from /repo (gen/GenTokenDef.v). Executable definitions only. *)
From Tranp Require Export Model.LexerTypes Base.LineCol.
From TranpGen Require Export GenTokenDef.
From Coq Require Import ZArith.
Local Open Scope nat_scope.

(* a raw token: TokenTypes value, its string, the slice of the source it was read from, and the
   character offsets [tb, te) of that slice *)
Record tok := { ttype : nat; ttext : str; traw : str; tb : nat; te : nat }.

Inductive lexres := LOk (ts : list tok) | LAssert | LIndex | LFuel.   (* LAssert: Errors.Syntax for a character of no token domain; LIndex: not produced any more *)

Section WithDef.
Variable D : tokdef.

Fixpoint take_while (cls : str) (t : str) : nat :=
  match t with c :: r => if mem c cls then S (take_while cls r) else 0 | [] => 0 end.

Definition first_pair (pairs : list (str * str)) (t : str) : option (str * str) :=
  List.find (fun p => starts (fst p) t) pairs.

(* analyze_domain: first domain of the dispatch order whose analyzer accepts at this position *)
Definition accepts (d : nat) (t : str) : bool :=
  match t with
  | [] => false
  | c :: _ =>
      match d with
      | 0 => mem c (white_space D)
      | 1 => match first_pair (comment D) t with Some _ => true | None => false end
      | 2 => match first_pair (quote D) t with Some _ => true | None => false end
      | 3 => mem c (number D)
      | 4 => mem c (identifier D)
      | 5 => mem c (symbol D)
      | _ => false
      end
  end.
Definition analyze (t : str) : option nat := List.find (fun d => accepts d t) (analyze_order D).

(* str.find(sub, from) on the suffix: offset (relative to the suffix start) of the first occurrence at or after `from` *)
Fixpoint find_from (fuel : nat) (sub t : str) (from : nat) : option nat :=
  match from with
  | S k => match t with [] => None | _ :: r => option_map S (find_from fuel sub r k) end
  | 0 => find_sub fuel sub t
  end.
Definition findf (sub t : str) (from : nat) : option nat := find_from (length t) sub t from.

(* parse_comment: length consumed *)
Definition comment_len (t : str) : nat :=
  match first_pair (comment D) t with
  | Some (o, c) => match findf c t (length o) with
                   | Some e => if str_eqb c [ascii_of_nat 10] then e else e + length c
                   | None => length t
                   end
  | None => 1
  end.

(* parse_quote: a closing quote is escaped when an odd number of backslashes precedes it
   (counted back to the current scan position) *)
Fixpoint count_bs (t : str) (lo : nat) (k : nat) (fuel : nat) : nat :=
  (* number of consecutive backslashes at positions k-1, k-2, ... >= lo *)
  match fuel with
  | 0 => 0
  | S f => match k with
           | 0 => 0
           | S k' => if Nat.leb lo k' && Ascii.eqb (nth_c t k') "\"%char then S (count_bs t lo k' f) else 0
           end
  end.
Fixpoint quote_loop (fuel : nat) (c : str) (t : str) (e : nat) : nat :=
  match fuel with
  | 0 => e
  | S f =>
      if Nat.ltb e (length t) then
        match findf c t e with
        | None => e
        | Some idx =>
            let escapes := count_bs t e idx (S idx) in
            let e' := idx + length c in
            if Nat.even escapes then e' else quote_loop f c t e'
        end
      else e
  end.
Definition quote_len (t : str) : nat :=
  match first_pair (quote D) t with
  | Some (o, c) => Nat.min (length t) (quote_loop (S (length t)) c t (length o))
  | None => 1
  end.

Fixpoint index_str (x : str) (l : list str) (i : nat) : option nat :=
  match l with [] => None | y :: r => if str_eqb x y then Some i else index_str x r (S i) end.

(* parse_symbol: (length, type, is the unary-minus special) *)
Definition symbol_tok (t : str) : option (nat * nat * bool) :=
  let try (n : nat) := if Nat.leb n (length t) then index_str (firstn n t) (combined_symbols D) 0 else None in
  match try 3 with
  | Some off => Some (3, T_BeginCombine + off, false)
  | None =>
      match try 2 with
      | Some off => Some (2, T_BeginCombine + off, false)
      | None =>
          match t with
          | c :: r =>
              let ty := symbol_base + match index_of c (symbol D) with Some i => i | None => 0 end in
              if Nat.eqb ty T_Minus then
                match r with
                | [] => Some (1, ty, false)
                | n :: _ => Some (1, ty, negb (mem n (white_space D)))
                end
              else Some (1, ty, false)
          | [] => None
          end
      end
  end.

(* one token at the head of a non-empty suffix *)
Definition lex_one (t : str) (off : nat) : option (option (nat * tok)) :=
  (* outer None = AssertionError (no domain); inner None = IndexError *)
  match analyze t with
  | None => None
  | Some d =>
      let mk (n0 ty : nat) (text : str) := let n := Nat.min n0 (length t) in
                                           Some (Some (n, {| ttype := ty; ttext := text; traw := firstn n t; tb := off; te := off + n |})) in
      match d with
      | 0 => let n := take_while (white_space D) t in
             let txt := firstn n t in
             mk n (if mem (ascii_of_nat 10) txt then T_LineBreak else T_WhiteSpace) txt
      | 1 => let n := comment_len t in mk n T_Comment (firstn n t)
      | 2 => let n := quote_len t in
             mk n (match t with "/"%char :: _ => T_Regexp | _ => T_String end) (firstn n t)
      | 3 => let n := take_while (number D) t in
             mk n (if mem "."%char (firstn n t) then T_Decimal else T_Digit) (firstn n t)
      | 4 => let n := take_while (identifier D) t in mk n T_Name (firstn n t)
      | _ => match symbol_tok t with
             | None => Some None
             | Some (n, ty, unary) => mk n ty (if unary then S_OpUnaryMinus else firstn n t)
             end
      end
  end.

Fixpoint lex_loop (fuel : nat) (t : str) (off : nat) (acc : list tok) : lexres :=
  match t with
  | [] => LOk (rev acc)
  | _ :: _ =>
      match fuel with
      | 0 => LFuel
      | S f =>
          match lex_one t off with
          | None => LAssert
          | Some None => LIndex
          | Some (Some (n, k)) => lex_loop f (drop n t) (off + n) (k :: acc)
          end
      end
  end.
(* Lexer.parse_impl *)
Definition lex (src : str) : lexres := lex_loop (length src) src 0 [].

(* ---- post_filter ---- *)
Definition is_lb (o : option tok) : bool := match o with Some k => Nat.eqb (ttype k) T_LineBreak | None => false end.
Definition joined (a b : tok) : tok := {| ttype := ttype a; ttext := ttext a ++ ttext b; traw := traw a ++ traw b; tb := tb b; te := te b |}.

(* does this filter empty the token? regular-expression filters need a backslash in the token (checked
   by the translator on the pattern), which white space tokens never hold *)
Definition to_empty (pat : str) (idx num : nat) : bool :=
  if str_eqb pat ["*"%char] then true
  else if str_eqb pat match_begin_or_end then Nat.eqb idx 0 || Nat.eqb idx (num - 1)
  else false.

(* the while loop of one filter over new_tokens; `done` holds the tokens before index, reversed *)
Fixpoint filter_loop (fuel : nat) (ty : nat) (pat : str) (done : list tok) (rest : list tok) : list tok :=
  match fuel with
  | 0 => rev done ++ rest
  | S f =>
      match rest with
      | [] => rev done
      | k :: after =>
          let idx := length done in
          let num := idx + length rest in
          if negb (Nat.eqb (ttype k) ty) || negb (to_empty pat idx num) then filter_loop f ty pat (k :: done) after
          else
            let nxt := match after with n :: _ => Some n | [] => None end in
            let prv := match done with p :: _ => Some p | [] => None end in
            if Nat.eqb idx 0 && is_lb nxt then filter_loop f ty pat done (tl after)
            else if Nat.eqb idx (num - 1) && is_lb prv then filter_loop f ty pat (tl done) after
            else if is_lb prv && is_lb nxt then
              match done, after with
              | p :: done', n :: after' => filter_loop f ty pat (joined p n :: done') after'
              | _, _ => filter_loop f ty pat done after
              end
            else filter_loop f ty pat done after
      end
  end.
Definition post_filter (ts : list tok) : list tok :=
  fold_left (fun acc pf => filter_loop (S (2 * length acc)) (fst pf) (snd pf) [] acc) (post_filters D) ts.

Definition eof_tok : tok := {| ttype := T_EOF; ttext := S_EOF; traw := []; tb := 0; te := 0 |}.
(* Lexer.parse *)
Definition lexer_parse (src : str) : lexres :=
  match lex src with LOk ts => LOk (post_filter ts ++ [eof_tok]) | other => other end.

(* ---- Tokenizer._rebuild ---- *)
Record ctxt := { nest : nat; enclosure : Z; indents : list nat }.   (* indents: stack of block widths, innermost first *)
Fixpoint pop_deeper (st : list nat) (w : nat) : list nat := match st with top :: r => if Nat.ltb w top then pop_deeper r w else st | [] => [] end.
Definition to_nest (st : list nat) (w : nat) : list nat :=
  let st1 := pop_deeper st w in
  if Nat.ltb 0 w && match st1 with top :: _ => Nat.ltb top w | [] => true end then w :: st1 else st1.
Definition domain_of (ty : nat) : nat := let d := Nat.land (Nat.shiftr ty 4) 15 in if Nat.eqb d 15 then 99 else Nat.min d domain_max.

Fixpoint last_line_len (t : str) (cur : nat) : nat :=
  match t with [] => cur | c :: r => if Ascii.eqb c (ascii_of_nat 10) then last_line_len r 0 else last_line_len r (S cur) end.

Definition mk (ty : nat) (text : str) (src : tok) : tok := {| ttype := ty; ttext := text; traw := []; tb := tb src; te := te src |}.

Definition rebuild_step (c : ctxt) (k : tok) : ctxt * list tok :=
  let d := domain_of (ttype k) in
  if Nat.eqb d 0 then
    if Z.ltb 0 (enclosure c) then (c, [])
    else if Nat.eqb (ttype k) T_WhiteSpace then (c, [])
    else if Nat.eqb (ttype k) T_EOF then
      ({| nest := 0; enclosure := enclosure c; indents := indents c |}, mk T_NewLine [ascii_of_nat 10] k :: repeat (mk T_Dedent S_Dedent k) (nest c))
    else
      let indent := last_line_len (ttext k) 0 in
      let st := to_nest (indents c) indent in
      let next := length st in
      if Nat.ltb (nest c) next then
        ({| nest := next; enclosure := enclosure c; indents := st |}, [mk T_NewLine [ascii_of_nat 10] k; mk T_Indent S_Indent k])
      else if Nat.ltb next (nest c) then
        ({| nest := next; enclosure := enclosure c; indents := st |}, mk T_NewLine [ascii_of_nat 10] k :: repeat (mk T_Dedent S_Dedent k) (nest c - next))
      else ({| nest := nest c; enclosure := enclosure c; indents := st |}, [mk T_NewLine [ascii_of_nat 10] k])
  else if Nat.eqb d 5 then
    let ty := ttype k in
    let e := if Nat.eqb ty T_ParenL || Nat.eqb ty T_BraceL || Nat.eqb ty T_BracketL then (enclosure c + 1)%Z
             else if Nat.eqb ty T_ParenR || Nat.eqb ty T_BraceR || Nat.eqb ty T_BracketR then (enclosure c - 1)%Z
             else enclosure c in
    ({| nest := nest c; enclosure := e; indents := indents c |}, [k])
  else (c, [k]).

Fixpoint rebuild_loop (c : ctxt) (ts : list tok) : list tok :=
  match ts with
  | [] => []
  | k :: r => let '(c', out) := rebuild_step c k in out ++ rebuild_loop c' r
  end.
Definition rebuild (ts : list tok) : list tok := rebuild_loop {| nest := 0; enclosure := 0%Z; indents := [] |} ts.

(* Tokenizer.parse *)
Definition tokenize (src : str) : lexres :=
  match lexer_parse src with LOk ts => LOk (rebuild ts) | other => other end.
End WithDef.

(* ---- SourceMap.make(source, begin, end): (line, column) of both offsets (Base/LineCol.v) ---- *)
Definition linecol (src : str) (p : nat) : nat * nat := lc src p.
Definition source_map (src : str) (b e : nat) : (nat * nat) * (nat * nat) := (linecol src b, linecol src e).
