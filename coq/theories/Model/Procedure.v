(* C09 model: rogw/tranp/semantics/procedure.py (exec / __exec_impl / __make_event / stack of stacks) and
   Node.procedural (syntax/node/node.py:236-275).  Executable definitions only. *)
From Coq Require Import List Arith NArith Bool.
Import ListNotations.

(* a node: id, ITerminal flag (not can_expand), expandable properties in prop_keys() order as
   (declared as list?, nodes the property yields), nodes of _under_expand() *)
Inductive node : Type := Nd : N -> bool -> list (bool * list node) -> list node -> node.

Definition node_id (n : node) : N := match n with Nd i _ _ _ => i end.

Section Exec.
Variable R : Type.
(* value of one event key: a single result, a list of results; EBad = a single-valued property that did
   not yield exactly one node (cannot happen for real Node classes; kept so that the model is total) *)
Inductive ev := EOne (r : R) | EMany (rs : list R) | EBad.
Variable h : N -> list ev -> R.   (* the handler: node id, event values in prop_keys() order *)

Definition mk_ev (b : bool) (rs : list R) : ev :=
  if b then EMany rs else match rs with [r] => EOne r | _ => EBad end.

(* specification: every handler gets exactly the results of the nodes its own properties yield *)
Fixpoint eval (n : node) : R :=
  match n with
  | Nd i _ ps _ => h i (map (fun p => mk_ev (fst p) (map eval (snd p))) ps)
  end.

(* Node.procedural(): [] for terminals; else the property nodes if they yield any node, else the
   under nodes; each preceded by its own expansion *)
Fixpoint flat (n : node) : list node :=
  match n with
  | Nd _ term ps un =>
      let fp := flat_map (fun p => flat_map (fun c => flat c ++ [c]) (snd p)) ps in
      let fu := flat_map (fun c => flat c ++ [c]) un in
      if term then [] else match flat_map (@snd bool (list node)) ps with [] => fu | _ => fp end
  end.

(* [self.__stack_pop() for _ in range(k)] then list(reversed(...)) *)
Fixpoint popn (k : nat) (st : list R) : option (list R * list R) :=
  match k with
  | 0 => Some ([], st)
  | S k' => match st with
            | [] => None
            | r :: st' => match popn k' st' with
                          | Some (rs, st'') => Some (rs ++ [r], st'')
                          | None => None
                          end
            end
  end.

(* __make_event: properties taken in REVERSED order; list length re-read from the node *)
Fixpoint mk_events (rps : list (bool * list node)) (st : list R) (acc : list ev) : option (list ev * list R) :=
  match rps with
  | [] => Some (acc, st)
  | p :: rps' =>
      let k := if fst p then length (snd p) else 1 in
      match popn k st with
      | Some (rs, st') => mk_events rps' st' (mk_ev (fst p) rs :: acc)
      | None => None      (* AssertionError -> Errors.Logic 'Stack is empty' *)
      end
  end.

Definition step (st : option (list R)) (n : node) : option (list R) :=
  match st with
  | None => None
  | Some s => match n with
              | Nd i _ ps _ => match mk_events (rev ps) s [] with
                          | Some (evs, s') => Some (h i evs :: s')
                          | None => None
                          end
              end
  end.

Definition run (ns : list node) (s : list R) : option (list R) := fold_left step ns (Some s).

(* exec(root): a fresh stack is pushed on the stack of stacks, the flattened nodes + root are
   processed, exactly one result must remain; the outer stacks are untouched *)
Definition exec_on (stacks : list (list R)) (t : node) : option (R * list (list R)) :=
  match run (flat t ++ [t]) [] with Some [r] => Some (r, stacks) | _ => None end.
Definition exec (t : node) : option R := option_map fst (exec_on [] t).
End Exec.

(* a concrete result type for the correspondence: the call tree of handler invocations *)
Inductive res := Res : N -> list (ev res) -> res.
Definition record : N -> list (ev res) -> res := Res.

Fixpoint res_eqb (a b : res) : bool :=
  match a, b with
  | Res i ea, Res j eb =>
      N.eqb i j &&
      (fix evs (x y : list (ev res)) : bool :=
         match x, y with
         | [], [] => true
         | EOne _ r :: x', EOne _ r' :: y' => res_eqb r r' && evs x' y'
         | EMany _ rs :: x', EMany _ rs' :: y' =>
             (fix many (p q : list res) : bool :=
                match p, q with
                | [], [] => true
                | u :: p', v :: q' => res_eqb u v && many p' q'
                | _, _ => false
                end) rs rs' && evs x' y'
         | EBad _ :: x', EBad _ :: y' => evs x' y'
         | _, _ => false
         end) ea eb
  end.

(* class-level part of the side condition over a node schema (class, ITerminal?, props) *)
Definition schema_ok {A B} (schema : list (A * bool * list B)) : bool :=
  forallb (fun c => match c with (_, term, props) => negb term || match props with [] => true | _ => false end end) schema.
