(* C06 model: bin/transpile.py Runner (target selection by header comparison, forced runs), the header
   extraction of data/meta/header.py (try_from_content), the output path rules (fetch_output_path).
   Rendering and hashing are Section variables. Executable definitions only. *)
From Tranp Require Export Base.Str.
Local Open Scope nat_scope.

(* ---- header text: "@tranp.meta: {json}" somewhere in the first lines of an output ---- *)
Definition tag : str := s "@tranp.meta".
Definition nlc : ascii := ascii_of_nat 10.

(* offset of the last occurrence of c in t[b:e] (str.rfind(c, b, e)); None = -1 *)
Fixpoint rfind_in (c : ascii) (t : str) (pos b e : nat) (best : option nat) : option nat :=
  match t with
  | [] => best
  | x :: r => rfind_in c r (S pos) b e (if Nat.leb b pos && Nat.ltb pos e && Ascii.eqb x c then Some pos else best)
  end.

(* MetaHeader.try_from_content up to the JSON decoding: the text handed to json.loads; None = no header *)
Definition header_json (content : str) : option str :=
  match find tag content with
  | None => None
  | Some hb =>
      let jb := hb + length tag + 1 in
      let lb := match find [nlc] (drop jb content) with Some k => jb + k | None => length content - 1 end in
      let je := match rfind_in "}"%char content 0 jb lb None with Some k => S k | None => 0 end in
      Some (firstn (je - jb) (drop jb content))
  end.
Definition header_line (json : str) : str := tag ++ s ": " ++ json.

(* ---- the runner over abstract modules ---- *)
Section Run.
  Variable src : Type.                        (* a source text *)
  Variable hash : src -> nat.                 (* md5 of the file *)
  Variable nmods : nat.
  Variable imports : nat -> list nat.         (* direct imports of a module *)
  (* the text the transpiler writes for module m given all current sources, without the header *)
  Variable render : nat -> (nat -> src) -> nat.

  Record file := { fhash : nat; fbody : nat }.        (* recorded header identity (module hash; path, versions fixed), body *)
  Record state := { sources : nat -> src; outs : nat -> option file }.

  Definition upd {V} (f : nat -> V) (k : nat) (v : V) : nat -> V := fun x => if Nat.eqb x k then v else f x.

  (* can_transpile: no output, or its header differs from the current one *)
  Definition can_transpile (st : state) (m : nat) : bool :=
    match outs st m with None => true | Some f => negb (Nat.eqb (fhash f) (hash (sources st m))) end.
  Definition write (st : state) (m : nat) : state :=
    {| sources := sources st; outs := upd (outs st) m (Some {| fhash := hash (sources st m); fbody := render m (sources st) |}) |}.
  Definition run (force : bool) (st : state) : state :=
    fold_left (fun s m => if force || can_transpile st m then write s m else s) (seq 0 nmods) st.

  Inductive op := Edit (m : nat) (v : src) | Run | RunF | DeleteOut (m : nat).
  Definition step (st : state) (o : op) : state :=
    match o with
    | Edit m v => {| sources := upd (sources st) m v; outs := outs st |}
    | Run => run false st
    | RunF => run true st
    | DeleteOut m => {| sources := sources st; outs := upd (outs st) m None |}
    end.
  Definition exec (st : state) (h : list op) : state := fold_left step h st.
End Run.

(* ---- output path rules (fetch_output_path) ---- *)
(* condition.replace('*', '.+') used with re.fullmatch: only a trailing '*' is a glob; as written the
   other characters of the condition are regex characters too ('.' matches any character) *)
Fixpoint glob_match (pat : str) (t : str) : bool :=
  match pat with
  | [] => match t with [] => true | _ => false end
  | ["*"%char] => match t with [] => false | _ => true end
  | "."%char :: p' => match t with _ :: t' => glob_match p' t' | [] => false end
  | c :: p' => match t with x :: t' => Ascii.eqb c x && glob_match p' t' | [] => false end
  end.
Definition ends_with_star (c : str) : bool := match rev c with "*"%char :: _ => true | _ => false end.
Fixpoint fetch_output_path (rules : list (str * str)) (fallback : str) (filepath : str) : str :=
  match rules with
  | [] => fallback ++ "/"%char :: filepath
  | (cond, dir) :: r =>
      if ends_with_star cond && glob_match cond filepath then dir ++ "/"%char :: filepath
      else if starts cond filepath then dir ++ "/"%char :: drop (length cond) filepath
      else fetch_output_path r fallback filepath
  end.
