(* C04 model: module/modules.py (load with recursive dependency loading, unload with the cascade of the
   fix: commit), providers/module.py (unload removes entrypoint and symbols), over abstract pure
   computations. Executable definitions only. *)
From Coq Require Import List Arith Bool.
Import ListNotations.

Section S.
  Variable closure : nat -> list nat.     (* a module and everything it imports, transitively (load order) *)
  Variable text : nat -> nat.             (* what a fresh process emits for a module (a function of the sources) *)

  Definition mem (x : nat) (l : list nat) : bool := existsb (Nat.eqb x) l.
  (* insertion keeps first-load order, like the dict of Modules *)
  Fixpoint add_all (l : list nat) (loaded : list nat) : list nat :=
    match l with [] => loaded | x :: r => add_all r (if mem x loaded then loaded else loaded ++ [x]) end.

  Definition load (loaded : list nat) (m : nat) : list nat := add_all (closure m) loaded.
  (* unload m together with every loaded module whose imports reach m *)
  Definition unload (loaded : list nat) (m : nat) : list nat :=
    if mem m loaded then filter (fun x => negb (mem m (closure x))) loaded else loaded.
  (* the behaviour before the fix: only the module itself goes *)
  Definition unload_old (loaded : list nat) (m : nat) : list nat := filter (fun x => negb (Nat.eqb x m)) loaded.

  Inductive op := Load (m : nat) | Unload (m : nat) | Transpile (m : nat).
  Inductive out := OUnit | OText (t : nat) | OUnresolved.
  (* transpiling needs the symbols of the module and of everything it imports *)
  Definition transpile (loaded : list nat) (m : nat) : out :=
    if forallb (fun d => mem d loaded) (closure m) then OText (text m) else OUnresolved.

  Definition step (unl : list nat -> nat -> list nat) (loaded : list nat) (o : op) : list nat * out :=
    match o with
    | Load m => (load loaded m, OUnit)
    | Unload m => (unl loaded m, OUnit)
    | Transpile m =>
        (* Modules.load returns a module that is already loaded as it is; otherwise loads it with its imports *)
        let l2 := if mem m loaded then loaded else load loaded m in (l2, transpile l2 m)
    end.
  Fixpoint run (unl : list nat -> nat -> list nat) (loaded : list nat) (h : list op) : list out :=
    match h with [] => [] | o :: r => let '(l2, b) := step unl loaded o in b :: run unl l2 r end.
  Fixpoint final (unl : list nat -> nat -> list nat) (loaded : list nat) (h : list op) : list nat :=
    match h with [] => loaded | o :: r => final unl (fst (step unl loaded o)) r end.
End S.
