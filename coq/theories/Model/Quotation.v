(* C16 model: view/error_render.py (ErrorRender.Quotation: minus-one shift of lark's 1-based span, single-
   vs multi-line range, tab -> space, caret line) and implements/syntax/tranp/syntax.py (ErrorCollector:
   line and caret of the cause token). Executable definitions only. *)
From Tranp Require Export Base.LineCol.
Local Open Scope nat_scope.

Definition span := (nat * nat * nat * nat)%type.      (* begin line, begin column, end line, end column *)

Definition tab_to_space (l : str) : str := map (fun c => if Ascii.eqb c (ascii_of_nat 9) then " "%char else c) l.
Definition spaces (n : nat) : str := repeat " "%char n.
Definition carets (n : nat) : str := repeat "^"%char n.

(* __cause_range on a 0-based span, given the reported line *)
Definition cause_range (line : str) (sp : span) : nat * nat :=
  match sp with (bl, bc, el, ec) => (bc, if Nat.eqb bl el then bc + (ec - bc) else length line) end.
(* __build_line_mark *)
Definition line_mark (line : str) (sp : span) : str :=
  let '(b, e) := cause_range line sp in spaces b ++ carets (Nat.max 1 (e - b)).

(* ErrorRender.__build_quotation + Quotation: node.source_map is 1-based (lark); the file is read in
   lines, '\n' dropped, tabs replaced. Result: (line number printed, quoted line, caret line) *)
Definition quotation (src : str) (sm : span) : nat * str * str :=
  match sm with (bl1, bc1, el1, ec1) =>
    let sp := (bl1 - 1, bc1 - 1, el1 - 1, ec1 - 1) in
    let line := tab_to_space (nth_line src (bl1 - 1) []) in
    (bl1 - 1 + 1, line, line_mark line sp)
  end.

(* ErrorCollector._quotation_lines for a cause token with a 0-based span; the EOF token has line -1,
   which Python's lines[-1] turns into the last line: is_eof selects it *)
Fixpoint count_lines (t : str) : nat := match t with [] => 1 | x :: r => (if Ascii.eqb x nl then 1 else 0) + count_lines r end.
Definition collector_lines (src : str) (sp : span) : str * str :=
  match sp with (bl, bc, el, ec) =>
    let line := nth_line src bl [] in
    (line, line_mark line sp)
  end.

(* columns marked by a caret line *)
Fixpoint marked_cols (m : str) (i : nat) : list nat :=
  match m with [] => [] | c :: r => (if Ascii.eqb c "^"%char then [i] else []) ++ marked_cols r (S i) end.
