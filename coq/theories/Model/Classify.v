(* Which node class a function_def gets (syntax/node/definition/statement_compound.py, match_feature of
   ClassMethod / Constructor / Method / Closure / Function, tried in the registration order of
   providers/syntax/resolver.py - generated). The path is the de-identified full path of the function_def. *)
From Coq Require Import String Ascii List Bool.
Import ListNotations.
From Tranp Require Import Base.Str.
Local Open Scope string_scope.

Definition is_scope_tag (e : str) : bool := str_eqb e (s "class_def_raw") || str_eqb e (s "function_def_raw").
(* _outer_scope_tag: the nearest class_def_raw / function_def_raw among the ancestors (the last one on the path) *)
Definition outer_scope_tag (path : list str) : option str :=
  fold_left (fun acc e => if is_scope_tag e then Some e else acc) (removelast path) None.
Definition in_class (path : list str) : bool :=
  match outer_scope_tag path with Some t => str_eqb t (s "class_def_raw") | None => false end.
Definition in_function (path : list str) : bool :=
  match outer_scope_tag path with Some t => str_eqb t (s "function_def_raw") | None => false end.

Record fdef := { f_path : list str; f_decos : list str; f_name : str; f_first : option str }.

Definition matches (cls : str) (f : fdef) : bool :=
  if str_eqb cls (s "ClassMethod") then in_class (f_path f) && existsb (str_eqb (s "classmethod")) (f_decos f)
  else if str_eqb cls (s "Constructor") then in_class (f_path f) && str_eqb (f_name f) (s "__init__")
  else if str_eqb cls (s "Method") then
    in_class (f_path f) && negb (str_eqb (f_name f) (s "__init__")) && match f_first f with Some p => str_eqb p (s "self") | None => false end
  else if str_eqb cls (s "Closure") then in_function (f_path f)
  else str_eqb cls (s "Function").
Fixpoint first_accepting (order : list str) (f : fdef) : option str :=
  match order with [] => None | c :: r => if matches c f then Some c else first_accepting r f end.

(* specification: what Python semantics dictates, on a structural context *)
Inductive scope := SClass | SFunc.
Record pctx := { p_scopes : list (scope * list str) (* innermost first; each with the compound-statement tags below it *);
                 p_decos : list str; p_name : str; p_first : option str }.
Definition python_kind (c : pctx) : str :=
  match p_scopes c with
  | (SClass, _) :: _ =>
      if existsb (str_eqb (s "classmethod")) (p_decos c) then s "ClassMethod"
      else if str_eqb (p_name c) (s "__init__") then s "Constructor"
      else match p_first c with
           | Some p => if str_eqb p (s "self") then s "Method" else s "Function"
           | None => s "Function"
           end
  | (SFunc, _) :: _ => s "Closure"
  | [] => s "Function"
  end.
Definition scope_tags (sc : scope) : list str :=
  match sc with SClass => [s "class_def"; s "class_def_raw"; s "block"] | SFunc => [s "function_def"; s "function_def_raw"; s "block"] end.
Fixpoint scopes_path (l : list (scope * list str)) : list str :=
  match l with [] => [s "file_input"] | (sc, filler) :: r => scopes_path r ++ scope_tags sc ++ filler end.
Definition path_of (c : pctx) : list str := scopes_path (p_scopes c) ++ [s "function_def"].
Definition fdef_of (c : pctx) : fdef := {| f_path := path_of c; f_decos := p_decos c; f_name := p_name c; f_first := p_first c |}.
Definition fillers_ok (c : pctx) : Prop := Forall (fun x => Forall (fun e => is_scope_tag e = false) (snd x)) (p_scopes c).
