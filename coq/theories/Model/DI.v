(* C19 model: rogw/tranp/lang/di.py (LazyDI over DI, after the two fix: commits) and its reference model.
   One generic machine (resolve / invoke / operation sequences over a pool of containers) is instantiated
   twice: with the concrete three-table container of di.py and with the single-map specification.
   Executable definitions only. *)
From Coq Require Import List Arith Bool.
Import ListNotations.

Definition sym := nat.
Inductive ptype := PSym (s : sym) | PInt | PStr.                 (* annotation of a factory parameter *)
Record fac := { fname : nat; fret : sym; fparams : list ptype }.  (* factory: name, class of its product, parameters *)
Inductive val := VObj (id : nat) (cls : sym) | VInt | VStr.

Definition isinstance (v : val) (p : ptype) : bool :=
  match v, p with
  | VObj _ c, PSym s => Nat.eqb c s
  | VInt, PInt => true
  | VStr, PStr => true
  | _, _ => false
  end.
(* __assert_invoke: as many remaining arguments as remaining annotations, each an instance *)
Fixpoint check (rest : list ptype) (args : list val) : bool :=
  match rest, args with
  | [], [] => true
  | p :: r, a :: q => isinstance a p && check r q
  | _, _ => false
  end.

Definition upd {V} (m : sym -> option V) (s : sym) (v : option V) : sym -> option V :=
  fun x => if Nat.eqb x s then v else m x.
Definition is_some {V} (o : option V) : bool := match o with Some _ => true | None => false end.

Inductive res (A : Type) := Ok (a : A) | VErr | Fuel.   (* value / ValueError / recursion bound hit *)
Arguments Ok {A} a. Arguments VErr {A}. Arguments Fuel {A}.

(* what a container must provide *)
Record impl (C : Type) := {
  known : C -> sym -> bool;                       (* can_resolve *)
  injector : C -> sym -> option fac * C;          (* prologue of resolve: proxy-bind a lazy definition, give the factory *)
  get_inst : C -> sym -> option val;
  set_inst : C -> sym -> val -> C;
  bind : C -> sym -> fac -> option C;             (* None = ValueError *)
  unbind : C -> sym -> C;
  rebind : C -> sym -> fac -> option C;
  combine : C -> C -> C;
  lazy_new : list (sym * fac) -> C                (* LazyDI.instantiate(definitions) *)
}.

Section Machine.
  Variable C : Type.
  Variable I : impl C.
  Definition st := (C * nat)%type.   (* container, number of objects created so far *)

  (* leading parameters whose annotation is resolvable are resolved, in order; stop at the first other *)
  Fixpoint curry (rs : st -> sym -> res val * st) (ps : list ptype) (s0 : st) (acc : list val)
    : res (list val * list ptype) * st :=
    match ps with
    | PSym s :: r =>
        if known C I (fst s0) s then
          match rs s0 s with
          | (Ok v, s1) => curry rs r s1 (acc ++ [v])
          | (VErr, s1) => (VErr, s1)
          | (Fuel, s1) => (Fuel, s1)
          end
        else (Ok (acc, ps), s0)
    | _ => (Ok (acc, ps), s0)
    end.

  Definition invoke_with (rs : st -> sym -> res val * st) (s0 : st) (f : fac) (args : list val)
    : res (val * list val) * st :=
    match curry rs (fparams f) s0 [] with
    | (Ok (cur, rest), (c, n)) =>
        if check rest args then (Ok (VObj n (fret f), cur ++ args), (c, S n)) else (VErr, (c, n))
    | (VErr, s1) => (VErr, s1)
    | (Fuel, s1) => (Fuel, s1)
    end.

  Fixpoint resolve (fuel : nat) (s0 : st) (s : sym) : res val * st :=
    match fuel with
    | 0 => (Fuel, s0)
    | S k =>
        match injector C I (fst s0) s with
        | (None, c1) => (VErr, (c1, snd s0))
        | (Some f, c1) =>
            match get_inst C I c1 s with
            | Some v => (Ok v, (c1, snd s0))
            | None =>
                match invoke_with (resolve k) (c1, snd s0) f [] with
                | (Ok (v, _), (c2, n2)) => (Ok v, (set_inst C I c2 s v, n2))
                | (VErr, s2) => (VErr, s2)
                | (Fuel, s2) => (Fuel, s2)
                end
            end
        end
    end.
  Definition invoke (fuel : nat) (s0 : st) (f : fac) (args : list val) := invoke_with (resolve fuel) s0 f args.

  (* ---- operation sequences over a pool of containers ---- *)
  Inductive op :=
  | ONew (defs : list (sym * fac))
  | OBind (c : nat) (s : sym) (f : fac) | OUnbind (c : nat) (s : sym) | ORebind (c : nat) (s : sym) (f : fac)
  | OResolve (c : nat) (s : sym) | OCan (c : nat) (s : sym) | OInvoke (c : nat) (f : fac) (args : list val)
  | OClone (c : nat) | OCombine (a b : nat).
  Inductive obs := BUnit | BErr | BFuel | BBad | BBool (b : bool) | BVal (v : val) | BInv (v : val) (args : list val).

  Definition pool := (list C * nat)%type.
  Fixpoint set_nth (l : list C) (i : nat) (c : C) : list C :=
    match l, i with
    | [], _ => []
    | _ :: r, 0 => c :: r
    | x :: r, S k => x :: set_nth r k c
    end.

  Definition FUEL := 32.
  Definition step (p : pool) (o : op) : pool * obs :=
    let '(cs, n) := p in
    match o with
    | ONew defs => ((cs ++ [lazy_new C I defs], n), BUnit)
    | OBind i s f => match nth_error cs i with
                     | Some c => match bind C I c s f with Some c' => ((set_nth cs i c', n), BUnit) | None => (p, BErr) end
                     | None => (p, BBad) end
    | OUnbind i s => match nth_error cs i with Some c => ((set_nth cs i (unbind C I c s), n), BUnit) | None => (p, BBad) end
    | ORebind i s f => match nth_error cs i with
                       | Some c => match rebind C I c s f with Some c' => ((set_nth cs i c', n), BUnit) | None => (p, BErr) end
                       | None => (p, BBad) end
    | OResolve i s => match nth_error cs i with
                      | Some c => match resolve FUEL (c, n) s with
                                  | (Ok v, (c', n')) => ((set_nth cs i c', n'), BVal v)
                                  | (VErr, (c', n')) => ((set_nth cs i c', n'), BErr)
                                  | (Fuel, (c', n')) => ((set_nth cs i c', n'), BFuel)
                                  end
                      | None => (p, BBad) end
    | OCan i s => match nth_error cs i with Some c => (p, BBool (known C I c s)) | None => (p, BBad) end
    | OInvoke i f args => match nth_error cs i with
                          | Some c => match invoke FUEL (c, n) f args with
                                      | (Ok (v, a), (c', n')) => ((set_nth cs i c', n'), BInv v a)
                                      | (VErr, (c', n')) => ((set_nth cs i c', n'), BErr)
                                      | (Fuel, (c', n')) => ((set_nth cs i c', n'), BFuel)
                                      end
                          | None => (p, BBad) end
    | OClone i => match nth_error cs i with Some c => ((cs ++ [c], n), BUnit) | None => (p, BBad) end
    | OCombine a b => match nth_error cs a, nth_error cs b with
                      | Some x, Some y => ((cs ++ [combine C I x y], n), BUnit)
                      | _, _ => (p, BBad) end
    end.

  Fixpoint run (p : pool) (ops : list op) : list obs :=
    match ops with
    | [] => []
    | o :: r => let '(p', b) := step p o in b :: run p' r
    end.
End Machine.

(* ---- the container of di.py: __definitions (by-name), __injectors, __instances ---- *)
Record cont := { defs : sym -> option fac; inj : sym -> option fac; ins : sym -> option val }.

Definition c_injector (c : cont) (s : sym) : option fac * cont :=
  match inj c s with
  | Some f => (Some f, c)
  | None => match defs c s with
            | Some f0 => (Some f0, {| defs := defs c; inj := upd (inj c) s (Some f0); ins := ins c |})   (* __bind_proxy *)
            | None => (None, c)
            end
  end.
Definition c_bind (c : cont) (s : sym) (f : fac) : option cont :=
  let d := if is_some (defs c s) then defs c else upd (defs c) s (Some f) in
  if is_some (inj c s) then None else Some {| defs := d; inj := upd (inj c) s (Some f); ins := ins c |}.
Definition c_unbind (c : cont) (s : sym) : cont :=
  let d := if is_some (defs c s) then upd (defs c) s None else defs c in
  if is_some (inj c s) then {| defs := d; inj := upd (inj c) s None; ins := upd (ins c) s None |}
  else {| defs := d; inj := inj c; ins := ins c |}.
Definition c_rebind (c : cont) (s : sym) (f : fac) : option cont :=
  c_bind (if is_some (inj c s) then c_unbind c s else c) s f.
Definition c_combine (a b : cont) : cont :=
  (* DI.combine: left instances of symbols the right binds are dropped, then right wins;
     LazyDI.combine: by-name definitions of the right that are not bound there discard the left's binding *)
  let ins0 := fun x => match ins b x with Some v => Some v | None => if is_some (inj b x) then None else ins a x end in
  let inj0 := fun x => match inj b x with Some f => Some f | None => inj a x end in
  let lazy := fun x => is_some (defs b x) && negb (is_some (inj b x)) in
  {| defs := fun x => match defs b x with Some f => Some f | None => defs a x end;
     inj := fun x => if lazy x then None else inj0 x;
     ins := fun x => if lazy x then None else ins0 x |}.
Fixpoint of_list (l : list (sym * fac)) : sym -> option fac :=
  match l with [] => fun _ => None | (s, f) :: r => fun x => if Nat.eqb x s then Some f else of_list r x end.

Definition conc : impl cont := {|
  known := fun c s => is_some (defs c s);
  injector := c_injector;
  get_inst := fun c s => ins c s;
  set_inst := fun c s v => {| defs := defs c; inj := inj c; ins := upd (ins c) s (Some v) |};
  bind := c_bind; unbind := c_unbind; rebind := c_rebind; combine := c_combine;
  lazy_new := fun l => {| defs := of_list (rev l); inj := fun _ => None; ins := fun _ => None |}
|}.

(* ---- the reference model: one map symbol -> (factory, bound?, instance) per container ---- *)
Record entry := { efac : fac; ebound : bool; einst : option val }.
Definition smap := sym -> option entry.

Definition spec : impl smap := {|
  known := fun m s => is_some (m s);
  injector := fun m s => match m s with
                         | None => (None, m)
                         | Some e => (Some (efac e), upd m s (Some {| efac := efac e; ebound := true; einst := einst e |}))
                         end;
  get_inst := fun m s => match m s with Some e => einst e | None => None end;
  set_inst := fun m s v => match m s with
                           | Some e => upd m s (Some {| efac := efac e; ebound := ebound e; einst := Some v |})
                           | None => m end;
  bind := fun m s f => match m s with
                       | Some e => if ebound e then None else Some (upd m s (Some {| efac := f; ebound := true; einst := None |}))
                       | None => Some (upd m s (Some {| efac := f; ebound := true; einst := None |}))
                       end;
  unbind := fun m s => upd m s None;
  rebind := fun m s f => Some (upd m s (Some {| efac := f; ebound := true; einst := None |}));
  combine := fun a b => fun x => match b x with Some e => Some e | None => a x end;     (* the right operand wins *)
  lazy_new := fun l => fun x => match of_list (rev l) x with Some f => Some {| efac := f; ebound := false; einst := None |} | None => None end
|}.

(* decidable equality of observations, for the correspondence *)
Definition val_eqb (a b : val) : bool :=
  match a, b with VObj i c, VObj j d => Nat.eqb i j && Nat.eqb c d | VInt, VInt => true | VStr, VStr => true | _, _ => false end.
Fixpoint vals_eqb (a b : list val) : bool :=
  match a, b with [], [] => true | x :: a', y :: b' => val_eqb x y && vals_eqb a' b' | _, _ => false end.
Definition obs_eqb (a b : obs) : bool :=
  match a, b with
  | BUnit, BUnit | BErr, BErr | BFuel, BFuel | BBad, BBad => true
  | BBool x, BBool y => Bool.eqb x y
  | BVal x, BVal y => val_eqb x y
  | BInv x p, BInv y q => val_eqb x y && vals_eqb p q
  | _, _ => false
  end.
Fixpoint obss_eqb (a b : list obs) : bool :=
  match a, b with [], [] => true | x :: a', y :: b' => obs_eqb x y && obss_eqb a' b' | _, _ => false end.
