(* C01: how py2cpp renders operator expressions (py2cpp.py on_factor / on_not_compare / proc_binary_operation
   with proc_operand and CppPrecedences; operator spellings of data/cpp/template/operation/*.j2 - both tables
   generated), as a transformation of the Python expression tree (own groups kept) into the C++ expression. *)
From Coq Require Import String Ascii List Bool Arith.
Import ListNotations.
From Tranp Require Import Base.Str Model.Ladder.
Local Open Scope string_scope.
Local Open Scope nat_scope.

Section Impl.
Variable binary_prec : list (str * nat).    (* CppPrecedences.__binaries *)
Variable unary_prec primary_prec : nat.
Variable renames : list (str * str).

Fixpoint assoc {A} (k : str) (l : list (str * A)) : option A :=
  match l with [] => None | (k2, v) :: r => if str_eqb k k2 then Some v else assoc k r end.
Definition rename_op (o : str) : str := match assoc o renames with Some x => x | None => o end.
(* CppPrecedences.by_operator: the precedence an operand position requires (in / not in: 0, never wrapped) *)
Definition prec_bin (o : str) : nat := match assoc o binary_prec with Some p => p | None => 0 end.
(* CppPrecedences.of: the precedence of the C++ expression a node is rendered to *)
Definition prec_of (e : expr str) : nat :=
  match e with
  | Atom _ _ | Par _ _ => primary_prec
  | Un _ _ _ => unary_prec
  | Bin _ o _ _ => match assoc o binary_prec with Some p => p | None => primary_prec end
  end.
Definition is_factor (e : expr str) : bool :=
  match e with Un _ o _ => str_eqb o (s "-") || str_eqb o (s "+") || str_eqb o (s "~") | _ => false end.
Definition wrap (b : bool) (e : expr str) : expr str := if b then Par str e else e.

Fixpoint impl (e : expr str) : expr str :=
  match e with
  | Atom _ n => Atom str n
  | Par _ a => Par str (impl a)
  | Un _ o a => Un str (rename_op o) (wrap ((prec_of a <? unary_prec) || is_factor a) (impl a))
  | Bin _ o a b => Bin str (rename_op o) (wrap (prec_of a <? prec_bin o) (impl a)) (wrap (prec_of b <=? prec_bin o) (impl b))
  end.
Fixpoint rename (e : expr str) : expr str :=
  match e with
  | Atom _ n => Atom str n
  | Par _ a => Par str (rename a)
  | Un _ o a => Un str (rename_op o) (rename a)
  | Bin _ o a b => Bin str (rename_op o) (rename a) (rename b)
  end.
(* every operator of the tree is one py2cpp has a precedence for *)
Fixpoint ops_known (e : expr str) : Prop :=
  match e with
  | Atom _ _ => True
  | Par _ a => ops_known a
  | Un _ o a => (str_eqb o (s "not") || str_eqb o (s "-") || str_eqb o (s "+") || str_eqb o (s "~") = true) /\ ops_known a
  | Bin _ o a b => assoc o binary_prec <> None /\ ops_known a /\ ops_known b
  end.
End Impl.

(* Specification constant: the binary and prefix operator levels of C++20 [expr] (loosest first), restricted to
   the operators py2cpp emits for the ladder of grammar.lark; ?: and assignment sit above, postfix / primary below. *)
Definition cpp_ladder : list lv := [
  (s "logical-or", true, [s "||"]);
  (s "logical-and", true, [s "&&"]);
  (s "inclusive-or", true, [s "|"]);
  (s "exclusive-or", true, [s "^"]);
  (s "and", true, [s "&"]);
  (s "equality", true, [s "=="; s "!="]);
  (s "relational", true, [s "<"; s ">"; s "<="; s ">="]);
  (s "shift", true, [s "<<"; s ">>"]);
  (s "additive", true, [s "+"; s "-"]);
  (s "multiplicative", true, [s "*"; s "/"; s "%"]);
  (s "unary", false, [s "!"; s "-"; s "+"; s "~"])].
(* the factor-in-unary rule of proc_operand, on the C++ side of the renaming *)
Definition extra_unary (e : expr str) : bool :=
  match e with Un _ o _ => str_eqb o (s "-") || str_eqb o (s "+") || str_eqb o (s "~") | _ => false end.
