(* tuple trees of the own parser (ast.py TupleTree / TupleToken) *)
From Tranp Require Export Base.Str.
Inductive ttree := TTok (name value : str) | TTree (name : str) (kids : list ttree).
