(* C07 model, second part: the interactive loop - bin/io.py tty() and bin/transpile.py Interactive.run - over a
   scripted keyboard.  A key is what readline() returns: a blank line, the word `exit`, or any other line.
   Executable definitions only; proofs are in Proofs/InteractiveProofs.v. *)
From Coq Require Import List Bool Arith.
Import ListNotations.
From Tranp Require Import Model.ExnFlow.

Inductive key := KBlank | KExit | KLine (n : nat).
Inductive event := EvResult (prog : list nat) | EvError (prog : list nat).
Inductive ending := Returned | Escaped.

(* run(): tty() collects lines up to a blank line (a program, possibly empty: `lines == []`) or returns ['exit'] at the
   word exit whatever was typed before; `len(lines) == 1 and lines[0] == 'exit'` ends the loop; otherwise the program is
   loaded and transpiled: a result is printed, an Errors.Error is printed through ErrorRender, anything else escapes.
   oc = outcome of rebuild_module + transpile on the program text (the pipeline of ExnFlow).
   A used-up script ends the session like `exit` (the harness keyboard answers `exit` from then on).
   Result: how run() ended, what it printed, the keys it did not read. *)
Fixpoint run (oc : list nat -> outcome) (keys : list key) (acc : list nat) (out : list event) : ending * list event * list key :=
  match keys with
  | [] => (Returned, rev out, [])
  | KExit :: r => (Returned, rev out, r)
  | KLine n :: r => run oc r (n :: acc) out
  | KBlank :: r =>
      match oc (rev acc) with
      | Leak => (Escaped, rev out, r)
      | Ok => run oc r [] (EvResult (rev acc) :: out)
      | App => run oc r [] (EvError (rev acc) :: out)
      end
  end.

Definition session (oc : list nat -> outcome) (keys : list key) := run oc keys [] [].

(* specification: the programs typed before the first `exit`, each ended by a blank line *)
Fixpoint programs (keys : list key) (acc : list nat) : list (list nat) :=
  match keys with
  | [] | KExit :: _ => []
  | KLine n :: r => programs r (n :: acc)
  | KBlank :: r => rev acc :: programs r []
  end.
Fixpoint after_exit (keys : list key) : list key :=
  match keys with [] => [] | KExit :: r => r | _ :: r => after_exit r end.
Definition event_of (oc : list nat -> outcome) (p : list nat) : event :=
  match oc p with Ok => EvResult p | _ => EvError p end.
