import sys, os, typing
import typing_extensions
if not hasattr(typing, 'TypeIs'): typing.TypeIs = typing_extensions.TypeIs
sys.path.insert(0, '/repo')
os.chdir('/repo')
from rogw.tranp.app.app import App
from rogw.tranp.app.dir import tranp_dir
from rogw.tranp.lang.module import to_fullyname
from rogw.tranp.module.modules import Modules
from rogw.tranp.module.types import ModulePath, ModulePaths
from rogw.tranp.syntax.ast.parser import SourceProvider
from rogw.tranp.syntax.ast.entrypoints import Entrypoints
from rogw.tranp.implements.cpp.transpiler.py2cpp import Py2Cpp
from rogw.tranp.implements.cpp.providers.i18n import translation_mapping_cpp
from rogw.tranp.implements.cpp.providers.view import renderer_helper_provider_cpp
from rogw.tranp.i18n.i18n import I18n, TranslationMapping
from rogw.tranp.lang.middleware import Middleware
from rogw.tranp.transpiler.types import TranspilerOptions, ITranspiler
from rogw.tranp.view.render import Renderer, RendererEmitter, RendererHelperProvider, RendererSetting
from rogw.tranp.providers.syntax.ast import source_provider
from rogw.tranp.file.loader import ISourceLoader
from rogw.tranp.app.dummy import make_dummy_module_meta_factory
from rogw.tranp.data.meta.types import ModuleMetaFactory

def make_renderer_setting(i18n: I18n, emitter: RendererEmitter) -> RendererSetting:
    return RendererSetting([os.path.join(tranp_dir(), 'data/cpp/template')], i18n.t, emitter, {'immutable_param_types': ['std::string','std::vector','std::map','std::function']})

class Session:
    def __init__(self, sources: dict[str,str]):
        self.sources = sources
        def sp(sources_: ISourceLoader):
            org = source_provider(sources_)
            def h(module_path: str) -> str:
                return self.sources[module_path] if module_path in self.sources else org(module_path)
            return h
        self.app = App({
            to_fullyname(ModulePaths): lambda: [ModulePath(k, language='py') for k in sources],
            to_fullyname(SourceProvider): sp,
            to_fullyname(ITranspiler): Py2Cpp,
            to_fullyname(ModuleMetaFactory): make_dummy_module_meta_factory,
            to_fullyname(Renderer): Renderer,
            to_fullyname(RendererEmitter): Middleware,
            to_fullyname(RendererHelperProvider): renderer_helper_provider_cpp,
            to_fullyname(RendererSetting): make_renderer_setting,
            to_fullyname(TranslationMapping): translation_mapping_cpp,
            to_fullyname(TranspilerOptions): lambda: TranspilerOptions(verbose=False, env={}),
        })
    def transpile(self, mod):
        m = self.app.resolve(Modules).load(mod)
        return self.app.resolve(ITranspiler).transpile(m.entrypoint)

if __name__ == '__main__':
    src = open(sys.argv[1]).read()
    s = Session({'__main__': src})
    print(s.transpile('__main__'))
