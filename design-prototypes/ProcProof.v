From Coq Require Import List Arith Lia Bool.
Import ListNotations.
Require Import Proc.

Section P.
Variable R : Type.
Variable h : nat -> list (ev R) -> R.
Notation eval := (eval R h).
Notation run := (run R h).
Notation step := (step R h).

(* wf as Forall-style predicate, easier to use *)
Inductive WF : node -> Prop :=
| WF_N c ps : Forall (fun p => (fst p = false -> length (snd p) = 1) /\ Forall WF (snd p)) ps -> WF (N c ps).

Lemma run_app ns1 ns2 s : run (ns1 ++ ns2) s = match run ns1 s with Some s' => run ns2 s' | None => None end.
Proof.
  unfold Proc.run. rewrite fold_left_app.
  destruct (fold_left step ns1 (Some s)) eqn:E; [reflexivity|].
  clear E. induction ns2 as [|n ns IH]; simpl; auto.
Qed.

Lemma popn_app rs st : popn R (length rs) (rev rs ++ st) = Some (rs, st).
Proof.
  revert st. induction rs as [|r rs IH] using rev_ind; intros st; simpl; [reflexivity|].
  rewrite app_length, rev_app_distr. simpl. rewrite Nat.add_1_r. simpl.
  rewrite IH. reflexivity.
Qed.

(* stack after processing the children of a list of props: results pushed in order => reversed on stack *)
Definition results_of (ps : list (bool * list node)) : list R :=
  flat_map (fun p => map eval (snd p)) ps.

Lemma mk_events_ok ps : 
  Forall (fun p => fst p = false -> length (snd p) = 1) ps ->
  forall st acc,
  mk_events R (rev ps) (rev (results_of ps) ++ st) acc
  = Some (map (fun p => mk_ev R (fst p) (map eval (snd p))) ps ++ acc, st).
Proof.
  induction ps as [|p ps IH] using rev_ind; intros Hwf st acc; simpl; [reflexivity|].
  rewrite rev_app_distr. simpl.
  unfold results_of in *. rewrite flat_map_app. simpl. rewrite app_nil_r.
  rewrite rev_app_distr, <- app_assoc.
  apply Forall_app in Hwf. destruct Hwf as [Hps Hp]. inversion Hp as [|? ? Hp1 _]; subst.
  assert (Hk : (if fst p then length (snd p) else 1) = length (map eval (snd p))).
  { rewrite map_length. destruct (fst p); auto. symmetry; auto. }
  rewrite Hk, popn_app.
  rewrite IH by assumption. rewrite map_app. simpl. rewrite <- app_assoc. reflexivity.
Qed.

Lemma node_ind2 (P : node -> Prop) :
  (forall c ps, Forall (fun p => Forall P (snd p)) ps -> P (N c ps)) -> forall n, P n.
Proof.
  intros H. fix IH 1. intros [c ps]. apply H.
  induction ps as [|p ps IHps]; constructor; [|exact IHps].
  destruct p as [b ns]. simpl. induction ns as [|x xs IHxs]; constructor; [apply IH | exact IHxs].
Qed.

Theorem run_flat : forall t, WF t -> forall s, run (flat t) s = Some (eval t :: s).
Proof.
  induction t as [c ps IH] using node_ind2. intros Hwf s.
  inversion Hwf as [c' ps' Hps]; subst.
  cbn [flat]. rewrite run_app.
  assert (Hchildren : forall s0, run (flat_map (fun p => flat_map flat (snd p)) ps) s0 = Some (rev (results_of ps) ++ s0)).
  { clear Hwf. induction ps as [|p ps IHps]; intros s0; [reflexivity|].
    inversion IH as [|? ? IHp IHrest]; subst. inversion Hps as [|? ? [Hp1 Hp2] Hrest]; subst.
    cbn [flat_map]. rewrite run_app.
    assert (Hp : forall s1, run (flat_map flat (snd p)) s1 = Some (rev (map eval (snd p)) ++ s1)).
    { clear Hp1. induction (snd p) as [|x xs IHxs]; intros s1; [reflexivity|].
      inversion IHp; subst. inversion Hp2; subst.
      cbn [flat_map]. rewrite run_app. rewrite H1 by assumption. rewrite IHxs by assumption.
      simpl. rewrite <- app_assoc. reflexivity. }
    rewrite Hp. rewrite IHps by assumption.
    unfold results_of. cbn [flat_map]. rewrite rev_app_distr, <- app_assoc. reflexivity. }
  rewrite Hchildren. unfold Proc.run. cbn [fold_left step Proc.step].
  rewrite mk_events_ok.
  - rewrite app_nil_r. reflexivity.
  - eapply Forall_impl; [|exact Hps]. intros a [Ha _]. exact Ha.
Qed.

Theorem exec_correct : forall t, WF t -> exec R h t = Some (eval t).
Proof. intros t H. unfold exec. rewrite run_flat by assumption. reflexivity. Qed.
End P.
Print Assumptions exec_correct.
