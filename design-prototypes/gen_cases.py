import sys, random
sys.path.insert(0,'/repo')
from rogw.tranp.view.helper.block import BlockParser as B
rnd = random.Random(7)
def atom():
    r = rnd.random()
    if r < .4: return rnd.choice(['a','bc','x1','foo','std::map','this->x'])
    if r < .5: return str(rnd.randint(0,99))
    if r < .65: return rnd.choice(['"a,b"',"'x y'",'"k=v"','""',"' '"])
    o,c = rnd.choice(['()','[]','{}','<>'])
    return rnd.choice(['','f','T']) + o + frag(rnd.randint(0,2)) + c
def frag(n): return rnd.choice([', ',',',' , ']).join(atom() for _ in range(n)) if n else ''
def bad(): return ''.join(rnd.choice('a,( )[]"\'=<> ') for _ in range(rnd.randint(0,12)))
def q(x): return '(s "' + x.replace('"','""') + '")'
cases=[]
for i in range(600):
    t = frag(rnd.randint(0,4)) if rnd.random()<.8 else bad()
    d = rnd.choice([',', '=', ' ', ':', ', '])
    if rnd.random()<.15: t = t + d
    if rnd.random()<.1: t = d + t
    cases.append((t,d,B.break_separator(t,d)))
with open('BlockCases.v','w') as f:
    f.write('From Coq Require Import List String Ascii Arith Bool.\nImport ListNotations.\nRequire Import Block.\nOpen Scope string_scope.\n')
    f.write('Definition eqs (a b : list str) : bool := if list_eq_dec (list_eq_dec Ascii.ascii_dec) a b then true else false.\n')
    f.write('Fixpoint mism (i : nat) (cs : list (str * str * list str)) : list nat := match cs with [] => [] | (t, d, r) :: rest => if eqs (break_separator t d) r then mism (S i) rest else i :: mism (S i) rest end.\n')
    f.write('Definition cases : list (str * str * list str) := [\n' + ';\n'.join('(%s, %s, [%s])' % (q(t), q(d), '; '.join(q(x) for x in r)) for t,d,r in cases) + '].\n')
    f.write('Eval vm_compute in mism 0 cases.\n')
print(len(cases), 'cases; sample', cases[:3])
