import sys, os, typing, typing_extensions
if not hasattr(typing, 'TypeIs'): typing.TypeIs = typing_extensions.TypeIs
sys.path.insert(0, '/repo'); os.chdir('/repo')
def fix_rules():
    import rogw.tranp.implements.syntax.tranp.rule as R
    p = R.Rules.__dict__['keywords']
    try:
        p.__name__
    except AttributeError:
        class NP(property):
            __name__ = 'keywords'
        R.Rules.keywords = NP(p.fget)
fix_rules()
