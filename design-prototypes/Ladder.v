From Coq Require Import List Arith Lia Bool.
Import ListNotations.

Section L.
Variable op : Type.
Variable lvl : op -> nat.        (* binary left-assoc levels 0..K-1 *)
Variable K : nat.
Hypothesis lvl_lt : forall o, lvl o < K.

Inductive tok := TId (n : nat) | TOp (o : op) | TL | TR.
Inductive expr := Atom (n : nat) | Bin (o : op) (a b : expr) | Par (e : expr).

Fixpoint toks (e : expr) : list tok :=
  match e with
  | Atom n => [TId n]
  | Bin o a b => toks a ++ TOp o :: toks b
  | Par e => TL :: toks e ++ [TR]
  end.

Definition level (e : expr) : nat := match e with Bin o _ _ => lvl o | _ => K end.

(* e may stand where level >= k is required *)
Fixpoint wf (k : nat) (e : expr) : Prop :=
  k <= level e /\
  match e with
  | Atom _ => True
  | Bin o a b => wf (lvl o) a /\ wf (S (lvl o)) b
  | Par e => wf 0 e
  end.

(* parser: one fuel for everything *)
Fixpoint parse (fuel : nat) (k : nat) (ts : list tok) {struct fuel} : option (expr * list tok) :=
  match fuel with
  | 0 => None
  | S f =>
    if K <=? k then
      match ts with
      | TId n :: r => Some (Atom n, r)
      | TL :: r => match parse f 0 r with
                   | Some (e, TR :: r') => Some (Par e, r')
                   | _ => None
                   end
      | _ => None
      end
    else
      match parse f (S k) ts with
      | Some (e, r) => loop f k e r
      | None => None
      end
  end
with loop (fuel : nat) (k : nat) (e : expr) (ts : list tok) {struct fuel} : option (expr * list tok) :=
  match fuel with
  | 0 => None
  | S f =>
    match ts with
    | TOp o :: r =>
        if lvl o =? k then
          match parse f (S k) r with
          | Some (e2, r2) => loop f k (Bin o e e2) r2
          | None => None
          end
        else Some (e, ts)
    | _ => Some (e, ts)
    end
  end.

(* rest may follow an expression parsed at level k: it does not start with an operator of level >= k *)
Definition follow (k : nat) (rest : list tok) : Prop :=
  match rest with TOp o :: _ => lvl o < k | _ => True end.


Lemma parse_mono : forall f, (forall k ts r, parse f k ts = Some r -> parse (S f) k ts = Some r)
                          /\ (forall k e ts r, loop f k e ts = Some r -> loop (S f) k e ts = Some r).
Proof.
  induction f as [|f [IHp IHl]]; split; intros; try discriminate.
  - change (parse (S f) k ts) with
      (if K <=? k then
        match ts with
        | TId n :: r => Some (Atom n, r)
        | TL :: r => match parse f 0 r with Some (e, TR :: r') => Some (Par e, r') | _ => None end
        | _ => None end
       else match parse f (S k) ts with Some (e, r) => loop f k e r | None => None end) in H.
    change (parse (S (S f)) k ts) with
      (if K <=? k then
        match ts with
        | TId n :: r => Some (Atom n, r)
        | TL :: r => match parse (S f) 0 r with Some (e, TR :: r') => Some (Par e, r') | _ => None end
        | _ => None end
       else match parse (S f) (S k) ts with Some (e, r) => loop (S f) k e r | None => None end).
    destruct (K <=? k).
    + destruct ts as [|[n|o| |] r0]; try discriminate; auto.
      destruct (parse f 0 r0) as [[e [|t r']]|] eqn:E; try discriminate.
      destruct t; try discriminate. rewrite (IHp _ _ _ E). exact H.
    + destruct (parse f (S k) ts) as [[e r0]|] eqn:E; try discriminate.
      rewrite (IHp _ _ _ E). apply IHl. exact H.
  - change (loop (S f) k e ts) with
      (match ts with
       | TOp o :: r => if lvl o =? k then match parse f (S k) r with Some (e2, r2) => loop f k (Bin o e e2) r2 | None => None end else Some (e, ts)
       | _ => Some (e, ts) end) in H.
    change (loop (S (S f)) k e ts) with
      (match ts with
       | TOp o :: r => if lvl o =? k then match parse (S f) (S k) r with Some (e2, r2) => loop (S f) k (Bin o e e2) r2 | None => None end else Some (e, ts)
       | _ => Some (e, ts) end).
    destruct ts as [|[n|o| |] r0]; auto.
    destruct (lvl o =? k); auto.
    destruct (parse f (S k) r0) as [[e2 r2]|] eqn:E; try discriminate.
    rewrite (IHp _ _ _ E). apply IHl. exact H.
Qed.

Lemma parse_mono_le f g k ts r : f <= g -> parse f k ts = Some r -> parse g k ts = Some r.
Proof. induction 1; auto. intros. apply (proj1 (parse_mono m)). auto. Qed.
Lemma loop_mono_le f g k e ts r : f <= g -> loop f k e ts = Some r -> loop g k e ts = Some r.
Proof. induction 1; auto. intros. apply (proj2 (parse_mono m)). auto. Qed.

Lemma parse_unfold_lo f k ts : k < K ->
  parse (S f) k ts = match parse f (S k) ts with Some (e, r) => loop f k e r | None => None end.
Proof. intros H. cbn [parse]. assert (K <=? k = false) by (apply Nat.leb_gt; lia). rewrite H0. reflexivity. Qed.

Lemma loop_stop f k e rest : follow k rest -> loop (S f) k e rest = Some (e, rest).
Proof.
  intros H. cbn [loop]. destruct rest as [|[n|o| |] r]; auto.
  simpl in H. destruct (lvl o =? k) eqn:E; auto. apply Nat.eqb_eq in E. lia.
Qed.

Lemma follow_weaken j k R : j <= k -> follow j R -> follow k R.
Proof. destruct R as [|[ |o| |] r]; simpl; auto. lia. Qed.


Definition cont (g k : nat) (e : expr) (R : list tok) : option (expr * list tok) :=
  if k <? K then loop g k e R else Some (e, R).

Lemma cont_stop k e R : follow k R -> cont 1 k e R = Some (e, R).
Proof. intros H. unfold cont. destruct (k <? K); auto. apply loop_stop. exact H. Qed.

(* descend one level *)
Lemma descend e k R res g f1 : k < K ->
  parse f1 (S k) (toks e ++ R) = Some (e, R) -> loop g k e R = Some res ->
  exists f, parse f k (toks e ++ R) = Some res.
Proof.
  intros Hk Hp Hl. exists (S (Nat.max f1 g)). rewrite parse_unfold_lo by assumption.
  rewrite (parse_mono_le f1 (Nat.max f1 g) _ _ _ (Nat.le_max_l _ _) Hp).
  apply (loop_mono_le g); [apply Nat.le_max_r | exact Hl].
Qed.

Definition H (e : expr) : Prop :=
  forall k R res g, k <= K -> wf k e -> follow (S k) R -> cont g k e R = Some res ->
    exists f, parse f k (toks e ++ R) = Some res.

(* generic inner induction: if e parses at its own "home" level h, it parses at every k <= h *)
Lemma climb e h :
  h <= K ->
  (forall R res g, follow (S h) R -> cont g h e R = Some res -> exists f, parse f h (toks e ++ R) = Some res) ->
  forall d k R res g, h - k = d -> k <= h -> follow (S k) R -> cont g k e R = Some res ->
    exists f, parse f k (toks e ++ R) = Some res.
Proof.
  intros HhK Hhome. induction d as [|d IHd]; intros k R res g Hd Hkh Hfol Hc.
  - assert (k = h) by lia. subst k. eapply Hhome; eauto.
  - assert (HkK : k < K) by lia.
    destruct (IHd (S k) R (e, R) 1) as [f1 Hf1]; try lia.
    + eapply follow_weaken; [|exact Hfol]. lia.
    + apply cont_stop. exact Hfol.
    + unfold cont in Hc. assert (k <? K = true) by (apply Nat.ltb_lt; lia). rewrite H0 in Hc.
      eapply descend; eauto.
Qed.

Theorem H_all : forall e, H e.
Proof.
  induction e as [n|o a IHa b IHb|e1 IHe]; intros k R res g HkK Hwf Hfol Hc.
  - (* Atom *)
    eapply (climb (Atom n) K (le_n K)) with (d := K - k); eauto.
    intros R0 res0 g0 _ Hc0. unfold cont in Hc0. rewrite Nat.ltb_irrefl in Hc0. inversion Hc0; subst.
    exists 1. cbn. rewrite Nat.leb_refl. reflexivity.
  - (* Bin *)
    destruct Hwf as [Hlev [Ha Hb]]. simpl in Hlev. pose proof (lvl_lt o) as Hm.
    eapply (climb (Bin o a b) (lvl o)) with (d := lvl o - k); eauto; try lia.
    intros R0 res0 g0 Hfol0 Hc0.
    unfold cont in Hc0. assert (Hlt : lvl o <? K = true) by (apply Nat.ltb_lt; lia). rewrite Hlt in Hc0.
    (* b parses at S (lvl o) *)
    destruct (IHb (S (lvl o)) R0 (b, R0) 1) as [fb Hfb]; try lia; auto.
    { eapply follow_weaken; [|exact Hfol0]. lia. }
    { apply cont_stop. exact Hfol0. }
    simpl toks. rewrite <- app_assoc. simpl.
    eapply (IHa (lvl o) (TOp o :: toks b ++ R0) res0 (S (Nat.max fb g0))); try lia; auto.
    { simpl. lia. }
    unfold cont. rewrite Hlt. cbn [loop]. rewrite Nat.eqb_refl.
    rewrite (parse_mono_le fb (Nat.max fb g0) _ _ _ (Nat.le_max_l _ _) Hfb).
    apply (loop_mono_le g0); [apply Nat.le_max_r | exact Hc0].
  - (* Par *)
    destruct Hwf as [_ Hwf1].
    eapply (climb (Par e1) K (le_n K)) with (d := K - k); eauto.
    intros R0 res0 g0 _ Hc0. unfold cont in Hc0. rewrite Nat.ltb_irrefl in Hc0. inversion Hc0; subst.
    destruct (IHe 0 (TR :: R0) (e1, TR :: R0) 1) as [f1 Hf1]; try lia; auto.
    { simpl. exact I. }
    { apply cont_stop. simpl. exact I. }
    exists (S f1). cbn [parse]. rewrite Nat.leb_refl. simpl toks. simpl. rewrite <- app_assoc. simpl.
    rewrite Hf1. reflexivity.
Qed.

Theorem parse_toks : forall e rest, wf 0 e -> follow 0 rest -> exists f, parse f 0 (toks e ++ rest) = Some (e, rest).
Proof.
  intros e rest Hwf Hfol. eapply (H_all e 0 rest (e, rest) 1); try lia; auto.
  - eapply follow_weaken; [|exact Hfol]. lia.
  - apply cont_stop. exact Hfol.
Qed.
End L.
Print Assumptions parse_toks.
