From Coq Require Import List String Ascii Arith Bool Lia.
Import ListNotations.
Open Scope char_scope.

Definition str := list ascii.
Definition s (x : string) : str := list_ascii_of_string x.

Fixpoint index_of (c : ascii) (l : str) : option nat :=
  match l with [] => None | x :: r => if Ascii.eqb x c then Some 0 else option_map S (index_of c r) end.
Definition mem (c : ascii) (l : str) : bool := match index_of c l with Some _ => true | None => false end.
Definition nth_c (l : str) (i : nat) : ascii := nth i l "000".

Definition all_pair : list (ascii * ascii) := [("[","]"); ("(",")"); ("{","}"); ("<",">"); ("""",""""); ("'","'")].
Definition other_tokens : str := flat_map (fun p => [fst p; snd p]) all_pair.
Definition open_tokens : str := map fst all_pair.

(* _skip_other_block: text given as the suffix starting at begin; returns number of chars consumed *)
Fixpoint skip (toks : str) (t : str) (closes : list ascii) (n : nat) : nat :=
  match t with
  | [] => n
  | c :: r =>
      let closes' :=
        match index_of c toks with
        | Some i =>
            match closes with
            | top :: rest => if Ascii.eqb top c then rest
                             else if Nat.even i then nth_c toks (S i) :: closes else closes
            | [] => if Nat.even i then [nth_c toks (S i)] else []
            end
        | None => closes
        end in
      match closes' with [] => S n | _ => skip toks r closes' (S n) end
  end.

Fixpoint drop (n : nat) (l : str) : str := match n with 0 => l | S k => match l with [] => [] | _ :: r => drop k r end end.
Fixpoint starts (p t : str) : bool := match p, t with [], _ => true | a :: p', b :: t' => Ascii.eqb a b && starts p' t' | _, _ => false end.
Fixpoint strip_l (l : str) : str := match l with " " :: r => strip_l r | _ => l end.
Definition strip (l : str) : str := rev (strip_l (rev (strip_l l))).

(* break_separator with fuel; cur = reversed current piece; idx-based condition index+len(delim) < len(text)
   becomes: length of remaining suffix t > len(delim) *)
Fixpoint bsep (fuel : nat) (delim : str) (t : str) (cur : str) (acc : list str) : list str :=
  match fuel with
  | 0 => rev acc
  | S f =>
    match t with
    | [] => match cur with [] => rev acc | _ => rev (strip (rev cur) :: acc) end
    | c :: r =>
        if mem c open_tokens then
          let k := skip other_tokens t [] 0 in
          bsep f delim (drop k t) (rev (firstn k t) ++ cur) acc
        else if starts delim t && (Nat.ltb (List.length delim) (List.length t)) then
          bsep f delim (drop (List.length delim) t) [] (strip (rev cur) :: acc)
        else bsep f delim r (c :: cur) acc
    end
  end.
Definition break_separator (text delim : str) : list str := bsep (S (List.length text)) delim text [] [].
