From Coq Require Import List Arith Lia Bool.
Import ListNotations.

(* node: class id, props: (is_list, children). A single-valued prop has exactly one child. *)
Inductive node : Type := N : nat -> list (bool * list node) -> node.

Section Exec.
Variable R : Type.
Inductive ev := EOne (r : R) | EMany (rs : list R) | EBad.
Variable h : nat -> list ev -> R.

Definition mk_ev (b : bool) (rs : list R) : ev :=
  if b then EMany rs else match rs with [r] => EOne r | _ => EBad end.

Fixpoint eval (n : node) : R :=
  match n with
  | N c ps => h c (map (fun p => mk_ev (fst p) (map eval (snd p))) ps)
  end.

Fixpoint flat (n : node) : list node :=
  match n with
  | N c ps => flat_map (fun p => flat_map flat (snd p)) ps ++ [n]
  end.

(* the stack machine: pop per prop in reversed order; count re-read from node *)
Fixpoint popn (k : nat) (st : list R) : option (list R * list R) :=
  match k with
  | 0 => Some ([], st)
  | S k' => match st with
            | [] => None
            | r :: st' => match popn k' st' with
                          | Some (rs, st'') => Some (rs ++ [r], st'')   (* list(reversed(pops)) *)
                          | None => None
                          end
            end
  end.

(* build events for props given in REVERSED order; returns events in original order *)
Fixpoint mk_events (rps : list (bool * list node)) (st : list R) (acc : list ev) : option (list ev * list R) :=
  match rps with
  | [] => Some (acc, st)
  | p :: rps' =>
      let k := if fst p then length (snd p) else 1 in
      match popn k st with
      | Some (rs, st') => mk_events rps' st' (mk_ev (fst p) rs :: acc)
      | None => None
      end
  end.

Definition step (st : option (list R)) (n : node) : option (list R) :=
  match st with
  | None => None
  | Some s => match n with
              | N c ps => match mk_events (rev ps) s [] with
                          | Some (evs, s') => Some (h c evs :: s')
                          | None => None
                          end
              end
  end.

Definition run (ns : list node) (s : list R) : option (list R) := fold_left step ns (Some s).

Definition exec (t : node) : option R :=
  match run (flat t) [] with Some [r] => Some r | _ => None end.

(* well-formedness: single props have exactly one child *)
Fixpoint wf (n : node) : Prop :=
  match n with
  | N c ps => (fix all (l : list (bool * list node)) : Prop :=
                match l with [] => True | p :: l' =>
                  (fst p = false -> length (snd p) = 1) /\
                  (fix alln (ns : list node) : Prop := match ns with [] => True | x :: xs => wf x /\ alln xs end) (snd p)
                  /\ all l' end) ps
  end.
End Exec.
