#!/bin/sh
# Build the Coq development from files on disk only (offline). Translators regenerate coq/gen/*.v
# from /repo's working tree first.
cd "$(dirname "$0")"
/venv/bin/python - <<'PY'
import sys
sys.path.insert(0, 'harness')
import lib
with lib.Lock():
    errs = lib.run_translators()
    for e in errs: print('translator error:', e)
    lib.coq_project()
PY
cd coq && timeout 3600 make -k -j16 2>&1 | tail -n 40
exit 0
